"""./check entry point: build + audit the Lean side, run corpus / correspondence / monitors, decide."""
import argparse, glob, importlib, json, os, signal, sys, time, traceback
import common
from common import Outcome, MachineryError

# property -> family module (filled as the families are built)
FAMILY_OF = {
    'C17': 'fam_cal',
    'C18': 'fam_query',
    'C10': 'fam_clone',
    'C12': 'fam_cp',
    'C13': 'fam_csv',
    'C20': 'fam_print',
    'C19': 'fam_render',
    'C02': 'fam_sched', 'C03': 'fam_sched', 'C04': 'fam_sched', 'C06': 'fam_sched', 'C07': 'fam_sched', 'C08': 'fam_sched',
    'C09': 'fam_sched', 'C14': 'fam_sched',
    'C01': 'fam_graph', 'C05': 'fam_graph', 'C11': 'fam_graph', 'C15': 'fam_graph', 'C16': 'fam_graph',
}

QUICK_BUDGET_S = 900
# property -> extraction items whose translation its theorems are stated about
TRANSLATED = {'C17': ('calendar_src', 'extract_calendar', 'calendar.py'), 'C18': ('query_chain', 'extract_query'),
              'C03': ('schedule_src', 'extract_schedule'), 'C04': ('schedule_src', 'extract_schedule', 'pass_src', 'extract_pass'),
              'C08': ('schedule_src', 'extract_schedule', 'pass_src', 'extract_pass'),
              'C09': ('schedule_src', 'extract_schedule', 'pass_src', 'extract_pass'),
              'C02': ('pass_src', 'extract_pass'), 'C07': ('pass_src', 'extract_pass'),
              'C14': ('calc_src', 'extract_calc', 'pass_src', 'extract_pass', 'schedule_src', 'extract_schedule'),
              'C06': ('calc_src', 'extract_calc', 'pass_src', 'extract_pass', 'schedule_src', 'extract_schedule', 'task_src', 'extract_task',
                      'wbs_src', 'extract_wbs'),
              'C01': ('task_src', 'extract_task'), 'C05': ('task_src', 'extract_task', 'wbs_src', 'extract_wbs'),
              'C11': ('task_src', 'extract_task', 'wbs_src', 'extract_wbs'),
              'C15': ('task_src', 'extract_task', 'facade_src', 'extract_facade'),
              'C16': ('task_src', 'extract_task', 'wbs_src', 'extract_wbs', 'facade_src', 'extract_facade'),
              'C10': ('task_src', 'extract_task', 'wbs_src', 'extract_wbs'),
              'C12': ('critpath_src', 'extract_critpath'), 'C13': ('csv_src', 'extract_csv'), 'C20': ('print_src', 'extract_print'),
              'C19': ('render_src', 'extract_render', 'dhtmlx_src', 'extract_dhtmlx')}


CASE_TIMEOUT = float(os.environ.get('VERIF_CASE_TIMEOUT', '20'))


class HangError(Exception):
    """raised inside an implementation call by the watchdog"""


def _on_alarm(signum, frame):
    raise HangError(f'implementation call exceeded {CASE_TIMEOUT:.0f} s')


signal.signal(signal.SIGALRM, _on_alarm)


def sig_known(sig, sigs):
    """a signature names the false hypotheses of the failing clauses ('a+b' when clauses of two findings fail on one input); it is a known
    finding when every one of them is listed"""
    return sig is not None and all(part in sigs for part in sig.split('+'))


def reportable(o, sigs):
    """a failing outcome that is not a hit of a listed known finding"""
    return (not o.mon_ok) and (o.in_domain or not (o.eq and sig_known(o.sig, sigs)))


def load_family(prop):
    if prop not in FAMILY_OF:
        raise MachineryError(f'no check registered for {prop}')
    return importlib.import_module(FAMILY_OF[prop])


def evaluate(fam, prop, cases):
    """execute cases on the implementation, pipe through the driver, judge.  Returns list[Outcome]."""
    records = []
    for i, c in enumerate(cases):
        # watchdog: an implementation call that does not come back within CASE_TIMEOUT seconds is interrupted; the family records
        # the interrupt like any other exception of the call (class `HangError`), which no property accepts as an outcome
        signal.setitimer(signal.ITIMER_REAL, CASE_TIMEOUT)
        try:
            r = fam.execute(prop, c)
        finally:
            signal.setitimer(signal.ITIMER_REAL, 0)
        r['id'] = i
        records.append(r)
    outs = common.run_driver(records) if records else []
    return [fam.judge(prop, c, r, o) for c, r, o in zip(cases, records, outs)]


def corpus_cases(prop):
    res = []
    for p in sorted(glob.glob(os.path.join(common.VERIF, 'corpus', prop, '*.json'))):
        try:
            res.append((os.path.relpath(p, common.VERIF), json.load(open(p))['case']))
        except Exception as e:
            raise MachineryError(f'bad corpus file {p}: {e}')
    return res


def decide(prop, fam, outcomes, findings, proof_broken, seed, tier, say):
    """verdict logic of DESIGN.md 3.3.  Returns (violations:list[str lines], known_hits:dict, mismatches:int)"""
    lines = []
    known_hits = {}
    sigs = {f['sig']: f for f in findings}
    mismatches = [o for o in outcomes if not o.eq]
    reported = set()
    reported_small = set()
    for o in outcomes:
        if o.mon_ok:
            continue
        clauses = o.failed_clauses()
        if o.in_domain:
            kind = 'violation'
        elif o.eq and sig_known(o.sig, sigs):
            for part in o.sig.split('+'):
                known_hits[part] = known_hits.get(part, 0) + 1
            continue
        else:
            kind = 'violation'
        tag = (tuple(clauses), o.sig)
        if tag in reported:
            continue
        reported.add(tag)
        small = fam.shrink(prop, o.case, lambda c: reportable(evaluate(fam, prop, [c])[0], sigs)) if hasattr(fam, 'shrink') else o.case
        so = evaluate(fam, prop, [small])[0]
        stag = (tuple(so.failed_clauses()), so.sig)
        if stag in reported_small or len(lines) >= 6:
            continue
        reported_small.add(stag)
        path = common.write_replay(prop, 'violation', {'case': small, 'failed_clauses': so.failed_clauses(),
                                                       'model_agrees': so.eq, 'hypotheses': so.hyp, 'info': so.info})
        lines.append(f'VIOLATION property={prop} replay={path}')
    if not lines and (mismatches or proof_broken):
        # correspondence or a proof obligation is broken but no monitor failed yet: search harder
        say(f'correspondence/proof broken ({len(mismatches)} mismatching cases, proof_broken={bool(proof_broken)}): searching for a failing input')
        found = None
        budget = 200 if tier == 'quick' else 5000
        pool = []
        for m in mismatches[:20]:
            pool.append(m.case)
        rng = common.case_rng(seed, 0, 'search')
        tries = []
        for k in range(budget):
            if pool and hasattr(fam, 'mutate') and rng.random() < 0.6:
                tries.append(fam.mutate(prop, rng.choice(pool), rng))
            else:
                tries.append(fam.random_case(prop, common.case_rng(seed, k, 'search-rand'), tier))
        for o in evaluate(fam, prop, tries):
            if not o.mon_ok and (o.in_domain or not (o.eq and sig_known(o.sig, sigs))):
                found = o
                break
        if found is not None:
            small = fam.shrink(prop, found.case, lambda c: reportable(evaluate(fam, prop, [c])[0], sigs)) if hasattr(fam, 'shrink') else found.case
            path = common.write_replay(prop, 'violation', {'case': small, 'failed_clauses': found.failed_clauses(),
                                                           'model_agrees': found.eq, 'hypotheses': found.hyp,
                                                           'found_by': 'search after broken correspondence/proof'})
            lines.append(f'VIOLATION property={prop} replay={path}')
        else:
            first = mismatches[0] if mismatches else None
            path = common.write_replay(prop, 'unproved', {
                'what': 'the tie between the proved model and the code no longer checks; no failing input found',
                'broken_proof_obligation': proof_broken or None,
                'broken_correspondence': None if first is None else {'projection': fam.projection(prop), 'first_mismatch': first.case, 'detail': first.info},
                'mismatching_cases': len(mismatches), 'search_budget': budget})
            lines.append(f'VIOLATION property={prop} replay={path} no-failing-input-found')
    return lines, known_hits, len(mismatches)


def run(prop, tier, replay):
    t0 = time.time()
    seed = int(os.environ.get('VERIF_SEED', '0'))
    log = []

    def say(msg):
        print(f'[{prop}] {msg}', flush=True)

    fam = load_family(prop)
    b = common.build(prop)
    proof_broken = None
    if not b['ok']:
        say('lake build failed:\n' + b['log'][-3000:])
        proof_broken = {'stage': 'lake build', 'log_tail': b['log'][-1500:]}
        if not os.path.exists(common.DRIVER):
            raise MachineryError('the driver cannot be built; nothing can be decided')
    obligations, discharged, detail = common.audit(prop) if b.get('prop_ok') else (common.theorems_of(prop), [], {})
    forb = common.forbidden_tokens(prop)
    if forb:
        proof_broken = {'stage': 'forbidden construct', 'hits': forb[:10]}
    if set(obligations) != set(discharged) and not proof_broken:
        proof_broken = {'stage': 'axiom audit', 'undischarged': sorted(set(obligations) - set(discharged)), 'detail': detail}
    if not obligations:
        raise MachineryError(f'no theorems found for {prop}')
    # translation ties: when the translator cannot read the current source (it then falls back to the pinned translation), the theorems
    # about the translated source no longer speak about the code that is there - for that property the tie is broken
    missed = [m for m in ((b.get('extract') or {}).get('miss') or []) if m.split(':')[0] in TRANSLATED.get(prop, ())]
    if missed and not proof_broken:
        proof_broken = {'stage': 'translation', 'miss': missed}
    rechecked = None
    if tier == 'thorough' and b.get('prop_ok') and not replay:
        ok, tail = common.recheck(prop)
        rechecked = ok
        if not ok and not proof_broken:
            proof_broken = {'stage': 'leanchecker', 'log_tail': tail}
    say(f'proof obligations: {len(discharged)}/{len(obligations)} discharged, axioms ok, build {"ok" if b["ok"] else "BROKEN"}')

    findings = [f for f in common.load_findings() if f['property'] == prop]

    if replay:
        body = json.load(open(replay))
        o = evaluate(fam, prop, [body['case']])[0]
        say(f'replay: eq={o.eq} monitors={o.mon} hypotheses={o.hyp}')
        if not o.mon_ok:
            print(f'VIOLATION property={prop} replay={replay}')
            return 1
        return 0

    violations = []
    # known findings: replay their witnesses first
    known_lines = []
    for f in findings:
        wpath = os.path.join(common.VERIF, f['witness'])
        o = evaluate(fam, prop, [json.load(open(wpath))['case']])[0]
        if o.mon_ok:
            known_lines.append(f'STALE-FINDING: property={prop} {f["id"]} no longer fails on its witness')
        elif o.in_domain:
            violations.append(f'VIOLATION property={prop} replay={f["witness"]}')
        else:
            known_lines.append(f'KNOWN-FINDING: property={prop} {f["id"]} {f["text"]}')
    # corpus (minimised past failures, fixed-defect witnesses): must pass
    corp = corpus_cases(prop)
    couts = evaluate(fam, prop, [c for _, c in corp])
    sigs = {f['sig'] for f in findings}
    for (path, _), o in zip(corp, couts):
        if not o.mon_ok and (o.in_domain or not (o.eq and sig_known(o.sig, sigs))):
            violations.append(f'VIOLATION property={prop} replay={path}')
    # the generated stream
    n = fam.count(prop, tier)
    # source drift: a modelled file whose structure differs from the one the model was last validated against widens the quick
    # stream (never a violation by itself - a harmless rewrite drifts too)
    drift = {'drift': [], 'pinned': False}
    try:
        sys.path.insert(0, os.path.join(common.VERIF, 'tools'))
        import fingerprint
        drift = fingerprint.drift(FAMILY_OF[prop])
    except Exception as e:  # noqa
        drift = {'drift': [], 'pinned': False, 'error': str(e)}
    if os.environ.get('VERIF_FORCE_DRIFT'):
        drift = dict(drift, drift=['(forced by VERIF_FORCE_DRIFT)'])
    if drift['drift'] and tier == 'quick':
        n *= 3
        say(f'source drift in {", ".join(drift["drift"])}: quick stream widened to {n} cases')
    cases = [fam.random_case(prop, common.case_rng(seed, i, prop), tier) for i in range(n)]
    if hasattr(fam, 'extra_cases'):
        cases += fam.extra_cases(prop, tier, seed)
    outcomes = []
    t_first_bad = None
    for k in range(0, len(cases), 100):
        batch = evaluate(fam, prop, cases[k:k + 100])
        outcomes += batch
        bad = sum(1 for o in outcomes if not o.mon_ok and (o.in_domain or not (o.eq and sig_known(o.sig, sigs))))
        if bad and t_first_bad is None:
            t_first_bad = time.time()
        # a failing run need not finish the stream: 40 failing cases, or 3 minutes after the first one, are enough to report
        if bad >= 40 or (t_first_bad is not None and time.time() - t_first_bad > 180):
            say(f'stream stopped after {len(outcomes)} of {len(cases)} cases: {bad} failing cases collected')
            cases = cases[:len(outcomes)]
            break
    lines, known_hits, n_mis = decide(prop, fam, couts + outcomes, findings, proof_broken, seed, tier, say)
    violations += lines

    keys = set()
    nontrivial = 0
    for o in outcomes + couts:
        if o.nontrivial and o.key not in keys:
            keys.add(o.key)
            nontrivial += 1
    cov = {
        'obligations': len(obligations), 'discharged': len(discharged),
        'checker_cmd': f'cd lean && lake build PjVerif.Props.{prop} && lake env lean <#print axioms of {len(obligations)} theorems>',
        'trusted_base': common.TRUSTED_BASE,
        'theorems': {n: detail.get(n, None) for n in obligations},
        'evaluations': len(outcomes) + len(couts),
        'distinct_nontrivial': nontrivial,
        'rule': fam.rule(prop),
        'samples': [o.case for o in outcomes[:3]],
        'traces_validated_against_impl': len(outcomes) + len(couts),
        'correspondence_mismatches': n_mis,
        'monitor_failures': sum(1 for o in outcomes + couts if not o.mon_ok),
        'in_hypothesis_domain': sum(1 for o in outcomes if o.in_domain),
        'known_finding_hits': known_hits,
        'corpus_cases': len(corp),
        'distribution': fam.distribution(prop, cases, outcomes) if hasattr(fam, 'distribution') else {},
        'extract': b.get('extract'),
        'proof_broken': proof_broken,
        'leanchecker': rechecked,
        'source_drift': drift,
        'exhaustive': False,
    }
    common.write_evidence(prop, tier, seed, t0, cov, len(violations))
    for l in known_lines:
        print(l)
    for l in violations:
        print(l)
    say(f'{len(outcomes)} generated + {len(corp)} corpus cases, {nontrivial} distinct non-trivial, '
        f'{n_mis} mismatches, {cov["monitor_failures"]} monitor failures, {time.time() - t0:.1f}s')
    return 1 if violations else 0


def main():
    ap = argparse.ArgumentParser()
    ap.add_argument('prop', nargs='?')
    ap.add_argument('--tier', default=os.environ.get('VERIF_TIER', 'quick'), choices=['quick', 'thorough'])
    ap.add_argument('--replay')
    ap.add_argument('--setup', action='store_true')
    a = ap.parse_args()
    try:
        if a.setup:
            b = common.build(None)
            print(b['log'][-3000:])
            sys.exit(0 if b['ok'] else 2)
        sys.exit(run(a.prop, a.tier, a.replay))
    except MachineryError as e:
        print(f'MACHINERY-ERROR: {e}', file=sys.stderr)
        sys.exit(2)
    except Exception:
        traceback.print_exc()
        sys.exit(2)


if __name__ == '__main__':
    main()
