"""Critical path family (C12): WBS.critical_path() against Model/CritPath.lean; the monitor is the statement's
characterisation (earliest finish + longest tail = project length) evaluated by the driver."""
from fractions import Fraction
import common
from common import Outcome, frac_str, classify_exc
import fam_sched

EST = ['0', '1', '2', '3', '4', '8', '1/2', '5/2', '1/8', '7', '12', '3/2']
FLOATY = [0.1, 0.2, 0.3, 0.7, 1.1, 2.2, 3.3, 0.6, 0.05]


def random_case(prop, rng, tier):
    n = rng.randrange(1, 13 if tier == 'quick' else 25)
    tasks = []
    dated = rng.random() < 0.3
    for i in range(n):
        t = {'id': i + 1, 'parent': None, 'est': rng.choice(EST + [None]), 'spent': rng.choice([None, None, '0', '1', '8']), 'member': True}
        if i and rng.random() < 0.5:
            t['parent'] = rng.randrange(i)
        if dated and rng.random() < 0.5:
            # dates left over from an earlier schedule or an import: the critical path is defined by work and links only
            t['start'] = rng.randrange(0, 30)
            t['end'] = t['start'] + rng.randrange(0, 20)
        tasks.append(t)
    if rng.random() < 0.2:
        for _ in range(rng.randrange(1, 3)):
            tasks.append({'id': rng.choice([100, 101, rng.randrange(1, n + 1)]), 'parent': None, 'est': rng.choice(EST), 'spent': None, 'member': False})
    if rng.random() < 0.15:
        # ids may be strings - also words a program might use for its own bookkeeping
        words = ['end', 'start', 'begin', 'finish', 'root', 'None', '0', 'id']
        rng.shuffle(words)
        for t, wd in zip(rng.sample(tasks[:n], min(n, rng.randrange(1, 4))), words):
            t['id'] = wd
    total = len(tasks)
    links = []
    for _ in range(rng.randrange(0, n + 4)):
        a, b = rng.randrange(total), rng.randrange(n)
        if a != b:
            links.append([a, b])
    floaty = tier != 'quick' and rng.random() < 0.3 or rng.random() < 0.1
    case = {'tasks': tasks, 'links': links, 'floaty': floaty}
    if floaty:
        # fractional estimates whose exact sums tie: compared with the exact characterisation on the Fractions of the floats
        for t in case['tasks']:
            t['est'] = repr(rng.choice(FLOATY))
    if n >= 3 and rng.random() < 0.3:
        # the plan is analysed, then restructured (tasks - summaries included - moved to another parent), then analysed again: the second
        # answer must be the one for the plan as it is now
        case['moves'] = [[rng.randrange(n), rng.choice([None] + list(range(n)))] for _ in range(rng.randrange(1, 4))]
    case['links'] = build(case)[2]
    return case


def build(case):
    from pjplan import Task, WBS
    w = WBS()
    objs = []
    for i, t in enumerate(case['tasks']):
        kw = {}
        if t['est'] is not None:
            kw['estimate'] = float(t['est']) if case.get('floaty') else fam_sched.py_num(t['est'], i % 2 == 0)
        if t['spent'] is not None:
            kw['spent'] = fam_sched.py_num(t['spent'], False)
        if t.get('start') is not None:
            from datetime import datetime, timedelta
            kw['start'] = datetime(2024, 1, 1) + timedelta(days=t['start'])
            kw['end'] = datetime(2024, 1, 1) + timedelta(days=t['end'], hours=12)
        via_ctor = t['member'] and t['parent'] is not None and i % 3 == 1      # (hung under its parent by the constructor)
        if via_ctor:
            kw['parent'] = objs[t['parent']]
        o = Task(t['id'], f't{i}', **kw)
        if t['member'] and not via_ctor:
            if t['parent'] is None:
                w // o
            else:
                objs[t['parent']] // o
        objs.append(o)
    acc = []
    for a, b in case['links']:
        try:
            objs[a] >> objs[b]
            acc.append([a, b])
        except RuntimeError:
            pass
    if case.get('moves'):
        try:
            w.critical_path()
        except Exception:  # noqa
            pass
        for o in objs:
            (o.all_parents, o.all_children, o.all_predecessors, o.all_successors, o.parent, o.wbs)
        for i, np in case['moves']:
            try:
                objs[i].parent = None if np is None else objs[np]
            except RuntimeError:
                pass
    return w, objs, acc


def execute(prop, case):
    w, objs, _ = build(case)
    uid = {id(o): u for u, o in enumerate(objs)}
    snap = lambda: [(o.id, o.estimate, o.spent, None if o.parent is None else o.parent.id, [c.id for c in o.children],
                     [id(p) for p in o.predecessors], [id(p) for p in o.successors]) for o in objs]
    before = snap()
    rows = []
    for o in objs:
        est = None if o.estimate is None else frac_str(Fraction(o.estimate))
        sp = None if o.spent is None else frac_str(Fraction(o.spent))
        rows.append([None if o.parent is None else uid[id(o.parent)], [uid[id(c)] for c in o.children],
                     [uid[id(p)] for p in o.predecessors], est, sp])
    rec = {'fam': 'cp', 'tasks': rows, 'members': [uid[id(t)] for t in w.tasks]}
    try:
        res = w.critical_path()
        rec['obs'] = ['ok', [uid.get(id(t), -1) for t in res]]
    except Exception as e:  # noqa
        rec['obs'] = ['err', classify_exc(e)]
    rec['pure'] = snap() == before
    return rec


def judge(prop, case, rec, out):
    m = out['model']
    if m[0] == 'ok' and rec['obs'][0] == 'ok':
        eq = sorted(m[1]) == sorted(rec['obs'][1])
    else:
        eq = m[0] == rec['obs'][0] and (m[0] == 'ok' or m[1] == rec['obs'][1])
    if case.get('floaty'):
        eq = True      # stream B: float noise may legitimately separate the exact model from the code; only the monitor counts
    info = {} if eq else {'model': m, 'impl': rec['obs']}
    mon = dict(out['mon'])
    mon['pure'] = rec['pure']
    if case.get('floaty') and rec['obs'][0] == 'ok':
        # insensitive to rounding: exactly-tied branches (as real numbers the decimal estimates are meant to be) must all be reported
        mon['exact'] = decimal_exact(case, rec)
    nontrivial = rec['obs'][0] == 'ok' and len(rec['members']) >= 3 and bool(case['links'])
    info['acyclic'] = out.get('acyclic')
    return Outcome(case, eq, mon, {}, nontrivial, common.digest(case), info)


def decimal_exact(case, rec):
    """the statement's characterisation over the *decimal* values the user wrote (0.1 + 0.2 ties with 0.3)"""
    rows = rec['tasks']
    n = len(rows)
    members = rec['members']
    memset = set(members)
    dur = [max(Fraction(case['tasks'][u]['est'] or 0) - Fraction(case['tasks'][u]['spent'] or 0), 0) if u < len(case['tasks']) else 0 for u in range(n)]
    leaf = lambda u: not rows[u][1]

    def desc(u):
        r = [u]
        for c in rows[u][1]:
            r += desc(c)
        return r

    def anc(u):
        r = []
        while rows[u][0] is not None:
            u = rows[u][0]
            r.append(u)
        return r
    pre = {}
    for t in members:
        if leaf(t):
            ps = []
            for o in [t] + anc(t):
                for p in rows[o][2]:
                    for x in desc(p):
                        if leaf(x) and x in memset and x not in ps:
                            ps.append(x)
            pre[t] = ps
    ef = {}

    def f(t, depth=0):
        if depth > n + 1:
            raise RecursionError
        if t not in ef:
            ef[t] = max([f(p, depth + 1) for p in pre[t]] + [0]) + dur[t]
        return ef[t]
    try:
        for t in pre:
            f(t)
    except RecursionError:
        return True
    L = max(list(ef.values()) + [0])
    succ = {t: [s for s in pre if t in pre[s]] for t in pre}
    tail = {}

    def g(t):
        if t not in tail:
            tail[t] = max([g(s) + dur[s] for s in succ[t]] + [0])
        return tail[t]
    want = sorted(t for t in pre if ef[t] + g(t) == L)
    return want == sorted(rec['obs'][1])


def case_variants(case):
    if case['links']:
        for i in range(len(case['links'])):
            yield dict(case, links=case['links'][:i] + case['links'][i + 1:])
    n = len(case['tasks'])
    for k in range(n - 1, -1, -1):
        if any(t['parent'] == k for t in case['tasks']):
            continue
        nt = [dict(t) for i, t in enumerate(case['tasks']) if i != k]
        for t in nt:
            if t['parent'] is not None and t['parent'] > k:
                t['parent'] -= 1
        nl = [[a - (a > k), b - (b > k)] for a, b in case['links'] if a != k and b != k]
        nm = [[a - (a > k), None if b is None else b - (b > k)] for a, b in case.get('moves', []) if a != k and b != k]
        if nt and any(t['member'] for t in nt):
            yield dict(case, tasks=nt, links=nl, moves=nm)
    for i in range(len(case.get('moves', []))):
        yield dict(case, moves=case['moves'][:i] + case['moves'][i + 1:])


def shrink(prop, case, still_fails):
    def ok(c):
        return len(build(c)[2]) == len(c['links']) and still_fails(c)
    return common.shrink_with(case, case_variants, ok, max_tests=300)


def mutate(prop, case, rng):
    c = random_case(prop, rng, 'quick')
    return c


def count(prop, tier):
    return 4000 if tier == 'quick' else 50000


def projection(prop):
    return 'set of returned tasks, or the exception class'


def rule(prop):
    return ('random WBSs of 1-12 (thorough 24) tasks, links on leaves and on summaries, parallel branches of equal length, zero-length tasks, '
            'spent above estimate, predecessors outside the WBS; 10% (thorough 30%) with decimal fractional estimates (0.1, 0.2, 0.3, ...) whose '
            'exact sums tie - judged by the exact characterisation over the decimals; non-trivial = >= 3 tasks and >= 1 link')


def distribution(prop, cases, outcomes):
    return {'floaty': sum(1 for c in cases if c.get('floaty')), 'with_outside': sum(1 for c in cases if any(not t['member'] for t in c['tasks'])),
            'cyclic_through_hierarchy': sum(1 for o in outcomes if o.info.get('acyclic') is False)}
