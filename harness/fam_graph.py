"""Graph family (C01 C05 C11 C15 C16): task.py / wbs.py mutators against Model/Graph*.lean, one step at a time
from the implementation's own state."""
import sys
import common
from common import Outcome, classify_exc

EMPTY = sys.maxsize
PROPS = ('C01', 'C05', 'C11', 'C15', 'C16')


class Universe:
    """m task objects (uids 0..m-1) and k WBS objects (their hidden roots are uids m..m+k-1)"""

    def __init__(self, ids, prio, nw, kinds=None, alias=False):
        from pjplan import Task, WBS
        # `kinds`: how an id is spelled - the int itself, the float equal to it, or the bool equal to it (ids compare with ==, so 1, 1.0
        # and True are one id); `alias`: equal argument lists are one list object (a caller re-using its own list for several calls)
        kinds = kinds or ['int'] * len(ids)
        spell = lambda i, k: float(i) if k == 'float' else (bool(i) if k == 'bool' and i in (0, 1) else i)
        self.tasks = [Task(spell(i, k), name=f't{n}', prio=p) for n, (i, p, k) in enumerate(zip(ids, prio, kinds))]
        self.alias = alias
        self.arglists = {}
        for n, t in enumerate(self.tasks):
            # `rank`: like prio, but unset (None) on every third task - sorting siblings by it must be refused (None is not comparable)
            t.rank = None if n % 3 == 2 else prio[n]
        self.wbs = [WBS() for _ in range(nw)]
        self.m = len(self.tasks)
        self.objs = self.tasks + [w._root() for w in self.wbs]
        self.uid = {id(o): u for u, o in enumerate(self.objs)}
        self.facades = {}

    def obj(self, u):
        return None if u is None else self.objs[u]

    def u(self, o):
        return None if o is None else self.uid.get(id(o), -1)

    def holder_list(self, h, stale=False):
        """children façade of a task or `roots` of a WBS; `stale` re-uses the first façade ever taken"""
        if stale and h in self.facades:
            return self.facades[h]
        f = self.wbs[h - self.m].roots if h >= self.m else self.objs[h].children
        self.facades.setdefault(h, f)
        return f

    def pristine(self, x):
        """a task nothing refers to and that refers to nothing: what a constructor call may stand for"""
        if not 0 <= x < self.m:
            return False
        o = self.objs[x]
        return (getattr(o, '_Task__parent', None) is None and o.wbs is None and not list(o.children)
                and not list(o.predecessors) and not list(o.successors))

    def ctor(self, x, kw):
        """task x (pristine) is created anew BY THE CONSTRUCTOR with relation arguments: Task(id, parent=…, children=…, successors=…,
        predecessors=…). The object is allocated first, so that what a refused call leaves behind stays observable."""
        from pjplan import Task
        old = self.objs[x]
        args = {}
        if kw.get('parent') is not None:
            args['parent'] = self.obj(kw['parent'])
        for k_, name in (('children', 'children'), ('succs', 'successors'), ('preds', 'predecessors')):
            if kw.get(k_) is not None:
                args[name] = [self.obj(v) for v in kw[k_]]
        new = Task.__new__(Task)
        self.objs[x] = new
        self.tasks[x] = new
        self.uid.pop(id(old), None)
        self.uid[id(new)] = x
        self.facades.pop(x, None)
        self.arglists = {k: v for k, v in self.arglists.items() if x not in k}
        self.retired = getattr(self, 'retired', []) + [old]        # (kept alive: its address must not be handed out again)
        try:
            new.__init__(old.id, name=old.name, prio=old.prio, **args)
        finally:
            for a in ('name', 'prio', 'rank'):
                if not hasattr(new, a):
                    setattr(new, a, getattr(old, a))

    def snap(self):
        rows = []
        for o in self.objs:
            raw_parent = getattr(o, '_Task__parent', None)
            rows.append([int(o.id), self.u(raw_parent), [self.u(c) for c in o.children],
                         [self.u(c) for c in o.predecessors], [self.u(c) for c in o.successors],
                         None if o.wbs is None else self.m + self.wbs.index(o.wbs)])
        return {'t': rows}

    def wbs_view(self, pool):
        res = []
        for k, w in enumerate(self.wbs):
            look = []
            for i in pool:
                try:
                    look.append([i, self.u(w[i])])
                except Exception as e:  # noqa
                    look.append([i, classify_exc(e)])
            res.append({'w': self.m + k, 'tasks': [self.u(t) for t in w.tasks], 'look': look})
        return res

    # -------------------------------------------------------------- executing one op on the real code
    def apply(self, op):
        k = op[0]
        T = self.obj

        def L(us):
            if not self.alias:
                return [T(u) for u in us]
            return self.arglists.setdefault(tuple(us), [T(u) for u in us])
        one_or_list = lambda us, single: T(us[0]) if single and len(us) == 1 else L(us)
        if k == 'ctor':
            if self.pristine(op[1]):
                self.ctor(op[1], op[2])
        elif k == 'setParent':
            T(op[1]).parent = T(op[2])
        elif k == 'setChildren':
            h = op[1]
            arg = self.view(op[3]) if len(op) > 3 else L(op[2])
            if h >= self.m:
                self.wbs[h - self.m].roots = arg
            else:
                T(h).children = arg
        elif k == 'chAppend':
            self.holder_list(op[1], op[-1] == 'stale').append(T(op[2]))
        elif k == 'chRemove':
            self.holder_list(op[1], op[-1] == 'stale').remove(T(op[2]))
        elif k == 'chInsert':
            self.holder_list(op[1], op[-1] == 'stale').insert(op[2], T(op[3]))
        elif k == 'chMove':
            self.holder_list(op[1], op[-1] == 'stale').move(one_or_list(op[2], op[5]), before=T(op[3]), after=T(op[4]))
        elif k == 'chSort':
            self.holder_list(op[1], op[-1] == 'stale').sort(op[4], op[3])
        elif k == 'chReorder':
            self.holder_list(op[1], op[-1] == 'stale').reorder(list(op[2]))
        elif k == 'setPreds':
            T(op[1]).predecessors = self.view(op[3]) if len(op) > 3 else L(op[2])
        elif k == 'setSuccs':
            T(op[1]).successors = self.view(op[3]) if len(op) > 3 else L(op[2])
        elif k == 'prAppend':
            T(op[1]).predecessors.append(T(op[2]))
        elif k == 'prRemove':
            T(op[1]).predecessors.remove(T(op[2]))
        elif k == 'suAppend':
            T(op[1]).successors.append(T(op[2]))
        elif k == 'suRemove':
            T(op[1]).successors.remove(T(op[2]))
        elif k == 'floordiv':
            h = op[1]
            x = one_or_list(op[2], op[3])
            if h >= self.m:
                self.wbs[h - self.m] // x
            else:
                T(h) // x
        elif k == 'lshift':
            T(op[1]) << one_or_list(op[2], op[3])
        elif k == 'rshift':
            T(op[1]) >> one_or_list(op[2], op[3])
        elif k == 'listLshift':
            self.list_of(op[3]) << one_or_list(op[2], op[4])
        elif k == 'listRshift':
            self.list_of(op[3]) >> one_or_list(op[2], op[4])
        elif k == 'listSetParent':
            self.list_of(op[3]).parent = T(op[2])
        elif k == 'wbsRemove':
            self.wbs[op[1] - self.m].remove(T(op[2]))
        elif k in ('wbsRemoveAll', 'chRemoveAll'):
            # three ways of saying which tasks go: a callable, keyword filters (names are unique), or no filter at all (= every element)
            tgt = self.wbs[op[1] - self.m] if k == 'wbsRemoveAll' else self.holder_list(op[1])
            how = op[4] if len(op) > 4 else 'lambda'
            chosen = set(id(T(u)) for u in op[3])
            if how == 'empty':
                tgt.remove_all()
            elif how == 'kw':
                tgt.remove_all(name_in_=[T(u).name for u in op[3]])
            else:
                tgt.remove_all(lambda t: id(t) in chosen)
        elif k == 'badArg':
            # a malformed argument (None / a non-task where a task is required): must be refused without touching anything
            which, h = op[1], op[2]
            if which == 'appendNone':
                self.holder_list(h).append(None)
            elif which == 'removeNone':
                self.holder_list(h).remove(None)
            elif which == 'insertNone':
                self.holder_list(h).insert(0, None)
            elif which in ('insertIndexNone', 'insertIndexStr', 'insertIndexFloat'):
                # an index list.insert refuses, with a task that already is a child of that holder (or, when it has none, any task)
                kids_ = list(self.holder_list(h))
                t_ = kids_[-1] if kids_ else self.tasks[0]
                self.holder_list(h).insert({'insertIndexNone': None, 'insertIndexStr': '1', 'insertIndexFloat': 1.5}[which], t_)
            elif which == 'predAppendNone':
                T(h % self.m).predecessors.append(None)
            elif which == 'childrenInt':
                T(h % self.m).children = 5
            elif which == 'predsInt':
                T(h % self.m).predecessors = 5
            elif which == 'wbsRemoveNone':
                self.wbs[0].remove(None)
            elif which == 'sortInt':
                self.holder_list(h).sort(5)
            elif which == 'floordivInt':
                T(h % self.m) // 5
            else:
                raise common.MachineryError(f'unknown badArg {which}')
        else:
            raise common.MachineryError(f'unknown op {k}')

    def view(self, spec):
        """a live list view of the library handed back to a setter (`t.children = t.children`, `a.predecessors = b.successors`, …)"""
        _, k, kind = spec
        if kind == 'children':
            return self.wbs[k - self.m].roots if k >= self.m else self.objs[k].children
        if kind == 'tasks':
            return self.wbs[k - self.m].tasks if k >= self.m else self.objs[k].all_children
        return self.objs[k % self.m].predecessors if kind == 'preds' else self.objs[k % self.m].successors

    def list_of(self, src):
        """the task list a list-level operation is applied to: children of a holder or all tasks of a WBS"""
        if src[0] == 'tasks':
            return self.wbs[src[1] - self.m].tasks
        return self.holder_list(src[1])

    def concretise(self, op):
        """fill in the state-dependent part of an op (the elements of the list it is applied to)"""
        op = list(op)
        k = op[0]
        if k in ('setChildren', 'setPreds', 'setSuccs') and len(op) > 3:
            op[2] = [self.u(t) for t in self.view(op[3])]
        if k in ('listLshift', 'listRshift', 'listSetParent'):
            op[1] = [self.u(t) for t in self.list_of(op[3])]
        elif k in ('wbsRemoveAll', 'chRemoveAll'):
            elems = self.wbs[op[1] - self.m].tasks if k == 'wbsRemoveAll' else self.holder_list(op[1])
            if len(op) > 4 and op[4] == 'empty':
                op[3] = sorted(self.u(t) for t in elems)
            chosen = set(op[3])
            op[2] = [self.u(t) for t in elems if self.u(t) in chosen]
        elif k == 'chSort':
            key = op[4]
            if isinstance(key, list):
                # several attributes: the code sorts by the string '<a>-<b>'; the model gets the rank of that string (same order)
                strs = {id(t): '-'.join(str(getattr(t, kk)) for kk in key) for t in self.holder_list(op[1])}
                rank = {v: i for i, v in enumerate(sorted(set(strs.values())))}
                op[2] = [[self.u(t), rank[strs[id(t)]]] for t in self.holder_list(op[1])]
            else:
                op[2] = [[self.u(t), int(t.id) if key == 'id' else getattr(t, key)] for t in self.holder_list(op[1])]
        return op


def model_op(op):
    """strip harness-only fields: what the Lean `Op` needs"""
    k = op[0]
    if k in ('chAppend', 'chRemove', 'setChildren', 'setPreds', 'setSuccs'):
        return op[:3]
    if k == 'chInsert':
        return op[:4]
    if k == 'chMove':
        return op[:5]
    if k == 'chSort':
        keys = op[2] or []
        if len(keys) >= 2 and any(kv[1] is None for kv in keys):
            return ['setParent', 0, 0]      # Python cannot order None: the call raises (TypeError) before anything is written back
        return [op[0], op[1], [[u_, 0 if v_ is None else v_] for u_, v_ in keys], op[3]]
    if k == 'chReorder':
        return op[:3]
    if k in ('floordiv', 'lshift', 'rshift'):
        return op[:3]
    if k in ('listLshift', 'listRshift', 'listSetParent'):
        return op[:3]
    if k in ('wbsRemoveAll', 'chRemoveAll'):
        return op[:3]
    if k == 'badArg':
        # for the model: a call that is refused with RuntimeError in every state (a task as its own parent)
        return ['setParent', 0, 0]
    return op


# ---------------------------------------------------------------------------------- generation

def rand_op(u, rnd):
    m = u.m
    tasks = list(range(m))
    roots = list(range(m, m + len(u.wbs)))

    def rt():
        return rnd.choice(tasks)

    def rl(k=3):
        return [rt() for _ in range(rnd.randrange(0, k + 1))]

    def holder():
        return rnd.choice(roots) if rnd.random() < 0.3 else rt()

    def kids(h):
        return [u.u(c) for c in u.holder_list(h)]

    stale = 'stale' if rnd.random() < 0.3 else 'fresh'
    if rnd.random() < 0.02:
        return ['badArg', rnd.choice(['appendNone', 'removeNone', 'insertNone', 'insertIndexNone', 'insertIndexStr', 'insertIndexFloat', 'predAppendNone', 'childrenInt', 'predsInt', 'wbsRemoveNone',
                                      'sortInt', 'floordivInt']), holder()]
    k = rnd.randrange(27)
    if k >= 25:
        # directed: put a detached, parentless task under a WBS root (the "can be attached to another WBS" clause)
        free = [t for t in tasks if u.obj(t).wbs is None and u.obj(t).parent is None]
        if free:
            return ['chAppend', rnd.choice(roots), rnd.choice(free), 'fresh']
        k = 18
    if k == 0:
        return ['setParent', rt(), rnd.choice([None] + tasks)]
    if k == 1:
        h = holder()
        l = rl()
        if rnd.random() < 0.5:
            ks = kids(h)
            rnd.shuffle(ks)
            l = ks[:rnd.randrange(0, len(ks) + 1)] + l[:1]
        if rnd.random() < 0.12:
            return ['setChildren', h, None, ['view', h if rnd.random() < 0.6 else holder(), rnd.choice(['children', 'children', 'tasks'])]]
        return ['setChildren', h, l]
    if k == 2:
        return ['chAppend', holder(), rt(), stale]
    if k == 3:
        h = holder()
        ks = kids(h)
        return ['chRemove', h, rnd.choice(ks) if ks and rnd.random() < 0.7 else rt(), stale]
    if k == 4:
        return ['chInsert', holder(), rnd.randrange(-3, 6), rt(), stale]
    if k in (5, 22):
        h = holder()
        ks = kids(h)
        single = rnd.random() < 0.5
        ts = [rt()] if single else rl(2)
        a = rnd.choice([None] + tasks)
        b = rnd.choice([None] + tasks)
        if rnd.random() < 0.8:
            if rnd.random() < 0.5:
                a = None
            else:
                b = None
        if ks and rnd.random() < 0.8:
            ts = [rnd.choice(ks)] if single else [rnd.choice(ks) for _ in range(rnd.randrange(1, 3))]
            if a is not None:
                a = rnd.choice(ks)
            if b is not None:
                b = rnd.choice(ks)
        return ['chMove', h, ts, b, a, single, stale]
    if k == 6:
        return ['chSort', holder(), None, rnd.random() < 0.5, rnd.choice(['prio', 'id', 'prio', ['prio', 'id'], ['id']] + (['rank', 'rank'] if getattr(u, 'allow_rank', False) else [])), stale]
    if k == 7:
        h = holder()
        ks = kids(h)
        ids = [int(u.obj(rnd.choice(ks)).id) if ks and rnd.random() < 0.85 else rnd.randrange(20) for _ in range(rnd.randrange(0, 4))]
        return ['chReorder', h, ids, stale]
    if k in (8, 9):
        t = rt()
        name = 'setPreds' if k == 8 else 'setSuccs'
        if rnd.random() < 0.12:
            return [name, t, None, ['view', t if rnd.random() < 0.6 else rt(), rnd.choice(['preds', 'succs', 'children'])]]
        return [name, t, rl()]
    if k in (10, 23):
        return ['prAppend', rt(), rt()]
    if k in (11, 24):
        return ['suAppend', rt(), rt()]
    if k == 12:
        t = rt()
        ps = [u.u(p) for p in u.obj(t).predecessors]
        return ['prRemove', t, rnd.choice(ps) if ps and rnd.random() < 0.7 else rt()]
    if k == 13:
        t = rt()
        ps = [u.u(p) for p in u.obj(t).successors]
        return ['suRemove', t, rnd.choice(ps) if ps and rnd.random() < 0.7 else rt()]
    if k == 14:
        single = rnd.random() < 0.5
        return ['floordiv', holder(), [rt()] if single else rl(2), single]
    if k == 15:
        single = rnd.random() < 0.5
        return ['lshift', rt(), [rt()] if single else rl(2), single]
    if k == 16:
        single = rnd.random() < 0.5
        return ['rshift', rt(), [rt()] if single else rl(2), single]
    if k == 17:
        return ['setChildren', rnd.choice(roots), rl()]
    if k == 18:
        w = rnd.choice(roots)
        mem = [u.u(t) for t in u.wbs[w - m].tasks]
        return ['wbsRemove', w, rnd.choice(mem) if mem and rnd.random() < 0.7 else rt()]
    if k == 19:
        return ['wbsRemoveAll', rnd.choice(roots), None, sorted(set(rl(3))), rnd.choice(['lambda', 'lambda', 'kw', 'empty'])]
    if k == 20:
        return ['chRemoveAll', holder(), None, sorted(set(rl(3))), rnd.choice(['lambda', 'kw', 'empty', 'empty'])]
    src = ['tasks', rnd.choice(roots)] if rnd.random() < 0.4 else ['children', holder()]
    single = rnd.random() < 0.5
    if k == 21 and rnd.random() < 0.4:
        return ['listSetParent', None, rnd.choice([None] + tasks), src]
    return [rnd.choice(['listLshift', 'listRshift']), None, [rt()] if single else rl(2), src, single]


def related(u, x, rnd):
    """a task related to `x` (uid of a task or hidden root): an ancestor, a descendant, a task with the same id as one of
    those (an 'id twin'), or a task linked to one of them - the arguments on which the validations of the setters differ
    from a shallow version of themselves"""
    o = u.obj(x)
    anc, q = [], getattr(o, '_Task__parent', None)
    while q is not None and len(anc) < 50:
        anc.append(q)
        q = getattr(q, '_Task__parent', None)
    desc, st = [], list(o.children)
    while st and len(desc) < 50:
        y = st.pop()
        desc.append(y)
        st += list(y.children)
    near = [o] + anc + desc
    ids = {t.id for t in near}
    twins = [t for t in u.tasks if t.id in ids and all(t is not n for n in near)]
    linked = [l for n in near for l in list(n.predecessors) + list(n.successors)]
    pools = [p for p in (anc[1:], anc, desc, twins, linked) if p]
    if not pools:
        return None
    r = u.u(rnd.choice(rnd.choice(pools)))
    return r if r is not None and 0 <= r < u.m else None


def _rawp(o):
    return getattr(o, '_Task__parent', None)


def _anc(o):
    r, q = [], _rawp(o)
    while q is not None and len(r) < 50:
        r.append(q)
        q = _rawp(q)
    return r


def _sub(o):
    r, st = [], [o]
    while st and len(r) < 80:
        y = st.pop()
        r.append(y)
        st += list(y.children)
    return r


def directed_ops(u, rnd):
    """never lets a corrupted implementation state (a child listed twice, ...) stop the generation: the state is what the
    checks are there to judge"""
    try:
        return _directed_ops(u, rnd)
    except common.MachineryError:
        raise
    except Exception:  # noqa
        return None


def _directed_ops(u, rnd):
    """near-miss calls instantiated on the current state: every pattern lists the calls on which a validation of a setter
    differs from a shallower, id-based or later-placed version of itself (each came from a defect or a seeded change)"""
    T = u.tasks
    m = u.m
    U = u.u
    pats = {}

    def add(name, op):
        pats.setdefault(name, []).append(op)

    def hier_calls(h, x, name):
        """ways of making x a child of h that keep some of h's children around it"""
        ks = [U(c) for c in u.obj(h).children]
        rnd.shuffle(ks)
        keep = ks[:rnd.randrange(0, len(ks) + 1)]
        cut = rnd.randrange(0, len(keep) + 1)
        add(name, ['setChildren', h, keep[:cut] + [x] + keep[cut:]])
        add(name, ['chInsert', h, rnd.randrange(0, len(ks) + 1), x, 'fresh'])
        add(name, ['chAppend', h, x, 'fresh'])
        add(name, ['floordiv', h, [x], True])
        if h < m:
            add(name, ['setParent', x, h])

    for t in T:
        ut = U(t)
        anc = [a for a in _anc(t)]
        vis = [a for a in anc if U(a) < m]
        sub = _sub(t)
        root = anc[-1] if anc else t
        tree = _sub(root)
        # an ancestor at distance >= 2 (or 1) as a child
        for a in vis[1:]:
            hier_calls(ut, U(a), 'deep-ancestor-child')
        for a in vis[:1]:
            hier_calls(ut, U(a), 'parent-child')
        # re-parenting under a different object with the id of the current parent
        p = _rawp(t)
        if p is not None:
            for x in T:
                if x.id == p.id and x is not p:
                    add('twin-of-parent', ['setParent', ut, U(x)])
                    add('twin-of-parent', ['chAppend', U(x), ut, 'fresh'])
                    xtree = _sub((_anc(x) or [x])[-1])
                    if {y.id for y in sub} & {y.id for y in xtree if all(y is not z for z in sub)}:
                        add('twin-of-parent-id-clash', ['setParent', ut, U(x)])
        # a receiving tree that holds one of the subtree's ids in another branch
        ids = {x.id for x in sub}
        for x in T:
            if all(x is not y for y in tree) and x.id in ids:
                for h in [x] + _anc(x)[:2] + list(x.children)[:1] + [c for c in list(_rawp(x).children if _rawp(x) is not None else [])][:2]:
                    if U(h) is not None and U(h) >= 0 and all(h is not y for y in sub):
                        hier_calls(U(h), ut, 'id-clash-other-branch')
        # a child whose subtree is linked to the receiver or one of its ancestors
        for x in sub + anc:
            for l in list(x.predecessors) + list(x.successors):
                for y in [l] + [a for a in _anc(l) if U(a) < m]:
                    if all(y is not z for z in sub):
                        hier_calls(ut, U(y), 'linked-child')
        # links to ancestors / descendants at distance >= 2, and links closing a cycle through hierarchy or several edges
        for a in vis[1:] + [d for d in sub if _rawp(d) is not t and d is not t]:
            for k in ('prAppend', 'suAppend'):
                add('link-far-relative', [k, ut, U(a)])
            add('link-far-relative', ['setPreds', ut, [U(x) for x in t.predecessors] + [U(a)]])
            add('link-far-relative', ['setSuccs', ut, [U(x) for x in t.successors] + [U(a)]])
        seen, fr = [], list(t.successors)
        while fr and len(seen) < 40:
            y = fr.pop()
            if any(y is z for z in seen):
                continue
            seen.append(y)
            fr += list(y.successors) + list(y.children) + [a for a in _anc(y) if U(a) < m][:1]
        for y in seen:
            if all(y is not z for z in list(t.successors)) and y is not t:
                add('cycle-closing-link', ['suAppend', U(y), ut])
                add('cycle-closing-link', ['prAppend', ut, U(y)])
                add('cycle-closing-link', ['setPreds', ut, [U(x) for x in t.predecessors] + [U(y)]])
                add('cycle-closing-link', ['rshift', U(y), [ut], True])
        # a task of another WBS
        if t.wbs is not None:
            for x in T:
                if x.wbs is not None and x.wbs is not t.wbs:
                    hier_calls(ut, U(x), 'cross-wbs')
                    add('cross-wbs', ['chAppend', m + u.wbs.index(t.wbs), U(x), 'fresh'])
    # two NEW tasks that share an id, handed over in one children assignment (next to children that are kept)
    free = [x for x in T if x.wbs is None and _rawp(x) is None]
    for a in free:
        for b in free:
            if a is not b and a.id == b.id and U(a) < U(b):
                for h in [U(x) for x in T if x is not a and x is not b][:4] + [m + i for i in range(len(u.wbs))]:
                    ks = [U(c) for c in (u.wbs[h - m].roots if h >= m else u.objs[h].children) if c is not a and c is not b]
                    add('two-new-twins', ['setChildren', h, [U(a), U(b)] + ks])
                    add('two-new-twins', ['setChildren', h, ks[:1] + [U(a)] + ks[1:] + [U(b)]])
                    add('two-new-twins', ['floordiv', h, [U(a), U(b)], False])
    # a task that names a WBS as its owner without being listed in it (only an ill-behaved implementation gets here): bring a
    # free task with the same id into that WBS, and attach the orphan to a member
    for t in T:
        if t.wbs is not None and t.wbs in u.wbs:
            members = list(t.wbs.tasks)
            if all(t is not y for y in members):
                wi = m + u.wbs.index(t.wbs)
                for x in free:
                    if x.id == t.id and x is not t:
                        add('stale-owner-orphan', ['chAppend', wi, U(x), 'fresh'])
                for y in members[:3]:
                    add('stale-owner-orphan', ['setParent', U(t), U(y)])
                add('stale-owner-orphan', ['chAppend', wi, U(t), 'fresh'])
    # the caller re-uses one list object for several calls (`alias`): give the predecessors / successors of one task to another task as well,
    # then add a link to one of the two from the other side
    if u.alias:
        for t in T:
            for name, mine, other in (('setPreds', t.predecessors, 'suAppend'), ('setSuccs', t.successors, 'prAppend')):
                l = [U(x) for x in mine]
                if l and tuple(l) in u.arglists:
                    for t2 in T:
                        if t2 is not t and all(t2 is not x for x in mine):
                            add('shared-argument-list', [name, U(t2), l])
                    for y in T:
                        if y is not t and all(y is not x for x in mine):
                            add('shared-argument-list', [other, U(y), U(t)])
        for t in T[:4]:
            for x in T[:4]:
                if x is not t:
                    add('shared-argument-list', ['setPreds', U(t), [U(x)]])
    # a task whose stored parent does not list it (only an ill-behaved implementation gets here): put it back under that parent, and bring
    # a free task with the same id there first
    for t in T:
        p = _rawp(t)
        if p is not None and all(t is not c for c in p.children) and U(p) is not None and U(p) >= 0:
            add('stale-parent-pointer', ['setParent', U(t), U(p)] if U(p) < m else ['chAppend', U(p), U(t), 'fresh'])
            add('stale-parent-pointer', ['chAppend', U(p), U(t), 'fresh'])
            for x in free:
                if x.id == t.id and x is not t:
                    add('stale-parent-pointer', ['chAppend', U(p), U(x), 'fresh'])
            for x in T:
                if x is not t and x.wbs is None and _rawp(x) is None and (x.id == t.id or any(x.id == d.id for d in _sub(t))):
                    add('stale-parent-pointer', ['chAppend', U(t), U(x), 'fresh'])
    # well-formed list edits (move with anchor, sort, reorder, insert) and, after them, calls through a façade taken earlier
    for h in list(range(m)) + [m + i for i in range(len(u.wbs))]:
        ks = [U(c) for c in (u.wbs[h - m].roots if h >= m else u.objs[h].children)]
        if len(ks) >= 2:
            t = rnd.choice(ks)
            anchor = rnd.choice([k for k in ks if k != t])
            for st in ('fresh', 'stale'):
                add('valid-list-edit', ['chMove', h, [t], anchor, None, True, st])
                add('valid-list-edit', ['chMove', h, [t], None, anchor, True, st])
                add('valid-list-edit', ['chSort', h, None, rnd.random() < 0.5, rnd.choice(['prio', 'id'] + (['rank'] if getattr(u, 'allow_rank', False) else [])), st])
                add('valid-list-edit', ['chReorder', h, [int(u.obj(k).id) for k in rnd.sample(ks, rnd.randrange(1, len(ks) + 1))], st])
            two = rnd.sample(ks, 2)
            rest = [k for k in ks if k not in two]
            if rest:
                add('valid-list-edit', ['chMove', h, two, rnd.choice(rest), None, False, 'fresh'])
        if h in u.facades and ks:
            free = [U(x) for x in T if x.wbs is None and _rawp(x) is None and x is not u.obj(h)]
            add('stale-facade-call', ['chRemove', h, rnd.choice(ks), 'stale'])
            if free:
                add('stale-facade-call', ['chInsert', h, rnd.randrange(0, len(ks) + 1), rnd.choice(free), 'stale'])
                add('stale-facade-call', ['chAppend', h, rnd.choice(free), 'stale'])
            if len(ks) >= 2:
                t = rnd.choice(ks)
                add('stale-facade-call', ['chMove', h, [t], rnd.choice([k for k in ks if k != t]), None, True, 'stale'])
                add('stale-facade-call', ['chReorder', h, [int(u.obj(ks[-1]).id)], 'stale'])
                add('stale-facade-call', ['chSort', h, None, False, 'prio', 'stale'])
    if not pats:
        return None
    name = rnd.choice(sorted(pats))
    return rnd.choice(pats[name])


RECEIVER_AT_1 = ('setParent', 'setChildren', 'floordiv', 'lshift', 'rshift', 'setPreds', 'setSuccs', 'chAppend', 'prAppend',
                 'suAppend', 'chInsert')


def steer(u, op, rnd, p=0.35):
    """with some probability replace an argument by a task related to the receiver (see `related`)"""
    if rnd.random() >= p:
        return op
    k = op[0]
    op = list(op)
    if p > 0.5 and rnd.random() < 0.6 and k in RECEIVER_AT_1 and op[1] < u.m:
        # focused mode: prefer receivers that sit deep in a tree
        deep = [t for t in range(u.m) if getattr(u.objs[t], '_Task__parent', None) is not None
                and getattr(getattr(u.objs[t], '_Task__parent'), '_Task__parent', None) is not None]
        if deep:
            op[1] = rnd.choice(deep)
    if k == 'setParent':
        t = op[1]
        cur = getattr(u.obj(t), '_Task__parent', None)
        cands = [u.u(x) for x in u.tasks if cur is not None and x.id == cur.id and x is not cur]
        r = rnd.choice(cands) if cands and rnd.random() < 0.5 else related(u, t, rnd)
        if r is not None:
            op[2] = r
    elif k in ('setChildren', 'setPreds', 'setSuccs') and len(op) > 3:
        pass
    elif k in ('setChildren', 'floordiv', 'lshift', 'rshift', 'setPreds', 'setSuccs'):
        r = related(u, op[1], rnd)
        if r is not None and isinstance(op[2], list):
            l = list(op[2])
            if k in ('floordiv', 'lshift', 'rshift') and op[-1] is True:
                l = [r]
            else:
                l.insert(rnd.randrange(0, len(l) + 1), r)
            op[2] = l
    elif k in ('chAppend', 'prAppend', 'suAppend'):
        r = related(u, op[1], rnd)
        if r is not None:
            op[2] = r
    elif k == 'chInsert':
        r = related(u, op[1], rnd)
        if r is not None:
            op[3] = r
    return op


def ctor_op(u, rnd):
    """a constructor call with relation arguments for a task nothing refers to yet (the constructor applies parent, children, successors,
    predecessors in that order through the setters): one relation, or successors AND predecessors - chosen, more often than not, so that
    the call must be refused (the id is taken in the parent's tree; a successor already is a predecessor of a predecessor)"""
    pr = [x for x in range(u.m) if u.pristine(x)]
    if not pr:
        return None
    x = rnd.choice(pr)
    others = [t for t in range(u.m) if t != x]
    if not others:
        return None
    some = lambda lo: rnd.sample(others, min(len(others), rnd.randrange(lo, 3)))
    kind = rnd.choice(['parent', 'parent', 'children', 'succs', 'preds', 'both', 'both'])
    if kind == 'parent':
        def tree(o):
            while _rawp(o) is not None:
                o = _rawp(o)
            return [o] + list(o.all_children)
        xid = int(u.objs[x].id)
        taken = [t for t in others if any(z.id != EMPTY and int(z.id) == xid for z in tree(u.objs[t]))]
        return ['ctor', x, {'parent': rnd.choice(taken) if taken and rnd.random() < 0.6 else rnd.choice(others)}]
    if kind == 'children':
        return ['ctor', x, {'children': some(0)}]
    if kind == 'succs':
        return ['ctor', x, {'succs': some(1)}]
    if kind == 'preds':
        return ['ctor', x, {'preds': some(1)}]
    preds = some(1)
    ups = set(preds)
    for p_ in preds:
        ups.update(u.u(z) for z in u.objs[p_].all_predecessors)
    ups = sorted(z for z in ups if z is not None and 0 <= z < u.m and z != x)
    succs = [rnd.choice(ups)] if ups and rnd.random() < 0.6 else some(1)
    return ['ctor', x, {'succs': succs, 'preds': preds}]


def new_universe(case):
    return Universe(case['ids'], case['prio'], case['nw'], case.get('kinds'), case.get('alias', False))


def random_case(prop, rng, tier):
    m = rng.randrange(3, 9 if tier == 'quick' else 13)
    pool = rng.randrange(3, 7)
    ids = [rng.randrange(pool) if rng.random() < 0.5 else 10 + i for i in range(m)]
    prio = [rng.randrange(3) for _ in range(m)]
    case = {'ids': ids, 'prio': prio, 'nw': rng.randrange(1, 4), 'ops': []}
    if rng.random() < 0.15:
        case['kinds'] = [rng.choice(['int', 'int', 'float', 'bool']) for _ in ids]
    if rng.random() < 0.3:
        case['alias'] = True
    u = new_universe(case)
    u.allow_rank = prop in ('C15', 'C16')
    if m >= 4 and rng.random() < 0.08:
        # a tree outside every WBS, a receiver below its top, and a free task linked to the TOP: every way of making it a child of the
        # receiver must be refused before anything is touched
        top, mid, old, x = rng.sample(range(m), 4)
        script = [['setParent', mid, top], ['setParent', old, mid], [rng.choice(['prAppend', 'suAppend']), x, top],
                  rng.choice([['chInsert', mid, 0, x, 'fresh'], ['setChildren', mid, [x, old]], ['setChildren', mid, [x]], ['floordiv', mid, [x], True]])]
        for op in script:
            case['ops'].append(op)
            try:
                u.apply(op)
            except common.MachineryError:
                raise
            except Exception:  # noqa
                pass
    # constructive prefix (two cases in three): grow a forest of some depth and a few links with mostly legal calls, so that
    # the random calls that follow meet ancestors, descendants and linked subtrees at distance > 1
    prefix = []
    if rng.random() < 0.75:
        order = list(range(m))
        rng.shuffle(order)
        if rng.random() < 0.4:
            order = order[:-rng.randrange(1, 3)]       # one or two tasks stay untouched: constructor calls are made for them below
        placed = []
        for t in order:
            r = rng.random()
            if placed and r < 0.6:
                prefix.append(['setParent', t, rng.choice(placed[-3:] if rng.random() < 0.5 else placed)])
            elif r < 0.85:
                prefix.append(['chAppend', m + rng.randrange(case['nw']), t, 'fresh'])
            placed.append(t)
        for _ in range(rng.randrange(0, 4)):
            prefix.append([rng.choice(['prAppend', 'suAppend']), rng.randrange(m), rng.randrange(m)])
    for op in prefix:
        op = u.concretise(op)
        case['ops'].append(op)
        try:
            u.apply(op)
        except common.MachineryError:
            raise
        except Exception:  # noqa
            pass
    if case.get('alias') and m >= 4 and rng.random() < 0.6:
        # the caller's own list object handed to two tasks, then a link added to one of them from the other side
        t1, t2, x, y = rng.sample(range(m), 4)
        script = [['setPreds', t1, [x]], ['setPreds', t2, [x]], ['suAppend', y, t1]] if rng.random() < 0.5 else \
                 [['setSuccs', t1, [x]], ['setSuccs', t2, [x]], ['prAppend', y, t1]]
        for op in script:
            case['ops'].append(op)
            try:
                u.apply(op)
            except common.MachineryError:
                raise
            except Exception:  # noqa
                pass
    if rng.random() < 0.5:
        for _ in range(rng.randrange(1, 3)):
            try:
                op = ctor_op(u, rng)
            except common.MachineryError:
                raise
            except Exception:  # noqa
                op = None
            if op is None:
                break
            case['ops'].append(op)
            try:
                u.apply(op)
            except common.MachineryError:
                raise
            except Exception:  # noqa
                pass
    focused = bool(prefix) and rng.random() < 0.7
    tail = rng.randrange(3, 10) if focused else rng.randrange(10, 31 if tier == 'quick' else 41)
    for _ in range(tail):
        d = directed_ops(u, rng) if focused and rng.random() < 0.8 else None
        try:
            op = u.concretise(d if d is not None else steer(u, rand_op(u, rng), rng, 0.75 if focused else 0.35))
        except common.MachineryError:
            raise
        except Exception:  # noqa  (generation on a corrupted state: fall back to a state-independent call)
            op = ['setParent', rng.randrange(m), None]
        case['ops'].append(op)
        try:
            u.apply(op)
        except common.MachineryError:
            raise
        except Exception:  # noqa
            pass
    return case


def ctor_steps(u, op, pool):
    """a constructor call is judged as the setter calls it is documented to make, in its order: parent, children, successors,
    predecessors. With successors AND predecessors the state between the two is not observable; it is the one the model must reach by
    the first call (successors of a task nothing refers to, all different: always accepted) - stated here and checked by the model."""
    x, kw = op[1], op[2]
    if not u.pristine(x):
        return []           # (only in a shrunk or mutated history: the call is left out)
    pre = u.snap()
    wv0 = u.wbs_view(pool)
    out = 'ok'
    try:
        u.apply(op)
    except common.MachineryError:
        raise
    except Exception as e:  # noqa
        out = classify_exc(e)
    post = u.snap()
    wv = u.wbs_view(pool)
    seq = []
    if kw.get('parent') is not None:
        seq.append(['setParent', x, kw['parent']])
    if kw.get('children') is not None:
        seq.append(['setChildren', x, list(kw['children'])])
    if kw.get('succs'):
        seq.append(['setSuccs', x, list(kw['succs'])])
    if kw.get('preds'):
        seq.append(['setPreds', x, list(kw['preds'])])
    if not seq:
        seq = [['setChildren', x, []]]
    if len(seq) == 1:
        return [{'pre': pre, 'op': seq[0], 'out': out, 'post': post, 'wbs': wv, 'full_op': op}]
    if len(seq) == 2 and seq[0][0] == 'setSuccs' and seq[1][0] == 'setPreds' and len(set(seq[0][2])) == len(seq[0][2]) and x not in seq[0][2]:
        mid = {'t': [[r[0], r[1], list(r[2]), list(r[3]), list(r[4]), r[5]] for r in pre['t']]}
        mid['t'][x][4] = list(seq[0][2])
        for s_ in seq[0][2]:
            mid['t'][s_][3] = mid['t'][s_][3] + [x]
        return [{'pre': pre, 'op': seq[0], 'out': 'ok', 'post': mid, 'wbs': wv0, 'full_op': op},
                {'pre': mid, 'op': seq[1], 'out': out, 'post': post, 'wbs': wv, 'full_op': op}]
    raise common.MachineryError(f'constructor call outside the judged combinations: {kw}')


def execute(prop, case):
    u = new_universe(case)
    pool = sorted(set(case['ids']))[:8] + [97, -1, sys.maxsize]     # (sys.maxsize: the id the hidden root of a WBS carries - not a member)
    steps = []
    for op in case['ops']:
        if op[0] == 'ctor':
            steps.extend(ctor_steps(u, op, pool))
            continue
        op = u.concretise(op)
        pre = u.snap()
        out = 'ok'
        try:
            u.apply(op)
        except common.MachineryError:
            raise
        except Exception as e:  # noqa
            out = classify_exc(e)
        steps.append({'pre': pre, 'op': model_op(op), 'out': out, 'post': u.snap(), 'wbs': u.wbs_view(pool), 'full_op': op})
    return {'fam': 'graph', 'steps': steps}


# ---------------------------------------------------------------------------------- small scope, exhaustively

def all_ops(m, nw, ids):
    """every call of every mutator over a universe of m tasks and nw WBSs, argument lists up to length 2 (repetitions included),
    every index, every anchor combination, fresh and kept façades"""
    T = list(range(m))
    R = list(range(m, m + nw))
    H = T + R
    lists2 = [[]] + [[a] for a in T] + [[a, b] for a in T for b in T]
    none_or = [None] + T
    ops = []
    for t in T:
        for p_ in none_or:
            ops.append(['setParent', t, p_])
        for l in lists2:
            ops.append(['setPreds', t, l])
            ops.append(['setSuccs', t, l])
        for x in T:
            ops += [['prAppend', t, x], ['suAppend', t, x], ['prRemove', t, x], ['suRemove', t, x]]
        for l in lists2[1:]:
            single = len(l) == 1
            ops.append(['lshift', t, l, single])
            ops.append(['rshift', t, l, single])
            if single:
                ops.append(['lshift', t, l, False])
    for h in H:
        for l in lists2:
            ops.append(['setChildren', h, l])
        ops.append(['setChildren', h, None, ['view', h, 'children']])
        ops.append(['setChildren', h, None, ['view', H[0], 'children']])
        for st in ('fresh', 'stale'):
            for t in T:
                ops.append(['chAppend', h, t, st])
                ops.append(['chRemove', h, t, st])
                for i in range(-2, m + 1):
                    ops.append(['chInsert', h, i, t, st])
            for ts in lists2[1:]:
                single = len(ts) == 1
                for b, a in [(None, None)] + [(x, None) for x in T] + [(None, x) for x in T] + [(0, 1 % m)]:
                    ops.append(['chMove', h, ts, b, a, single, st])
            for rev in (False, True):
                for key in ('prio', 'id'):
                    ops.append(['chSort', h, None, rev, key, st])
            idpool = sorted(set(ids)) + [99]
            for l in [[]] + [[a] for a in idpool] + [[a, b] for a in idpool for b in idpool]:
                ops.append(['chReorder', h, l, st])
        for l in lists2[1:]:
            ops.append(['floordiv', h, l, len(l) == 1])
        for sub in ([], [0], [m - 1], T[:2], T):
            ops.append(['chRemoveAll', h, None, sorted(set(sub))])
        ops.append(['chRemoveAll', h, None, [], 'empty'])
        ops.append(['chRemoveAll', h, None, T[:2], 'kw'])
    for w in R:
        for t in T:
            ops.append(['wbsRemove', w, t])
        for sub in ([], [0], [m - 1], T[:2], T):
            ops.append(['wbsRemoveAll', w, None, sorted(set(sub))])
        ops.append(['wbsRemoveAll', w, None, [], 'empty'])
        ops.append(['wbsRemoveAll', w, None, T[:2], 'kw'])
    srcs = [['tasks', w] for w in R] + [['children', h] for h in H]
    for src in srcs:
        for l in lists2[1:]:
            single = len(l) == 1
            ops.append(['listLshift', None, l, src, single])
            ops.append(['listRshift', None, l, src, single])
        for p_ in none_or:
            ops.append(['listSetParent', None, p_, src])
    return ops


def base_states(m, nw):
    """prefixes (legal calls, made through façades so that kept façades exist) reaching the shapes on which the validations of the
    setters differ: chain in a WBS, detached chain, flat WBS with a link, member linked to a detached task, link between cousins"""
    W = m
    A = lambda h, t: ['chAppend', h, t, 'fresh']
    sts = [[],
           [A(W, 0), A(0, 1), A(1, 2)],
           [A(0, 1), A(1, 2)],
           [A(W, 0), A(W, 1), A(W, 2), ['prAppend', 1, 0]],
           [A(W, 0), A(0, 1), ['prAppend', 2, 1]],
           [A(W, 0), A(W, 1), A(0, 2), ['prAppend', 2, 1]],
           [A(W, 0), A(0, 1), A(W, 2), ['suAppend', 1, 2], ['chSort', W, None, False, 'id', 'fresh']]]
    if nw > 1:
        sts.append([A(W, 0), A(W + 1, 1), A(0, 2), ['prAppend', 2, 1]])
    if m > 3:
        sts.append([A(W, 0), A(0, 1), A(1, 2), A(2, 3), ['prAppend', 3, 0] if False else ['prAppend', 1 % m, 3]])
    return sts


def extra_cases(prop, tier, seed):
    """the small scope, exhaustively: every call over a universe of 3 tasks (ids all different / two sharing an id) and one WBS (thorough:
    also 2 WBSs and 4 tasks, sampled), from each base state.  quick runs a deterministic 1/40 slice chosen by the seed."""
    res = []
    universes = [([1, 2, 3], 1), ([1, 1, 2], 1), ([2, 1, 1], 1)]
    if tier == 'thorough':
        universes += [([1, 2, 1], 2), ([1, 2, 3, 1], 1)]
    k = 0
    for ids, nw in universes:
        m = len(ids)
        ops = all_ops(m, nw, ids)
        for pre in base_states(m, nw):
            for op in ops:
                k += 1
                if tier == 'quick' and (k + seed) % 40 != 0:
                    continue
                if tier == 'thorough' and m * nw > 3 and (k + seed) % 6 != 0:
                    continue
                res.append({'ids': ids, 'prio': [(7 * i + 1) % 3 for i in range(m)], 'nw': nw, 'ops': [list(o) for o in pre] + [list(op)], 'scope': 'small'})
    return res


# ---------------------------------------------------------------------------------- judging

WF_CLAUSES = ['listed', 'once', 'forest', 'rootsTop', 'sym', 'dag', 'noAncDep']
MON_OF = {
    'C01': WF_CLAUSES,
    'C05': ['uniqueIds', 'tasksLookup', 'rejectIsRuntime', 'memberIffTasks'],
    'C11': ['ownerOk', 'reattach', 'memberIffTasks'],
    'C15': ['unchangedOnRaise'],
    'C16': ['effect'],
}
ELEMENTWISE = ('listLshift', 'listRshift', 'listSetParent')


def multiset_state(st):
    return [[r[0], r[1], sorted(r[2]), sorted(r[3]), sorted(r[4]), r[5]] for r in st['t']]


def project(prop, out, post):
    if prop == 'C01':
        return multiset_state(post)
    if prop == 'C05':
        # (the owner is part of it: the id test of the setters trusts it as proof of membership)
        return multiset_state(post)
    if prop == 'C11':
        return [[r[1], sorted(r[2]), r[5]] for r in post['t']]
    if prop == 'C15':
        return [out != 'ok', post['t']]
    return [out == 'ok', post['t']]


def judge(prop, case, rec, out):
    eq = True
    info = {}
    mon = {c: True for c in MON_OF[prop]}
    hyp = {}
    sig = None
    accepted = rejected = 0
    feats = set()
    for i, (st, o) in enumerate(zip(rec['steps'], out['steps'])):
        if not all(mon.values()):
            break          # the first failure is the one that counts; later steps start from a broken state
        if st['out'] == 'ok':
            accepted += 1
        else:
            rejected += 1
        mp = project(prop, o['model']['out'], o['model']['post'])
        ip = project(prop, st['out'], st['post'])
        if mp != ip and eq:
            eq = False
            info['first_mismatch'] = {'step': i, 'op': st['full_op'], 'impl_out': st['out'], 'model_out': o['model']['out'],
                                      'pre': st['pre']['t'], 'impl_post': st['post']['t'], 'model_post': o['model']['post']['t']}
        if o.get('mustAccept'):
            feats.add('reattach')
        if prop in ('C11', 'C05') and 'memberIffTasks' in mon:
            # judged on the implementation alone: a task reports WBS w exactly when it is listed (once) in w.tasks
            for wv in st['wbs']:
                owned = sorted(u for u, r in enumerate(st['post']['t']) if r[5] == wv['w'] and u != wv['w'])
                if sorted(wv['tasks']) != owned and mon['memberIffTasks']:
                    mon['memberIffTasks'] = False
                    info.setdefault('monitor_failures', []).append({'clause': 'memberIffTasks', 'step': i, 'op': st['full_op'], 'tasks': wv['tasks'], 'owned': owned})
        for c in MON_OF[prop]:
            if c == 'rejectIsRuntime' and st['full_op'][0] == 'badArg' and st['full_op'][1].startswith('insertIndex'):
                continue      # an index list.insert refuses (TypeError): not one of the rejections C05 says are RuntimeErrors; C15 judges the state
            if c in o['mon'] and not o['mon'][c] and mon[c]:
                mon[c] = False
                info.setdefault('monitor_failures', []).append({'clause': c, 'step': i, 'op': st['full_op'], 'impl_out': st['out']})
                if prop == 'C15' and st['full_op'][0] in ELEMENTWISE:
                    # outside the domain of C15_partial: element-by-element list-level operation (finding G12)
                    hyp['notElementwise'] = False
                    sig = 'elementwise:' + st['full_op'][0]
                break
    key = common.digest([case['ids'], case['nw'], [model_op(o) for o in case['ops']]])
    nontrivial = accepted >= 1 and rejected >= 1 and len(case['ids']) >= 3
    info['features'] = sorted(feats)
    return Outcome(case, eq, mon, hyp, nontrivial, key, info, sig)


def case_variants(case):
    ops = case['ops']
    n = len(ops)
    # drop a suffix after the failing point is handled by trying prefixes first
    for cut in (n // 2, n - 1):
        if 0 < cut < n:
            yield dict(case, ops=ops[:cut])
    chunk = max(1, n // 4)
    while chunk >= 1:
        for i in range(0, n, chunk):
            yield dict(case, ops=ops[:i] + ops[i + chunk:])
        if chunk == 1:
            break
        chunk //= 2
    if case['nw'] > 1:
        m = len(case['ids'])
        if not any(_mentions(o, m + case['nw'] - 1) for o in ops):
            yield dict(case, nw=case['nw'] - 1)


def _mentions(x, u):
    if isinstance(x, list):
        return any(_mentions(y, u) for y in x)
    return x == u and not isinstance(x, bool)


def shrink(prop, case, still_fails):
    return common.shrink_with(case, case_variants, still_fails, max_tests=400)


def mutate(prop, case, rng):
    u = new_universe(case)
    ops = list(case['ops'])
    cut = rng.randrange(0, len(ops) + 1)
    ops = ops[:cut]
    for op in ops:
        try:
            u.apply(u.concretise(op))
        except Exception:  # noqa
            pass
    for _ in range(rng.randrange(1, 8)):
        try:
            op = u.concretise(steer(u, rand_op(u, rng), rng))
        except common.MachineryError:
            raise
        except Exception:  # noqa
            op = ['setParent', rng.randrange(u.m), None]
        ops.append(op)
        try:
            u.apply(op)
        except Exception:  # noqa
            pass
    return dict(case, ops=ops)


def count(prop, tier):
    return 1500 if tier == 'quick' else 20000


def projection(prop):
    return {'C01': 'per step: parent, owner, children/predecessor/successor lists as multisets',
            'C05': 'per step: parent, owner and children multisets; WBS.tasks order and wbs[id] lookups are judged by the monitor',
            'C11': 'per step: parent, children multiset, owner',
            'C15': 'per step: raised/returned + the full ordered state',
            'C16': 'per step: returned/raised + the full ordered state'}[prop]


def rule(prop):
    return ('random histories (two in three start with a constructive prefix that grows a forest of some depth and a few links; arguments are steered towards ancestors, descendants, id twins and linked tasks of the receiver in a third of the calls) of 10-30 (thorough: 40) public mutator calls over 3-8 (12) task objects whose ids are drawn from a small '
            'pool (clashes are frequent) and 1-3 WBSs; legal and illegal arguments (self references, repeated elements, tasks of other '
            'trees/WBSs, missing anchors, bad indexes, unknown ids, façades kept across calls); each step is compared with the model run '
            'from the implementation\'s own pre-state; non-trivial = >=1 accepted and >=1 rejected call; distinct = distinct (ids, ops); plus the small scope exhaustively (every call of every mutator with every argument combination up to lists of 2 over 3-4 tasks, from 7-9 base states; quick: a 1/40 slice chosen by the seed)')


def distribution(prop, cases, outcomes):
    d = {}
    for c in cases:
        for op in c['ops']:
            d[op[0]] = d.get(op[0], 0) + 1
    return {'ops': d}
