"""Calendar family (C17): calendar.py + resource.py against Model/Calendar.lean and Spec/Calendar.lean."""
from datetime import datetime, timedelta
from fractions import Fraction
import common
from common import Outcome, frac_str, classify_exc

EPOCH = datetime(1970, 1, 1)
US = timedelta(microseconds=1)
DAY_US = 86400 * 10**6
BASE_DAY = 19723  # 2024-01-01, a Monday


def to_us(dt):
    return (dt - EPOCH) // US


def from_us(us):
    return EPOCH + timedelta(microseconds=us)


def py_num(s, as_float):
    f = Fraction(s)
    if f.denominator == 1 and not as_float:
        return int(f)
    return float(f)


UNITS = ['0', '1/2', '1', '2', '4', '8', '3/2', '3', '5/4', '6', '16']
POW2 = ['1', '2', '4', '1/2', '8', '1/4']


def rnd_time(rng, around=None):
    day = (around // DAY_US if around is not None else BASE_DAY) + rng.randint(-12, 12)
    tod = rng.choice([0, 0, 0, 1, DAY_US - 1, 9 * 3600 * 10**6, 12 * 3600 * 10**6 + 30 * 60 * 10**6, rng.randrange(DAY_US)])
    return day * DAY_US + tod


def rnd_bounds(rng, bad):
    s = rnd_time(rng) if rng.random() < 0.45 else None
    e = rnd_time(rng) if rng.random() < 0.45 else None
    if s is not None and e is not None:
        if (s > e) != (bad and rng.random() < 0.5):
            s, e = e, s
    return s, e


def rnd_leaf(rng, bad, pow2=False):
    units = POW2 + ['0'] if pow2 else UNITS
    k = rng.choice(['WL', 'WD', 'D', 'F'])
    neg = bad and rng.random() < 0.3
    u = rng.choice(units)
    if neg:
        u = '-' + rng.choice(['1', '1/2', '8'])
    if k == 'WL':
        s, e = rnd_bounds(rng, bad)
        days = sorted(rng.sample(range(7), rng.randint(0, 7)))
        if bad and rng.random() < 0.3:
            days.append(rng.choice([7, -1, 9]))
        if rng.random() < 0.1:
            days.append(days[0] if days else 0)
        return ['WL', s, e, days, u]
    if k == 'WD':
        s, e = rnd_bounds(rng, bad)
        keys = rng.sample(range(7), rng.randint(0, 7))
        if bad and rng.random() < 0.3:
            keys.append(rng.choice([7, -1, 12]))
        d = [[kk, rng.choice(units)] for kk in keys]
        if neg and d:
            d[rng.randrange(len(d))][1] = u
        return ['WD', s, e, d]
    if k == 'D':
        items = {}
        for _ in range(rng.randint(0, 6)):
            items[rnd_time(rng)] = rng.choice(units)
        items = [[t, v] for t, v in items.items()]
        if neg and items:
            items[rng.randrange(len(items))][1] = u
        # items[:k] go to the constructor, items[k:] are added through set_units (same meaning)
        return ['D', items, rng.randint(0, len(items)) if rng.random() < 0.5 else len(items)]
    s, e = rnd_bounds(rng, bad)
    return ['F', u, s, e]


def rnd_expr(rng, depth, bad, pow2=False):
    if depth == 0 or rng.random() < 0.3:
        return rnd_leaf(rng, bad, pow2)
    op = rng.choice(['add', 'sub', 'mul', 'div', 'or']) if not pow2 else rng.choice(['or', 'mul'])
    a = rnd_expr(rng, depth - 1, bad, pow2)
    if rng.random() < 0.35:
        if op == 'div':
            v = rng.choice(POW2 + (['0'] if bad or rng.random() < 0.1 else []))
        else:
            v = rng.choice(POW2 if pow2 else UNITS)
        if bad and rng.random() < 0.3 and not (op == 'div'):
            v = '-' + rng.choice(['1', '2'])
        b = ['N', v]
    else:
        b = rnd_expr(rng, depth - 1, bad, pow2 or op == 'div')
    return ['op', op, a, b]


def bounds_of(expr, acc):
    if expr[0] in ('WL', 'WD'):
        acc += [x for x in expr[1:3] if x is not None]
    elif expr[0] == 'F':
        acc += [x for x in expr[2:4] if x is not None]
    elif expr[0] == 'D':
        acc += [it[0] for it in expr[1]]
    elif expr[0] == 'op':
        bounds_of(expr[2], acc)
        bounds_of(expr[3], acc)
    return acc


def random_case(prop, rng, tier):
    bad = rng.random() < 0.25
    expr = rnd_expr(rng, rng.randint(0, 4 if tier == 'thorough' else 3), bad)
    bs = bounds_of(expr, [])
    qs = []
    for b in bs[:6]:
        qs += [b, b - 1, b + 1, (b // DAY_US) * DAY_US, b + DAY_US]
    qs += [rnd_time(rng) for _ in range(6)]
    qs = sorted(set(qs))[:24]
    searches = []
    for _ in range(3):
        searches.append([rnd_time(rng, rng.choice(bs) if bs else None), rng.choice([1, -1]), rng.choice([0, 1, 2, 3, 7, 8, 15, 30])])
    case = {'expr': expr, 'q': qs, 'search': searches, 'floats': rng.random() < 0.5}
    if rng.random() < 0.3:
        # every calendar object of the expression is also used as an operand of other, discarded expressions
        case['decoys'] = True
    if not bad and rng.random() < 0.3:
        # the calendar changes after it has been queried (dated entries added through set_units, or the resource is given another
        # calendar): the same resource object must follow it
        if rng.random() < 0.5 and first_dated(expr) is not None:
            days = [q for q in qs if rng.random() < 0.4][:4] + [rnd_time(rng)]
            # powers of two only: the dated calendar may be a divisor (ints and floats divide exactly by them, see rnd_expr)
            case['late'] = ['set_units', [[d, rng.choice(['0', '2', '4', '1/2', '8'])] for d in days]]
        else:
            case['late'] = ['replace', rnd_expr(rng, rng.randint(0, 2), False)]
    return case


def first_dated(expr, path=()):
    """path (tuple of 2/3 indices) to the first dated calendar of an expression"""
    if expr[0] == 'D':
        return path
    if expr[0] == 'op':
        for i in (2, 3):
            r = first_dated(expr[i], path + (i,))
            if r is not None:
                return r
    return None


def late_expr(case):
    """the definition the calendar has after the late change: for set_units the first dated calendar with the new entries (one value
    per day - set_units stores by day - a later entry replacing an earlier one for the same day)"""
    kind, arg = case['late']
    if kind == 'replace':
        return arg
    import copy
    expr = copy.deepcopy(case['expr'])
    node = expr
    for i in first_dated(expr):
        node = node[i]
    items = {}
    for t, v in node[1]:
        items[(t // DAY_US) * DAY_US] = v
    given = {}
    for t, v in arg:                 # the dict handed to set_units: equal datetimes collapse (first position, last value) ...
        given[t] = v
    for t, v in given.items():       # ... and set_units stores them by day, in that order
        items[(t // DAY_US) * DAY_US] = v
    node[1] = [[t, v] for t, v in items.items()]
    if len(node) > 2:
        node[2] = len(node[1])
    return expr


def extra_cases(prop, tier, seed):
    """the implementation's real default horizon (max_days=100000): only working day at offset H-1 vs H"""
    res = []
    # capacities that are tiny but positive (2^-40, exact as a float; no arithmetic on them): "positive capacity" means > 0, not > some epsilon
    tiny = '1/1099511627776'
    t0 = BASE_DAY * DAY_US + 9 * 3600 * 10**6
    for d in (1, -1):
        day = (BASE_DAY + 3 * d) * DAY_US
        for expr in (['D', [[day, tiny]]], ['F', tiny, None, None], ['op', 'or', ['D', [[day, tiny]]], ['WL', None, None, [], '8']],
                     ['WD', None, None, [[k, tiny] for k in range(7)]]):
            res.append({'expr': expr, 'q': [day, day + DAY_US, t0], 'search': [[t0, d, 8], [t0, d, 1], [t0, -d, 8]], 'floats': True})
    if tier == 'thorough':
        from extracted import consts
        H = consts().get('max_days', 100000)
        t0 = BASE_DAY * DAY_US + 3600 * 10**6
        for off in (H - 1, H):
            for d in (1, -1):
                day = t0 + d * off * DAY_US - (DAY_US if d < 0 else 0)
                res.append({'expr': ['D', [[day, '2']]], 'q': [], 'search': [[t0, d, None]], 'floats': False})
    return res


# ------------------------------------------------------------------ execution on the real code

def build_impl(expr, floats, dated=None):
    """`dated` (a list) collects the DirectCalendar objects in expression order"""
    import pjplan.calendar as C
    k = expr[0]
    opt = lambda us: None if us is None else from_us(us)
    if k == 'WL':
        return C.WeeklyCalendar(start=opt(expr[1]), end=opt(expr[2]), days=list(expr[3]), units_per_day=py_num(expr[4], floats))
    if k == 'WD':
        return C.WeeklyCalendar(start=opt(expr[1]), end=opt(expr[2]), units_per_day={kk: py_num(v, floats) for kk, v in expr[3]})
    if k == 'D':
        k = expr[2] if len(expr) > 2 else len(expr[1])
        cal = C.DirectCalendar({from_us(t): py_num(v, floats) for t, v in expr[1][:k]})
        if k < len(expr[1]):
            cal.set_units({from_us(t): py_num(v, floats) for t, v in expr[1][k:]})
        if dated is not None:
            dated.append(cal)
        return cal
    if k == 'F':
        return C.FixedCalendar(py_num(expr[1], floats), opt(expr[2]), opt(expr[3]))
    if k == 'N':
        return py_num(expr[1], floats)
    a = build_impl(expr[2], floats, dated)
    b = build_impl(expr[3], floats, dated)
    op = expr[1]
    if build_impl.decoys:
        # calendars are values: building other calendars FROM an operand (before and after it is used) must not change what it means
        _decoys(a)
    r = _apply(op, a, b)
    if build_impl.decoys:
        _decoys(r)
        _decoys(a)
    return r


build_impl.decoys = False


def _decoys(x):
    if isinstance(x, (int, float)):
        return
    for f in (lambda: x + 2, lambda: x - 1, lambda: x * 2, lambda: x | 3, lambda: 2 + x if hasattr(x, '__radd__') else None, lambda: x + x):
        try:
            f()
        except Exception:  # noqa
            pass


def _apply(op, a, b):
    if op == 'add':
        return a + b
    if op == 'sub':
        return a - b
    if op == 'mul':
        return a * b
    if op == 'div':
        return a / b
    return a | b


def obs(fn, conv):
    try:
        return ['ok', conv(fn())]
    except Exception as e:  # noqa
        return ['err', classify_exc(e)]


def execute(prop, case):
    from pjplan import Resource
    rec = {'fam': 'cal', 'expr': case['expr']}
    cal = None
    try:
        dated = []
        build_impl.decoys = bool(case.get('decoys'))
        cal = build_impl(case['expr'], case.get('floats', False), dated)
        rec['build'] = ['ok', None]
    except Exception as e:  # noqa
        rec['build'] = ['err', classify_exc(e)]
    finally:
        build_impl.decoys = False
    rec['q'] = []
    rec['cap'] = []
    rec['search'] = []
    if cal is not None:
        res = Resource('r', cal)
        for t in case['q']:
            rec['q'].append([t, obs(lambda: cal.get_available_units(from_us(t)), frac_str)])
            rec['cap'].append([t, obs(lambda: res.get_available_units(from_us(t)), frac_str)])
        for t, d, H in case['search']:
            if H is None:
                from extracted import consts
                Hm = consts().get('max_days', 100000)
                rec['search'].append([t, d, Hm, obs(lambda: res.get_nearest_availability_date(from_us(t), d), to_us)])
            else:
                rec['search'].append([t, d, H, obs(lambda: res.get_nearest_availability_date(from_us(t), d, max_days=H), to_us)])
        if case.get('late') and dated is not None:
            fl = case.get('floats', False)
            try:
                if case['late'][0] == 'set_units':
                    dated[0].set_units({from_us(t): py_num(v, fl) for t, v in case['late'][1]})
                else:
                    try:
                        new_cal = build_impl(case['late'][1], fl)
                    except RuntimeError:
                        new_cal = None           # the replacement definition is itself rejected (division by zero, ...): no second phase
                    if new_cal is None:
                        return rec
                    res.calendar = new_cal
                late = {'fam': 'cal', 'expr': late_expr(case), 'build': ['ok', None], 'q': [], 'cap': [], 'search': []}
                for t in case['q']:
                    late['cap'].append([t, obs(lambda: res.get_available_units(from_us(t)), frac_str)])
                    late['q'].append([t, obs(lambda: res.calendar.get_available_units(from_us(t)), frac_str)])
                for t, d, H in case['search']:
                    if H is not None:
                        late['search'].append([t, d, H, obs(lambda: res.get_nearest_availability_date(from_us(t), d, max_days=H), to_us)])
                rec['late'] = late
            except Exception as e:  # noqa
                rec['late'] = {'error': classify_exc(e)}
    return rec


def canon_time(j):
    """model time strings are rational microseconds; implementation's are ints"""
    if j[0] == 'ok' and j[1] is not None:
        f = Fraction(j[1])
        return ['ok', int(f) if f.denominator == 1 else str(f)]
    return j


def judge(prop, case, rec, out):
    m = out['model']
    info = {}
    eq = m['build'][0] == rec['build'][0] and (m['build'][0] == 'ok' or m['build'][1] == rec['build'][1])
    if not eq:
        info['build'] = {'model': m['build'], 'impl': rec['build']}
    if eq and m['build'][0] == 'ok':
        for name in ('q', 'cap'):
            for (t, iv), mv in zip(rec[name], m[name]):
                if iv != mv:
                    eq = False
                    info.setdefault(name, []).append({'t': t, 'impl': iv, 'model': mv})
        for (t, d, H, iv), mv in zip(rec['search'], m['search']):
            if canon_time(iv) != canon_time(mv):
                eq = False
                info.setdefault('search', []).append({'t': t, 'dir': d, 'H': H, 'impl': iv, 'model': mv})
    mon = dict(out['mon'])
    late = rec.get('late')
    if late is not None:
        if 'error' in late:
            eq = False
            info['late'] = late
        else:
            lo = common.run_driver([dict(late, id=0)])[0]
            lm = lo['model']
            same = lm['build'][0] == 'ok'
            for name in ('q', 'cap'):
                for (t, iv), mv in zip(late[name], lm[name]):
                    if iv != mv:
                        same = False
                        info.setdefault('late_' + name, []).append({'t': t, 'impl': iv, 'model': mv})
            for (t, d, H, iv), mv in zip(late['search'], lm['search']):
                if canon_time(iv) != canon_time(mv):
                    same = False
                    info.setdefault('late_search', []).append({'t': t, 'dir': d, 'H': H, 'impl': iv, 'model': mv})
            eq = eq and same
            # the statement's clauses, judged on what the same resource object reports after the change
            for k, v in lo['mon'].items():
                mon[k] = mon.get(k, True) and v
    has_op = case['expr'][0] == 'op'
    defined = any(v[0] == 'ok' and v[1] is not None for _, v in rec['q'])
    nontrivial = (has_op and defined) or rec['build'][0] == 'err'
    return Outcome(case, eq, mon, {}, nontrivial, common.digest(case), info)


def mutate(prop, case, rng):
    c = {'expr': case['expr'], 'q': list(case['q']), 'search': [list(s) for s in case['search']], 'floats': case.get('floats', False)}
    if case.get('late'):
        c['late'] = case['late']
    r = rng.random()
    if r < 0.4:
        c['q'] = sorted(set(c['q'] + [rnd_time(rng) for _ in range(8)] + [q + rng.choice([-1, 1, DAY_US, -DAY_US]) for q in c['q'][:8]]))[:40]
    elif r < 0.7:
        c['search'] = c['search'] + [[rnd_time(rng), rng.choice([1, -1]), rng.choice([0, 1, 2, 5, 9, 40])] for _ in range(4)]
    else:
        op = rng.choice(['add', 'sub', 'mul', 'div', 'or'])
        c['expr'] = ['op', op, c['expr'], rnd_expr(rng, 1, rng.random() < 0.3, op == 'div')]
        c.pop('late', None)
    return c


def count(prop, tier):
    return 3000 if tier == 'quick' else 60000


def projection(prop):
    return 'constructor outcome class; value/None/exception class per (definition, date); resource units; search result'


def rule(prop):
    return ('random calendar definitions (weekly list/dict, dated, fixed, scalars; operators + - * / | nested to depth 3-4; 25% with an '
            'invalid ingredient), queried on and around every validity bound and at random times of day, 3 searches each with horizons 0-30; '
            'non-trivial = has an operator and a defined value, or is rejected; distinct = distinct (definition, queries)')


def distribution(prop, cases, outcomes):
    d = {'rejected': 0, 'accepted': 0, 'ops': {}, 'leaf': {}, 'zero_division': 0, 'search_runtime': 0, 'search_ok': 0}

    def walk(e):
        if e[0] == 'op':
            d['ops'][e[1]] = d['ops'].get(e[1], 0) + 1
            walk(e[2]); walk(e[3])
        else:
            d['leaf'][e[0]] = d['leaf'].get(e[0], 0) + 1
    for c, o in zip(cases, outcomes):
        walk(c['expr'])
    return d


def expr_variants(e):
    """smaller well-formed definitions"""
    k = e[0]
    if k == 'op':
        yield e[2]
        if e[3][0] != 'N':
            yield e[3]
        for v in expr_variants(e[2]):
            yield ['op', e[1], v, e[3]]
        if e[3][0] != 'N':
            for v in expr_variants(e[3]):
                yield ['op', e[1], e[2], v]
        return
    if k in ('WL', 'WD'):
        if e[1] is not None:
            yield [k, None] + e[2:]
        if e[2] is not None:
            yield [k, e[1], None] + e[3:]
        for i in range(len(e[3])):
            yield e[:3] + [e[3][:i] + e[3][i + 1:]] + e[4:]
    elif k == 'D':
        k = e[2] if len(e) > 2 else len(e[1])
        for i in range(len(e[1])):
            yield ['D', e[1][:i] + e[1][i + 1:], k - 1 if i < k else k]
        if k > 0:
            yield ['D', e[1], k - 1]
    elif k == 'F':
        if e[2] is not None:
            yield ['F', e[1], None, e[3]]
        if e[3] is not None:
            yield ['F', e[1], e[2], None]


def case_variants(case):
    for key in ('q', 'search'):
        if case[key]:
            yield dict(case, **{key: []})
            for i in range(len(case[key])):
                yield dict(case, **{key: case[key][:i] + case[key][i + 1:]})
    for v in expr_variants(case['expr']):
        yield dict(case, expr=v)


def shrink(prop, case, still_fails):
    return common.shrink_with(case, case_variants, still_fails)
