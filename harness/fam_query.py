"""Query family (C18): _ImmutableTaskList.__call__ with keyword filters, bulk attribute assignment, remove_all."""
import re as _re
from fractions import Fraction
import common
from common import Outcome, frac_str, classify_exc

KINDS = ['', '_in_', '_not_in_', '_is_none_', '_is_not_none_', '_ne_', '_lt_', '_le_', '_gt_', '_ge_', '_like_', '_not_like_']
ATTRS = ['prio', 'tag', 'id', 'parent_id', 'estimate', 'spent', 'name', 'x_in_', 'missing', 'clone', 'mark2']
PATS = ['a', '^a', 'b$', 'a.c', '[0-9]', 'zz', '']
STRS = ['abc', 'a', 'bca', 'a1c', '', 'zz9']
NUMS = ['0', '1', '2', '3', '5/2', '8']


def enc(v):
    if v is None:
        return None
    if isinstance(v, str):
        return ['s', v]
    return ['n', frac_str(v)]


def dec(j, floats=False):
    if j is None:
        return None
    if j[0] == 's':
        return j[1]
    f = Fraction(j[1])
    return int(f) if f.denominator == 1 and not floats else float(f)


def random_case(prop, rng, tier):
    n = rng.randrange(2, 9)
    tasks = []
    for i in range(n):
        t = {'id': rng.randrange(1, 6) * 10 + i, 'parent': rng.choice([None] + list(range(i)) + [0, 0]) if i and rng.random() < 0.6 else None,
             'estimate': rng.choice([None, '0', '3', '5/2', '8']), 'spent': rng.choice([None, None, '1', '8']), 'dict': {}}
        if rng.random() < 0.7:
            t['dict']['prio'] = rng.choice([None, ['n', '1'], ['n', '2'], ['n', '3'], ['n', '5/2']])
        if rng.random() < 0.7:
            t['dict']['tag'] = rng.choice([None] + [['s', s] for s in STRS])
        if rng.random() < 0.3:
            t['dict']['x_in_'] = ['n', rng.choice(NUMS)]
        if rng.random() < 0.2:
            # a user attribute named like a member of the Task class: "lacking the attribute" still means "not set on this task"
            t['dict']['clone'] = rng.choice([None, ['s', rng.choice(STRS)], ['n', rng.choice(NUMS)]])
        tasks.append(t)
    filters = []
    nf = rng.choice([1, 1, 1, 2, 2, 3]) if rng.random() < 0.9 else 0      # one case in ten: the empty filter combination
    for _ in range(nf):
        a = rng.choice(ATTRS)
        k = rng.choice(KINDS)
        numeric = a in ('prio', 'id', 'parent_id', 'estimate', 'spent', 'x_in_') or (a == 'clone' and rng.random() < 0.5)
        if rng.random() < 0.08:
            numeric = not numeric            # type confusion: TypeError paths
        if k in ('_in_', '_not_in_'):
            v = ['many', [(['n', rng.choice(NUMS + ['11', '21', '30'])] if numeric else ['s', rng.choice(STRS)]) if rng.random() < 0.85 else None
                          for _ in range(rng.randrange(0, 4))]]
        elif k in ('_like_', '_not_like_'):
            v = ['pat', rng.choice(PATS)]
            if a not in ('tag', 'name', 'missing') and rng.random() < 0.8:
                a = rng.choice(['tag', 'name'])
        elif k in ('_is_none_', '_is_not_none_'):
            v = ['one', rng.choice([None, ['n', '1']])]
        else:
            v = ['one', (['n', rng.choice(NUMS + ['11', '21', '30'])] if numeric else ['s', rng.choice(STRS)]) if rng.random() < 0.9 else None]
        if v[0] == 'one' and rng.random() < 0.6:
            # take the value from the population, so that equality and comparisons select proper subsets
            src = rng.choice(tasks)
            pv = {'id': ['n', str(src['id'])], 'estimate': src['estimate'] and ['n', src['estimate']], 'spent': src['spent'] and ['n', src['spent']],
                  'parent_id': None if src['parent'] is None else ['n', str(tasks[src['parent']]['id'])]}.get(a, src['dict'].get(a))
            if pv is not None:
                v = ['one', pv]
        if a == 'mark2' and v[0] == 'one' and rng.random() < 0.7:
            v = ['one', ['s', 'second']]       # (the mark that tells the tasks of the second WBS from their id twins in a mixed dependency list)
        filters.append([a + k, v])
    # distinct keywords only (kwargs)
    seen, fs = set(), []
    for f in filters:
        if f[0] not in seen:
            seen.add(f[0])
            fs.append(f)
    if rng.random() < 0.08:
        # a callable filter (applied as a predicate); the keyword filters are not used then
        return {'tasks': tasks, 'filters': [], 'source': rng.choice(['tasks', 'roots', 'children0']), 'action': 'query', 'floats': False,
                'key': rng.choice([['id_mod', rng.randrange(2, 4)], ['has', rng.choice(['prio', 'tag'])], ['leaf'], ['const', rng.random() < 0.5]])}
    return {'tasks': tasks, 'filters': fs, 'source': rng.choice(['tasks', 'roots', 'children0', 'tasks', 'preds', 'succs']),
            'action': rng.choice(['query', 'query', 'bulk', 'remove']), 'floats': rng.random() < 0.4, 'bulkKind': rng.randrange(4)}


def build(case):
    from pjplan import Task, WBS
    w = WBS()
    objs = []
    for i, t in enumerate(case['tasks']):
        kw = {k: dec(v, case['floats']) for k, v in t['dict'].items()}
        if t['estimate'] is not None:
            kw['estimate'] = dec(['n', t['estimate']], case['floats'])
        if t['spent'] is not None:
            kw['spent'] = dec(['n', t['spent']], case['floats'])
        o = Task(t['id'], f"a{i}c" if i % 2 else f"b{i}", **kw)
        if t['parent'] is None:
            w // o
        else:
            objs[t['parent']] // o
        objs.append(o)
    return w, objs


def fval(v, floats):
    if v[0] == 'one':
        return dec(v[1], floats)
    if v[0] == 'many':
        return [dec(x, floats) for x in v[1]]
    return v[1]


def snapshot(w, objs):
    return [(o.id, None if o.parent is None else o.parent.id, [c.id for c in o.children], sorted(o.__dict__.items(), key=lambda kv: kv[0]).__repr__(),
             o.wbs is w) for o in objs]


def execute(prop, case):
    w, objs = build(case)
    if case['source'] in ('preds', 'succs'):
        # a list that is not a view of one tree: the predecessors of a free-standing task, drawn from this WBS and from a second WBS
        # built from the same case - different task objects sharing ids, in one list
        from pjplan import Task
        w_b, objs_b = build(case)
        for o in objs_b[::2]:
            o.mark2 = 'second'
        hub = Task(99999, 'hub')
        mixed = [x for pair in zip(objs, objs_b) for x in pair][:len(objs) + 2]
        objs = objs + objs_b
        if case['source'] == 'preds':
            hub.predecessors = mixed
            src = hub.predecessors
        else:
            hub.successors = mixed
            src = hub.successors
    else:
        src = w.tasks if case['source'] == 'tasks' else (w.roots if case['source'] == 'roots' else max(objs, key=lambda o: len(o.children)).children)
    src_list = list(src)
    pos = {id(o): i for i, o in enumerate(src_list)}
    uid = {id(o): u for u, o in enumerate(objs)}
    kwargs = {k: fval(v, case['floats']) for k, v in case['filters']}
    rec = {'fam': 'query', 'filters': case['filters']}
    rec['tasks'] = [{'id': enc(o.id), 'parent_id': enc(o.parent.id if o.parent else None), 'estimate': enc(o.estimate), 'spent': enc(o.spent),
                     'dict': [[k, enc(v)] for k, v in o.__dict__.items() if not k.startswith('_') and (v is None or isinstance(v, (int, float, str)) and not isinstance(v, bool))]}
                    for o in src_list]
    # re.search truth table for the (pattern, string) pairs this case can ask for
    pats = [v[1] for _, v in case['filters'] if v[0] == 'pat']
    strs = set()
    for o in src_list:
        for v in list(o.__dict__.values()):
            if isinstance(v, str):
                strs.add(v)
    rec['re'] = [[p, s, bool(_re.search(p, s))] for p in pats for s in strs]
    before = snapshot(w, objs)
    if case.get('key'):
        k = case['key']
        pred = {'id_mod': lambda t: t.id % k[1] == 0, 'has': lambda t: k[1] in t.__dict__ and t.__dict__[k[1]] is not None,
                'leaf': lambda t: len(t.children) == 0, 'const': lambda t: k[1]}[k[0]]
        res = src(pred)
        rec['obs'] = ['ok', [pos[id(o)] for o in res]]
        rec['unchanged'] = snapshot(w, objs) == before
        rec['extra'] = [id(o) for o in res] == [id(o) for o in src_list if pred(o)]
        rec['callable'] = True
        return rec
    try:
        res = src(**kwargs)
        rec['obs'] = ['ok', [pos[id(o)] for o in res]]
        matched = list(res)
    except Exception as e:  # noqa
        rec['obs'] = ['err', classify_exc(e)]
        matched = None
    rec['unchanged'] = snapshot(w, objs) == before
    rec['extra'] = True
    if matched is not None and case['action'] == 'bulk':
        # every task of the list gets the attribute with exactly that value (None included; a task that lacked it gets it too), no other does
        name, val = {0: ('mark', 'M'), 1: ('mark', None), 2: ('tag', 'abc'), 3: ('flag2', None)}[case.get('bulkKind', 0)]
        had = {id(o): (name in o.__dict__, o.__dict__.get(name)) for o in objs}
        setattr(res, name, val)
        rec['extra'] = all((name in o.__dict__ and o.__dict__[name] is val) if any(o is m for m in matched)
                           else ((name in o.__dict__, o.__dict__.get(name)) == had[id(o)]) for o in objs)
    elif matched is not None and case['action'] == 'remove' and case['source'] in ('preds', 'succs'):
        # remove_all on a dependency list: exactly the matching tasks leave the list (and lose the hub on their mirror side), and are returned
        ret = src.remove_all(**kwargs)
        left = list(hub.predecessors if case['source'] == 'preds' else hub.successors)
        want = [o for o in src_list if not any(o is m for m in matched)]
        mirror = (lambda o: o.successors) if case['source'] == 'preds' else (lambda o: o.predecessors)
        rec['extra'] = [id(o) for o in ret] == [id(o) for o in matched] and [id(o) for o in left] == [id(o) for o in want] and \
            all(any(s is hub for s in mirror(o)) == (not any(o is m for m in matched)) for o in src_list)
    elif matched is not None and case['action'] == 'remove' and case['source'] in ('tasks', 'roots'):
        shape = {id(o): (o.parent, [id(c) for c in o.children]) for o in objs}
        if case['source'] == 'tasks':
            ret = w.remove_all(**kwargs)
        else:
            ret = w.roots.remove_all(**kwargs)
        gone = set()
        for m in matched:
            gone.add(id(m))
            for d in m.all_children:
                gone.add(id(d))
        # what was removed: exactly the matched tasks with their subtrees (roots.remove_all only removes root tasks it lists)
        still = set(id(t) for t in w.tasks)
        rec['extra'] = [uid[id(o)] for o in ret] == [uid[id(o)] for o in matched] and \
            all((id(o) in still) == (id(o) not in gone) for o in objs) and all(o.wbs is None for o in objs if id(o) in gone)
        # "with their subtrees": a removed branch leaves in one piece - below a removed task nothing moves (a match nested in another match
        # stays where it is inside the removed branch); only the top-most removed tasks lose their parent
        for o in objs:
            if id(o) in gone:
                par, kids = shape[id(o)]
                top = par is None or id(par) not in gone
                rec['extra'] = rec['extra'] and [id(c) for c in o.children] == kids and (o.parent is None if top else o.parent is par)
    return rec


def judge(prop, case, rec, out):
    if rec.get('callable'):
        # no keyword filter is involved: the oracle is the predicate itself (evaluated by the harness), the model is not consulted
        mon = {'pure': rec['unchanged'], 'callableExact': rec['extra']}
        return Outcome(case, True, mon, {}, 0 < len(rec['obs'][1]) < len(rec['tasks']), common.digest(case), {})
    m = out['model']
    eq = m == rec['obs'] or (m[0] == 'err' and rec['obs'][0] == 'err' and m[1] == rec['obs'][1])
    info = {} if eq else {'model': m, 'impl': rec['obs']}
    mon = dict(out['mon'])
    mon['pure'] = rec['unchanged']
    mon['bulkOrRemoveExact'] = rec['extra']
    nontrivial = rec['obs'][0] == 'ok' and 0 < len(rec['obs'][1]) < len(rec['tasks'])
    info['defined'] = out.get('specDefined')
    return Outcome(case, eq, mon, {}, nontrivial, common.digest(case), info)


def case_variants(case):
    if len(case['filters']) > 1:
        for i in range(len(case['filters'])):
            yield dict(case, filters=case['filters'][:i] + case['filters'][i + 1:])
    n = len(case['tasks'])
    for k in range(n - 1, 0, -1):
        if any(t['parent'] == k for t in case['tasks']):
            continue
        nt = [dict(t) for i, t in enumerate(case['tasks']) if i != k]
        for t in nt:
            if t['parent'] is not None and t['parent'] > k:
                t['parent'] -= 1
        yield dict(case, tasks=nt)
    if case['action'] != 'query':
        yield dict(case, action='query')


def shrink(prop, case, still_fails):
    return common.shrink_with(case, case_variants, still_fails)


def mutate(prop, case, rng):
    c = random_case(prop, rng, 'quick')
    return dict(case, filters=c['filters'])


def count(prop, tier):
    return 2000 if tier == 'quick' else 60000


def projection(prop):
    return 'positions of the selected tasks in list order, or the exception class'


def rule(prop):
    return ('random task populations (attributes present / None / absent, numbers and strings, properties estimate/spent, id, parent_id, an '
            'attribute whose own name ends in a suffix fragment) x 1-3 keyword filters over all 12 kinds incl. type-confused values; '
            'sources: WBS.tasks, roots, children, the predecessor list of a free-standing task that mixes tasks of two WBSs sharing ids; a third of the cases continue with bulk assignment or remove_all on the result; '
            'non-trivial = a proper non-empty subset is selected; distinct = distinct (population, filters)')


def distribution(prop, cases, outcomes):
    d = {'kinds': {}, 'actions': {}, 'errors': 0}
    for c, o in zip(cases, outcomes):
        for k, _ in c['filters']:
            for s in sorted(KINDS, key=len, reverse=True):
                if s and k.endswith(s):
                    d['kinds'][s] = d['kinds'].get(s, 0) + 1
                    break
            else:
                d['kinds']['='] = d['kinds'].get('=', 0) + 1
        d['actions'][c['action']] = d['actions'].get(c['action'], 0) + 1
        d['errors'] += o.info.get('defined') is False
    return d
