"""Print family (C20): _Repr.repr / TextTable against Model/Print.lean; line count and alignment judged on the
implementation's text by the driver, indentation / order / link columns / usage table judged here on the real text."""
import re
from datetime import datetime, timedelta
import common
from common import Outcome, classify_exc

FIELDS = ['id', 'name', 'resource', 'estimate', 'spent', 'start', 'end', 'predecessors', 'successors', 'parent', 'tag', 'Tag', 'nope', 'RESOURCE', 'milestone', 'children', 'wbs', 'clone']
NAMES = ['short', None, 'a much longer task name than the rest', 'ünïcödé ✓', '', 'x' * 40, 'with  spaces']
COLORS = ['94m', '96m', '93m', '95m', '91m', '97m', '92m', '1;94m', '38;5;208m', '1m', '0m']        # (also bold, 256-colour and one-digit codes: a colour code is any SGR parameter string)
ANSI = re.compile(r'\x1b\[[^m]*m')


def random_case(prop, rng, tier):
    n = rng.randrange(1, 9)
    tasks = []
    for i in range(n):
        t = {'id': rng.choice([i + 1, 1000 + i, -i]), 'parent': rng.randrange(i) if i and rng.random() < 0.6 else None, 'name': rng.choice(NAMES),
             'resource': rng.choice([None, 'ann', 'a-very-long-resource-name']), 'estimate': rng.choice([None, 3, 2.5, 100000]), 'spent': rng.choice([None, 0, 1.5]),
             'start': rng.randrange(0, 400) if rng.random() < 0.5 else None, 'custom': {}, 'other': rng.random() < 0.15, 'detached': rng.random() < 0.12}
        if rng.random() < 0.4:
            t['custom']['tag'] = rng.choice(['T', None, 'long tag value here', 7, 'note ' + 'x' * 130])      # (values of any length)
        if rng.random() < 0.05:
            t['name'] = 'a task with a very long name ' + 'n' * 100
        if rng.random() < 0.15:
            t['custom']['print_color'] = rng.choice(COLORS + [None])
        tasks.append(t)
    links = [[rng.randrange(n), rng.randrange(n)] for _ in range(rng.randrange(0, n + 1))]
    k = rng.randrange(1, 6)
    fields = rng.sample(FIELDS, k) if rng.random() < 0.8 else None
    theme = None
    if rng.random() < 0.4:
        theme = {'level_colors': rng.sample(COLORS, rng.randrange(0, 4))}
        if rng.random() < 0.5:
            theme['header_color'] = rng.choice(COLORS + [None])          # None = plain text
        if theme['level_colors'] and rng.random() < 0.3:
            theme['level_colors'][rng.randrange(len(theme['level_colors']))] = None
    if rng.random() < 0.3:
        # two projects numbered alike: tasks of the other WBS take ids of tasks of this one
        mine = [t['id'] for t in tasks if not t['other'] and not t['detached']]
        for t in tasks:
            if t['other'] and t['parent'] is None and mine:
                t['id'] = rng.choice(mine)
    return {'tasks': tasks, 'links': links, 'fields': fields, 'children': rng.random() < 0.7, 'theme': theme,
            'what': rng.choice(['wbs', 'task', 'list', 'preds']), 'usage': rng.random() < 0.2,
            'usageStart': rng.choice([[2024, 1, 1], [2024, 1, 29], [2024, 12, 30], [2024, 2, 26]])}


def build(case):
    from pjplan import Task, WBS
    w, w2 = WBS(), WBS()
    objs = []
    for i, t in enumerate(case['tasks']):
        kw = dict(t['custom'])
        if t['start'] is not None:
            kw['start'] = datetime(2024, 1, 1) + timedelta(days=t['start'], hours=9)
        o = Task(t['id'], t['name'], resource=t['resource'], estimate=t['estimate'], spent=t['spent'], **kw)
        if t['parent'] is None:
            if t.get('detached') and i > 0:
                pass            # a task (tree) that belongs to no WBS: links to it leave the WBS
            else:
                try:
                    (w2 if t['other'] else w) // o
                except RuntimeError:
                    pass        # an id already taken in that WBS: the task stays outside every WBS
        else:
            try:
                objs[t['parent']] // o
            except RuntimeError:
                try:
                    w // o
                except RuntimeError:
                    pass
        objs.append(o)
    for a, b in case['links']:
        if a != b:
            try:
                objs[a] >> objs[b]
            except RuntimeError:
                pass
    return w, w2, objs


def execute(prop, case):
    from pjplan.task import _Repr, EMPTY_TASK_ID
    from pjplan.utils import GREY, RED, BLUE, TEAL, YELLOW, PINK
    w, w2, objs = build(case)
    hub = None
    if case['what'] == 'preds':
        # a dependency list: it may hold tasks of several WBSs, hence different tasks with one id
        from pjplan import Task
        hub = Task(987654, 'hub')
        try:
            hub.predecessors = [o for o in objs if o.wbs is not None and not o.predecessors][:5]
        except RuntimeError:
            pass
        objs = objs + [hub]
    allobjs = objs + [w._root(), w2._root()]
    uid = {id(o): u for u, o in enumerate(allobjs)}
    wb = {id(w): 0, id(w2): 1}
    if case['what'] == 'wbs':
        shown = list(w.roots)
    elif case['what'] == 'task':
        shown = [objs[0]]
    elif case['what'] == 'preds':
        shown = list(hub.predecessors)
    else:
        shown = [o for o in objs[::2]]
    rec = {'fam': 'print', 'shown': [uid[id(o)] for o in shown], 'children': case['children']}
    fields = case['fields'] or ['id', 'name', 'resource', 'estimate', 'spent', 'start', 'end', 'predecessors']
    rec['fields'] = fields
    theme = case['theme']
    eff = theme or {'header_color': RED, 'level_colors': [BLUE, TEAL, YELLOW, PINK, RED, GREY]}
    rec['header'] = eff['header_color'] if 'header_color' in eff else GREY
    rec['levels'] = ['' if c is None else c for c in eff['level_colors']]      # an unset colour and the empty colour both mean plain text
    rows = []
    for o in allobjs:
        d = []
        for k, v in o.__dict__.items():
            if k.startswith('_'):
                continue
            d.append([k, None if v is None else (v.strftime('%d.%m.%Y %H:%M') if isinstance(v, datetime) else str(v))])
        rows.append({'id': str(o.id), 'root': o.id == EMPTY_TASK_ID, 'name': o.name, 'estimate': None if o.estimate is None else str(o.estimate),
                     'spent': None if o.spent is None else str(o.spent), 'dict': d, 'children': [uid[id(c)] for c in o.children],
                     'preds': [uid[id(p)] for p in o.predecessors], 'succs': [uid[id(p)] for p in o.successors],
                     'parent': None if o.parent is None else uid[id(o.parent)], 'owner': None if o.wbs is None else wb[id(o.wbs)]})
    rec['tasks'] = rows
    try:
        rec['obs'] = _Repr.repr(shown, case['fields'], case['children'], theme)
        rec['out'] = 'ok'
    except Exception as e:  # noqa
        rec['obs'] = ''
        rec['out'] = classify_exc(e)
    # judged on the real text: order, indentation, link columns
    py = {}
    if rec['out'] == 'ok' and fields:
        lines = [ANSI.sub('', l) for l in rec['obs'].split('\n')]
        order = []

        def walk(o, level):
            order.append((o, level))
            if case['children']:
                for c in o.children:
                    walk(c, level + 1)
        for o in shown:
            walk(o, 0)
        py['oneLinePerTask'] = len(lines) == 1 + len(order)
        if py['oneLinePerTask'] and 'name' in fields and all('\n' not in (o.name or '') for o, _ in order):
            widths = col_widths(lines[0], fields, order, case)
            py['indent'] = True
            # the name column starts after the preceding columns; cut it out by the header's position
            pos = lines[0].find(' NAME ')
            if pos >= 0 and fields.count('name') == 1:
                for (o, level), line in zip(order, lines[1:]):
                    cell = line[pos + 1:]
                    want = '   ' * level + (o.name or '')
                    py['indent'] = py['indent'] and cell.startswith(want)
        if py['oneLinePerTask'] and 'predecessors' in fields:
            ok = True
            for (o, _), line in zip(order, lines[1:]):
                want = '[' + ','.join(('' if p.id == EMPTY_TASK_ID else str(p.id) + ('(external)' if p.wbs != o.wbs else '')) for p in o.predecessors) + ']'
                ok = ok and (' ' + want + ' ') in line
            py['links'] = ok
    if case.get('usage'):
        py['usageTable'] = usage_table_ok(case)
    if rec['out'] == 'ok':
        # the public entry points (repr(...), .print(...)) of the WBS, the task or the task list must show the very same sheet
        import io
        import contextlib
        target = w if case['what'] == 'wbs' else (objs[0] if case['what'] == 'task' else (hub.predecessors if case['what'] == 'preds' else objs[0].children))
        want_target = shown if case['what'] != 'list' else list(objs[0].children)
        try:
            buf = io.StringIO()
            with contextlib.redirect_stdout(buf):
                target.print(case['fields'], case['children'], theme)
            printed = buf.getvalue()
            direct = _Repr.repr(want_target, case['fields'], case['children'], theme)
            py['printEntryPoint'] = printed == direct + '\n'
            py['reprEntryPoint'] = repr(target) == _Repr.repr(want_target)
        except Exception:  # noqa
            py['printEntryPoint'] = False
    rec['py'] = py
    return rec


def usage_table_ok(case):
    """the resource-usage table has a header line plus one line per day from the first to the last reservation"""
    import fam_sched
    from pjplan import Task, WBS, ForwardScheduler, Resource, WeeklyCalendar
    w = WBS()
    for i, t in enumerate(case['tasks']):
        w // Task(i + 1, f't{i}', resource=t['resource'], estimate=(t['estimate'] or 0) % 50)
    fam_sched.set_clock([fam_sched.to_us(datetime(2023, 12, 1))])
    y, mo, d = case.get('usageStart', [2024, 1, 1])
    sch = ForwardScheduler(start=datetime(y, mo, d), resources=[Resource('ann', WeeklyCalendar(days=[0, 2, 4], units_per_day=4))]).calc(w)
    rows = sch.resource_usage.rows()
    text = repr(sch.resource_usage)
    if not rows:
        return text == 'Empty'
    lines = [ANSI.sub('', l) for l in text.split('\n')]
    days = sorted(set(r.date for r in rows))
    n = (days[-1] - days[0]).days + 1
    labels = [(days[0] + timedelta(days=k)).strftime('%y-%m-%d') for k in range(n)]
    return len(lines) == n + 1 and all(lab in line for lab, line in zip(labels, lines[1:])) and len(set(len(l) for l in lines)) == 1


def col_widths(header, fields, order, case):
    return None


def judge(prop, case, rec, out):
    eq = rec['out'] == 'ok' and out['text'] == rec['obs']
    info = {}
    if not eq:
        info['mismatch'] = {'impl_out': rec['out'], 'model': out['text'][:400], 'impl': rec['obs'][:400]}
    mon = dict(out['mon']) if rec['out'] == 'ok' else {'accepted': False}
    mon.update({k: bool(v) for k, v in rec['py'].items()})
    nontrivial = rec['out'] == 'ok' and len(rec['shown']) >= 1 and len(case['tasks']) >= 3
    return Outcome(case, eq, mon, {}, nontrivial, common.digest(case), info)


def case_variants(case):
    n = len(case['tasks'])
    if case['links']:
        yield dict(case, links=[])
    if case['fields'] and len(case['fields']) > 1:
        for i in range(len(case['fields'])):
            yield dict(case, fields=case['fields'][:i] + case['fields'][i + 1:])
    if case['theme']:
        yield dict(case, theme=None)
    for k in range(n - 1, 0, -1):
        if any(t['parent'] == k for t in case['tasks']):
            continue
        nt = [dict(t) for i, t in enumerate(case['tasks']) if i != k]
        for t in nt:
            if t['parent'] is not None and t['parent'] > k:
                t['parent'] -= 1
        nl = [[a - (a > k), b - (b > k)] for a, b in case['links'] if a != k and b != k]
        yield dict(case, tasks=nt, links=nl)


def shrink(prop, case, still_fails):
    return common.shrink_with(case, case_variants, still_fails, max_tests=200)


def mutate(prop, case, rng):
    return random_case(prop, rng, 'quick')


def count(prop, tier):
    return 3000 if tier == 'quick' else 50000


def projection(prop):
    return 'the text of the sheet, colour codes included'


def rule(prop):
    return ('random WBSs (1-8 tasks, two WBSs and detached task trees so that links can be external), names None / empty / long / non-ASCII, attributes of any '
            'length, 1-5 fields drawn from standard, custom, differently-cased and unknown names or the default list, children on/off, '
            'themes with too few level colours and without header colour, per-task print_color; printed object: WBS roots, one task, a task '
            'list; non-trivial = >= 3 tasks')


def distribution(prop, cases, outcomes):
    return {'default_fields': sum(1 for c in cases if c['fields'] is None), 'themes': sum(1 for c in cases if c['theme'])}
