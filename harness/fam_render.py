"""Render family (C19): Mermaid Gantt source, Mermaid network source and DHTMLX data against Model/Render.lean; the
readers of Spec/Render.lean judge the implementation's texts; JSON well-formedness, the HTML-escaped notebook
representation and the template substitution are judged here."""
import json, re
import datetime as _dt
from datetime import datetime, timedelta
from html import escape, unescape
from fractions import Fraction
import common
from common import Outcome, frac_str, classify_exc

NAMES = ['Build }} --> 99((extra))', 'open {{ only', 'plain', 'a: b', 'say "hi"', '{curly} {{x}}', '<b>bold</b>', 'cost $5 $name ${x}', 'id_7, 01.01.2024 00:00', 'ünï ✓', "it's", 'a --> b', 'x}} --> 7{{y', 'semi;colon', '</script>', '%d', '\\n back\\slash', 'Fix NaN handling', 'null', 'true or True', 'Infinity', 'undefined']
NOW = datetime(2024, 1, 16, 12, 0)      # in the middle of the generated dates: finished, running and future tasks all occur


class FakeDT(_dt.datetime):
    @classmethod
    def now(cls, tz=None):
        return cls(NOW.year, NOW.month, NOW.day, NOW.hour, NOW.minute)


def set_clock():
    import pjplan.viz.mermaid.gantt as G
    import pjplan.viz.dhtmlx.gantt as D
    G.datetime = FakeDT
    D.datetime = FakeDT


def _chain(tasks, i):
    while i is not None:
        yield i
        i = tasks[i]['parent']


def random_case(prop, rng, tier):
    n = rng.randrange(1, 9)
    tasks = []
    braces = rng.random() < 0.35
    for i in range(n):
        s = rng.randrange(0, 120)
        nm = rng.choice(NAMES)
        if not braces and ('{' in nm or '}' in nm):
            nm = 'plain' + str(i)
        t = {'id': rng.choice([i + 1, 100 + i, -i - 1]), 'parent': rng.randrange(i) if i and rng.random() < 0.5 else None, 'name': nm,
             'start': s * 6, 'dur': rng.randrange(0, 200), 'milestone': rng.random() < 0.15, 'estimate': rng.choice([0, 2, 8, 4, 0.5]),       # powers of two: spent / estimate is exact in floating point
             'spent': rng.choice([None, 0, 1, 10, 3, 0.25]), 'section': rng.choice([None, None, 'S1', 'Sec two']) if rng.random() < 0.5 else None,
             'bar': rng.random() < 0.2, 'net': rng.random() < 0.2}
        # a dated task of another project: links to it leave the rendered WBS (it has no line / entry of its own, the link stays)
        t['outside'] = bool(i) and t['parent'] is None and rng.random() < 0.12
        t['clash'] = rng.random() < 0.1
        tasks.append(t)
    ids = set()
    for t in tasks:
        while t['id'] in ids:
            t['id'] += 1000
        ids.add(t['id'])
    links = [[rng.randrange(n), rng.randrange(n)] for _ in range(rng.randrange(0, n + 2))]
    # ids are unique inside one project only: a task of the other project may carry the id of a member - and both may precede one task
    outs = [i for i, t in enumerate(tasks) if t['outside']]
    ins = [i for i, t in enumerate(tasks) if not t['outside'] and not any(tasks[j]['outside'] for j in _chain(tasks, i))]
    if outs and ins and rng.random() < 0.5:
        o, m = rng.choice(outs), rng.choice(ins)
        if not any(t['parent'] == o for t in tasks):
            tasks[o]['id'] = tasks[m]['id']
            tgt = rng.choice(ins)
            links += [[o, tgt], [m, tgt]]
    return {'tasks': tasks, 'links': links, 'title': rng.choice([None, 'My plan', 'T: x']), 'weekends': rng.random() < 0.5,
            'tick': rng.choice([None, '1week', '']), 'lateEdit': rng.random() < 0.25}


def build(case):
    from pjplan import Task, WBS
    w = WBS()
    w2 = WBS()
    objs = []
    for i, t in enumerate(case['tasks']):
        st = datetime(2024, 1, 1) + timedelta(hours=t['start'])
        kw = {}
        if t['section'] is not None:
            kw['gantt_section'] = t['section']
        if t['bar']:
            kw['gantt_bar_style'] = {'fill': 'red', 'progress': {'fill': 'blue'}}
            kw['gantt_text_style'] = {'color': 'white'}
        if t['net']:
            kw['network_bar_style'] = {'fill': '#f9f', 'stroke': '#333'}
        if t.get('clash'):
            # free-form user attributes that happen to be named like keys of a rendered entry: they must not replace what is computed
            kw.update({'text': 'see ticket #42', 'progress': '150%', 'type': 'story', 'open': 'no', 'start_date': 'tbd'})
        o = Task(t['id'], t['name'], start=st, end=st + timedelta(hours=0 if t['milestone'] else t['dur']), milestone=t['milestone'],
                 estimate=t['estimate'], spent=t['spent'], **kw)
        if t['parent'] is None:
            (w2 if t.get('outside') else w) // o
        else:
            objs[t['parent']] // o
        objs.append(o)
    for a, b in case['links']:
        if a != b:
            try:
                objs[a] >> objs[b]
            except RuntimeError:
                pass
    return w, objs


def execute(prop, case):
    from pjplan import MermaidGantt, MermaidNetwork, DhtmlxGantt
    set_clock()
    w, objs = build(case)
    renderers = None
    if case.get('lateEdit'):
        # the renderer objects exist before the plan is edited: they must show the plan as it is when it is rendered
        from pjplan import Task
        try:
            renderers = (MermaidGantt(w, title=case['title'], weekends=case['weekends'], tick_interval=case['tick']), MermaidNetwork(w), DhtmlxGantt(w))
        except Exception:  # noqa
            renderers = None
        objs[0].name = (objs[0].name or '') + ' (edited)'
        objs[0].end = objs[0].end + timedelta(hours=1)
        late = Task(9000 + len(objs), 'late addition', start=datetime(2024, 1, 20), end=datetime(2024, 1, 21, 12), estimate=2)
        w // late
        objs.append(late)
        for r in reversed(list(w.roots)):
            if r is not objs[0] and r is not late and not r.children and not r.predecessors and not r.successors:
                w.remove(r)
                break
    uid = {id(o): u for u, o in enumerate(objs)}
    members = list(w.tasks)
    f1 = lambda d: d.strftime('%d.%m.%Y %H:%M')
    f2 = lambda d: d.strftime('%d-%m-%Y %H:%M')
    rec = {'fam': 'render', 'title': case['title'], 'weekends': case['weekends'], 'tick': case['tick']}
    rec['gantt'] = [{'id': str(t.id), 'name': t.name, 'milestone': bool(t.milestone), 'done': t.end <= NOW, 'active': t.start < NOW,
                     'start': f1(t.start), 'end': f1(t.end), 'section': t.__dict__.get('gantt_section')} for t in members]
    rec['network'] = [{'id': str(o.id), 'name': o.name, 'preds': [uid[id(p)] for p in o.predecessors],
                       'style': None if 'network_bar_style' not in o.__dict__ else ','.join(f'{k}:{v}' for k, v in o.network_bar_style.items())}
                      for o in objs]
    rec['members'] = [uid[id(t)] for t in members]
    rec['dhtmlx'] = [{'id': o.id, 'name': o.name, 'milestone': bool(o.milestone), 'start': f2(o.start), 'end': f2(o.end), 'endPast': o.end < NOW,
                      'estimate': frac_str(Fraction(o.estimate)), 'spent': None if o.spent is None else frac_str(Fraction(o.spent)),
                      'parent': None if o.parent is None else uid[id(o.parent)], 'children': [uid[id(c)] for c in o.children],
                      'preds': [uid[id(p)] for p in o.predecessors]} for o in objs]
    rec['roots'] = [uid[id(r)] for r in w.roots]
    py = {}
    try:
        if renderers is not None:
            g, nw, dh = renderers
        else:
            g = MermaidGantt(w, title=case['title'], weekends=case['weekends'], tick_interval=case['tick'])
            nw = MermaidNetwork(w)
            dh = DhtmlxGantt(w)
        rec['obsGantt'] = g._MermaidGantt__src()
        rec['obsNetwork'] = nw._MermaidNetwork__src()
        classes = dh._DhtmlxGantt__task_classes()[1]
        raw = dh._DhtmlxGantt__data(classes)
        doc = json.loads(raw)                       # well-formed JSON
        rec['obsData'] = [[e['id'], e['text'], e['type'] == 'milestone', e['start_date'], e['end_date'], e['parent'], frac_str(Fraction(e['progress']))]
                          for e in doc['data']]
        rec['obsLinks'] = [[l['id'], l['source'], l['target']] for l in doc['links']]
        html = dh.to_html()
        py['jsonEmbedded'] = raw in html
        py['reprIsEscaped'] = all(unescape(re.search(r'srcdoc="(.*?)" width', x._repr_html_(), re.S).group(1)) == x.to_html() and
                                  escape(x.to_html()) in x._repr_html_() for x in (g, nw, dh))
        py['ganttInHtml'] = rec['obsGantt'] in g.to_html() and rec['obsNetwork'] in nw.to_html()
        rec['out'] = 'ok'
    except Exception as e:  # noqa
        rec['out'] = classify_exc(e)
        rec.setdefault('obsGantt', '')
        rec.setdefault('obsNetwork', '')
    rec['py'] = py
    return rec


def judge(prop, case, rec, out):
    info = {}
    eq = rec['out'] == 'ok'
    if eq:
        for k, o in (('gantt', 'obsGantt'), ('network', 'obsNetwork')):
            if out[k] != rec[o]:
                eq = False
                info[k] = {'model': out[k][:300], 'impl': rec[o][:300]}
        md = [[e[0], e[1], e[2], e[3], e[4], e[5], str(Fraction(e[6]))] for e in out['data']]
        idt = [[e[0], e[1], e[2], e[3], e[4], e[5], str(Fraction(e[6]))] for e in rec['obsData']]
        if md != idt:
            eq = False
            info['data'] = {'model': md[:3], 'impl': idt[:3]}
        if out['links'] != rec['obsLinks']:
            eq = False
            info['links'] = {'model': out['links'], 'impl': rec['obsLinks']}
    else:
        info['out'] = rec['out']
    mon = dict(out['mon']) if rec['out'] == 'ok' else {'accepted': False}
    mon.update({k: bool(v) for k, v in rec['py'].items()})
    if rec['out'] == 'ok':
        ids = [e[0] for e in rec['obsData']]
        mon['oneEntryPerTask'] = sorted(ids) == sorted(rec['dhtmlx'][u]['id'] for u in rec['members']) and len(ids) == len(set(ids))
        lid = [l[0] for l in rec['obsLinks']]
        mon['linksNumbered'] = lid == list(range(1, len(lid) + 1))
        # one link per dependency of a task of the WBS (links to tasks of other projects included)
        deps = sorted([rec['dhtmlx'][p]['id'], rec['dhtmlx'][u]['id']] for u in rec['members'] for p in rec['dhtmlx'][u]['preds'])
        mon['oneLinkPerDependency'] = sorted([l[1], l[2]] for l in rec['obsLinks']) == deps
        mon['progressInRange'] = all(0 <= Fraction(e[6]) <= 1 for e in rec['obsData'])
        # every entry shows its own task: the name as it is (text in names cannot alter entries), the dates as formatted by the harness
        byid = {rec['dhtmlx'][u]['id']: rec['dhtmlx'][u] for u in rec['members']}
        memb = set(rec['members'])
        pid = lambda d: 0 if d['parent'] is None or d['parent'] not in memb else rec['dhtmlx'][d['parent']]['id']
        mon['entryShowsItsTask'] = all(e[0] in byid and (byid[e[0]]['name'] is None or e[1] == byid[e[0]]['name']) and
                                       e[3] == byid[e[0]]['start'] and e[4] == byid[e[0]]['end'] and e[5] == pid(byid[e[0]])
                                       for e in rec['obsData'])
        # "grouped under its section": when the chart has more than one section (tasks without one form the section '-'), every task line
        # follows the header of its own section.  Headers are indented by two blanks, task lines by four, and a task line ends with its id
        # and dates - a single-line name cannot imitate either.
        want = {e['id']: (e['section'] if e['section'] is not None else '-') for e in rec['gantt']}
        if len(set(want.values())) >= 2:
            cur, ok = None, True
            for line in rec['obsGantt'].split('\n'):
                h = re.match(r'^  section (.*)$', line)
                if h:
                    cur = h.group(1)
                    continue
                t = re.search(r'id_(-?\d+), \d\d\.\d\d\.\d{4} \d\d:\d\d, \d\d\.\d\d\.\d{4} \d\d:\d\d$', line)
                if t and line.startswith('    ') and t.group(1) in want:
                    ok = ok and cur == want[t.group(1)]
            mon['groupedUnderSection'] = ok
    hyp = {}
    sig = None
    # (until the repair of KF-R1 a failing network clause on a name with braces was a known finding; the clause is now claimed for
    # every single-line name)
    nontrivial = rec['out'] == 'ok' and len(case['tasks']) >= 3
    return Outcome(case, eq, mon, hyp, nontrivial, common.digest(case), info, sig)


def case_variants(case):
    n = len(case['tasks'])
    if case['links']:
        yield dict(case, links=[])
    for k in range(n - 1, 0, -1):
        if any(t['parent'] == k for t in case['tasks']):
            continue
        nt = [dict(t) for i, t in enumerate(case['tasks']) if i != k]
        for t in nt:
            if t['parent'] is not None and t['parent'] > k:
                t['parent'] -= 1
        nl = [[a - (a > k), b - (b > k)] for a, b in case['links'] if a != k and b != k]
        yield dict(case, tasks=nt, links=nl)
    for i, t in enumerate(case['tasks']):
        if t['name'] != 'plain':
            nt = [dict(x) for x in case['tasks']]
            nt[i]['name'] = 'plain'
            yield dict(case, tasks=nt)


def shrink(prop, case, still_fails):
    return common.shrink_with(case, case_variants, still_fails, max_tests=200)


def mutate(prop, case, rng):
    return random_case(prop, rng, 'quick')


def count(prop, tier):
    return 2000 if tier == 'quick' else 20000


def projection(prop):
    return 'the Gantt source, the network source, the DHTMLX data entries (id, text, type, dates, parent, progress) and links'


def rule(prop):
    return ('random scheduled WBSs (1-8 tasks, hierarchy, links, milestones, sections, bar/text/network styles) with single-line names '
            'containing quotes, braces, angle brackets, $ and ${..}, colons, commas, "id_7, date" look-alikes, arrows, </script>, non-ASCII; '
            'scripted clock; three renderers each; non-trivial = >= 3 tasks')


def distribution(prop, cases, outcomes):
    return {'with_braces': sum(1 for c in cases if any('{' in t['name'] or '}' in t['name'] for t in c['tasks'])),
            'with_sections': sum(1 for c in cases if any(t['section'] for t in c['tasks']))}
