"""Clone family (C10): WBS.clone / WBS.subtree on states reached through the mutation API, against Model/Clone.lean
(the copy is replayed through the model's own setters on fresh uids) and the predicates of Spec/Clone.lean."""
import common
from common import Outcome, classify_exc
import fam_graph
from fam_graph import Universe, rand_op


def random_case(prop, rng, tier):
    g = fam_graph.random_case('C01', rng, tier)
    u = fam_graph.new_universe(g)
    for op in g['ops']:
        try:
            u.apply(u.concretise(op))
        except Exception:  # noqa
            pass
    w = rng.randrange(len(u.wbs))
    members = [u.u(t) for t in u.wbs[w].tasks]
    mode = 'clone' if rng.random() < 0.5 or (not members and rng.random() < 0.7) else 'subtree'
    roots = None
    if mode == 'subtree':
        k = rng.randrange(1, min(3, len(members)) + 1) if members and rng.random() < 0.9 else 0      # (one subtree in ten: the empty selection)
        roots = [rng.choice(members) for _ in range(k)] if rng.random() < 0.3 else rng.sample(members, k)
    after = None
    if rng.random() < 0.6:
        after = [rng.choice(['src', 'copy']), rng.randrange(1 << 30)]
    case = {'graph': g, 'w': w, 'mode': mode, 'roots': roots, 'attrs': rng.random() < 0.5, 'after': after}
    if rng.random() < 0.2:
        case['badSet'] = rng.randrange(1, 3)
    if mode == 'subtree':
        # the selection is "Iterable[Task] or a Task": lists, tuples, one-shot iterables, a task list of the WBS, a single task
        case['selKind'] = rng.choice(['list', 'list', 'tuple', 'gen', 'iter', 'filter', 'tasklist'] + (['single'] if roots and len(roots) == 1 else []))
    return case


def _on_slip(task):
    return task


def fields_of(t):
    return [t.id, t.name, t.resource, t.start, t.end, t.milestone, t.estimate, t.spent, t.min_start,
            sorted((k, repr(v)) for k, v in t.__dict__.items() if not k.startswith('_'))]


def execute(prop, case):
    import random
    u = fam_graph.new_universe(case['graph'])
    for op in case['graph']['ops']:
        try:
            u.apply(u.concretise(op))
        except Exception:  # noqa
            pass
    w = u.wbs[case['w']]
    if case['attrs']:
        w.title = 'plan'
        w.version = 3
        w.on_slip = _on_slip                       # a callback, a class and a query result kept on the WBS are public attributes too
        w.factory = dict
        w.watch = w.tasks(lambda t: t.id % 2 == 0)
        w.flag = 0
        for i, t in enumerate(u.tasks):
            if i % 2 == 0:
                t.color = f'c{i}'
            t.estimate = i
    if case.get('badSet'):
        # assignments the library refuses (a negative estimate / spent): refused means nothing is stored
        for i, t in enumerate(u.tasks):
            if i % 2 == case['badSet'] % 2:
                for name in ('spent', 'estimate'):
                    try:
                        setattr(t, name, -2 - i)
                    except RuntimeError:
                        pass
    pre = u.snap()
    roots = case['roots']
    kind = case.get('selKind', 'list')
    if roots is not None and kind == 'tasklist':
        # a task list obtained from the WBS itself: its members in WBS order, each once
        chosen = set(roots)
        roots = [u.u(t) for t in w.tasks if u.u(t) in chosen]
    sel = []
    for r in (list(w.roots) if roots is None else [u.obj(x) for x in roots]):
        for t in [r] + list(r.all_children):
            if not any(t is s for s in sel):
                sel.append(t)
    rec = {'fam': 'clone', 'pre': pre, 'w': u.m + case['w'], 'roots': roots}
    try:
        if case['mode'] == 'clone':
            c = w.clone()
        else:
            objs_sel = [u.obj(x) for x in roots]
            chosen_ids = set(id(o) for o in objs_sel)
            arg = {'list': lambda: objs_sel, 'tuple': lambda: tuple(objs_sel), 'gen': lambda: (o for o in objs_sel),
                   'iter': lambda: iter(objs_sel), 'filter': lambda: filter(lambda o: True, objs_sel),
                   'tasklist': lambda: w.tasks(lambda t: id(t) in chosen_ids), 'single': lambda: objs_sel[0]}[kind]()
            c = w.subtree(arg)
        rec['out'] = 'ok'
    except Exception as e:  # noqa
        rec['out'] = classify_exc(e)
        rec['post'] = pre
        rec['py'] = {}
        return rec
    # uids for the new objects: clone of sel[i] = n + i, the new root = n + len(sel)
    n = len(u.objs)
    byid = {t.id: t for t in c.tasks}
    new_objs = []
    ok_ids = True
    for s in sel:
        if s.id in byid:
            new_objs.append(byid[s.id])
        else:
            ok_ids = False
            new_objs.append(None)
    allobjs = u.objs + new_objs + [c._root()]
    uid = {id(o): i for i, o in enumerate(allobjs) if o is not None}
    wbss = u.wbs + [c]
    rows = []
    for o in allobjs:
        if o is None:
            rows.append([0, None, [], [], [], None])
            continue
        rp = getattr(o, '_Task__parent', None)
        rows.append([int(o.id), None if rp is None else uid.get(id(rp), -1), [uid.get(id(x), -1) for x in o.children],
                     [uid.get(id(x), -1) for x in o.predecessors], [uid.get(id(x), -1) for x in o.successors],
                     None if o.wbs is None else (u.m + wbss.index(o.wbs) if o.wbs in u.wbs else n + len(sel))])
    rec['post'] = {'t': rows}
    py = {}
    py['newObjects'] = ok_ids and len(list(c.tasks)) == len(sel) and not (set(id(t) for t in c.tasks) & set(id(o) for o in u.objs)) and c is not w
    py['fields'] = ok_ids and all(fields_of(a) == fields_of(b) for a, b in zip(sel, new_objs) if b is not None)
    py['wbsAttrs'] = sorted((k, repr(v)) for k, v in w.__dict__.items() if not k.startswith('_')) == \
        sorted((k, repr(v)) for k, v in c.__dict__.items() if not k.startswith('_'))
    # independence: a later change to either side does not show on the other
    py['independent'] = True
    if case['after'] is not None:
        side, seed = case['after']
        rnd = random.Random(seed)
        def snap_side(ws, objs):
            return [(o.id, None if o.parent is None else o.parent.id, [x.id for x in o.children], sorted(x.id for x in o.predecessors if id(x) in mine(objs)),
                     sorted(x.id for x in o.successors if id(x) in mine(objs)), fields_of(o)) for o in objs] + [[t.id for t in ws.tasks]]
        def mine(objs):
            return set(id(o) for o in objs)
        src_objs = [t for t in w.tasks]
        cp_objs = [t for t in c.tasks]
        before = snap_side(c, cp_objs) if side == 'src' else snap_side(w, src_objs)
        pool = src_objs if side == 'src' else cp_objs
        for _ in range(4):
            if not pool:
                break
            a, b = rnd.choice(pool), rnd.choice(pool)
            try:
                k = rnd.randrange(5)
                if k == 0:
                    a.parent = b
                elif k == 1:
                    a >> b
                elif k == 2:
                    (w if side == 'src' else c).remove(a)
                elif k == 3:
                    a.name = 'changed'
                    a.estimate = 99
                else:
                    a.children.sort('id', True)
            except Exception:  # noqa
                pass
        afterv = snap_side(c, cp_objs) if side == 'src' else snap_side(w, src_objs)
        py['independent'] = before == afterv
    rec['py'] = py
    return rec


def judge(prop, case, rec, out):
    m = out['model']
    eq = m['out'] == rec['out'] and (rec['out'] != 'ok' or m['post']['t'] == rec['post']['t'])
    info = {}
    if not eq:
        diff = None
        if rec['out'] == 'ok' and m['out'] == 'ok':
            for i, (a, b) in enumerate(zip(m['post']['t'], rec['post']['t'])):
                if a != b:
                    diff = {'uid': i, 'model': a, 'impl': b}
                    break
        info['mismatch'] = {'model_out': m['out'], 'impl_out': rec['out'], 'first_diff': diff}
    mon = dict(out['mon'])
    mon.update({k: bool(v) for k, v in rec['py'].items()})
    # a copy the model makes must be made: clone / subtree of a reachable state with member roots never raises
    mon['copyReturns'] = not (m['out'] == 'ok' and rec['out'] != 'ok')
    # statement domain: subtree(roots) is claimed for roots that are ordinary members of the WBS (CloneArgs.member); a shrunk case may
    # have lost the calls that attached them
    if case['roots'] is not None and any(rec['pre']['t'][r][5] != rec['w'] for r in case['roots'] if r < len(rec['pre']['t'])):
        mon = {k: True for k in mon}
        eq = True
        info = {'out_of_domain': 'a root is not a member of the WBS'}
    nontrivial = rec['out'] == 'ok' and len(rec['post']['t']) - len(rec['pre']['t']) >= 3
    return Outcome(case, eq, mon, {}, nontrivial, common.digest(case), info)


def case_variants(case):
    for gv in fam_graph.case_variants(case['graph']):
        yield dict(case, graph=gv)
    if case['after'] is not None:
        yield dict(case, after=None)
    if case['attrs']:
        yield dict(case, attrs=False)


def shrink(prop, case, still_fails):
    def ok(c):
        try:
            return still_fails(c)
        except Exception:  # noqa
            return False
    return common.shrink_with(case, case_variants, ok, max_tests=250)


def mutate(prop, case, rng):
    return dict(case, graph=fam_graph.mutate('C01', case['graph'], rng))


def count(prop, tier):
    return 1500 if tier == 'quick' else 10000


def projection(prop):
    return 'accepted/raised + the full ordered state after the call, clones numbered in copy order'


def rule(prop):
    return ('WBS states reached by random mutation histories (shared ids, several WBSs, links to tasks of other WBSs and detached tasks), '
            'then clone() or subtree(1-3 roots, sometimes repeated/nested), WBS-level and custom task attributes, then up to 4 random '
            'mutations of source or copy with a re-comparison of the other side; non-trivial = at least 3 tasks copied')


def distribution(prop, cases, outcomes):
    d = {'clone': 0, 'subtree': 0, 'with_after': 0, 'rejected': 0}
    for c, o in zip(cases, outcomes):
        d[c['mode']] += 1
        d['with_after'] += c['after'] is not None
    return d
