"""Shared machinery: build + audit of the Lean side, the driver pipe, verdict logic, evidence."""
import fcntl, hashlib, json, os, random, re, subprocess, sys, time
from fractions import Fraction

VERIF = os.path.dirname(os.path.dirname(os.path.abspath(__file__)))
LEAN = os.path.join(VERIF, 'lean')
REPO = os.environ.get('PJPLAN_REPO', '/repo')
DRIVER = os.path.join(LEAN, '.lake', 'build', 'bin', 'pjdriver')
OUT = os.path.join(VERIF, 'out')
ALLOWED_AXIOMS = {'propext', 'Classical.choice', 'Quot.sound'}
FORBIDDEN = re.compile(r'\bsorry\b|\badmit\b|^\s*axiom\s|native_decide|bv_decide|implemented_by|\bunsafe\s|maxHeartbeats\s+0')

TRUSTED_BASE = [
    "Lean 4.33 kernel; axioms of every property theorem within {propext, Classical.choice, Quot.sound} (audited by #print axioms on every run)",
    "the hand-written Lean model is tied to /repo by differential testing (this run's correspondence stream); it samples, it is not a proof about the Python code",
    "tools/extract.py finds constants/tables in /repo/src; what it emits is re-checked by lake build",
    "where a property has *_source_* theorems: the tools/extract_*.py translators (Python ast -> PyLite terms, regenerated on this run; anything outside the fragment is a Miss = broken tie), the PyLite interpreter (Model/PyLite*.lean) as the meaning of the Python fragment, the object encodings of the Lemmas/*Src*.lean files and the stated meaning of library primitives",
    "Python object identity -> indices, exceptions -> Err, recursion -> fuel, floats -> Rat, datetime -> rational days, the clock -> a scripted function",
]


class MachineryError(Exception):
    pass


def frac_str(x):
    """canonical rational string understood by the driver"""
    if x is None:
        return None
    f = Fraction(x)
    return str(f.numerator) if f.denominator == 1 else f"{f.numerator}/{f.denominator}"


def parse_frac(s):
    return None if s is None else Fraction(s)


def lock():
    os.makedirs(OUT, exist_ok=True)
    f = open(os.path.join(VERIF, '.build.lock'), 'w')
    fcntl.flock(f, fcntl.LOCK_EX)
    return f


def sh(cmd, cwd=None, timeout=3600):
    p = subprocess.run(cmd, cwd=cwd, shell=isinstance(cmd, str), stdout=subprocess.PIPE, stderr=subprocess.STDOUT,
                       text=True, timeout=timeout)
    return p.returncode, p.stdout


def strip_comments(src):
    src = re.sub(r'/-.*?-/', '', src, flags=re.S)
    return re.sub(r'--.*', '', src)


def prop_modules(prop):
    """the module(s) holding a property's theorems: Props/<prop>.lean and, when it exists, Props/<prop>Src.lean (source-level theorems whose
    lemma files themselves import Props/<prop>.lean)"""
    return [m for m in (prop, prop + 'Src') if os.path.exists(os.path.join(LEAN, 'PjVerif', 'Props', f'{m}.lean'))]


def theorems_of(prop):
    res = []
    for m in prop_modules(prop):
        src = strip_comments(open(os.path.join(LEAN, 'PjVerif', 'Props', f'{m}.lean')).read())
        res += re.findall(r'^theorem\s+([A-Za-z0-9_\.\']+)', src, flags=re.M)
    return res


def import_closure(prop):
    """Lean source files that Props/<prop>.lean transitively imports (within PjVerif)"""
    seen, todo = set(), [f'PjVerif.Props.{m}' for m in prop_modules(prop)]
    while todo:
        m = todo.pop()
        if m in seen:
            continue
        path = os.path.join(LEAN, *m.split('.')) + '.lean'
        if not os.path.exists(path):
            continue
        seen.add(m)
        for imp in re.findall(r'^import\s+(PjVerif\.[A-Za-z0-9_\.]+)', open(path).read(), flags=re.M):
            todo.append(imp)
    return sorted(seen)


def forbidden_tokens(prop):
    """scan the Lean sources the property's theorems depend on (comments removed) for constructs the trusted base excludes"""
    hits = []
    for m in import_closure(prop):
        p = os.path.join(LEAN, *m.split('.')) + '.lean'
        for i, line in enumerate(strip_comments(open(p).read()).splitlines()):
            if FORBIDDEN.search(line):
                hits.append(f"{os.path.relpath(p, LEAN)}:{i + 1}:{line.strip()[:80]}")
    return hits


def build(prop=None, log=None):
    """extract constants from /repo, build library + driver.  Returns dict(ok, log, extract)."""
    lk = lock()
    try:
        ext = {}
        extractor = os.path.join(VERIF, 'tools', 'extract.py')
        if os.path.exists(extractor):
            rc, out = sh([sys.executable, extractor, REPO, LEAN])
            try:
                ext = json.loads(out.strip().splitlines()[-1])
            except Exception:
                ext = {'error': out[-2000:]}
        # a check builds what its property depends on - the module of its theorems with everything it imports - and the driver; the whole
        # library (all properties) is built by --setup.  A module that no longer compiles therefore only concerns the checks that import it.
        targets = ['PjVerif', 'pjdriver'] if prop is None else [f'PjVerif.Props.{m}' for m in prop_modules(prop)] + ['pjdriver']
        rc, out = sh(['lake', 'build'] + targets, cwd=LEAN)
        res = {'ok': rc == 0, 'log': out[-6000:], 'extract': ext, 'prop_ok': rc == 0}
        return res
    finally:
        lk.close()


def audit(prop):
    """#print axioms for every theorem of Props/<prop>.lean.  Returns (obligations, discharged, detail)."""
    names = theorems_of(prop)
    if not names:
        return [], [], {}
    os.makedirs(os.path.join(LEAN, '.lake'), exist_ok=True)
    path = os.path.join(LEAN, '.lake', f'audit_{prop}_{os.getpid()}.lean')
    src = ''.join(open(os.path.join(LEAN, 'PjVerif', 'Props', f'{m}.lean')).read() for m in prop_modules(prop))
    nss = sorted(set(re.findall(r'^namespace\s+([A-Za-z0-9_\.]+)', src, flags=re.M)))
    with open(path, 'w') as f:
        f.write(''.join(f'import PjVerif.Props.{m}\n' for m in prop_modules(prop)) + 'open Pj\n' + ''.join(f'open {n}\n' for n in nss))
        for n in names:
            f.write(f'#print axioms {n}\n')
    try:
        rc, out = sh(['lake', 'env', 'lean', path], cwd=LEAN)
    finally:
        os.unlink(path)
    detail = {}
    # messages look like:  'Pj.C17_x' depends on axioms: [propext, Quot.sound]   or   does not depend on any axioms
    for m in re.finditer(r"'([^']+)' (does not depend on any axioms|depends on axioms: \[([^\]]*)\])", out, flags=re.S):
        nm = m.group(1).split('.')[-1]
        axs = [] if m.group(3) is None else [a.strip() for a in m.group(3).replace('\n', ' ').split(',') if a.strip()]
        detail[nm] = axs
    discharged = [n for n in names if n.split('.')[-1] in detail and set(detail[n.split('.')[-1]]) <= ALLOWED_AXIOMS]
    if rc != 0 and not detail:
        detail['_error'] = out[-2000:]
    return names, discharged, detail


def recheck(prop):
    """thorough tier: re-check the compiled module of the property's theorems with leanchecker, the toolchain's independent re-checker of
    .olean files (replays every declaration of the module through the kernel).  Returns (ok, log tail)."""
    mods = [f'PjVerif.Props.{m}' for m in prop_modules(prop)]
    if prop in ('C02', 'C06', 'C08', 'C09', 'C15'):
        mods.append('PjVerif.Props.Witness')
    rc, out = sh(['lake', 'env', 'leanchecker'] + mods, cwd=LEAN)
    bad = rc != 0 or 'uncaught exception' in out or 'error' in out.lower()
    return not bad, out[-1500:]


_DRV = None


def _driver():
    global _DRV
    if _DRV is None or _DRV.poll() is not None:
        if not os.path.exists(DRIVER):
            raise MachineryError('driver binary missing (build failed?)')
        _DRV = subprocess.Popen([DRIVER], stdin=subprocess.PIPE, stdout=subprocess.PIPE, text=True, bufsize=1)
    return _DRV


def run_driver(records):
    """send JSON records through the compiled driver (one persistent process, one line in / one line out)"""
    outs = []
    p = _driver()
    for r in records:
        try:
            p.stdin.write(json.dumps(r, separators=(',', ':')) + '\n')
            p.stdin.flush()
            line = p.stdout.readline()
        except BrokenPipeError:
            line = ''
        if not line:
            raise MachineryError(f'driver died on record {json.dumps(r)[:300]}')
        o = json.loads(line)
        if 'error' in o:
            raise MachineryError(f'driver protocol error: {o["error"]}')
        outs.append(o)
    return outs


def case_rng(seed, idx, salt=''):
    h = hashlib.sha256(f'{seed}:{idx}:{salt}'.encode()).digest()
    return random.Random(int.from_bytes(h[:8], 'big'))


def digest(obj):
    return hashlib.sha256(json.dumps(obj, sort_keys=True, default=str).encode()).hexdigest()[:12]


def classify_exc(e):
    """map an exception to the small enum the model uses"""
    if isinstance(e, RecursionError):
        return 'crash:RecursionError'
    if isinstance(e, RuntimeError):
        return 'runtime'
    n = type(e).__name__
    known = {'IndexError', 'ValueError', 'StopIteration', 'KeyError', 'TypeError', 'ZeroDivisionError', 'AttributeError'}
    return 'crash:' + (n if n in known else 'Other')


# ----------------------------------------------------------------------------------- findings

def load_findings():
    """KNOWN_FINDINGS.txt: 'finding: property=C02 id=KF-S2 sig=<sig> witness=<file> <text>' and 'fixed: ...' lines"""
    res = []
    p = os.path.join(VERIF, 'KNOWN_FINDINGS.txt')
    if os.path.exists(p):
        for line in open(p):
            line = line.strip()
            if line.startswith('finding:'):
                kv = dict(m.groups() for m in re.finditer(r'(\w+)=(\S+)', line))
                text = re.sub(r'^finding:\s*', '', line)
                text = re.sub(r'\b(property|id|sig|witness)=\S+\s*', '', text).strip()
                res.append({'property': kv.get('property'), 'id': kv.get('id'), 'sig': kv.get('sig'),
                            'witness': kv.get('witness'), 'text': text})
    return res


# ----------------------------------------------------------------------------------- verdicts

class Outcome:
    """result of evaluating one case for one property"""
    def __init__(self, case, eq, mon, hyp=None, nontrivial=True, key=None, info=None, sig=None):
        self.case = case          # JSON-able, self-contained (replayable)
        self.eq = eq              # model == implementation under the property's projection
        self.mon = mon            # {clause: bool} monitors on the implementation's observation
        self.hyp = hyp or {}      # {name: bool} hypotheses of the proved (_partial) theorem on this input
        self.nontrivial = nontrivial
        self.key = key
        self.info = info or {}
        self.sig = sig            # known-finding signature when a monitor fails outside the hypotheses

    @property
    def mon_ok(self):
        return all(self.mon.values())

    @property
    def in_domain(self):
        return all(self.hyp.values())

    def failed_clauses(self):
        return sorted(k for k, v in self.mon.items() if not v)


def write_replay(prop, kind, payload):
    d = os.path.join(OUT, 'replay')
    os.makedirs(d, exist_ok=True)
    body = {'property': prop, 'kind': kind}
    body.update(payload)
    path = os.path.join(d, f'{prop}-{kind}-{digest(body)}.json')
    with open(path, 'w') as f:
        json.dump(body, f, indent=1, default=str)
    return os.path.relpath(path, VERIF)


def write_evidence(prop, tier, seed, t0, coverage, violations, assumptions=None):
    os.makedirs(os.path.join(VERIF, 'evidence'), exist_ok=True)
    ev = {
        'property_id': prop, 'tier': tier, 'seed': seed, 'level': 'proof',
        'coverage': coverage,
        'assumptions': assumptions or TRUSTED_BASE,
        'wall_s': round(time.time() - t0, 2),
        'violations': violations,
    }
    with open(os.path.join(VERIF, 'evidence', f'{prop}.json'), 'w') as f:
        json.dump(ev, f, indent=1, default=str)


# ----------------------------------------------------------------------------------- shrinking

def _paths(x, path=()):
    yield path, x
    if isinstance(x, list):
        for i, v in enumerate(x):
            yield from _paths(v, path + (i,))
    elif isinstance(x, dict):
        for k, v in x.items():
            yield from _paths(v, path + (k,))


def _set(x, path, val):
    if not path:
        return val
    if isinstance(x, list):
        y = list(x)
        y[path[0]] = _set(x[path[0]], path[1:], val)
        return y
    y = dict(x)
    y[path[0]] = _set(x[path[0]], path[1:], val)
    return y


def _del(x, path):
    if len(path) == 1:
        y = list(x)
        del y[path[0]]
        return y
    if isinstance(x, list):
        y = list(x)
        y[path[0]] = _del(x[path[0]], path[1:])
        return y
    y = dict(x)
    y[path[0]] = _del(x[path[0]], path[1:])
    return y


def shrink_with(case, candidates, still_fails, max_tests=300, max_seconds=90):
    """greedy shrinking: `candidates(case)` yields smaller well-formed variants; keep the first that still fails"""
    tests = 0
    improved = True
    t0 = time.time()
    while improved and tests < max_tests and time.time() - t0 < max_seconds:
        improved = False
        for c in candidates(case):
            tests += 1
            try:
                good = still_fails(c)
            except Exception:
                good = False
            if good:
                case = c
                improved = True
                break
            if tests >= max_tests or time.time() - t0 >= max_seconds:
                break
    return case
