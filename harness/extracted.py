"""constants extracted from /repo/src by tools/extract.py (JSON side of the extraction)"""
import json, os
import common


def consts():
    p = os.path.join(common.OUT, 'extracted.json')
    if os.path.exists(p):
        return json.load(open(p))
    return {}
