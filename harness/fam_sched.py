"""Scheduling family (C02 C03 C04 C06 C07 C08 C09 C14): schedule.py against Model/Sched.lean, monitors of
Spec/Sched.lean evaluated by the driver on the implementation's observation."""
import datetime as _dt
from datetime import datetime, timedelta
from fractions import Fraction
import common
from common import Outcome, frac_str, classify_exc
import fam_cal
from fam_cal import to_us, from_us, DAY_US, BASE_DAY, py_num

NAMES = [None, 'a', 'b', 'c', 'zz', 'None']    # resource names; key = index-1 (None -> null); 'zz' is the dead resource of the 'prior failing calc' cases
H = 3600 * 10**6


def key_of(name):
    return None if name is None else NAMES.index(name) - 1


class FakeDT(_dt.datetime):
    _seq = []
    _k = 0

    @classmethod
    def now(cls, tz=None):
        i = min(cls._k, len(cls._seq) - 1)
        cls._k += 1
        d = cls._seq[i]
        return cls(d.year, d.month, d.day, d.hour, d.minute, d.second, d.microsecond)


def set_clock(seq_us):
    import pjplan.schedule as S
    FakeDT._seq = [from_us(x) for x in seq_us]
    FakeDT._k = 0
    S.datetime = FakeDT


# ------------------------------------------------------------------------------------ generation

CALS = [
    lambda r: ['WL', None, None, [0, 1, 2, 3, 4], '8'],
    lambda r: ['WD', None, None, [[0, '8'], [1, '4'], [2, '0'], [3, '6'], [4, '5/2'], [6, '1']]],
    lambda r: ['WL', None, None, [0, 2, 4], r.choice(['4', '8', '1/2'])],
    lambda r: ['op', 'sub', ['WL', None, None, [0, 1, 2, 3, 4], '8'],
               ['D', [[(BASE_DAY + d) * DAY_US, r.choice(['8', '4', '2'])] for d in range(0, 40, r.randrange(2, 6))]]],
    lambda r: ['WL', None, None, [0, 1, 2, 3, 4, 5, 6], r.choice(['8', '5', '10', '3'])],
    lambda r: ['WL', (BASE_DAY + r.randrange(-3, 12)) * DAY_US + r.choice([0, 0, 9 * H]),
               (BASE_DAY + r.randrange(12, 40)) * DAY_US + r.choice([0, 0, 15 * H]), [0, 1, 2, 3, 4], '8'],
    lambda r: ['op', 'mul', ['WL', None, None, [0, 1, 2, 3, 4], '8'], ['N', r.choice(['1/2', '1/4', '2'])]],
    lambda r: ['op', 'or', ['D', [[(BASE_DAY + d) * DAY_US, '4'] for d in range(0, 30, 3)]], ['WL', None, None, [1, 3], '6']],
    lambda r: ['op', 'add', ['WL', None, None, [0, 1, 2, 3, 4], '6'], ['F', '2', (BASE_DAY + 5) * DAY_US, None]],
    # a bounded part that ends exactly at a day's midnight; leaving it raises the capacity
    lambda r: ['op', 'or', ['F', '4', None, (BASE_DAY + r.randrange(2, 14)) * DAY_US], ['WL', None, None, [0, 1, 2, 3, 4, 5, 6], '8']],
    lambda r: ['op', 'sub', ['WL', None, None, [0, 1, 2, 3, 4, 5, 6], '8'], ['F', '4', None, (BASE_DAY + r.randrange(2, 14)) * DAY_US]],
    lambda r: ['WL', None, (BASE_DAY + r.randrange(2, 14) + (40 if r.random() < 0.5 else 0)) * DAY_US, [0, 1, 2, 3, 4, 5, 6], '8'],
    # days that offer less than one unit next to days that offer several
    lambda r: ['WD', None, None, [[0, '1/2'], [1, '8'], [2, '1/4'], [3, '4'], [4, '3/4']]],
    lambda r: ['op', 'or', ['D', [[(BASE_DAY + d) * DAY_US, r.choice(['1/2', '1/4'])] for d in range(0, 40, r.randrange(2, 4))]],
               ['WL', None, None, [0, 1, 2, 3, 4], '8']],
]
DEAD = [lambda r: ['D', []], lambda r: ['F', '0', None, None], lambda r: ['WL', None, None, [], '8'],
        lambda r: ['WL', None, (BASE_DAY - 30) * DAY_US, [0, 1, 2, 3, 4], '8']]
ODD = 9 * H + 1815250000          # 09:30:15.250000 - a time of day with seconds and microseconds
EST = ['0', '1', '2', '3', '4', '8', '10', '16', '20', '1/2', '5/2', '40', '1/8', '7', '12']


def gen_case(rng, tier, direction=None, feats=None):
    """one case in thirty is a historic plan: every date of it lies 55 years (20090 days, a whole number of weeks) earlier, before 1970 -
    except the clock, which stays where clocks are (the library uses 1970-01-01 as "no lower bound", so a clock before 1970 is not a
    configuration it can meet)"""
    global BASE_DAY
    if rng.random() < 0.033:
        keep = BASE_DAY
        BASE_DAY = keep - 20090
        try:
            case = _gen_case(rng, tier, direction, feats)
        finally:
            BASE_DAY = keep
        if case['dir'] == 'fwd':
            case['clock'] = [x + 20090 * DAY_US for x in case['clock']]
            if case.get('noStart'):
                case['bound'] = case['clock'][0] - case.get('ctorLead', 0)      # (no start given: the project start is the clock at construction)
        return case
    return _gen_case(rng, tier, direction, feats)


def _gen_case(rng, tier, direction=None, feats=None):
    feats = dict(feats or {})
    d = direction or rng.choice(['fwd', 'bwd'])
    if rng.random() < 0.1:
        feats['strNone'] = True        # a resource literally called 'None' next to tasks without a resource: two resources, one spelling
    n = rng.randrange(1, 11 if tier == 'quick' else 26)
    ms_ok = rng.random() < 0.5
    ms_parent = ms_ok and rng.random() < 0.25
    # contention mode (one case in four): most tasks on one resource, estimates that are fractions of a day's capacity, release
    # dates spread over a fortnight - the ledger is then interleaved (a day is left and booked again later) and days are shared
    contention = feats.get('contention', rng.random() < 0.25)
    if contention:
        n = max(n, rng.randrange(4, 11))
    tasks = []
    for i in range(n):
        t = {'id': i + 1, 'parent': None, 'res': rng.choice([None, 'a', 'b', 'a'] + (['None', 'None'] if feats.get('strNone') else [])), 'est': None, 'spent': None, 'ms': False,
             'min_start': None, 'start': None, 'end': None, 'member': True}
        if contention:
            t['res'] = 'a' if rng.random() < 0.85 else rng.choice([None, 'b'])
            t['est'] = rng.choice(['1', '2', '3', '4', '1/2', '5/2', '7', '4', '2'])
            if d == 'fwd' and rng.random() < 0.35:
                t['min_start'] = (BASE_DAY + rng.randrange(0, 14)) * DAY_US + rng.choice([0, 0, 6 * H, ODD])
        elif rng.random() < 0.75:
            t['est'] = rng.choice(EST)
        if rng.random() < 0.3:
            t['spent'] = rng.choice(['0', '1', '2', '8', '1/2', '50'])
        if ms_ok and rng.random() < 0.1:
            t['ms'] = True
        if d == 'fwd' and not contention and rng.random() < 0.2:
            t['min_start'] = (BASE_DAY + rng.randrange(-5, 30)) * DAY_US + rng.choice([0, 0, 6 * H, ODD])
        # a task flagged milestone may get children too (one case in eight allows it): it is then a summary (C07's roll-up applies)
        cands = [j for j in range(i) if not tasks[j]['ms'] or ms_parent]
        if cands and rng.random() < (0.2 if contention else 0.6):
            t['parent'] = rng.choice(cands)
        tasks.append(t)
    template = None
    if rng.random() < 0.04 and not feats.get('no_template'):
        # a shape random forests rarely produce: a milestone leaf M under a summary S that is rolled up first, and that is met again through
        # a predecessor edge from a task T under a later summary Q which has a late predecessor of its own (P)
        template = 'milestone-revisit'
        mk = lambda i, parent, res, est, ms=False: {'id': i + 1, 'parent': parent, 'res': res, 'est': est, 'spent': None, 'ms': ms,
                                                    'min_start': None, 'start': None, 'end': None, 'member': True}
        tasks = [mk(0, None, None, None), mk(1, 0, 'a', rng.choice(['8', '4', '16'])), mk(2, 0, None, None, True),
                 mk(3, None, 'b', rng.choice(['40', '24', '16'])), mk(4, None, None, None), mk(5, 4, rng.choice(['a', None]), rng.choice(['8', '2']))]
        n = len(tasks)
    has_child = set(t['parent'] for t in tasks if t['parent'] is not None)
    bound = (BASE_DAY + rng.randrange(0, 10)) * DAY_US + rng.choice([0, 0, 0, 9 * H, 13 * H + H // 2, ODD])
    if d == 'bwd':
        bound += 40 * DAY_US
    if rng.random() < 0.7:
        now = bound - rng.randrange(0, 5) * DAY_US - rng.choice([0, 3 * H, 3 * H + 250001])
    else:
        now = bound + rng.randrange(1, 4) * DAY_US + 5 * H
    if d == 'bwd':
        now = bound - 60 * DAY_US
    clock = [now]
    if rng.random() < 0.1:
        clock = [now, now + rng.randrange(1, 5000) * 10**6, now + 6000 * 10**6]
    # user-fixed dates (forward only: C09's domain has none)
    if d == 'fwd' and not feats.get('no_fixed'):
        for i, t in enumerate(tasks):
            if i not in has_child and rng.random() < 0.12:
                t['start'] = (BASE_DAY + rng.randrange(-10, 15)) * DAY_US + rng.choice([0, 8 * H, ODD])
            if rng.random() < 0.08:
                t['end'] = now - rng.randrange(4, 9) * DAY_US - rng.choice([0, 5 * H])
                if i not in has_child and rng.random() < 0.7:
                    t['start'] = t['end'] - rng.randrange(0, 6) * DAY_US
    if d == 'bwd' and feats.get('bwd_fixed') and rng.random() < 0.3:
        # backward with user-fixed ends (C07 / C03 / C14 only: C09 and C04's backward theorem are stated without fixed dates): at a time of
        # day, on days near the due date
        for i, t in enumerate(tasks):
            if i not in has_child and not t['ms'] and rng.random() < 0.25:
                t['end'] = bound - rng.randrange(0, 12) * DAY_US - rng.choice([0, 12 * H, 3 * H, ODD])
    if d == 'fwd' and not feats.get('no_fixed') and rng.random() < 0.05:
        # a task declared finished at a date that is still to come: the forward scheduler must refuse (C14)
        t = rng.choice(tasks)
        t['end'] = now + rng.randrange(1, 9) * DAY_US + rng.choice([0, 5 * H])
        if rng.random() < 0.5:
            t['start'] = t['end'] - rng.randrange(0, 4) * DAY_US
    # outside predecessors
    n_out = 0
    if rng.random() < 0.2:
        for _ in range(rng.randrange(1, 3)):
            o = {'id': rng.choice([100 + n_out, rng.randrange(1, n + 1)]), 'parent': None, 'res': rng.choice([None, 'a', 'c']),
                 'est': rng.choice([None, '3']), 'spent': None, 'ms': rng.random() < 0.3, 'min_start': None,
                 'start': (BASE_DAY + rng.randrange(-20, 12)) * DAY_US, 'end': None, 'member': False}
            o['end'] = o['start'] + rng.randrange(0, 9) * DAY_US + rng.choice([0, 14 * H])
            if rng.random() < 0.3:
                o['viaRemoved'] = True
                o['id'] = 100 + n_out        # (it is a member for a while: its id must not clash)
            if rng.random() < 0.12:
                o[rng.choice(['start', 'end'])] = None
            tasks.append(o)
            n_out += 1
    links = []
    total = len(tasks)
    if template == 'milestone-revisit':
        links = [[1, 2], [2, 5], [3, 4]]
    summary_links = rng.random() < 0.55 or template is not None
    for _ in range(rng.randrange(0, n + 3)):
        a = rng.randrange(total)
        b = rng.randrange(n)
        if a == b:
            continue
        if not summary_links and (a in has_child or b in has_child):
            continue
        links.append([a, b])
    resources = []
    for name in ['a', 'b', None] + (['None'] if feats.get('strNone') else []):
        if rng.random() < 0.3 and not (contention and name == 'a'):
            continue
        resources.append([name, rng.choice(CALS)(rng)])
    if rng.random() < 0.15:
        # a calendar whose bounded part ends exactly at the midnight of a day on which a task is released (project start / end day,
        # a min_start day, the clock's day): the boundary day itself must count as inside
        days = [bound // DAY_US, bound // DAY_US - 1, now // DAY_US] + [t['min_start'] // DAY_US for t in tasks if t['min_start'] is not None]
        dd = rng.choice(days)
        allw = [0, 1, 2, 3, 4, 5, 6]
        cal = rng.choice([
            ['op', 'or', ['WL', None, dd * DAY_US, allw, '8'], ['WL', (dd + 2) * DAY_US, None, allw, '8']],
            ['op', 'or', ['F', '4', None, dd * DAY_US], ['WL', None, None, allw, '8']],
            ['op', 'or', ['WL', None, (dd - 2) * DAY_US, allw, '8'], ['WL', dd * DAY_US, None, allw, '4']]])
        nm = rng.choice([t['res'] for t in tasks[:n]])
        resources = [r for r in resources if r[0] != nm] + [[nm, cal]]
    dead = None
    if rng.random() < 0.06:
        dead = rng.randrange(len(DEAD))
        resources = [r for r in resources if r[0] != 'b'] + [['b', DEAD[dead](rng)]]
    case = {'dir': d, 'tasks': tasks, 'links': links, 'resources': resources, 'bound': bound, 'clock': clock,
            'balance': rng.random() < (0.9 if contention else 0.7), 'defaultEst': rng.choice(['0', '0', '8', '3', '5/2', '1/2']), 'floats': rng.random() < 0.5,
            'dead': dead}
    if rng.random() < 0.3:
        case['ctorLead'] = rng.randrange(1, 9) * DAY_US + rng.choice([0, 5 * H])
    r = rng.random()
    if r < 0.1:
        case['prior'] = 'ok'
    elif r < 0.25:
        case['prior'] = 'fail'
        case['resources'] = [x for x in case['resources'] if x[0] != 'zz'] + [['zz', ['D', []]]]
    r2 = rng.random()
    cands = [x for x in case['resources'] if x[0] != 'zz']
    if cands and r2 < 0.25:
        # long-lived objects whose inputs change: a resource is created with one calendar and gets the case's calendar later - after the
        # scheduler was built and (when `prior`) used; or dated entries are added through set_units at that point
        nm, expr = rng.choice(cands)
        path = fam_cal.first_dated(expr)
        node = expr
        for i in (path or ()):
            node = node[i]
        if path is not None and node[1] and rng.random() < 0.6:
            items = [it for it in node[1] if rng.random() < 0.5] or node[1][:1]
            case['calEarly'] = [[nm, 'set_units', items]]
        else:
            case['calEarly'] = [[nm, 'replace', rng.choice(CALS)(rng)]]
        if rng.random() < 0.6 and not case.get('prior'):
            case['prior'] = 'ok'
    if d == 'fwd' and feats.get('noStart') and rng.random() < 0.1:
        # the scheduler is built without a start: the project start is what the clock says when the scheduler is built
        case['noStart'] = True
        case['bound'] = case['clock'][0] - case.get('ctorLead', 0)
    if rng.random() < 0.3:
        case['objAttrs'] = True
    if rng.random() < 0.25:
        # progress is booked late: the plan is copied once (as a look at it, a what-if, an earlier calc would) with other figures for the
        # work done, and only then every task gets the `spent` the case describes
        case['lateSpent'] = True
    if rng.random() < 0.3:
        # the plan is looked at before it is scheduled: its span, every task's relatives (read-only accessors)
        case['peek'] = True
    if links and rng.random() < 0.15:
        # the WBS is edited (its last link added) between two calcs of the same scheduler on the same WBS object
        case['lateLink'] = True
        if not case.get('prior'):
            case['prior'] = 'ok'
    if n >= 3 and rng.random() < 0.08 and not case.get('lateLink'):
        # a task sits under another parent while the scheduler sees the plan for the first time, and is moved to where the case puts it before
        # the calc that counts (the same scheduler object, the same WBS object)
        i = rng.randrange(1, n)
        olds = [j for j in [None] + list(range(i)) if j != tasks[i]['parent'] and (j is None or not tasks[j]['ms'])]
        if olds:
            case['lateMove'] = [i, rng.choice(olds)]
            if not case.get('prior'):
                case['prior'] = 'ok'
    if feats.get('dust') and rng.random() < 0.05:
        # float dust (C04 only): a remainder of 2^-40 units - all float arithmetic stays exact, but the remainder's share of a day is far
        # below the microsecond the library's dates can resolve (known finding KF-F1-C04) - or of 2^-22 units, which must be handled
        cands = [i for i in range(n) if i not in has_child and not tasks[i]['ms'] and tasks[i]['end'] is None]
        if cands:
            i = rng.choice(cands)
            tiny = Fraction(1, 2 ** rng.choice([40, 40, 22]))      # (2^-22 units: a share of a few milliseconds - small, but a datetime shows it)
            k = rng.randrange(3)
            tasks[i]['est'], tasks[i]['spent'] = [(str(8 + tiny), None), ('16', str(16 - tiny)), (str(tiny), None)][k]
            case['floats'] = True
            case['dust'] = True
    # keep only the links the graph API accepts (the case stays replayable: rejected links are dropped)
    case['links'] = build(case)[3]
    if case.get('lateMove') and not build.moved:
        del case['lateMove']             # (the graph API refuses the move: no such case)
        case['links'] = build(case)[3]
    if (case['links'][:-1] if case.get('lateLink') else case['links']) and rng.random() < 0.3:
        # edits the graph API must refuse (a cycle: a transitive successor added as predecessor, or the mirror image), made after the
        # plan is complete and caught by the caller: the plan that is scheduled is the one described by `links`
        made = case['links'][:-1] if case.get('lateLink') else case['links']      # (a held last link is made after these edits)
        succ = {}
        for a, b in made:
            succ.setdefault(a, set()).add(b)

        def reach(x):
            seen, todo = set(), [x]
            while todo:
                for y in succ.get(todo.pop(), ()):
                    if y not in seen:
                        seen.add(y); todo.append(y)
            return seen
        rej = []
        for _ in range(rng.randrange(1, 4)):
            a, b = rng.choice(made)
            far = sorted(reach(a))
            s2 = rng.choice(far) if rng.random() < 0.5 else b
            rej.append([rng.choice(['pred', 'pred+', 'succ', 'succ+']), a, s2])
        case['rejected'] = rej
        build(case, hold_last_link=bool(case.get('lateLink')))
        if not build.refused:
            del case['rejected']
    return case


def random_case(prop, rng, tier):
    d = {'C02': 'fwd', 'C08': 'fwd', 'C09': 'bwd'}.get(prop)
    if prop == 'C06':
        d = 'fwd' if rng.random() < 0.7 else 'bwd'       # (clock independence is a forward-only clause; the others hold for either scheduler)
    return gen_case(rng, tier, d, {'dust': prop == 'C04', 'bwd_fixed': prop in ('C07', 'C03', 'C14'), 'noStart': prop == 'C06'})


# ------------------------------------------------------------------------------------ building the real objects

class _Owner:
    """an application object without __eq__: equal only to itself"""


_OWNER = _Owner()


def val_key(v):
    """custom attribute values are compared as values when they are plain data, by identity otherwise"""
    if v is None or isinstance(v, (str, int, float, bool, list, dict, tuple, datetime, timedelta)):
        return repr(v)
    return f'object@{id(v)}'


def build(case, hold_last_link=False, apply_move=True):
    """`hold_last_link`: the last link of the case is not made; it is returned as `pending` (objs indices) for the caller to add later.
    `lateMove` = [i, earlier parent]: task i is first put under its earlier parent and moved to the parent the case describes at the end
    (`apply_move`) - or by the caller, between two calcs (`build.move`)"""
    from pjplan import Task, WBS
    w = WBS()
    others = []
    objs = []
    removed = []
    for i, t in enumerate(case['tasks']):
        kw = {}
        fl = case.get('floats', False)
        if t['est'] is not None:
            kw['estimate'] = py_num(t['est'], fl)
        if case.get('lateSpent'):
            if t['spent'] is None:
                kw['spent'] = 3
        elif t['spent'] is not None:
            kw['spent'] = py_num(t['spent'], fl)
        if t['ms']:
            kw['milestone'] = True
        if t['min_start'] is not None:
            kw['min_start'] = from_us(t['min_start'])
        if t['start'] is not None:
            kw['start'] = from_us(t['start'])
        if t['end'] is not None:
            kw['end'] = from_us(t['end'])
        if i % 3 == 0:
            kw['tag'] = f'x{i}'
        if case.get('objAttrs'):
            # custom attributes of every kind: falsy values, a container, an object compared by identity that several tasks share, and (below)
            # a reference to a task of another project
            kw.update([('prio', 0), ('note', ''), ('labels', []), ('ratio', 0.0), ('blocked', False)][i % 5:][:2])
            if i % 2 == 0:
                kw['owner'] = _OWNER
        par = t['parent']
        if case.get('lateMove') and case['lateMove'][0] == i:
            par = case['lateMove'][1]
        via_ctor = t['member'] and par is not None and i % 4 == 1      # (one task in four is hung under its parent by the constructor)
        if via_ctor:
            kw['parent'] = objs[par]
        o = Task(t['id'], f"t{i}", resource=t['res'], **kw)
        if t['member'] and not via_ctor:
            if par is None:
                w // o
            else:
                objs[par] // o
        elif t.get('viaRemoved'):
            # an outside task that used to belong to this WBS: it sits in a branch that is removed (as a whole) once the links are made
            holder = Task(9000 + i, 'removed phase')
            w // holder
            holder // o
            removed.append(holder)
        elif i % 2 == 0:
            others.append(WBS())
            others[-1] // o           # member of another project
        objs.append(o)
    if case.get('objAttrs') and len(objs) >= 2:
        objs[0].mirror_of = objs[-1]
    accepted = []
    links = list(case['links'])
    build.pending = None
    if hold_last_link and links:
        build.pending = links.pop()
    for a, b in links:
        try:
            objs[a] >> objs[b]
            accepted.append([a, b])
        except RuntimeError:
            pass
    if build.pending is not None:
        accepted.append(build.pending)
    for h in removed:
        w.remove(h)
    build.refused = True
    for how, a, b in case.get('rejected', []):
        # a is a (transitive) predecessor of b: making b a predecessor of a, or a a successor of b, closes a cycle and must be refused
        try:
            if how == 'pred':
                objs[a].predecessors = list(objs[a].predecessors) + [objs[b]]
            elif how == 'pred+':
                objs[a].predecessors.append(objs[b])
            elif how == 'succ':
                objs[b].successors = list(objs[b].successors) + [objs[a]]
            else:
                objs[b].successors.append(objs[a])
            build.refused = False
        except RuntimeError:
            pass
    if case.get('lateSpent'):
        w.clone()
        for o in objs:
            o.clone()
        for o, t in zip(objs, case['tasks']):
            o.spent = None if t['spent'] is None else py_num(t['spent'], case.get('floats', False))
    build.move = None
    build.moved = True
    if case.get('lateMove'):
        i = case['lateMove'][0]
        build.move = (i, case['tasks'][i]['parent'])
        if apply_move:
            build.moved = do_move(w, objs, build.move)
    return w, objs, others, accepted


def do_move(w, objs, move):
    i, fp = move
    try:
        if fp is None:
            objs[i].parent = None
        else:
            objs[i].parent = objs[fp]
        return True
    except RuntimeError:
        return False


def resources_of(case, initial=False):
    from pjplan import Resource
    from pjplan.calendar import FuncCalendar, FixedCalendar

    def poison(_date):
        raise RuntimeError('poisoned resource')
    # 'zz' is used by the poison task of a 'prior failing calc' only (never by a task of the case): its calendar raises at the first
    # query, which ends that calc in the middle of its pass without walking the 100 000-day horizon (the model is given an empty calendar)
    res = []
    early = {e[0]: e for e in (case.get('calEarly') or [])} if initial else {}
    resources_of.changes = []
    for name, expr in case['resources']:
        if name == 'zz':
            res.append(Resource(name, FuncCalendar(FixedCalendar(8), poison)))
            continue
        fl = case.get('floats', False)
        if name in early:
            # this resource starts its life with another calendar; `apply_late_changes` gives it the one of the case afterwards
            _, how, arg = early[name]
            if how == 'replace':
                r = Resource(name, fam_cal.build_impl(arg, fl))
                resources_of.changes.append(('replace', r, expr))
            else:                       # 'set_units': the first dated calendar of the definition first lacks the entries `arg`
                import copy
                init = copy.deepcopy(expr)
                path = fam_cal.first_dated(init)
                node = init
                for i in path:
                    node = node[i]
                gone = set(t // DAY_US for t, _ in arg)
                node[1] = [it for it in node[1] if it[0] // DAY_US not in gone]
                if len(node) > 2:
                    node[2] = len(node[1])
                dated = []
                r = Resource(name, fam_cal.build_impl(init, fl, dated))
                resources_of.changes.append(('set_units', dated[0], arg))
            res.append(r)
        else:
            res.append(Resource(name, fam_cal.build_impl(expr, fl)))
    return res


def apply_late_changes(case, changes):
    """the calendars take the definitions of the case (after the scheduler was built / used with the earlier ones)"""
    fl = case.get('floats', False)
    for how, obj, arg in changes:
        if how == 'replace':
            obj.calendar = fam_cal.build_impl(arg, fl)
        else:
            obj.set_units({from_us(t): py_num(v, fl) for t, v in arg})


def snapshot(w, objs):
    return [(o.id, o.name, o.resource, o.start, o.end, o.estimate, o.spent, o.milestone, o.min_start,
             None if o.parent is None else o.parent.id, [c.id for c in o.children],
             [id(p) for p in o.predecessors], [id(p) for p in o.successors] if o.wbs is w else None, o.wbs is w) for o in objs] + \
           [[t.id for t in w.tasks]]


def us_or_none(d):
    return None if d is None else to_us(d)


def _dust(r):
    """a usage row whose share of its day is below one microsecond: the library's dates (datetime) cannot show it"""
    try:
        cap = r.resource.get_available_units(r.date)
        return bool(cap) and 0 < Fraction(r.units) / Fraction(cap) * 86400 * 10 ** 6 < 1
    except Exception:  # noqa
        return False


def run_calc(case, w, objs, clock=None, scheduler=None, main=False, between=None, explicit_start=False):
    """one calc under the scripted clock; returns (obs dict, scheduler object).  `main`: the case's own run - the scheduler is built with
    the resources' earlier calendars (if any), used once (`prior`), then `between()` makes the late changes (calendars, a held link)"""
    from pjplan import ForwardScheduler, BackwardScheduler
    changes = []
    if scheduler is None:
        # the scheduler object is built under its own clock (possibly days before the calc): calc must read the clock itself
        set_clock([(clock or case['clock'])[0] - case.get('ctorLead', 0)])
        cls = ForwardScheduler if case['dir'] == 'fwd' else BackwardScheduler
        kw = {'start' if case['dir'] == 'fwd' else 'end': from_us(case['bound'])}
        if case.get('noStart') and case['dir'] == 'fwd' and clock is None and not explicit_start:
            kw = {}
        scheduler = cls(resources=resources_of(case, initial=main), balance_resources=case['balance'],
                        default_estimate=py_num(case['defaultEst'], False), **kw)
        changes = list(resources_of.changes)
        prior = case.get('prior') if main else None
        if prior == 'fail' and not any(nm == 'zz' for nm, _ in case['resources']):
            prior = None         # (a shrunk case that lost the poisoned resource: no earlier failing calc)
        if prior:
            # an earlier use of the same scheduler object: a successful calc of the same WBS, or a calc that fails in the middle
            # of its pass (a last root task on the dead resource 'zz') - the calc that follows must not see any of it
            set_clock(clock or case['clock'])
            try:
                if prior == 'ok':
                    scheduler.calc(w)
                else:
                    from pjplan import Task
                    w2 = build(case)[0]
                    w2 // Task(987654, 'poison', resource='zz', estimate=8)
                    scheduler.calc(w2)
            except Exception:  # noqa
                pass
    if main:
        apply_late_changes(case, changes)
        if between is not None:
            between()
    set_clock(clock or case['clock'])
    try:
        sch = scheduler.calc(w)
    except Exception as e:  # noqa
        return {'out': classify_exc(e)}, scheduler
    uid_of = {}
    for u, (t, o) in enumerate(zip(case['tasks'], objs)):
        if t['member']:
            uid_of[o.id] = u
    s = sch.schedule
    rows = sch.resource_usage.rows()
    obs = {'out': 'ok',
           'tasks': [[us_or_none(t.start), us_or_none(t.end), frac_str(t.estimate), frac_str(t.spent)] for t in s.tasks],
           'order': [uid_of.get(t.id, -1) for t in s.tasks],
           'rows': [[key_of(r.resource.name), to_us(r.date) // DAY_US, uid_of.get(r.task.id, -1), frac_str(r.units)] for r in rows],
           'resources': [key_of(r.name) for r in sch.resources],
           'wbs': [us_or_none(s.start), us_or_none(s.end)],
           'structure': [[t.id, None if t.parent is None else t.parent.id, [c.id for c in t.children],
                          sorted(set(p.id for p in t.predecessors)), sorted(set(p.id for p in t.successors)), t.wbs is s,
                          sorted((k, val_key(v)) for k, v in t.__dict__.items() if not k.startswith('_') and k not in ('start', 'end'))]
                         for t in s.tasks],
           'reserved': [[key_of(r.resource.name), to_us(r.date) // DAY_US, frac_str(sch.resource_usage.reserved(r.resource, r.date))]
                        for r in rows[:6]],
           'rows_midnight': all(r.date == datetime(r.date.year, r.date.month, r.date.day) for r in rows),
           'dust': any(_dust(r) for r in rows),
           'separate': s is not w and not (set(id(t) for t in s.tasks) & set(id(o) for o in objs))}
    return obs, scheduler


def record(case, w, objs, others):
    """the input as the driver wants it: graph state (same layout as the graph family), per-task attributes"""
    allobjs = list(objs) + [w._root()] + [o._root() for o in others]
    wbss = [w] + list(others)
    n = len(objs)
    uid = {id(o): u for u, o in enumerate(allobjs)}
    rows = []
    # the plan's dependencies are the links declared on either end: a link listed on one side only (a state C01 excludes) still is a
    # declared dependency of the plan, so the record lists it on both sides (appended; no change on a symmetric state)
    preds = {id(o): [uid[id(p)] for p in o.predecessors if id(p) in uid] for o in allobjs}
    succs = {id(o): [uid[id(p)] for p in o.successors if id(p) in uid] for o in allobjs}   # (an outside task keeps the copies of an earlier calc as link partners: not part of this input)
    for o in allobjs:
        u = uid[id(o)]
        for pu in list(preds[id(o)]):
            if u not in succs[id(allobjs[pu])]:
                succs[id(allobjs[pu])].append(u)
        for su in list(succs[id(o)]):
            if u not in preds[id(allobjs[su])]:
                preds[id(allobjs[su])].append(u)
    for k_, o in enumerate(allobjs):
        raw_parent = getattr(o, '_Task__parent', None)
        owner = None if o.wbs is None else n + wbss.index(o.wbs)
        if k_ < len(case['tasks']) and not case['tasks'][k_]['member'] and o.wbs is w:
            owner = None          # the plan says this task is not part of the WBS (it left it with a removed branch): what the task itself claims is C11's business
        rows.append([o.id, None if raw_parent is None else uid.get(id(raw_parent)), [uid[id(c)] for c in o.children],
                     preds[id(o)], succs[id(o)], owner])
    # the model's milestone flag is the *effective* one: flagged and childless (the schedulers treat a flagged task that has
    # children as a summary)
    has_child = set(t['parent'] for t in case['tasks'] if t['parent'] is not None)
    attrs = [[key_of(t['res']), t['ms'] and i not in has_child, t['min_start'], t['start'], t['end'], t['est'], t['spent']] for i, t in enumerate(case['tasks'])]
    return {'fam': 'sched', 'dir': case['dir'], 'graph': {'t': rows}, 'w': n, 'attrs': attrs, 'balance': case['balance'],
            'defaultEst': case['defaultEst'], 'clock': case['clock'], 'bound': case['bound'],
            'resources': [[key_of(nm), ex] for nm, ex in case['resources']]}


def execute(prop, case):
    w, objs, others, _ = build(case, hold_last_link=bool(case.get('lateLink')), apply_move=False)
    pending = build.pending
    move = build.move
    box = {}
    if case.get('peek'):
        (w.start, w.end, len(w.tasks), len(w.roots))
        for o in objs:
            (o.all_parents, o.all_children, o.all_predecessors, o.all_successors, o.parent, o.wbs, o.to_dict())
        # ... and scribbles on what the getters returned: plain containers handed out by the library are the caller's to change
        from pjplan.calendar import DEFAULT_CALENDAR
        for cal in [DEFAULT_CALENDAR]:
            try:
                d_ = cal.get_week_day_hours()
                d_[5] = 4
                d_[6] = 4
                d_[0] = 0
            except Exception:  # noqa
                pass
        for o in objs[:3]:
            o.to_dict().clear()

    def between():
        # the WBS is edited after the scheduler has already seen it: the last link is made now
        if pending is not None:
            try:
                objs[pending[0]] >> objs[pending[1]]
            except RuntimeError:
                pass
        if move is not None:
            do_move(w, objs, move)       # the plan is restructured after the scheduler has already seen it
        box['before'] = snapshot(w, objs)
        box['rec'] = record(case, w, objs, others)
    obs, sched = run_calc(case, w, objs, main=True, between=between)
    before, rec = box['before'], box['rec']
    after = snapshot(w, objs)
    rec['obs'] = obs
    rec['pure'] = before == after
    if obs['out'] == 'ok':
        rec['separate'] = obs['separate']
        mine = set(id(x) for x in objs)
        want = [[o.id, None if o.parent is None else o.parent.id, [c.id for c in o.children], sorted(set(p.id for p in o.predecessors)),
                 sorted(set(p.id for p in o.successors if id(p) in mine)), True,
                 sorted((k, val_key(v)) for k, v in o.__dict__.items() if not k.startswith('_') and k not in ('start', 'end'))]
                for o in w.tasks]
        rec['structure_same'] = want == obs['structure']
    if prop == 'C14':
        rec['dead_expected'] = dead_expected(case)
    if prop == 'C06' and obs['out'] == 'ok':
        # same scheduler object again, then a fresh one, then (clock <= start) other clocks
        obs2, _ = run_calc(case, w, objs, scheduler=sched)
        obs3, _ = run_calc(case, w, objs)
        rec['repeat'] = [strip(obs2) == strip(obs), strip(obs3) == strip(obs)]
        if case.get('noStart'):
            # a scheduler built without `start` is one built with start = the clock at that moment
            obs5, _ = run_calc(case, w, objs, explicit_start=True)
            rec['default_start'] = strip(obs5) == strip(obs)
        rec['pure'] = rec['pure'] and snapshot(w, objs) == before
        if case['dir'] == 'fwd' and max(case['clock']) <= case['bound']:
            alts = []
            excused = True
            for alt in ([c - 3 * DAY_US - 7 * H for c in case['clock']], [c - 1 for c in case['clock']], [case['bound']]):
                o4, _ = run_calc(case, w, objs, clock=alt)
                if o4['out'] != 'ok':
                    continue                     # only claimed when both clocks yield a schedule
                same = strip(o4) == strip(obs)
                alts.append(same)
                if not same and clock_hyp(case, case['clock']) and clock_hyp(case, alt):
                    excused = False
            rec['clock_indep'] = alts
            rec['clock_hyp'] = not excused       # True = a differing pair lies inside the hypotheses of C06_clock
    if prop == 'C08' and obs['out'] == 'ok' and not case['balance']:
        rec['removal_same'] = removal_check(case, obs)
    return rec


def clock_hyp(case, clock):
    """hypotheses of C06_clock_partial (`ClockHyp`) for one clock: every reading not later than the project start; on a day before
    the day of every user-fixed start that has no fixed end; and, when a leaf with unfixed start has no work left, not later than the
    midnight of the project start's day (what remains of finding S6 after the repair of the end clamp)"""
    day = lambda us: us // DAY_US
    if any(c > case['bound'] for c in clock):
        return False
    has_child = set(t['parent'] for t in case['tasks'] if t['parent'] is not None)
    for i, t in enumerate(case['tasks']):
        if not t['member']:
            continue
        if t['start'] is not None and t['end'] is None:
            if any(day(c) >= day(t['start']) for c in clock):
                return False
        if i not in has_child and not t['ms'] and t['start'] is None and t['end'] is None:
            est = Fraction(t['est']) if t['est'] is not None else Fraction(case['defaultEst'])
            sp = Fraction(t['spent']) if t['spent'] is not None else 0
            if est - sp <= 0 and any(c > day(case['bound']) * DAY_US for c in clock):
                return False
    return True


def dead_expected(case):
    """a member leaf with work to place sits on a resource that never becomes available"""
    if case.get('dead') is None:
        return False
    if case['dead'] == 3 and case['dir'] == 'bwd':
        return False
    parents = set(t['parent'] for t in case['tasks'] if t['parent'] is not None)
    for i, t in enumerate(case['tasks']):
        if t['member'] and t['res'] == 'b' and i not in parents and not t['ms']:
            est = Fraction(t['est']) if t['est'] is not None else Fraction(case['defaultEst'])
            sp = Fraction(t['spent']) if t['spent'] is not None else 0
            if case['dir'] == 'fwd' and t['end'] is not None:
                continue
            if case['dir'] == 'fwd' and t['start'] is not None and est - sp <= 0:
                continue
            if case['dir'] == 'bwd' and t['end'] is not None and est - sp <= 0:
                continue          # a user-fixed end is taken as it is (no search), and there is no work to place before it
            return True if (est - sp > 0 or t['start'] is None or case['dir'] == 'bwd') else False
    return False


def removal_check(case, obs):
    """balancing off: dates of the remaining leaves do not change when unrelated root-level leaves are removed"""
    tasks = case['tasks']
    parents = set(t['parent'] for t in tasks if t['parent'] is not None)
    linked = set(a for a, b in case['links']) | set(b for a, b in case['links'])
    removable = [i for i, t in enumerate(tasks) if t['member'] and t['parent'] is None and i not in parents and i not in linked]
    if not removable:
        return True
    drop = set(removable[::2])
    keep = [i for i in range(len(tasks)) if i not in drop]
    if not any(tasks[i]['member'] for i in keep):
        return True
    remap = {old: new for new, old in enumerate(keep)}
    nt = []
    for i in keep:
        t = dict(tasks[i])
        if t['parent'] is not None:
            t['parent'] = remap[t['parent']]
        nt.append(t)
    c2 = dict({k: v for k, v in case.items() if k != 'lateMove'}, tasks=nt, links=[[remap[a], remap[b]] for a, b in case['links']], rejected=[[h, remap[a], remap[b]] for h, a, b in case.get('rejected', [])])
    w2, objs2, _, acc = build(c2)
    if len(acc) != len(c2['links']):
        return True
    obs2, _ = run_calc(c2, w2, objs2)
    if obs2['out'] != 'ok':
        return True
    leaf_ids = set(tasks[i]['id'] for i in keep if tasks[i]['member'] and i not in parents)
    d1 = {tasks[u]['id']: t[:2] for u, t in zip(obs['order'], obs['tasks']) if tasks[u]['id'] in leaf_ids}
    d2 = {nt[u]['id']: t[:2] for u, t in zip(obs2['order'], obs2['tasks']) if nt[u]['id'] in leaf_ids}
    return d1 == d2


def strip(obs):
    """what 'equal results' means for C06: outcome, dates, usage rows, and the resource list as a multiset (its order is the insertion
    order of the scheduler object's first use, which no statement fixes)"""
    d = {k: v for k, v in obs.items() if k in ('out', 'tasks', 'rows', 'order')}
    if 'resources' in obs:
        d['resources'] = sorted(obs['resources'], key=lambda x: (x is None, x))
    return d


# ------------------------------------------------------------------------------------ judging

MON_OF = {
    'C03': ['c03Positive', 'c03OwnResource', 'c03CapacityDay', 'c03NoOverAlloc', 'c03Resources', 'c03Report'],
    'C04': ['c04Amount', 'c04OncePerDay', 'c04Window', 'c04None', 'c04StartFirstDay', 'c04EndLastDay', 'c04FixedKept',
            'c04BwdStartFirstDay'],
    'C07': ['c07StartLeEnd', 'c07Rollup', 'c07Wbs'],
    'C02': ['c02Leaf', 'c02Milestone'],
    'C14': ['c14Outcome', 'c14Diagnosed', 'c14DeadResource'],
    'C08': ['c08NoIdle', 'c08Encode', 'c08Order', 'c08Removal'],
    'C09': ['c09Deadline', 'c09Deps', 'c09LatePacked', 'c09Encode'],
    'C06': ['pure', 'separate', 'structure', 'datesPresent', 'repeatSameObject', 'repeatFresh', 'clockIndep', 'schedulableReturns', 'defaultStartIsClock'],
}
# hypotheses of the proved `_partial` theorems, per failing clause (a failure outside them is a finding candidate)
HYP_OF = {
    'C02': {'c02Leaf': ['noSummaryLinks', 'outsideLeaves'], 'c02Milestone': ['noSummaryLinks', 'outsideLeaves']},
    'C08': {'c08NoIdle': ['noSummaryLinks', 'outsideLeaves'], 'c08Encode': [], 'c08Order': [], 'c08Removal': ['noSummaryLinks']},
    'C09': {'c09Deadline': [], 'c09Deps': ['noSummaryLinks'], 'c09LatePacked': ['noSummaryLinks'], 'c09Encode': ['noSummaryLinks']},
    'C06': {'clockIndep': ['clockHyp']},
    'C04': {'c04Window': ['noDust'], 'c04EndLastDay': ['noDust'], 'c04StartFirstDay': ['noDust'], 'c04BwdStartFirstDay': ['noDust']},
}
# domain restrictions of the statements themselves (not findings): cases outside are not judged
CLAUSE_DOMAIN = {
    'c08Encode': ['clockLeBound'],     # "when the clock is not later than the project start"
}
DOMAIN_OF = {
    'C07': ['consistentFixed'],
    'C09': ['noFixedDates'],
}


def canon(x):
    """times: model prints rational microseconds, implementation has ints"""
    if isinstance(x, str):
        f = Fraction(x)
        return int(f) if f.denominator == 1 else str(f)
    if isinstance(x, list):
        return [canon(y) for y in x]
    return x


def project(prop, o, reused=False):
    if o['out'] != 'ok':
        return [o['out'] if prop != 'C14' else ('runtime' if o['out'] == 'runtime' else 'crash')]
    tasks = canon(o['tasks'])
    rows = canon(o['rows'])
    # the resource list is the scheduler's table in insertion order; on a scheduler object that was used before, the order is the one
    # of its first use - no statement fixes it, so it is compared as a multiset then
    res = sorted(o['resources'], key=lambda x: (x is None, x)) if reused else o['resources']
    if prop in ('C03',):
        return ['ok', rows, res]
    if prop in ('C04', 'C08', 'C09', 'C02'):
        return ['ok', rows, tasks]
    if prop == 'C07':
        return ['ok', tasks]
    if prop == 'C14':
        return ['ok']
    return ['ok', rows, tasks, res]


def judge(prop, case, rec, out):
    obs = rec['obs']
    info = {}
    reused = bool(case.get('prior'))
    mp, ip = project(prop, out['model'], reused), project(prop, obs, reused)
    eq = mp == ip
    dust = bool(obs.get('dust'))
    if dust or case.get('dust'):
        # a case with a 2^-40 remainder: day shares are not whole microseconds, so the exact-rational model cannot agree with dates that
        # are rounded to microseconds - only the monitors count (C04); the other properties do not judge such a case
        eq = True
    if not eq:
        info['mismatch'] = {'model': out['model'] if out['model']['out'] != 'ok' else {'tasks': canon(out['model']['tasks']), 'rows': canon(out['model']['rows']), 'resources': out['model']['resources']},
                            'impl': {k: obs.get(k) for k in ('out', 'tasks', 'rows', 'resources')}}
    mon = {}
    for c in MON_OF.get(prop, []):
        if c in out['mon']:
            mon[c] = out['mon'][c]
    if obs['out'] == 'ok':
        if prop == 'C03':
            ok = obs['rows_midnight']
            for k, d, v in obs['reserved']:
                s = sum(Fraction(r[3]) for r in obs['rows'] if r[0] == k and r[1] == d)
                ok = ok and Fraction(v) == s
            mon['c03Report'] = ok
        if prop == 'C07':
            st = [t[0] for t in obs['tasks'] if t[0] is not None]
            en = [t[1] for t in obs['tasks'] if t[1] is not None]
            mon['c07Wbs'] = obs['wbs'] == [min(st) if st else None, max(en) if en else None]
    if prop == 'C14':
        dead = rec.get('dead_expected', False)
        mon['c14DeadResource'] = (not dead) or obs['out'] == 'runtime'
    if prop == 'C06':
        mon = {'pure': rec['pure']}
        # "returns a separate WBS ... in which every task has a start and an end", for schedulable WBSs: a WBS that belongs to none of
        # the unschedulable classes C14 lists (spec predicate `c14MustDiagnose`; dead resources by the generator's tag) and that the model
        # schedules must not be refused
        if obs['out'] == 'runtime' and out['model']['out'] == 'ok' and not out['hyp'].get('mustDiagnose', False) and not dead_expected(case):
            mon['schedulableReturns'] = False
        if obs['out'] == 'ok':
            ids_in = [[t['id'], None if t['parent'] is None else case['tasks'][t['parent']]['id']] for t in case['tasks'] if t['member']]
            mon['separate'] = rec.get('separate', True)
            mon['structure'] = rec.get('structure_same', True)
            mon['datesPresent'] = all(t[0] is not None and t[1] is not None for t in obs['tasks'])
            mon['repeatSameObject'], mon['repeatFresh'] = rec['repeat']
            if 'default_start' in rec:
                mon['defaultStartIsClock'] = rec['default_start']
            if 'clock_indep' in rec:
                mon['clockIndep'] = all(rec['clock_indep'])
    if prop == 'C08' and 'removal_same' in rec:
        mon['c08Removal'] = rec['removal_same']
    dom = DOMAIN_OF.get(prop, [])
    if prop == 'C07' and case['dir'] == 'bwd':
        dom = []          # C07_backward carries no hypothesis on user-fixed dates (the backward pass derives the start from the end)
    in_domain = all(out['hyp'][h] for h in dom) and not ((dust or case.get('dust')) and prop != 'C04')
    if not in_domain:
        mon = {k: True for k in mon}
    for cl, hs in CLAUSE_DOMAIN.items():
        if cl in mon and not all(out['hyp'][h] for h in hs):
            mon[cl] = True            # the statement does not claim this clause for this input
    hyps_all = dict(out['hyp'])
    hyps_all['clockHyp'] = rec.get('clock_hyp', True)
    hyps_all['noDust'] = not dust
    hyp = {}
    sig = None
    failed = sorted(k for k, v in mon.items() if not v)
    per = HYP_OF.get(prop, {})
    for cl in failed:
        for h in per.get(cl, []):
            hyp[h] = hyps_all.get(h, True)
    if failed and hyp and not all(hyp.values()):
        # every failing clause must be excused by a false hypothesis, otherwise the case is in the proved domain
        if all(any(not hyps_all.get(h, True) for h in per.get(cl, [])) for cl in failed):
            sig = '+'.join(sorted(h for h, v in hyp.items() if not v))
        else:
            hyp = {}
    n_leaf = sum(1 for t in case['tasks'] if t['member'])
    nontrivial = obs['out'] == 'ok' and len(obs.get('rows', [])) >= 2 and n_leaf >= 2
    if prop == 'C14':
        nontrivial = n_leaf >= 2
    info['outcome'] = obs['out']
    info['in_statement_domain'] = in_domain
    nontrivial = nontrivial and in_domain
    return Outcome(case, eq, mon, hyp, nontrivial, common.digest(case), info, sig)


def case_variants(case):
    tasks = case['tasks']
    n = len(tasks)
    if case.get('lateMove'):
        yield {k: v for k, v in case.items() if k != 'lateMove'}
    if case.get('rejected'):
        for i in range(len(case['rejected'])):
            yield dict(case, rejected=case['rejected'][:i] + case['rejected'][i + 1:])
    if case['links']:
        yield dict(case, links=[], rejected=[])
        for i in range(len(case['links'])):
            yield dict(case, links=case['links'][:i] + case['links'][i + 1:])
    # drop the last task when nothing refers to it
    for k in range(n - 1, -1, -1):
        if any(t['parent'] == k for t in tasks):
            continue
        nt = [dict(t) for i, t in enumerate(tasks) if i != k]
        for t in nt:
            if t['parent'] is not None and t['parent'] > k:
                t['parent'] -= 1
        nl = [[a - (a > k), b - (b > k)] for a, b in case['links'] if a != k and b != k]
        nr = [[h, a - (a > k), b - (b > k)] for h, a, b in case.get('rejected', []) if a != k and b != k]
        v = dict(case, tasks=nt, links=nl, rejected=nr)
        lm = case.get('lateMove')
        if lm:
            if lm[0] == k or lm[1] == k:
                v.pop('lateMove')
            else:
                v['lateMove'] = [lm[0] - (lm[0] > k), None if lm[1] is None else lm[1] - (lm[1] > k)]
        yield v
    for i in range(len(case['resources'])):
        gone = case['resources'][i][0]
        yield dict(case, resources=case['resources'][:i] + case['resources'][i + 1:], dead=None if gone == 'b' else case.get('dead'),
                   calEarly=[c for c in case.get('calEarly', []) if c[0] != gone])
    for i, t in enumerate(tasks):
        for fld in ('spent', 'min_start', 'start', 'end', 'est'):
            if t[fld] is not None:
                nt = [dict(x) for x in tasks]
                nt[i][fld] = None
                yield dict(case, tasks=nt)
        if t['parent'] is not None:
            nt = [dict(x) for x in tasks]
            nt[i]['parent'] = None
            yield dict(case, tasks=nt)
    if len(case['clock']) > 1:
        yield dict(case, clock=case['clock'][:1])


def shrink(prop, case, still_fails):
    def ok(c):
        # a variant is admissible only when all its links are still accepted by the graph API
        if len(build(c)[3]) != len(c['links']):
            return False
        build(c, hold_last_link=bool(c.get('lateLink')))
        return build.refused and build.moved and still_fails(c)
    return common.shrink_with(case, case_variants, ok, max_tests=300)


def mutate(prop, case, rng):
    c = dict(case)
    r = rng.random()
    if r < 0.3:
        c['balance'] = not c['balance']
    elif r < 0.6:
        c['bound'] = c['bound'] + rng.choice([-1, 1]) * rng.randrange(1, 4) * DAY_US
    else:
        c['clock'] = [x + rng.choice([-1, 1]) * rng.randrange(1, 40) * H for x in c['clock']]
    return c


def count(prop, tier):
    return 1500 if tier == 'quick' else 30000


def projection(prop):
    return {'C03': 'outcome class; ordered usage rows (resource, day, task, units); resource list',
            'C04': 'outcome class; usage rows; dates/estimate/spent of every member',
            'C02': 'outcome class; usage rows; dates', 'C07': 'outcome class; dates/estimate/spent', 'C14': 'outcome class only',
            'C08': 'outcome class; ordered usage rows; dates', 'C09': 'outcome class; usage rows; dates',
            'C06': 'outcome class; usage rows; dates; resource list'}.get(prop, '')


def rule(prop):
    return ('random scheduling inputs: 1-10 (thorough 25) tasks in a random forest, links on leaves and on summaries, milestones, '
            'estimates/spent incl. spent > estimate and zero work, min_start, user-fixed starts/ends (forward), outside predecessors, '
            '0-3 resources with weekly / dict-weekly / dated / composed / bounded / never-available calendars, project bound at midnight and not, '
            'clock before / on / after the bound, both balance settings; one case in four in contention mode (one dominant resource, estimates that '
            'are fractions of a day, release dates spread over a fortnight: interleaved ledger); times of day with seconds and microseconds; '
            'calendars whose bounded part ends exactly at the midnight of a release day; tasks flagged milestone that have children; fixed ends '
            'in the future; the scheduler object built under an earlier clock (30 %) and re-used after a successful or a failing calc (25 %); '
            'exact stream (values are multiples of 1/8, capacities with factors 2,3,5); '
            'non-trivial = schedule with >= 2 usage rows and >= 2 member tasks; distinct = distinct inputs')


def distribution(prop, cases, outcomes):
    d = {'fwd': 0, 'bwd': 0, 'ok': 0, 'runtime': 0, 'crash': 0, 'with_outside': 0, 'with_fixed': 0, 'summary_links': 0, 'in_hypotheses': 0}
    for c, o in zip(cases, outcomes):
        d[c['dir']] += 1
        oc = o.info.get('outcome', 'ok')
        d['ok' if oc == 'ok' else ('runtime' if oc == 'runtime' else 'crash')] += 1
        d['with_outside'] += any(not t['member'] for t in c['tasks'])
        d['with_fixed'] += any(t['start'] is not None or t['end'] is not None for t in c['tasks'] if t['member'])
        d['in_hypotheses'] += o.in_domain
        d['summary_links'] += any(any(t['parent'] == a for t in c['tasks']) or any(t['parent'] == b for t in c['tasks']) for a, b in c['links'])
        d['scheduler_reused'] = d.get('scheduler_reused', 0) + bool(c.get('prior'))
        d['built_under_earlier_clock'] = d.get('built_under_earlier_clock', 0) + bool(c.get('ctorLead'))
        d['sub_second_times'] = d.get('sub_second_times', 0) + any(x % 10**6 for x in [c['bound']] + c['clock'] +
                                                                   [t[k] for t in c['tasks'] for k in ('min_start', 'start') if t[k] is not None])
        d['milestone_summaries'] = d.get('milestone_summaries', 0) + any(t['ms'] and any(u['parent'] == i for u in c['tasks']) for i, t in enumerate(c['tasks']))
        for flag in ('lateLink', 'lateMove', 'lateSpent', 'peek', 'objAttrs', 'noStart', 'rejected', 'calEarly', 'floats'):
            d['flag_' + flag] = d.get('flag_' + flag, 0) + bool(c.get(flag))
    return d
