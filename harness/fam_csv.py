"""CSV family (C13): write_csv / read_csv against Model/Csv.lean + CsvRec.lean (file text, records, rebuilt forest),
plus the round-trip, fixpoint and hand-written-file clauses judged on the real objects."""
import os, tempfile
from datetime import datetime, timedelta
import common
from common import Outcome, classify_exc

STRS = ['plain', 'a;b', 'say "hi"', 'line\nbreak', 'cr\rlf\r\n', '', ' lead', 'trail ', 'ünï', ';', '"', '""', 'x\ty', "'q'", 'a,b', '﻿bom', 'Design\u2028review', 'print\x0cshop', 'v\x0bt', 'nel\x85x', 'ps\u2029', 'fs\x1cgs\x1drs\x1e', 'NaN', 'null', 'old\rmac', 'tail\r']
BASE = datetime(2024, 1, 1)


def random_case(prop, rng, tier):
    n = rng.randrange(1, 10 if tier == 'quick' else 25)
    ids = rng.sample(range(-5, 40), n)
    if rng.random() < 0.5 and 0 not in ids:
        ids[rng.randrange(n)] = 0
    tasks = []
    for i in range(n):
        t = {'id': ids[i], 'parent': rng.randrange(i) if i and rng.random() < 0.6 else None,
             'name': rng.choice(STRS + [None]), 'resource': rng.choice([None, None, 'ann', 'b;c', '']),
             'start': rng.randrange(-20000, 16400) if rng.random() < 0.4 else None, 'end': rng.randrange(-300, 16000) if rng.random() < 0.3 else None,
             'min_start': rng.randrange(0, 9000) if rng.random() < 0.3 else None,
             'estimate': rng.choice([None, 0, 3, 2.5, 0.1, 1e-05, 12.75, 100, 1e+16]), 'spent': rng.choice([None, None, 0, 1.5, 8, 2e-05]),
             'milestone': rng.random() < 0.15, 'custom': {}}
        for k in ('prio', 'note', 'flag', 'x y'):
            if rng.random() < 0.3:
                t['custom'][k] = rng.choice([1, 2.5, True, None, 'txt', 0, 0.0, False, 0] + STRS[:8])
        tasks.append(t)
    links = [[rng.randrange(n), rng.randrange(n)] for _ in range(rng.randrange(0, n + 2))]
    return {'tasks': tasks, 'links': links, 'hand': rng.choice([None, 'bom', 'perm', 'bom+perm', 'nomin', 'bom+perm+nomin'])}


def build(case):
    from pjplan import Task, WBS
    w = WBS()
    objs = []
    for i, t in enumerate(case['tasks']):
        kw = dict(t['custom'])
        for k in ('start', 'end', 'min_start'):
            if t[k] is not None:
                kw[k] = BASE + timedelta(days=t[k])
        o = Task(t['id'], t['name'], resource=t['resource'], estimate=t['estimate'], spent=t['spent'], milestone=t['milestone'], **kw)
        if t['parent'] is None:
            w // o
        else:
            objs[t['parent']] // o
        objs.append(o)
    for a, b in case['links']:
        if a != b:
            try:
                objs[a] >> objs[b]
            except RuntimeError:
                pass
    return w, objs


FMT = '%d.%m.%y'


def rec_of(t):
    """the record `write_csv` is given, numbers and dates formatted by Python's own built-ins"""
    d = lambda x: None if x is None else x.strftime(FMT)
    custom = []
    for k, v in t.__dict__.items():
        if k.startswith('_') or k in ('name', 'resource', 'start', 'end', 'milestone', 'parent_id', 'predecessor_ids', 'id', 'estimate', 'spent'):
            continue
        custom.append([k, None if v is None else (d(v) if isinstance(v, datetime) else str(v))])
    return {'id': str(t.id), 'name': t.name, 'resource': t.resource, 'start': d(t.start), 'end': d(t.end),
            'estimate': None if t.estimate is None else str(t.estimate), 'spent': None if t.spent is None else str(t.spent),
            'milestone': bool(t.milestone), 'parent_id': None if t.parent is None else str(t.parent.id),
            'preds': [str(p.id) for p in t.predecessors], 'custom': custom}


def norm_task(t, drop_min=False):
    """comparable description of a task: C13's notion of equality (None / '' equal, custom values as strings)"""
    e = lambda x: None if x in (None, '') else x
    custom = {}
    for k, v in t.__dict__.items():
        if k.startswith('_') or k in ('name', 'resource', 'start', 'end', 'milestone', 'min_start', 'parent_id', 'predecessor_ids'):
            continue
        s = None if v is None else str(v)
        if s not in (None, ''):
            custom[k] = s
    return [t.id, None if t.parent is None else t.parent.id, [c.id for c in t.children], [p.id for p in t.predecessors], e(t.name), e(t.resource),
            t.start, t.end, t.estimate, t.spent, bool(t.milestone), None if drop_min else t.min_start, sorted(custom.items())]


def forest_of(w):
    def tr(t):
        return [str(t.id), [tr(c) for c in t.children]]
    return [tr(r) for r in w.roots]


def execute(prop, case):
    from pjplan import read_csv, write_csv
    w, objs = build(case)
    rec = {'fam': 'csvrec', 'recs': [rec_of(t) for t in w.tasks], 'texts': []}
    py = {}
    os.makedirs(os.path.join(common.OUT, 'tmp'), exist_ok=True)
    with tempfile.TemporaryDirectory(dir=os.path.join(common.OUT, 'tmp')) as d:
        p1, p2, p3, ph = [os.path.join(d, x) for x in ('1.csv', '2.csv', '3.csv', 'h.csv')]
        try:
            write_csv(w, p1)
            text1 = open(p1, encoding='utf-8', newline='').read()
            rec['text1'] = text1
            w2 = read_csv(p1)
            rec['texts'].append(text1)
            rec['reread'] = [rec_of(t) for t in w2.tasks]
            rec['forest'] = forest_of(w2)
            py['roundtrip'] = [norm_task(t) for t in w.tasks] == [norm_task(t) for t in w2.tasks]
            py['owner'] = all(t.wbs is w2 for t in w2.tasks)
            write_csv(w2, p2)
            w3 = read_csv(p2)
            write_csv(w3, p3)
            b2, b3 = open(p2, 'rb').read(), open(p3, 'rb').read()
            py['fixpoint'] = b2 == b3
            if case['hand']:
                # the same content written "by hand": optional BOM, columns permuted
                import csv
                rows = list(csv.reader(open(p2, encoding='utf-8', newline='\n'), delimiter=';'))
                if 'perm' in case['hand'] and rows:
                    order = list(range(len(rows[0])))
                    order = order[1:] + order[:1]
                    rows = [[r[i] for i in order] for r in rows]
                nomin = 'nomin' in case['hand'] and rows and 'min_start' in rows[0]
                if nomin:
                    # a file of an earlier version: no min_start column at all (every task then has no min_start)
                    k = rows[0].index('min_start')
                    rows = [r[:k] + r[k + 1:] for r in rows]
                with open(ph, 'w', encoding='utf-8', newline='\n') as f:
                    if 'bom' in case['hand']:
                        f.write('﻿')
                    csv.writer(f, delimiter=';').writerows(rows)
                wh = read_csv(ph)
                if nomin:
                    py['hand'] = all(t.min_start is None for t in wh.tasks) and \
                        [norm_task(t, drop_min=True) for t in wh.tasks] == [norm_task(t, drop_min=True) for t in w3.tasks]
                else:
                    py['hand'] = [norm_task(t) for t in wh.tasks] == [norm_task(t) for t in w3.tasks]
                texth = open(ph, encoding='utf-8', newline='').read()
                rec['texts'].append(texth)
                rec['reread_hand'] = [rec_of(t) for t in wh.tasks]
            rec['out'] = 'ok'
        except Exception as e:  # noqa
            rec['out'] = classify_exc(e)
    rec['py'] = py
    return rec


def strip_rec(r, cols=None):
    """records as the model reads them: '' = None; custom cells restricted to non-empty ones (order-free)"""
    e = lambda x: None if x in (None, '') else x
    return [r['id'], e(r['name']), e(r['resource']), r['start'], r['end'], r['milestone'], e(r['parent_id']), r['preds'],
            sorted((k, v) for k, v in r['custom'] if v not in (None, '') and k not in ('min_start', 'estimate', 'spent'))]


def judge(prop, case, rec, out):
    info = {}
    eq = True
    if rec['out'] == 'ok':
        if out['text'] != rec['text1']:
            eq = False
            info['text'] = {'model': out['text'][:300], 'impl': rec['text1'][:300]}
        reads = out['reads']
        if reads[0] is None:
            eq = False
            info['read'] = 'model could not read the file'
        else:
            m = [strip_rec(r) for r in reads[0]['recs']]
            i = [strip_rec(r) for r in rec['reread']]
            if m != i:
                eq = False
                info['read'] = {'model': m[:3], 'impl': i[:3]}
            if reads[0]['forest'] != rec['forest']:
                eq = False
                info['forest'] = {'model': reads[0]['forest'], 'impl': rec['forest']}
        if len(reads) > 1 and 'reread_hand' in rec:
            if reads[1] is None or [strip_rec(r) for r in reads[1]['recs']] != [strip_rec(r) for r in rec['reread_hand']]:
                eq = False
                info['hand'] = 'hand-written file read differently'
    mon = {'accepted': rec['out'] == 'ok'}
    mon.update({k: bool(v) for k, v in rec['py'].items()})
    nontrivial = rec['out'] == 'ok' and len(case['tasks']) >= 3
    return Outcome(case, eq, mon, {}, nontrivial, common.digest(case), info)


def case_variants(case):
    n = len(case['tasks'])
    if case['links']:
        yield dict(case, links=[])
    if case['hand']:
        yield dict(case, hand=None)
    for k in range(n - 1, -1, -1):
        if any(t['parent'] == k for t in case['tasks']) or n == 1:
            continue
        nt = [dict(t) for i, t in enumerate(case['tasks']) if i != k]
        for t in nt:
            if t['parent'] is not None and t['parent'] > k:
                t['parent'] -= 1
        nl = [[a - (a > k), b - (b > k)] for a, b in case['links'] if a != k and b != k]
        yield dict(case, tasks=nt, links=nl)
    for i, t in enumerate(case['tasks']):
        for f in ('name', 'resource', 'start', 'end', 'min_start', 'estimate', 'spent'):
            if t[f] is not None:
                nt = [dict(x) for x in case['tasks']]
                nt[i][f] = None
                yield dict(case, tasks=nt)
        if t['custom']:
            nt = [dict(x) for x in case['tasks']]
            nt[i]['custom'] = {}
            yield dict(case, tasks=nt)
        if t['parent'] is not None:
            nt = [dict(x) for x in case['tasks']]
            nt[i]['parent'] = None
            yield dict(case, tasks=nt)


def shrink(prop, case, still_fails):
    return common.shrink_with(case, case_variants, still_fails, max_tests=200)


def mutate(prop, case, rng):
    return random_case(prop, rng, 'quick')


def count(prop, tier):
    return 1500 if tier == 'quick' else 20000


def projection(prop):
    return 'bytes of the written file; records and rebuilt hierarchy of the re-read file (empty text = None)'


def rule(prop):
    return ('random WBSs of 1-9 (thorough 24) tasks, depth up to the task count, ids including 0 and negative numbers, adversarial strings in '
            'names / resources / custom attributes (delimiter, quotes, CR, LF, BOM, leading/trailing blanks, non-ASCII), sparse custom '
            'attributes of mixed types, fractional and tiny estimates, dates within 1969-2068, predecessor links; each case: write, read, '
            'write, read, write (round trip + fixpoint bytes) and a hand-written variant with/without BOM and permuted columns; '
            'non-trivial = >= 3 tasks')


def distribution(prop, cases, outcomes):
    return {'with_hand': sum(1 for c in cases if c['hand']), 'with_id0_parent': sum(1 for c in cases if any(t['parent'] is not None and c['tasks'][t['parent']]['id'] == 0 for t in c['tasks']))}
