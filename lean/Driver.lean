import PjVerif.Basic
partial def loop (h : IO.FS.Stream) (n : Nat) : IO Unit := do
  let line ← h.getLine
  if line.isEmpty then IO.println s!"{n}"; return ()
  loop h (n+1)
def main : IO Unit := do loop (← IO.getStdin) 0
