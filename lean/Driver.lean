/- Driver.lean — line protocol: one JSON case per line in, one JSON verdict per line out -/
import PjVerif.Drive.Cal
import PjVerif.Drive.Graph
import PjVerif.Drive.Sched
import PjVerif.Drive.Dump
import PjVerif.Drive.Query
import PjVerif.Drive.Clone
import PjVerif.Drive.CritPath
import PjVerif.Drive.Csv
import PjVerif.Drive.Print
import PjVerif.Drive.Render
open Lean Pj.Drive

def dispatch (j : Json) : Json :=
  match jStr (fld j "fam") with
  | "cal" => runCal j
  | "graph" => runGraph j
  | "sched" => runSched j
  | "dumpenv" => runDump j
  | "query" => runQuery j
  | "clone" => runClone j
  | "cp" => runCp j
  | "csvtext" => runCsvText j
  | "csvrec" => runCsvRec j
  | "print" => runPrint j
  | "render" => runRender j
  | f => mkObj [("id", fld j "id"), ("error", .str s!"unknown family {f}")]

def main : IO Unit := do
  let out ← IO.getStdout
  let inp ← IO.getStdin
  let mut go := true
  while go do
    let line ← inp.getLine
    if line.isEmpty then
      go := false
    else if !line.trimAscii.toString.isEmpty then
      match Json.parse line with
      | .ok j => out.putStrLn (dispatch j).compress
      | .error e => out.putStrLn (mkObj [("error", .str s!"parse: {e}")]).compress
      out.flush
