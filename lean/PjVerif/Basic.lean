def hello := "world"
