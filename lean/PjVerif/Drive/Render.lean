/- Drive/Render.lean — render family (C19) -/
import PjVerif.Drive.Json
import PjVerif.Spec.Render
open Lean
namespace Pj.Drive
open Pj.Render

def rStr (j : Json) : Render.Str := (jStr j).toList
def rOptStr (j : Json) : Option Render.Str := match j with | .null => none | x => some (jStr x).toList

def parseGTask (j : Json) : GTask :=
  { idText := rStr (fld j "id"), name := rStr (fld j "name"), milestone := jBool (fld j "milestone"), done := jBool (fld j "done"),
    active := jBool (fld j "active"), start := rStr (fld j "start"), end_ := rStr (fld j "end"), sect := rOptStr (fld j "section") }

def parseNTask (j : Json) : NTask :=
  { idText := rStr (fld j "id"), name := rStr (fld j "name"), preds := (jArr (fld j "preds")).map jNat, style := rOptStr (fld j "style") }

def parseDTask (j : Json) : DTask :=
  { id := jInt (fld j "id"), name := rStr (fld j "name"), milestone := jBool (fld j "milestone"), start := rStr (fld j "start"),
    end_ := rStr (fld j "end"), endPast := jBool (fld j "endPast"), estimate := jRat (fld j "estimate"),
    spent := (match fld j "spent" with | .null => none | x => jRat? x),
    parent := (match fld j "parent" with | .null => none | x => some (jNat x)),
    children := (jArr (fld j "children")).map jNat, preds := (jArr (fld j "preds")).map jNat }

def gEntryOut (e : GEntry) : Json :=
  .arr #[.str (String.ofList e.name), .str (String.ofList e.state), .str (String.ofList e.idText), .str (String.ofList e.start), .str (String.ofList e.end_)]

def runRender (j : Json) : Json :=
  let gt := (jArr (fld j "gantt")).map parseGTask
  let gsrc := ganttSrc (rOptStr (fld j "title")) (jBool (fld j "weekends")) (rOptStr (fld j "tick")) gt
  let narr := ((jArr (fld j "network")).map parseNTask).toArray
  let nall : Nat → NTask := fun i => narr.getD i default
  let members := (jArr (fld j "members")).map jNat
  let nsrc := networkSrc nall members
  let darr := ((jArr (fld j "dhtmlx")).map parseDTask).toArray
  let dall : Nat → DTask := fun i => darr.getD i default
  let roots := (jArr (fld j "roots")).map jNat
  let data := dhtmlxData dall darr.size roots
  let links := dhtmlxLinks dall darr.size roots
  -- monitors on the implementation's texts
  let ig := rStr (fld j "obsGantt")
  let inw := rStr (fld j "obsNetwork")
  let sameMultiset (a b : List GEntry) : Bool := a.all (fun x => a.count x == b.count x) && a.length == b.length
  let monGantt := sameMultiset ((readGantt ig).map (·.2)) (gt.map expectedGantt)
  let monNet := readNetwork inw == expectedEdges nall members
  let noBraces := narr.toList.all (fun t => !t.name.contains '{' && !t.name.contains '}' && !t.name.contains '\n')
  mkObj [("id", fld j "id"), ("gantt", .str (String.ofList gsrc)), ("network", .str (String.ofList nsrc)),
         ("data", .arr (data.map (fun e => Json.arr #[toJson e.id, .str (String.ofList e.text), .bool e.milestone,
              .str (String.ofList e.start), .str (String.ofList e.end_), toJson e.parent, ratOut e.progress])).toArray),
         ("links", .arr (links.map (fun l => Json.arr #[toJson l.id, toJson l.source, toJson l.target])).toArray),
         ("mon", mkObj [("ganttEntries", monGantt), ("networkEdges", monNet),
                        ("progressRange", data.all (fun e => decide (0 ≤ e.progress ∧ e.progress ≤ 1)))]),
         ("hyp", mkObj [("noBraces", noBraces)])]

end Pj.Drive
