/- Drive/Print.lean — print family (C20) -/
import PjVerif.Drive.Json
import PjVerif.Model.Print
open Lean
namespace Pj.Drive
open Pj.Print

def pOptStr (j : Json) : Option Print.Str := match j with | .null => none | x => some (jStr x).toList
def pOptNat (j : Json) : Option Nat := match j with | .null => none | x => some (jNat x)

def parsePTask (j : Json) : PTask :=
  { idText := (jStr (fld j "id")).toList, isRoot := jBool (fld j "root"), name := pOptStr (fld j "name"),
    estimate := pOptStr (fld j "estimate"), spent := pOptStr (fld j "spent"),
    dict := (jArr (fld j "dict")).map (fun p => ((jStr (jIdx p 0)).toList, pOptStr (jIdx p 1))),
    children := (jArr (fld j "children")).map jNat, preds := (jArr (fld j "preds")).map jNat, succs := (jArr (fld j "succs")).map jNat,
    parent := pOptNat (fld j "parent"), owner := pOptNat (fld j "owner") }

def splitLines (s : Print.Str) : List Print.Str :=
  s.foldr (fun c (acc : List Print.Str) => if c == '\n' then [] :: acc else match acc with
    | [] => [[c]]
    | x :: xs => (c :: x) :: xs) [[]]

/-- {"fam":"print","tasks":[…],"shown":[uids],"fields":[…],"children":bool,"header":color,"levels":[colors],"obs":text} -/
def runPrint (j : Json) : Json :=
  let arr := ((jArr (fld j "tasks")).map parsePTask).toArray
  let ts : Nat → PTask := fun u => arr.getD u default
  let fields := (jArr (fld j "fields")).map (fun f => (jStr f).toList)
  let children := jBool (fld j "children")
  let theme : Theme := { header := pOptStr (fld j "header"), levels := (jArr (fld j "levels")).map (fun c => (jStr c).toList) }
  let shown := (jArr (fld j "shown")).map jNat
  let text := sheet ts arr.size shown fields children theme
  -- monitors on the implementation's text
  let obs := (jStr (fld j "obs")).toList
  let lines := (splitLines obs).map visible
  let want := 1 + (shown.map (shownCount ts children (arr.size + 1))).sum
  let monLines := fields.isEmpty || lines.length == want
  let monAligned := match lines with | [] => true | l :: ls => ls.all (fun x => x.length == l.length)
  mkObj [("id", fld j "id"), ("text", .str (String.ofList text)),
         ("mon", mkObj [("lineCount", monLines), ("aligned", monAligned)])]

end Pj.Drive
