/- Drive/Cal.lean — calendar family: runs the model and the C17 monitors on one case -/
import PjVerif.Drive.Json
import PjVerif.Spec.Calendar
open Lean
namespace Pj.Drive

def parseOpKind (s : String) : OpKind :=
  match s with
  | "add" => .add | "sub" => .sub | "mul" => .mul | "div" => .div | _ => .or

partial def parseCExpr (j : Json) : CExpr :=
  match jStr (jIdx j 0) with
  | "WL" => .weeklyList (jOptTime (jIdx j 1)) (jOptTime (jIdx j 2)) ((jArr (jIdx j 3)).map jInt) (jRat (jIdx j 4))
  | "WD" => .weeklyDict (jOptTime (jIdx j 1)) (jOptTime (jIdx j 2))
              ((jArr (jIdx j 3)).map (fun p => (jInt (jIdx p 0), jRat (jIdx p 1))))
  | "D" => .direct ((jArr (jIdx j 1)).map (fun p => (jTime (jIdx p 0), jRat (jIdx p 1))))
  | "F" => .fixed (jRat (jIdx j 1)) (jOptTime (jIdx j 2)) (jOptTime (jIdx j 3))
  | "N" => .num (jRat (jIdx j 1))
  | _ => .op (parseOpKind (jStr (jIdx j 1))) (parseCExpr (jIdx j 2)) (parseCExpr (jIdx j 3))

/-- total capacity function of the *spec* (None → 0; undefined → 0, flagged separately) -/
def denCap (e : CExpr) (t : Time) : Rat :=
  match e.den t with
  | some (some v) => v
  | _ => 0

def denDefinedOn (e : CExpr) (ts : List Time) : Bool := ts.all (fun t => (e.den t).isSome)

/-- labels for the ways a definition can be invalid (diagnostics only; the monitor is `CExpr.invalid`) -/
partial def invalidReasons : CExpr → List String
  | .weeklyList s e days u =>
    (if days.any (fun v => v < 0 || v > 6) then ["weekday"] else []) ++ (if u < 0 then ["negative"] else []) ++
    (if startAfterEnd s e then ["startend"] else [])
  | .weeklyDict s e d =>
    (if d.any (fun p => p.1 < 0 || p.1 > 6) then ["weekday"] else []) ++ (if d.any (fun p => p.2 < 0) then ["negative"] else []) ++
    (if startAfterEnd s e then ["startend"] else [])
  | .direct items => if items.any (fun p => p.2 < 0) then ["negative"] else []
  | .fixed u s e => (if u < 0 then ["negative"] else []) ++ (if startAfterEnd s e then ["startend"] else [])
  | .num u => if u < 0 then ["negative"] else []
  | .op k a b => invalidReasons a ++ invalidReasons b ++
      (if k == .div && (match b with | .num u => decide (u = 0) | _ => false) then ["div0"] else [])

def runCal (j : Json) : Json :=
  let e := parseCExpr (fld j "expr")
  let implBuild : Res Unit := jRes (fun _ => ()) (fld j "build")
  let mb := e.build
  let modelBuild : Json := resOut (fun _ => Json.null) mb
  -- monitor: constructor rejections (on the implementation's observation)
  let monCtor : Bool :=
    if !e.wellShaped then true
    else if e.invalid then (match implBuild with | .error .runtime => true | _ => false)
    else (match implBuild with | .ok _ => true | _ => false)
  let ctorKey := "ctor" ++ String.join ((invalidReasons e).eraseDups.map (fun r => "-" ++ r))
  match mb with
  | .error _ =>
    mkObj [("id", fld j "id"), ("model", mkObj [("build", modelBuild)]),
           ("mon", mkObj [(ctorKey, monCtor)])]
  | .ok c =>
    let qs := jArr (fld j "q")
    let modelQ := qs.map (fun q => resOut optRatOut (c.eval (jTime (jIdx q 0))))
    -- monitor: value = the operator applied to the operands' values (spec `den`), where defined
    let monValue := qs.all (fun q =>
      let t := jTime (jIdx q 0)
      match e.den t with
      | none => true
      | some v => (match jRes jRat? (jIdx q 1) with
                   | .ok iv => iv == v
                   | .error _ => false))
    let caps := jArr (fld j "cap")
    let modelCap := caps.map (fun q => resOut ratOut (capR c (jTime (jIdx q 0))))
    let monTotal := caps.all (fun q =>
      let t := jTime (jIdx q 0)
      match e.den t with
      | none => true
      | some v => (match jRes jRat? (jIdx q 1) with
                   | .ok (some iv) => iv == v.getD 0
                   | _ => false))
    let ss := jArr (fld j "search")
    let modelS := ss.map (fun s =>
      resOut timeOut (search c (jInt (jIdx s 1)) (jNat (jIdx s 2)) (jTime (jIdx s 0))))
    let monSearch := ss.all (fun s =>
      let t := jTime (jIdx s 0); let dir := jInt (jIdx s 1); let H := jNat (jIdx s 2)
      let pts := (List.range (H + 1)).map (fun (k : Nat) => t + (k : Rat) * (dir : Rat) - (if dir < 0 then 1 else 0))
      if !denDefinedOn e pts then true
      else searchSpecB (denCap e) dir H t (jRes jTime (jIdx s 3)))
    mkObj [("id", fld j "id"),
           ("model", mkObj [("build", modelBuild), ("q", .arr modelQ.toArray),
                            ("cap", .arr modelCap.toArray), ("search", .arr modelS.toArray)]),
           ("mon", mkObj [(ctorKey, monCtor), ("value", monValue), ("total", monTotal), ("search", monSearch)])]

end Pj.Drive
