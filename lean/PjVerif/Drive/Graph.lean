/- Drive/Graph.lean — graph family: one step from the implementation's own pre-state -/
import PjVerif.Drive.Json
import PjVerif.Spec.Graph
import PjVerif.Spec.GraphEff
open Lean
namespace Pj.Drive

def jOptNat (j : Json) : Option Nat :=
  match j with
  | .null => none
  | _ => some (jNat j)

def jNats (j : Json) : List Nat := (jArr j).map jNat

/-- state: {"t": [[tid, parent|null, [children], [preds], [succs], owner|null], ...]} ; index = uid -/
def parseG (j : Json) : G :=
  let rows := (jArr (fld j "t")).toArray
  let n := rows.size
  let row (u : Nat) : Json := rows.getD u .null
  { n := n,
    tid := fun u => if u < n then jInt (jIdx (row u) 0) else 0,
    parent := fun u => if u < n then jOptNat (jIdx (row u) 1) else none,
    children := fun u => if u < n then jNats (jIdx (row u) 2) else [],
    preds := fun u => if u < n then jNats (jIdx (row u) 3) else [],
    succs := fun u => if u < n then jNats (jIdx (row u) 4) else [],
    owner := fun u => if u < n then jOptNat (jIdx (row u) 5) else none }

/-- array-backed copy of a state (same values on every uid `< n`): lookups no longer walk the chain of
    closures that the functional updates of the model build up.  Representation only. -/
def freezeG (g : G) : G :=
  let n := g.n
  let r := Array.range n
  let tid := r.map g.tid
  let parent := r.map g.parent
  let children := r.map g.children
  let preds := r.map g.preds
  let succs := r.map g.succs
  let owner := r.map g.owner
  { n := n, tid := fun u => tid.getD u 0, parent := fun u => parent.getD u none, children := fun u => children.getD u [],
    preds := fun u => preds.getD u [], succs := fun u => succs.getD u [], owner := fun u => owner.getD u none }

def optNatOut : Option Nat → Json
  | none => .null
  | some n => toJson n

def gOut (s : G) : Json :=
  mkObj [("t", .arr ((List.range s.n).map (fun u =>
    Json.arr #[toJson (s.tid u), optNatOut (s.parent u), toJson (s.children u), toJson (s.preds u),
               toJson (s.succs u), optNatOut (s.owner u)])).toArray)]

/-- op: ["name", args…] -/
def parseOp (j : Json) : Op :=
  let a (i : Nat) := jIdx j i
  match jStr (a 0) with
  | "setParent" => .setParent (jNat (a 1)) (jOptNat (a 2))
  | "setChildren" => .setChildren (jNat (a 1)) (jNats (a 2))
  | "chAppend" => .chAppend (jNat (a 1)) (jNat (a 2))
  | "chRemove" => .chRemove (jNat (a 1)) (jNat (a 2))
  | "chInsert" => .chInsert (jNat (a 1)) (jInt (a 2)) (jNat (a 3))
  | "chMove" => .chMove (jNat (a 1)) (jNats (a 2)) (jOptNat (a 3)) (jOptNat (a 4))
  | "chSort" => .chSort (jNat (a 1)) ((jArr (a 2)).map (fun p => (jNat (jIdx p 0), jInt (jIdx p 1)))) (jBool (a 3))
  | "chReorder" => .chReorder (jNat (a 1)) ((jArr (a 2)).map jInt)
  | "setPreds" => .setPreds (jNat (a 1)) (jNats (a 2))
  | "setSuccs" => .setSuccs (jNat (a 1)) (jNats (a 2))
  | "prAppend" => .prAppend (jNat (a 1)) (jNat (a 2))
  | "prRemove" => .prRemove (jNat (a 1)) (jNat (a 2))
  | "suAppend" => .suAppend (jNat (a 1)) (jNat (a 2))
  | "suRemove" => .suRemove (jNat (a 1)) (jNat (a 2))
  | "floordiv" => .floordiv (jNat (a 1)) (jNats (a 2))
  | "lshift" => .lshift (jNat (a 1)) (jNats (a 2))
  | "rshift" => .rshift (jNat (a 1)) (jNats (a 2))
  | "listLshift" => .listLshift (jNats (a 1)) (jNats (a 2))
  | "listRshift" => .listRshift (jNats (a 1)) (jNats (a 2))
  | "listSetParent" => .listSetParent (jNats (a 1)) (jOptNat (a 2))
  | "wbsRemove" => .wbsRemove (jNat (a 1)) (jNat (a 2))
  | "wbsRemoveAll" => .wbsRemoveAll (jNat (a 1)) (jNats (a 2))
  | _ => .chRemoveAll (jNat (a 1)) (jNats (a 2))

def boolsOut (l : List (String × Bool)) : Json := mkObj (l.map (fun p => (p.1, Json.bool p.2)))

/-- the invariants of C01/C05/C11 on one state -/
def invClauses (s : G) : List (String × Bool) :=
  wfClauses s ++ [("ownerOk", ownerOkB s), ("uniqueIds", uniqueIdsB s)]

/-- C11 "can be attached to another WBS": a parentless, owner-less ordinary task whose subtree ids do not occur
    in WBS `w` must be accepted by `w.roots.append(t)` -/
def mustAcceptB (pre : G) (op : Op) : Bool :=
  match op with
  | .chAppend w t =>
    if pre.hidden w && !pre.hidden t && pre.owner t == none && pre.parent t == none then
      match subtreeF pre.children pre.fuel t, descF pre.children pre.fuel w with
      | some sub, some mem => sub.all (fun x => mem.all (fun y => pre.tid x != pre.tid y))
      | _, _ => false
    else false
  | _ => false

def isReorder : Op → Bool
  | .chReorder _ _ => true
  | _ => false

/-- C16: the observed post-state of an accepted call is exactly the documented effect -/
def effectB (pre post : G) (op : Op) : Bool :=
  match effOf pre op with
  | some e => eqB e post
  | none =>
    match op with
    | .chSort h keys rev =>
      sortedByB (keyOf keys) rev (pre.children h) (post.children h) &&
      eqB { pre with children := upd pre.children h (post.children h) } post
    | .chMove h ts b a => eqB (effMove pre h ts b a) post
    | _ => true

/-- one step: {"fam":"graph","pre":state,"op":[…],"out":"ok"|"runtime"|"crash:K","post":state,
               "wbs":[{"w":uid,"tasks":[uids],"look":[[id, uid|"runtime"|…]…]}…]} -/
def runGraphStep (j : Json) : Json :=
  let pre := parseG (fld j "pre")
  let post := parseG (fld j "post")
  let op := parseOp (fld j "op")
  let implErr : Option Err := if jStr (fld j "out") == "ok" then none else some (parseErr (jStr (fld j "out")))
  let (mpost, merr) := step pre op
  -- C05: WBS.tasks = depth-first order of the observed hierarchy; lookups exact
  let wbsMon := (jArr (fld j "wbs")).all (fun w =>
    let root := jNat (fld w "w")
    let tasks := jNats (fld w "tasks")
    match preorder post root with
    | none => false
    | some po =>
      po == tasks && nodupB tasks &&
      (jArr (fld w "look")).all (fun l =>
        let i := jInt (jIdx l 0)
        let hits := po.filter (fun t => post.tid t == i)
        match jIdx l 1 with
        | .str e => e == "runtime" && hits.isEmpty
        | r => hits == [jNat r]))
  mkObj [("id", fld j "id"),
         ("model", mkObj [("out", .str (match merr with | none => "ok" | some e => e.name)), ("post", gOut mpost)]),
         ("preInv", boolsOut (invClauses pre)),
         ("mon", boolsOut (invClauses post ++
            [("unchangedOnRaise", implErr.isNone || eqB pre post), ("tasksLookup", wbsMon),
             ("rejectIsRuntime", isReorder op || (match implErr with | some (.crash _) => false | _ => true)),
             ("reattach", !(mustAcceptB pre op) || implErr.isNone),
             ("effect", implErr.isSome || effectB pre post op)])),
         ("mustAccept", .bool (mustAcceptB pre op))]

def runGraph (j : Json) : Json :=
  mkObj [("id", fld j "id"), ("steps", .arr ((jArr (fld j "steps")).map runGraphStep).toArray)]

end Pj.Drive
