/- Drive/CritPath.lean — critical path family (C12) -/
import PjVerif.Drive.Graph
import PjVerif.Spec.CritPath
open Lean
namespace Pj.Drive

/-- {"fam":"cp","tasks":[[parent|null,[children],[preds],est|null,spent|null],…],"members":[uids],
     "obs":["ok",[uids]]|["err",…]} -/
def runCp (j : Json) : Json :=
  let rows := (jArr (fld j "tasks")).toArray
  let n := rows.size
  let row (u : Nat) := rows.getD u .null
  let optRat (x : Json) : Option Rat := match x with | .null => none | _ => jRat? x
  let e : CPEnv :=
    { n := n, members := jNats (fld j "members"),
      children := fun u => jNats (jIdx (row u) 1), parent := fun u => jOptNat (jIdx (row u) 0),
      preds := fun u => jNats (jIdx (row u) 2), est := fun u => optRat (jIdx (row u) 3), spent := fun u => optRat (jIdx (row u) 4) }
  let model := e.criticalPath
  let impl : Res (List Nat) := jRes jNats (fld j "obs")
  let spec := e.specCritical
  let monExact := match spec, impl with
    | some s, .ok l => sameSetN s l && l.eraseDups.length == l.length
    | some _, .error _ => false
    | none, _ => true                  -- cyclic waits-for relation: outside the property's domain
  let monNonEmpty := match spec, impl with
    | some _, .ok l => e.leaves.isEmpty || !l.isEmpty
    | _, _ => true
  mkObj [("id", fld j "id"), ("model", resOut (fun l => toJson l) model),
         ("mon", mkObj [("exact", monExact), ("nonEmpty", monNonEmpty)]), ("acyclic", .bool e.acyclicB)]
where
  sameSetN (a b : List Nat) : Bool := a.all b.contains && b.all a.contains

end Pj.Drive
