/- Drive/Dump.lean — prints the environment the driver builds for a scheduling case as Lean source, so that a finding's
   witness can be stated as a closed term in Props/Witness.lean (used by the `_full_fails` theorems). -/
import PjVerif.Drive.Sched
open Lean
namespace Pj.Drive

def ratLean (r : Rat) : String :=
  if r.den == 1 then s!"({r.num} : Rat)" else s!"(({r.num} : Rat) / {r.den})"

def optLean {α} (f : α → String) : Option α → String
  | none => "none"
  | some a => s!"(some {f a})"

def natLean (n : Nat) : String := toString n
def listLean {α} (f : α → String) (l : List α) : String := "[" ++ ", ".intercalate (l.map f) ++ "]"

partial def calLean : Cal → String
  | .weekly s e h => s!"(Cal.weekly {optLean ratLean s} {optLean ratLean e} {listLean ratLean h})"
  | .direct m => s!"(Cal.direct {listLean (fun p => s!"(({p.1} : Int), {ratLean p.2})") m})"
  | .fixed u s e => s!"(Cal.fixed {ratLean u} {optLean ratLean s} {optLean ratLean e})"
  | .sum a b => s!"(Cal.sum {calLean a} {calLean b})"
  | .sub a b => s!"(Cal.sub {calLean a} {calLean b})"
  | .mul a b => s!"(Cal.mul {calLean a} {calLean b})"
  | .div a b => s!"(Cal.div {calLean a} {calLean b})"
  | .or a b => s!"(Cal.or {calLean a} {calLean b})"

def infoLean (i : TaskInfo) : String :=
  "{ tid := " ++ toString i.tid ++ ", parent := " ++ optLean natLean i.parent ++ ", children := " ++ listLean natLean i.children ++
  ", preds := " ++ listLean natLean i.preds ++ ", succs := " ++ listLean natLean i.succs ++ ", member := " ++ toString i.member ++
  ", resource := " ++ optLean natLean i.resource ++ ", milestone := " ++ toString i.milestone ++
  ", minStart := " ++ optLean ratLean i.minStart ++ " }"

def fieldsLean (g : Fields) : String :=
  "{ start := " ++ optLean ratLean g.start ++ ", end_ := " ++ optLean ratLean g.end_ ++ ", est := " ++ optLean ratLean g.est ++
  ", spent := " ++ optLean ratLean g.spent ++ " }"

/-- {"fam":"dumpenv","name":"kfS2", …same fields as a sched record…} -/
def runDump (j : Json) : Json :=
  let name := jStr (fld j "name")
  let g := parseG (fld j "graph")
  let w := jNat (fld j "w")
  let arows := (jArr (fld j "attrs")).toArray
  let dfltA : Attr := { resource := none, milestone := false, minStart := none, f := emptyFields }
  let attr : Uid → Attr := fun u => if u < arows.size then parseAttr (arows.getD u .null) else dfltA
  let clk := ((jArr (fld j "clock")).map jTime)
  let res0 : List (Option Nat × Cal) := (jArr (fld j "resources")).filterMap (fun r =>
    match (parseCExpr (jIdx r 1)).build with
    | .ok c => some (jOptNat (jIdx r 0), c)
    | .error _ => none)
  let (g1, _, w') := cloneWbs g w freezeG
  let g' := freezeG g1
  let sel : Array Uid := ((g.children w).mapM (fun r => subtreeF g.children g.fuel r)).map (fun l => (dedupFirst l.flatten).toArray) |>.getD #[]
  let src : Uid → Uid := fun u => if u < g.n then u else sel.getD (u - g.n) u
  let env := mkEnv g' w' attr src (jBool (fld j "balance")) (jRat (fld j "defaultEst")) (fun _ => clk.headD 0) (jTime (fld j "bound"))
  let uids := List.range env.n
  let infoCases := "\n".intercalate (uids.map (fun u => s!"      | {u} => {infoLean (env.info u)}"))
  let fCases := "\n".intercalate (uids.map (fun u => s!"      | {u} => {fieldsLean (attr (src u)).f}"))
  let src :=
    s!"def {name}Env : Env :=\n  \{ n := {env.n},\n    info := fun u => match u with\n{infoCases}\n      | _ => default,\n" ++
    s!"    roots := {listLean natLean env.roots}, balance := {env.balance}, defaultEst := {ratLean env.defaultEst},\n" ++
    s!"    clock := fun _ => {ratLean (clk.headD 0)}, bound := {ratLean env.bound} }\n\n" ++
    s!"def {name}F0 : Uid → Fields := fun u => match u with\n{fCases}\n      | _ => \{ start := none, end_ := none, est := none, spent := none }\n\n" ++
    s!"def {name}Res : List (Option Nat × Cal) := {listLean (fun p => s!"({optLean natLean p.1}, {calLean p.2})") res0}\n"
  mkObj [("id", fld j "id"), ("lean", .str src)]

end Pj.Drive
