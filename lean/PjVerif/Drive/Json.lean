/-
  Drive/Json.lean — JSON line protocol helpers for the driver (not part of any proof).
  Rationals travel as strings "n/d" (or "n"), instants as integer microseconds since 1970-01-01.
-/
import Lean.Data.Json
import PjVerif.Model.Basic
open Lean
namespace Pj.Drive

def usPerDay : Rat := 86400000000

def ratToString (r : Rat) : String :=
  if r.den == 1 then toString r.num else s!"{r.num}/{r.den}"

def parseRat? (s : String) : Option Rat :=
  match s.splitOn "/" with
  | [n] => n.toInt?.map (fun i => (i : Rat))
  | [n, d] => do
    let n ← n.toInt?
    let d ← d.toInt?
    if d == 0 then none else some ((n : Rat) / (d : Rat))
  | _ => none

def jRat? (j : Json) : Option Rat :=
  match j with
  | .str s => parseRat? s
  | .num n => if n.exponent == 0 then some (n.mantissa : Rat) else
      some ((n.mantissa : Rat) / ((10 ^ n.exponent : Nat) : Rat))
  | _ => none

def jRat (j : Json) : Rat := (jRat? j).getD 0

def jInt (j : Json) : Int :=
  match j with
  | .num n => if n.exponent == 0 then n.mantissa else 0
  | .str s => s.toInt?.getD 0
  | _ => 0

def jNat (j : Json) : Nat := (jInt j).toNat

/-- integer microseconds → days -/
def jTime (j : Json) : Time := (jInt j : Rat) / usPerDay

def jOptTime (j : Json) : Option Time :=
  match j with
  | .null => none
  | _ => some (jTime j)

def jArr (j : Json) : List Json :=
  match j with
  | .arr a => a.toList
  | _ => []

def jStr (j : Json) : String :=
  match j with
  | .str s => s
  | _ => ""

def jBool (j : Json) : Bool :=
  match j with
  | .bool b => b
  | _ => false

def jIdx (j : Json) (i : Nat) : Json := (jArr j).getD i .null

def fld (j : Json) (k : String) : Json := j.getObjValD k

/-- time back to microseconds, as a rational string (an integer whenever it is µs-exact) -/
def timeOut (t : Time) : Json := .str (ratToString (t * usPerDay))
def ratOut (r : Rat) : Json := .str (ratToString r)
def optRatOut : Option Rat → Json
  | none => .null
  | some r => ratOut r

def errOut (e : Err) : Json := .arr #[.str "err", .str e.name]
def resOut {α} (f : α → Json) : Res α → Json
  | .ok a => .arr #[.str "ok", f a]
  | .error e => errOut e

def parseErr (s : String) : Err :=
  if s == "runtime" then .runtime else
  match s.splitOn ":" with
  | [_, k] =>
    .crash (match k with
      | "IndexError" => .index | "ValueError" => .value | "StopIteration" => .stopIteration
      | "KeyError" => .key | "TypeError" => .type | "ZeroDivisionError" => .zeroDivision
      | "RecursionError" => .recursion | "AttributeError" => .attribute | _ => .other)
  | _ => .crash .other

/-- parse `["ok", x]` / `["err", name]` -/
def jRes {α} (f : Json → α) (j : Json) : Res α :=
  if jStr (jIdx j 0) == "ok" then .ok (f (jIdx j 1)) else .error (parseErr (jStr (jIdx j 1)))

def mkObj (l : List (String × Json)) : Json := Json.mkObj l

end Pj.Drive
