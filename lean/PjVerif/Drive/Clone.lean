/- Drive/Clone.lean — clone family (C10) -/
import PjVerif.Drive.Graph
import PjVerif.Spec.Clone
open Lean
namespace Pj.Drive

/-- {"fam":"clone","pre":state,"w":uid,"roots":[uids]|null,"out":"ok"|…,"post":state (fresh uids assigned by the harness)} -/
def runClone (j : Json) : Json :=
  let pre := parseG (fld j "pre")
  let w := jNat (fld j "w")
  let roots : List Uid := match fld j "roots" with | .null => pre.children w | r => jNats r
  let post := parseG (fld j "post")
  let implOk := jStr (fld j "out") == "ok"
  let (m, merr, mw) := cloneSel pre w roots freezeG
  let sel : List Uid := (roots.mapM (fun r => subtreeF pre.children pre.fuel r)).map (fun l => dedupFirst l.flatten) |>.getD []
  let w' := pre.n + sel.length
  mkObj [("id", fld j "id"),
         ("model", mkObj [("out", .str (match merr with | none => "ok" | some e => e.name)), ("post", gOut (freezeG m)), ("w", toJson mw)]),
         ("mon", boolsOut (if implOk then
            [("hierarchy", !rootsIndependentB pre roots || cloneHierarchyB pre post w' sel roots), ("links", cloneLinksB pre post w sel),
             ("sourceFrame", sourceFrameB pre post w), ("outsideFrame", outsideFrameB pre post w),
             ("resultWF", (wfClauses post).all (·.2) && ownerOkB post && uniqueIdsB post)]
           else [("accepted", false)]))]

end Pj.Drive
