/- Drive/Csv.lean — CSV family (C13): text layer against Python's csv module, record layer against read/write_csv -/
import PjVerif.Drive.Json
import PjVerif.Model.CsvRec
open Lean
namespace Pj.Drive
open Pj.Csv

def rowsOfJson (j : Json) : List (List (List Char)) := (jArr j).map (fun r => (jArr r).map (fun f => (jStr f).toList))
def rowsToJson (rows : List (List (List Char))) : Json :=
  .arr (rows.map (fun r => Json.arr (r.map (fun f => Json.str (String.ofList f))).toArray)).toArray

/-- {"fam":"csvtext","rows":[[…]],"text":"…"} → the model's encoding of `rows` and the model's parse of `text` -/
def runCsvText (j : Json) : Json :=
  let rows := rowsOfJson (fld j "rows")
  let enc := String.ofList (encodeFile rows)
  let parsed := match parse (jStr (fld j "text")).toList with
    | some r => rowsToJson r
    | none => .str "error"
  let rt := parse (encodeFile rows) == some rows
  mkObj [("id", fld j "id"), ("encoded", .str enc), ("parsed", parsed), ("roundtrip", .bool rt)]

end Pj.Drive

namespace Pj.Drive
open Pj.Csv

def optStr (j : Json) : Option Str := match j with | .null => none | x => some (jStr x).toList

def parseRec (j : Json) : Rec :=
  { id := (jStr (fld j "id")).toList, name := optStr (fld j "name"), resource := optStr (fld j "resource"),
    start := optStr (fld j "start"), end_ := optStr (fld j "end"), estimate := optStr (fld j "estimate"),
    spent := optStr (fld j "spent"), milestone := jBool (fld j "milestone"), parentId := optStr (fld j "parent_id"),
    predIds := (jArr (fld j "preds")).map (fun x => (jStr x).toList),
    custom := (jArr (fld j "custom")).map (fun p => ((jStr (jIdx p 0)).toList, optStr (jIdx p 1))) }

def optStrOut : Option Str → Json
  | none => .null
  | some s => .str (String.ofList s)

def recOut (r : Rec) : Json :=
  mkObj [("id", .str (String.ofList r.id)), ("name", optStrOut r.name), ("resource", optStrOut r.resource),
         ("start", optStrOut r.start), ("end", optStrOut r.end_), ("estimate", optStrOut r.estimate), ("spent", optStrOut r.spent),
         ("milestone", .bool r.milestone), ("parent_id", optStrOut r.parentId),
         ("preds", .arr (r.predIds.map (fun p => Json.str (String.ofList p))).toArray),
         ("custom", .arr (r.custom.map (fun p => Json.arr #[.str (String.ofList p.1), optStrOut p.2])).toArray)]

partial def treeOut : Tree → Json
  | .node id ch => .arr #[.str (String.ofList id), .arr (ch.map treeOut).toArray]

/-- {"fam":"csvrec","recs":[…],"texts":[file texts to read]} → model file text, model reading of each text, and
    the forest rebuilt from the (id, parent_id) rows of each reading -/
def runCsvRec (j : Json) : Json :=
  let recs := (jArr (fld j "recs")).map parseRec
  let text := String.ofList (writeCsv recs)
  let reads := (jArr (fld j "texts")).map (fun t =>
    match readCsv (jStr t).toList with
    | none => Json.null
    | some rs => mkObj [("recs", .arr (rs.map recOut).toArray),
                        ("forest", .arr ((rebuildForest (rs.map (fun r => (r.id, r.parentId)))).map treeOut).toArray)])
  mkObj [("id", fld j "id"), ("text", .str text), ("reads", .arr reads.toArray)]

end Pj.Drive
