/- Drive/Query.lean — query family (C18) -/
import PjVerif.Drive.Json
import PjVerif.Spec.Query
open Lean
namespace Pj.Drive

def parseVal (j : Json) : Val :=
  match j with
  | .null => .none
  | _ => if jStr (jIdx j 0) == "n" then .num (jRat (jIdx j 1)) else .str (jStr (jIdx j 1))

def parseFVal (j : Json) : FVal :=
  match jStr (jIdx j 0) with
  | "one" => .one (parseVal (jIdx j 1))
  | "many" => .many ((jArr (jIdx j 1)).map parseVal)
  | _ => .pat (jStr (jIdx j 1))

/-- task: {"id":val,"parent_id":val,"estimate":val,"spent":val,"dict":[[name,val]…]} -/
structure QTask where
  id : Val
  parentId : Val
  estimate : Val
  spent : Val
  dict : List (String × Val)

instance : Inhabited QTask := ⟨{ id := .none, parentId := .none, estimate := .none, spent := .none, dict := [] }⟩

def parseQTask (j : Json) : QTask :=
  { id := parseVal (fld j "id"), parentId := parseVal (fld j "parent_id"), estimate := parseVal (fld j "estimate"),
    spent := parseVal (fld j "spent"), dict := (jArr (fld j "dict")).map (fun p => (jStr (jIdx p 0), parseVal (jIdx p 1))) }

def propOf (t : QTask) (name : String) : Val :=
  match name with
  | "id" => t.id | "parent_id" => t.parentId | "estimate" => t.estimate | "spent" => t.spent
  | _ => .none

/-- `__get_task_attribute` as the *code* has it: the names listed in the extracted `querySpecial` are served by the
    getter, everything else comes from `__dict__` -/
def codeAttr (t : QTask) (name : List Char) : Val :=
  let nm := String.ofList name
  if Extracted.querySpecial.contains nm then propOf t nm
  else match t.dict.find? (fun p => p.1 == nm) with
    | some p => p.2
    | none => .none

/-- the attribute as a user sees it (`getattr`), for the monitor: properties included -/
def userAttr (t : QTask) (name : List Char) : Val :=
  let nm := String.ofList name
  if ["id", "parent_id", "estimate", "spent"].contains nm then propOf t nm
  else match t.dict.find? (fun p => p.1 == nm) with
    | some p => p.2
    | none => .none

def runQuery (j : Json) : Json :=
  let tasks := (jArr (fld j "tasks")).map parseQTask
  let fs := (jArr (fld j "filters")).map (fun f => ((jStr (jIdx f 0)).toList, parseFVal (jIdx f 1)))
  let retab := (jArr (fld j "re")).map (fun r => (jStr (jIdx r 0), jStr (jIdx r 1), jBool (jIdx r 2)))
  let re : String → String → Bool := fun p s => match retab.find? (fun r => r.1 == p && r.2.1 == s) with
    | some r => r.2.2
    | none => false
  let model := queryIdx re (tasks.map codeAttr) fs
  let modelOut : Json := resOut (fun l => toJson l) model
  -- monitor: documented meaning on the user-visible attributes
  let spec : Res (List Nat) := (List.range tasks.length).foldlM (fun acc i => do
    let h ← specHoldsAll re (userAttr (tasks.getD i default)) fs
    pure (if h then acc ++ [i] else acc)) []
  let impl : Res (List Nat) := jRes (fun x => (jArr x).map jNat) (fld j "obs")
  let monSel : Bool := match spec, impl with
    | .ok a, .ok b => a == b
    | .error _, _ => true           -- TypeError cases are outside the property's domain
    | .ok _, .error _ => false
  mkObj [("id", fld j "id"), ("model", modelOut),
         ("mon", mkObj [("selection", monSel), ("order", match impl with | .ok b => b.zip (b.drop 1) |>.all (fun p => decide (p.1 < p.2)) | _ => true)]),
         ("specDefined", .bool (match spec with | .ok _ => true | _ => false))]

end Pj.Drive
