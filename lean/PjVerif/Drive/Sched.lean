/- Drive/Sched.lean — scheduling family: one `calc` per record -/
import PjVerif.Drive.Cal
import PjVerif.Drive.Graph
import PjVerif.Spec.Sched
import PjVerif.Spec.Sched2
import PjVerif.Model.Clone
open Lean
namespace Pj.Drive

def jOptRat (j : Json) : Option Rat := match j with | .null => none | _ => jRat? j

/-- task row: [tid, parent, [children], [preds], [succs], member, res, milestone, minStart, start, end, est, spent] -/
def parseInfo (j : Json) : TaskInfo :=
  { tid := jInt (jIdx j 0), parent := jOptNat (jIdx j 1), children := jNats (jIdx j 2), preds := jNats (jIdx j 3),
    succs := jNats (jIdx j 4), member := jBool (jIdx j 5), resource := jOptNat (jIdx j 6), milestone := jBool (jIdx j 7),
    minStart := jOptTime (jIdx j 8) }

def parseFields (j : Json) (off : Nat) : Fields :=
  { start := jOptTime (jIdx j off), end_ := jOptTime (jIdx j (off + 1)), est := jOptRat (jIdx j (off + 2)),
    spent := jOptRat (jIdx j (off + 3)) }

def optTimeOut : Option Time → Json
  | none => .null
  | some t => timeOut t

def fieldsOut (g : Fields) : Json := .arr #[optTimeOut g.start, optTimeOut g.end_, optRatOut g.est, optRatOut g.spent]
def rowOut (r : Row) : Json := .arr #[optNatOut r.res, toJson r.day, toJson r.task, ratOut r.units]

def parseRow (j : Json) : Row :=
  { res := jOptNat (jIdx j 0), day := jInt (jIdx j 1), task := jNat (jIdx j 2), units := jRat (jIdx j 3) }

/-- static attributes of an input task: [resource, milestone, minStart, start, end, est, spent] -/
structure Attr where
  resource : Option Nat
  milestone : Bool
  minStart : Option Time
  f : Fields

def parseAttr (j : Json) : Attr :=
  { resource := jOptNat (jIdx j 0), milestone := jBool (jIdx j 1), minStart := jOptTime (jIdx j 2), f := parseFields j 3 }

def emptyFields : Fields := { start := none, end_ := none, est := none, spent := none }

/-- environment of a WBS `w` inside graph `g`; `src u` = the input task whose attributes `u` carries -/
def mkEnv (g : G) (w : Uid) (attr : Uid → Attr) (src : Uid → Uid) (balance : Bool) (defaultEst : Rat)
    (clock : Nat → Time) (bound : Time) : Env :=
  let infos : Array TaskInfo := (Array.range g.n).map (fun u =>
      let a := attr (src u)
      { tid := g.tid u, parent := g.pubParent u, children := g.children u, preds := g.preds u, succs := g.succs u,
        member := g.owner u == some w && u != w, resource := a.resource, milestone := a.milestone, minStart := a.minStart })
  { n := g.n,
    info := fun u => infos.getD u default,
    roots := g.children w, balance := balance, defaultEst := defaultEst, clock := clock, bound := bound }

def runSched (j : Json) : Json :=
  let g := parseG (fld j "graph")
  let w := jNat (fld j "w")
  let arows := (jArr (fld j "attrs")).toArray
  let dfltA : Attr := { resource := none, milestone := false, minStart := none, f := emptyFields }
  let attr : Uid → Attr := fun u => if u < arows.size then parseAttr (arows.getD u .null) else dfltA
  let clk := ((jArr (fld j "clock")).map jTime).toArray
  let clock : Nat → Time := fun k => if k < clk.size then clk.getD k 0 else clk.getD (clk.size - 1) 0
  let fwd := jStr (fld j "dir") == "fwd"
  let balance := jBool (fld j "balance")
  let de := jRat (fld j "defaultEst")
  let bound := jTime (fld j "bound")
  let res0 : List (Option Nat × Cal) := (jArr (fld j "resources")).filterMap (fun r =>
    match (parseCExpr (jIdx r 1)).build with
    | .ok c => some (jOptNat (jIdx r 0), c)
    | .error _ => none)
  -- 1. pre-checks on the WBS as given
  let env0 := mkEnv g w attr id balance de clock bound
  let f00 : Uid → Fields := fun u => (attr u).f
  let pre := if fwd then fwdPrecheck env0 f00 else bwdPrecheck env0 f00
  -- 2. clone, 3. run on the clone
  let (g1, cerr, w') := cloneWbs g w freezeG
  let g' := freezeG g1
  let sel : Array Uid := ((g.children w).mapM (fun r => subtreeF g.children g.fuel r)).map (fun l => (dedupFirst l.flatten).toArray) |>.getD #[]
  let src : Uid → Uid := fun u => if u < g.n then u else sel.getD (u - g.n) u
  let env := mkEnv g' w' attr src balance de clock bound
  let f0 : Uid → Fields := fun u => (attr (src u)).f
  let model : Res Output := match pre with
    | .error e => .error e
    | .ok _ => match cerr with
      | some e => .error e
      | none => if fwd then fwdRun env f0 res0 else bwdRun env f0 res0
  let mem := memberList env
  let modelOut : Json := match model with
    | .error e => mkObj [("out", .str e.name)]
    | .ok o => mkObj [("out", .str "ok"), ("tasks", .arr (mem.map (fun t => fieldsOut (o.f t))).toArray),
                      ("order", toJson (mem.map src)),
                      ("rows", .arr (o.rows.map (fun r => rowOut { r with task := src r.task })).toArray),
                      ("resources", .arr (o.res.map (fun p => optNatOut p.1)).toArray)]
  -- the implementation's observation (its tasks are listed in the clone's WBS order, rows name input tasks)
  let obs := fld j "obs"
  let implOut := jStr (fld obs "out")
  let back : Uid → Uid := fun u => match sel.toList.idxOf? u with | some i => g.n + i | none => u
  let implRes : Res Output :=
    if implOut == "ok" then
      let ot := (jArr (fld obs "tasks")).toArray
      let keys := (jArr (fld obs "resources")).map jOptNat
      .ok { f := fun u => match mem.idxOf? u with
                  | some i => parseFields (ot.getD i .null) 0
                  | none => f0 u,
            rows := (jArr (fld obs "rows")).map (fun r => let x := parseRow r; { x with task := back x.task }),
            res := keys.map (fun k => (k, calOf res0 k)) }
    else .error (parseErr implOut)
  let hyps : List (String × Bool) :=
    [("noSummaryLinks", noSummaryLinks env), ("consistentFixed", consistentFixed env f0),
     ("clockBeforeStartDay", clockBeforeStartDay env (4 * env.n + 4)),
     ("clockNotAfterStart", clockNotAfterStart env (4 * env.n + 4)),
     ("clockLeBound", (List.range (4 * env.n + 5)).all (fun k => decide (env.clock k ≤ env.bound))), ("noFixedDates", noFixedDates env f0),
     ("outsideLeaves", outsideLeaves env), ("mustDiagnose", c14MustDiagnose env0 f00 fwd)]
  let mons : List (String × Bool) := match implRes with
    | .error _ => [("c14Outcome", c14Outcome implRes), ("c14Diagnosed", c14Diagnosed env0 f00 fwd implRes)]
    | .ok o =>
      [("c14Outcome", true), ("c14Diagnosed", c14Diagnosed env0 f00 fwd implRes),
       ("c03Positive", c03Positive o), ("c03OwnResource", c03OwnResource env o), ("c03CapacityDay", c03CapacityDay o),
       ("c03NoOverAlloc", c03NoOverAlloc env o), ("c03Resources", c03Resources env res0 o),
       ("c04Amount", c04Amount env f0 o), ("c04OncePerDay", c04OncePerDay o), ("c04Window", c04Window env fwd o),
       ("c04None", c04None env f0 o),
       ("c07StartLeEnd", c07StartLeEnd env o), ("c07Rollup", c07Rollup env o)] ++
      (if fwd then [("c04StartFirstDay", c04StartFirstDay env f0 o), ("c04EndLastDay", c04EndLastDay env f0 o),
                    ("c04FixedKept", c04FixedKept env f0 o), ("c02Leaf", c02Leaf env f0 o), ("c02Milestone", c02Milestone env o),
                    ("c08NoIdle", c08NoIdle env f0 o), ("c08Encode", c08Encode env f0 o), ("c08Order", c08Order env o)]
       else [("c04BwdStartFirstDay", c04BwdStartFirstDay env f0 o), ("c09Deadline", c09Deadline env o), ("c09Deps", c09Deps env o),
             ("c09LatePacked", c09LatePacked env o), ("c09Encode", c09Encode env o)])
  mkObj [("id", fld j "id"), ("model", modelOut), ("mon", boolsOut mons), ("hyp", boolsOut hyps)]

end Pj.Drive
