/-
  Model/CsvRec.lean — record and structure layers of io/csv_io.py + io/raw.py.
  A task row is ten standard cells plus one cell per custom column.  Number / date formatting and parsing are Python
  built-ins (`str(int)`, `repr(float)`, `strftime/strptime('%d.%m.%y')`): the model takes already formatted cells for
  those and handles what the code itself does: None ↔ '', `'True'`, joining predecessor ids with ';', column lookup
  by header name, BOM removal, and the rebuilding of the hierarchy from `parent_id`.
-/
import PjVerif.Model.Csv
namespace Pj.Csv

abbrev Str := List Char

/-- one task as `write_csv` sees it, numbers and dates already formatted by Python -/
structure Rec where
  id : Str                     -- str(task.id)
  name : Option Str
  resource : Option Str
  start : Option Str           -- dd.mm.yy
  end_ : Option Str
  estimate : Option Str        -- repr(float) / str(int)
  spent : Option Str
  milestone : Bool
  parentId : Option Str
  predIds : List Str
  custom : List (Str × Option Str)     -- custom column name → str(value) (None: attribute absent or None)
  deriving DecidableEq, Repr, Inhabited

def defaultFields : List Str :=
  ["id", "name", "resource", "start", "end", "estimate", "spent", "milestone", "parent_id", "predecessor_ids"].map String.toList

def orEmpty : Option Str → Str
  | some s => s
  | none => []

def joinWith (sep : Char) : List Str → Str
  | [] => []
  | [x] => x
  | x :: xs => x ++ sep :: joinWith sep xs

/-- custom columns in discovery order: first occurrence over all tasks (`fields[k] = …` in a dict) -/
def customColumns (recs : List Rec) : List Str := (recs.flatMap (fun r => r.custom.map (·.1))).eraseDups

def customCell (r : Rec) (col : Str) : Str :=
  match r.custom.find? (fun p => p.1 == col) with
  | some p => orEmpty p.2
  | none => []

/-- the cells of one task row (`csvwriter.writerow([...])`, csv_io.py:105-117) -/
def rowCells (cols : List Str) (r : Rec) : List Str :=
  [r.id, orEmpty r.name, orEmpty r.resource, orEmpty r.start, orEmpty r.end_, orEmpty r.estimate, orEmpty r.spent,
   (if r.milestone then "True".toList else "False".toList), orEmpty r.parentId, joinWith ';' r.predIds] ++
  cols.map (customCell r)

/-- the whole file: header row, then one row per task in WBS order -/
def fileRows (recs : List Rec) : List (List Str) :=
  let cols := customColumns recs
  (defaultFields ++ cols) :: recs.map (rowCells cols)

def writeCsv (recs : List Rec) : List Char := encodeFile (fileRows recs)

/-! ### reading -/

def nonEmpty (s : Str) : Option Str := if s.isEmpty then none else some s

def splitOn (sep : Char) (s : Str) : List Str :=
  let r := s.foldr (fun c (acc : List Str) => if c == sep then [] :: acc else match acc with
      | [] => [[c]]
      | x :: xs => (c :: x) :: xs) [[]]
  r

/-- `__parse_header`: column name → index, a byte-order mark removed from every name; a repeated name keeps the last -/
def headerIndex (hdr : List Str) (name : Str) : Option Nat :=
  let clean := hdr.map (fun h => h.filter (fun c => c != '﻿'))
  (List.range clean.length).foldl (fun acc i => if clean.getD i [] == name then some i else acc) none

def cellAt (hdr : List Str) (row : List Str) (name : Str) : Option Str := (headerIndex hdr name).bind (fun i => row[i]?)

/-- one data row back into a record (`read_csv`, csv_io.py:65-92); `none` = KeyError / IndexError -/
def readRow (hdr : List Str) (row : List Str) : Option Rec := do
  let id ← cellAt hdr row "id".toList
  let name ← cellAt hdr row "name".toList
  let resource ← cellAt hdr row "resource".toList
  let start ← cellAt hdr row "start".toList
  let end_ ← cellAt hdr row "end".toList
  let est ← cellAt hdr row "estimate".toList
  let spent ← cellAt hdr row "spent".toList
  let ms ← cellAt hdr row "milestone".toList
  let pid ← cellAt hdr row "parent_id".toList
  let preds ← cellAt hdr row "predecessor_ids".toList
  let clean := hdr.map (fun h => h.filter (fun c => c != '﻿'))
  let cols := clean.eraseDups.filter (fun c => !defaultFields.contains c)
  let custom ← cols.mapM (fun c => (cellAt hdr row c).map (fun v => (c, nonEmpty v)))
  pure { id := id, name := nonEmpty name, resource := nonEmpty resource, start := nonEmpty start, end_ := nonEmpty end_,
         estimate := nonEmpty est, spent := nonEmpty spent, milestone := ms == "True".toList, parentId := nonEmpty pid,
         predIds := if preds.isEmpty then [] else splitOn ';' preds, custom := custom }

def readCsv (text : List Char) : Option (List Rec) :=
  match parse text with
  | some (hdr :: rows) => rows.mapM (readRow hdr)
  | _ => none

/-- what a record looks like after one round trip: empty text = None, custom cells are kept per column of the file -/
def normalise (cols : List Str) (r : Rec) : Rec :=
  { r with name := r.name.bind nonEmpty, resource := r.resource.bind nonEmpty,
           custom := cols.map (fun c => (c, nonEmpty (customCell r c))) }

/-! ### structure: the hierarchy travels as `parent_id` (io/raw.py:42-112) -/

inductive Tree
  | node (id : Str) (children : List Tree)
  deriving Repr, Inhabited

mutual
  /-- depth-first rows (id, parent id) of a tree / forest, as `tasks_to_raws(wbs.tasks)` emits them -/
  def Tree.rows (parent : Option Str) : Tree → List (Str × Option Str)
    | .node id ch => (id, parent) :: Tree.rowsList (some id) ch
  def Tree.rowsList (parent : Option Str) : List Tree → List (Str × Option Str)
    | [] => []
    | t :: ts => Tree.rows parent t ++ Tree.rowsList parent ts
end

/-- `raws_to_wbs`: a row whose parent id names a row of the file becomes a child of that task (children in row
    order), every other row a root task (roots in row order) -/
def buildTree (rows : List (Str × Option Str)) : Nat → Str → Tree
  | 0, id => .node id []
  | f + 1, id => .node id ((rows.filter (fun r => r.2 == some id)).map (fun r => buildTree rows f r.1))

def rebuildForest (rows : List (Str × Option Str)) : List Tree :=
  let known := rows.map (·.1)
  (rows.filter (fun r => match r.2 with | none => true | some p => !known.contains p)).map
    (fun r => buildTree rows rows.length r.1)

end Pj.Csv
