/-
  Model/Calendar.lean — calendar.py (leaf calendars, operator combinators, constructor validation)
  and resource.py (None→0 mapping, availability search).  Mirrors the code statement by statement.
-/
import PjVerif.Model.Basic
namespace Pj

/-- A constructed calendar object (after validation). Operator calendars are binary: the public
    operators `+ - * / |` always build two-element lists (calendar.py:130-146). -/
inductive Cal
  | weekly (s e : Option Time) (h : List Rat)          -- calendar.py:333-410, h = hours for weekday 0..6
  | direct (m : List (Int × Rat))                       -- calendar.py:304-320, (day, units) in insertion order
  | fixed (u : Rat) (s e : Option Time)                 -- calendar.py:282-298
  | sum (a b : Cal) | sub (a b : Cal) | mul (a b : Cal) | div (a b : Cal) | or (a b : Cal)
  deriving Repr, Inhabited

/-- dict lookup after `{_day_start(k): v ...}`: a later item with the same day overrides -/
def directLookup (m : List (Int × Rat)) (d : Int) : Option Rat :=
  (m.reverse.find? (fun p => p.1 == d)).map (·.2)

/-- the accumulation loop shared by Sum/Sub/Mul/Div (calendar.py:176-186 etc.):
    operands without information are skipped, the first defined operand initialises -/
def accum (op : Rat → Rat → Res Rat) (acc : Option Rat) (v : Option Rat) : Res (Option Rat) :=
  match v with
  | none => pure acc
  | some x =>
    match acc with
    | none => pure (some x)
    | some u => do let r ← op u x; pure (some r)

def divOp (u x : Rat) : Res Rat := if x = 0 then throw (.crash .zeroDivision) else pure (u / x)

/-- `get_available_units(date)` -/
def Cal.eval : Cal → Time → Res (Option Rat)
  | .weekly s e h, t =>
    if (match s with | some s => decide (t < s) | none => false) then pure none
    else if (match e with | some e => decide (e < t) | none => false) then pure none
    else pure (some (h.getD (weekday t) 0))
  | .direct m, t => pure (directLookup m (dayOf t))
  | .fixed u s e, t =>
    if (match s with | some s => decide (t < s) | none => false) then pure (some 0)
    else if (match e with | some e => decide (e < t) | none => false) then pure (some 0)
    else pure (some u)
  | .sum a b, t => do
    let x ← a.eval t
    let acc ← accum (fun u v => pure (u + v)) none x
    let y ← b.eval t
    accum (fun u v => pure (u + v)) acc y
  | .sub a b, t => do
    let x ← a.eval t
    let acc ← accum (fun u v => pure (u - v)) none x
    let y ← b.eval t
    let r ← accum (fun u v => pure (u - v)) acc y
    match r with
    | none => pure none
    | some u => if u < 0 then pure none else pure (some u)
  | .mul a b, t => do
    let x ← a.eval t
    let acc ← accum (fun u v => pure (u * v)) none x
    let y ← b.eval t
    accum (fun u v => pure (u * v)) acc y
  | .div a b, t => do
    let x ← a.eval t
    let acc ← accum divOp none x
    let y ← b.eval t
    accum divOp acc y
  | .or a b, t => do
    let x ← a.eval t
    match x with
    | some u => if 0 < u then pure (some u) else
        (do let y ← b.eval t
            match y with
            | some v => if 0 < v then pure (some v) else pure none
            | none => pure none)
    | none =>
        (do let y ← b.eval t
            match y with
            | some v => if 0 < v then pure (some v) else pure none
            | none => pure none)

/-! ### construction (validation happens here, calendar.py:284-286, 340-374, 133-137) -/

inductive OpKind | add | sub | mul | div | or
  deriving DecidableEq, Repr, Inhabited

/-- a *definition* as the user writes it; `num` is a bare Python number used as an operand -/
inductive CExpr
  | weeklyList (s e : Option Time) (days : List Int) (u : Rat)
  | weeklyDict (s e : Option Time) (d : List (Int × Rat))
  | direct (items : List (Time × Rat))
  | fixed (u : Rat) (s e : Option Time)
  | num (u : Rat)
  | op (k : OpKind) (a b : CExpr)
  deriving Repr, Inhabited

def startAfterEnd (s e : Option Time) : Bool :=
  match s, e with
  | some s, some e => decide (e < s)
  | _, _ => false

def mkOp : OpKind → Cal → Cal → Cal
  | .add, a, b => .sum a b
  | .sub, a, b => .sub a b
  | .mul, a, b => .mul a b
  | .div, a, b => .div a b
  | .or, a, b => .or a b

def mkFixed (u : Rat) (s e : Option Time) : Res Cal :=
  if u < 0 then throw .runtime
  else if startAfterEnd s e then throw .runtime
  else pure (.fixed u s e)

def dictGet (d : List (Int × Rat)) (i : Int) : Rat :=
  match d.find? (fun p => p.1 == i) with
  | some p => p.2
  | none => 0

def mkWeeklyList (s e : Option Time) (days : List Int) (u : Rat) : Res Cal :=
  if days.any (fun v => v < 0 || v > 6) then throw .runtime
  else if startAfterEnd s e then throw .runtime
  else if u < 0 then throw .runtime
  else pure (.weekly s e ((List.range 7).map (fun (i : Nat) => if days.contains (Int.ofNat i) then u else 0)))

def mkWeeklyDict (s e : Option Time) (d : List (Int × Rat)) : Res Cal :=
  if startAfterEnd s e then throw .runtime
  else if d.any (fun p => p.1 < 0 || p.1 > 6) then throw .runtime
  else if (List.range 7).any (fun (i : Nat) => dictGet d (Int.ofNat i) < 0) then throw .runtime
  else pure (.weekly s e ((List.range 7).map (fun (i : Nat) => dictGet d (Int.ofNat i))))

def mkDirect (items : List (Time × Rat)) : Res Cal :=
  if items.any (fun p => p.2 < 0) then throw .runtime
  else pure (.direct (items.map (fun p => (dayOf p.1, p.2))))

/-- build a calendar object from a definition.  A bare number is only legal as the right operand
    of an operator (there it is promoted to `FixedCalendar(number)`); anywhere else Python raises
    TypeError/AttributeError, recorded as `crash type`. -/
def CExpr.build : CExpr → Res Cal
  | .weeklyList s e days u => mkWeeklyList s e days u
  | .weeklyDict s e d => mkWeeklyDict s e d
  | .direct items => mkDirect items
  | .fixed u s e => mkFixed u s e
  | .num _ => throw (.crash .type)
  | .op k a b => do
    let ca ← a.build
    match b with
    | .num u =>
      if k = .div ∧ u = 0 then throw .runtime
      else do
        let cb ← mkFixed u none none
        pure (mkOp k ca cb)
    | _ => do
      let cb ← b.build
      pure (mkOp k ca cb)

/-! ### resource.py -/

/-- `Resource.get_available_units`: None → 0 (resource.py:76-78) -/
def capR (c : Cal) (t : Time) : Res Rat := do
  let v ← c.eval t
  pure (v.getD 0)

/-- `get_nearest_availability_date(start, direction, max_days)` (resource.py:27-49);
    `fuel` = remaining iterations of `while step < max_days`. -/
def search (c : Cal) (dir : Int) : Nat → Time → Res Time
  | 0, _ => throw .runtime
  | fuel + 1, t => do
    let u ← if dir < 0 then capR c (t - 1) else capR c t
    if 0 < u then pure t else search c dir fuel (t + (dir : Rat))

end Pj
