/-
  Model/CritPath.lean — alg/critical_path.py (as repaired): the activity-on-arc network collapses to a leaf-level
  computation: every leaf task of the WBS is an arc of length max(estimate − spent, 0); a leaf waits for the leaf
  members below the predecessors of itself and of all its parents; forward pass = earliest finish, backward pass =
  latest finish, critical = zero slack.
-/
import PjVerif.Model.Graph
namespace Pj

structure CPEnv where
  n : Nat
  members : List Uid            -- WBS.tasks, depth first
  children : Uid → List Uid
  parent : Uid → Option Uid     -- public parent
  preds : Uid → List Uid
  est : Uid → Option Rat
  spent : Uid → Option Rat

namespace CPEnv

def isLeaf (e : CPEnv) (t : Uid) : Bool := (e.children t).isEmpty

/-- `max(estimate - spent, 0)`, missing values count as 0 (critical_path.py:70-73) -/
def dur (e : CPEnv) (t : Uid) : Rat :=
  let d := (e.est t).getD 0 - (e.spent t).getD 0
  if d < 0 then 0 else d

/-- `all_parents` -/
def ancestors (e : CPEnv) : Nat → Uid → List Uid
  | 0, _ => []
  | f + 1, t => match e.parent t with
    | none => []
    | some p => p :: ancestors e f p

/-- the leaf members a leaf waits for (repaired `__insert_task`): predecessors of the task and of all its parents,
    each expanded to itself and its descendants, leaves that belong to the calculated set only, each once -/
def prereqs (e : CPEnv) (t : Uid) : List Uid :=
  (((t :: ancestors e (e.n + 1) t).flatMap e.preds).flatMap
      (fun p => p :: (descF e.children (e.n + 1) p).getD [])
    |>.filter (fun x => e.isLeaf x && e.members.contains x)).eraseDups

/-- the leaves of the WBS (the arcs of the network) -/
def leaves (e : CPEnv) : List Uid := e.members.filter e.isLeaf

/-- forward pass: earliest finish (`end.start_units` of the task's arc); `none` = the recursion met an unfinished
    arc (Python: KeyError for a dependency cycle that closes through the hierarchy) -/
def efF (e : CPEnv) : Nat → Uid → Option Rat
  | 0, _ => none
  | f + 1, t => ((prereqs e t).mapM (efF e f)).map (fun l => l.foldl max 0 + e.dur t)

def ef (e : CPEnv) (t : Uid) : Option Rat := efF e (e.n + 1) t

/-- project length: the `end` node's time -/
def projectLen (e : CPEnv) : Option Rat := ((leaves e).mapM (ef e)).map (fun l => l.foldl max 0)

/-- the leaves that wait for `t` -/
def succsOf (e : CPEnv) (t : Uid) : List Uid := (leaves e).filter (fun s => (prereqs e s).contains t)

/-- backward pass: latest finish of the task's arc -/
def lfF (e : CPEnv) (len : Rat) : Nat → Uid → Option Rat
  | 0, _ => none
  | f + 1, t =>
    match succsOf e t with
    | [] => some len
    | s :: ss => ((s :: ss).mapM (fun x => (lfF e len f x).map (fun l => l - e.dur x))).map
        (fun l => l.tail.foldl min (l.headD len))

/-- `CriticalPathCalculator(tasks, None).calc()`: the zero-slack leaves (as a list in WBS order; the code returns
    them in insertion order, the property is about the set) -/
def criticalPath (e : CPEnv) : Res (List Uid) :=
  match projectLen e with
  | none => .error (.crash .key)
  | some len =>
    match (leaves e).mapM (fun t => do
        let f ← ef e t
        let l ← lfF e len (e.n + 1) t
        pure (t, decide (l - (f - e.dur t) - e.dur t = 0))) with
    | none => .error (.crash .key)
    | some l => .ok ((l.filter (·.2)).map (·.1))

end CPEnv
end Pj
