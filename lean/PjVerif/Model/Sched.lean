/-
  Model/Sched.lean — schedule.py: usage ledger, the availability/fill loops, the recursive forward and backward
  passes and the two `calc` entry points, as functions of an explicit input (`Env`) and clock.
  The WBS handed to `calc` is cloned first (wbs.clone(), C10); the model works on the uids of the input, the
  clone being isomorphic.  Tasks that are not members of the WBS ("outside" predecessors) are part of the
  universe with `member = false`.
-/
import PjVerif.Model.Calendar
import PjVerif.Model.Graph
import PjVerif.Extracted.Sched
namespace Pj

/-- static description of one task object -/
structure TaskInfo where
  tid : Int
  parent : Option Uid          -- public parent (none for root tasks and outside tasks without parent)
  children : List Uid
  preds : List Uid
  succs : List Uid
  member : Bool                -- member of the WBS being scheduled
  resource : Option Nat        -- key of the resource name (none = Python None)
  milestone : Bool             -- the *effective* flag: flagged and childless (a flagged task with children is a summary)
  minStart : Option Time
  deriving Inhabited

/-- the mutable fields the passes read and write -/
structure Fields where
  start : Option Time
  end_ : Option Time
  est : Option Rat
  spent : Option Rat
  deriving Inhabited, BEq, Repr

/-- one usage row: (resource name key, day, task, units) -/
structure Row where
  res : Option Nat
  day : Int
  task : Uid
  units : Rat
  deriving Inhabited, BEq, Repr

structure Env where
  n : Nat
  info : Uid → TaskInfo
  roots : List Uid
  balance : Bool
  defaultEst : Rat
  clock : Nat → Time           -- value of the k-th `datetime.now()` of this calc
  bound : Time                 -- project start (forward) / project end (backward)

structure SS where
  f : Uid → Fields
  rows : List Row
  done : List Uid              -- `calculated` (object identities, repaired)
  res : List (Option Nat × Cal)  -- the scheduler's name → resource table, in insertion order
  reads : Nat                  -- clock reads so far

def defaultCal : Cal :=
  .weekly none none ((List.range 7).map (fun (i : Nat) => if Extracted.defaultDays.contains (Int.ofNat i) then Extracted.defaultUnits else 0))

/-- `self.__resources.setdefault(name, Resource(name))` -/
def resLookup (res : List (Option Nat × Cal)) (k : Option Nat) : List (Option Nat × Cal) × Cal :=
  match res.find? (fun p => p.1 == k) with
  | some p => (res, p.2)
  | none => (res ++ [(k, defaultCal)], defaultCal)

/-- `_ResourceUsage.reserved(resource, date[, task])` -/
def reserved (rows : List Row) (r : Option Nat) (day : Int) (task : Option Uid) : Rat :=
  ((rows.filter (fun x => x.res == r && x.day == day && (match task with | some t => x.task == t | none => true))).map (·.units)).sum

def usedBy (env : Env) (rows : List Row) (r : Option Nat) (task : Uid) (day : Int) : Rat :=
  reserved rows r day (if env.balance then none else some task)

def now (env : Env) (σ : SS) : Time × SS := (env.clock σ.reads, { σ with reads := σ.reads + 1 })

def maxT (a b : Time) : Time := if a < b then b else a
def minT (a b : Time) : Time := if b < a then b else a

/-! ### forward loops (schedule.py:179-238) -/

/-- the `for i in range(max_steps)` loop of `__get_resource_nearest_available_date` (forward) -/
def nearestFwdLoop (cal : Cal) (used : Int → Rat) : Nat → Time → Res Time
  | 0, _ => throw .runtime
  | k + 1, d => do
    let c ← capR cal d
    let available := c - used (dayOf d)
    if 0 < available then
      if c = 0 then throw (.crash .zeroDivision)
      else pure (midnight d + (1 - available / c))
    else nearestFwdLoop cal used k (d + 1)

def nearestFwd (cal : Cal) (used : Int → Rat) (start : Time) : Res Time := do
  -- repaired: capacity is asked for at the day's midnight, as the ledger and the fill loop do
  let d ← search cal 1 Extracted.maxDays (midnight start)
  nearestFwdLoop cal used Extracted.fwdNearestMaxSteps d

/-- the `while left_hours > 0` loop of `__shift_by_resource_usage_and_calendar` (forward); `day` is the day
    *before* the one visited next; returns the new rows, the last visited day and its capacity -/
def fillFwd (cal : Cal) (used : Int → Rat) (maxSteps : Nat) : Nat → Nat → Int → Rat → Rat → List (Int × Rat) →
    Res (List (Int × Rat) × Int × Rat)
  | 0, _, _, _, _, _ => throw .runtime
  | fuel + 1, days, day, left, dau, acc =>
    if left ≤ 0 then pure (acc, day, dau)
    else do
      let d := day + 1
      let c ← capR cal (d : Rat)
      let avail := c - used d
      let (left', acc') := if 0 < avail then (left - min left avail, acc ++ [(d, min left avail)]) else (left, acc)
      if days + 1 > maxSteps then throw .runtime
      else fillFwd cal used maxSteps fuel (days + 1) d left' c acc'

/-- `__shift_by_resource_usage_and_calendar` (forward): returns the end date and the rows reserved -/
def shiftFwd (cal : Cal) (used : Int → Rat) (start : Time) (left : Rat) : Res (Time × List (Int × Rat)) :=
  if left = 0 then pure (start, [])
  else do
    let (rows, day, dau) ← fillFwd cal used Extracted.fwdShiftMaxSteps (Extracted.fwdShiftMaxSteps + 2) 0 (dayOf start - 1) left 0 []
    -- reserved on the last visited day, now including the rows just made
    let r := used day + ((rows.filter (fun p => p.1 == day)).map (·.2)).sum
    if dau = 0 then throw (.crash .zeroDivision)
    else pure ((day : Rat) + r / dau, rows)

/-! ### backward loops (schedule.py:353-410) -/

def nearestBwdLoop (cal : Cal) (used : Int → Rat) : Nat → Time → Res Time
  | 0, _ => throw .runtime
  | k + 1, d => do
    let c ← capR cal d
    let available := c - used (dayOf d)
    if 0 < available then
      if c = 0 then throw (.crash .zeroDivision)
      else pure (midnight d - (1 - available / c))
    else nearestBwdLoop cal used k (d - 1)

def nearestBwd (cal : Cal) (used : Int → Rat) (start : Time) : Res Time := do
  let d ← search cal (-1) Extracted.maxDays (midnight start)
  nearestBwdLoop cal used Extracted.bwdNearestMaxSteps (d - 1)

def fillBwd (cal : Cal) (used : Int → Rat) (maxSteps : Nat) : Nat → Nat → Int → Rat → List (Int × Rat) →
    Res (List (Int × Rat) × Int)
  | 0, _, _, _, _ => throw .runtime
  | fuel + 1, days, day, left, acc =>
    if left ≤ 0 then pure (acc, day)
    else do
      let d := day - 1
      let c ← capR cal (d : Rat)
      let avail := c - used d
      let (left', acc') := if 0 < avail then (left - min left avail, acc ++ [(d, min left avail)]) else (left, acc)
      if days + 1 > maxSteps then throw .runtime
      else fillBwd cal used maxSteps fuel (days + 1) d left' acc'

/-- `__shift_by_resource_usage_and_calendar` (backward); `usedShare` is what the final share is computed from
    (repaired: the same notion of "reserved" as the loop uses) -/
def shiftBwd (cal : Cal) (used : Int → Rat) (end_ : Time) (left : Rat) : Res (Time × List (Int × Rat)) :=
  if left = 0 then pure (end_, [])
  else do
    let (rows, day) ← fillBwd cal used Extracted.bwdShiftMaxSteps (Extracted.bwdShiftMaxSteps + 2) 0 (dayOf end_) left []
    let r := used day + ((rows.filter (fun p => p.1 == day)).map (·.2)).sum
    let c ← capR cal (day : Rat)
    if c = 0 then throw (.crash .zeroDivision)
    else pure ((day : Rat) + 1 - r / c, rows)

/-! ### the recursive passes -/

def setF (σ : SS) (t : Uid) (g : Fields → Fields) : SS := { σ with f := upd σ.f t (g (σ.f t)) }

def passList (step : SS → Uid → Res SS) : SS → List Uid → Res SS
  | σ, [] => pure σ
  | σ, x :: xs => do
    let σ' ← step σ x
    passList step σ' xs

def epoch : Time := 0

/-- `max([t.end for t in preds if t.end is not None] + [min_date])` -/
def maxEnds (σ : SS) (l : List Uid) (minDate : Time) : Time :=
  (l.filterMap (fun t => (σ.f t).end_)).foldl maxT minDate

def minStarts (σ : SS) (l : List Uid) (minDate : Time) : Time :=
  (l.filterMap (fun t => (σ.f t).start)).foldl minT minDate

/-- `sum([ch.estimate for ch in children])`: TypeError when a child has none -/
def sumOpt (l : List (Option Rat)) : Res Rat :=
  l.foldlM (fun acc v => match v with | some x => pure (acc + x) | none => throw (.crash .type)) 0

def addRows (σ : SS) (r : Option Nat) (t : Uid) (rows : List (Int × Rat)) : SS :=
  { σ with rows := σ.rows ++ rows.map (fun p => { res := r, day := p.1, task := t, units := p.2 }) }

/-- `if _task.estimate is None … if _task.spent is None …` (schedule.py:280-290, 451-461): leaves get the default
    estimate / zero spent, summary tasks the sums over their children -/
def fillEst (env : Env) (t : Uid) (σ : SS) : Res SS := do
  let info := env.info t
  let isLeaf := info.children.isEmpty
  let σ ← (match (σ.f t).est with
    | some _ => pure σ
    | none =>
      if isLeaf then pure (setF σ t (fun g => { g with est := some env.defaultEst }))
      else do
        let e ← sumOpt (info.children.map (fun c => (σ.f c).est))
        pure (setF σ t (fun g => { g with est := some e })))
  match (σ.f t).spent with
  | some _ => pure σ
  | none =>
    if isLeaf then pure (setF σ t (fun g => { g with spent := some 0 }))
    else do
      let e ← sumOpt (info.children.map (fun c => (σ.f c).spent))
      pure (setF σ t (fun g => { g with spent := some e }))

/-- remaining work as the pass sees it -/
def leftOf (σ : SS) (t : Uid) : Rat :=
  let est := ((σ.f t).est).getD 0
  let sp := ((σ.f t).spent).getD 0
  if est - sp < 0 then 0 else est - sp

/-- forward: `if _task.start is None` (schedule.py:267-278) -/
def fwdStart (env : Env) (cal : Cal) (used : Int → Rat) (t : Uid) (maxPred : Time) (σ : SS) : Res SS :=
  let info := env.info t
  match (σ.f t).start with
  | some _ => pure σ
  | none =>
    if info.children.isEmpty then do
      let (nw, σ) := now env σ
      let s0 := maxT (maxT maxPred nw) (info.minStart.getD epoch)
      let s ← nearestFwd cal used s0
      pure (setF σ t (fun g => { g with start := some s }))
    else
      let cs := info.children.filterMap (fun c => (σ.f c).start)
      match cs with
      | [] => pure (setF σ t (fun g => { g with start := some epoch }))
      | c :: rest => pure (setF σ t (fun g => { g with start := some (rest.foldl minT c) }))

/-- forward: `if _task.end is None` (schedule.py:292-303); the only place where the forward pass reserves.
    Repaired (KF-S6): the second clock reading clamps the end only when it is later than the project start -/
def fwdEnd (env : Env) (cal : Cal) (used : Int → Rat) (t : Uid) (σ : SS) : Res SS :=
  let info := env.info t
  match (σ.f t).end_ with
  | some _ => pure σ
  | none =>
    if info.children.isEmpty then do
      let st := ((σ.f t).start).getD epoch
      let (nw, σ) := now env σ
      let (e, rows) ← shiftFwd cal used (maxT st nw) (leftOf σ t)
      let σ := addRows σ info.resource t rows
      let (nw2, σ) := now env σ
      pure (setF σ t (fun g => { g with end_ := some (maxT (if env.bound < nw2 then maxT e nw2 else e) st) }))
    else
      let ce := info.children.filterMap (fun c => (σ.f c).end_)
      match ce with
      | [] => throw (.crash .value)       -- max() of an empty sequence
      | c :: rest => pure (setF σ t (fun g => { g with end_ := some (rest.foldl maxT c) }))

def markDone (σ : SS) (t : Uid) : SS := { σ with done := σ.done ++ [t] }

/-- the body of `__forward_pass` after predecessors and children have been handled (schedule.py:258-305) -/
def fwdPlace (env : Env) (σ : SS) (t : Uid) (maxPred : Time) : Res SS := do
  let info := env.info t
  let (res', cal) := resLookup σ.res info.resource
  let σ := { σ with res := res' }
  if info.milestone then
    pure (markDone (setF σ t (fun _ => { start := some maxPred, end_ := some maxPred, est := some 0, spent := some 0 })) t)
  else do
    let used := usedBy env σ.rows info.resource t
    let σ ← fwdStart env cal used t maxPred σ
    let σ ← fillEst env t σ
    let σ ← fwdEnd env cal used t σ
    pure (markDone σ t)

/-- `__forward_pass` (schedule.py:240-305, repaired: identity bookkeeping, no descent into outside tasks).
    `stk` = tasks in progress; meeting one again is Python's unbounded recursion (RecursionError). -/
def fwdPass (env : Env) : Nat → List Uid → SS → Uid → Time → Res SS
  | 0, _, _, _, _ => throw (.crash .recursion)
  | fuel + 1, stk, σ, t, minDate =>
    if σ.done.contains t then pure σ
    else if stk.contains t then throw (.crash .recursion)
    else do
      let info := env.info t
      let σ ← passList (fun σ p => if (env.info p).member == info.member then fwdPass env fuel (t :: stk) σ p minDate else pure σ)
                 σ info.preds
      let maxPred := maxEnds σ info.preds minDate
      let σ ← passList (fun σ c => fwdPass env fuel (t :: stk) σ c maxPred) σ info.children
      fwdPlace env σ t maxPred

/-- backward: `if _task.end is None` (schedule.py:439-449) -/
def bwdEnd (env : Env) (cal : Cal) (used : Int → Rat) (t : Uid) (minDate minSucc : Time) (σ : SS) : Res SS :=
  let info := env.info t
  match (σ.f t).end_ with
  | some _ => pure σ
  | none =>
    if info.children.isEmpty then do
      let e ← nearestBwd cal used minSucc
      pure (setF σ t (fun g => { g with end_ := some (e + 1) }))
    else
      let ce := info.children.filterMap (fun c => (σ.f c).end_)
      match ce with
      | [] => pure (setF σ t (fun g => { g with end_ := some minDate }))
      | c :: rest => pure (setF σ t (fun g => { g with end_ := some (rest.foldl maxT c) }))

/-- backward: the start (schedule.py:463-473); the only place where the backward pass reserves -/
def bwdStart (env : Env) (cal : Cal) (used : Int → Rat) (t : Uid) (minDate : Time) (σ : SS) : Res SS :=
  let info := env.info t
  if info.children.isEmpty then do
    let en := minT (((σ.f t).end_).getD epoch) minDate
    let (s, rows) ← shiftBwd cal used en (leftOf σ t)
    let σ := addRows σ info.resource t rows
    let s' := match (σ.f t).start with | some old => minT old s | none => s
    pure (setF σ t (fun g => { g with start := some s' }))
  else
    let cs := info.children.filterMap (fun c => (σ.f c).start)
    match cs with
    | [] => throw (.crash .value)
    | c :: rest => pure (setF σ t (fun g => { g with start := some (rest.foldl minT c) }))

/-- body of `__backward_pass` after successors and children (schedule.py:430-475) -/
def bwdPlace (env : Env) (σ : SS) (t : Uid) (minDate minSucc : Time) : Res SS := do
  let info := env.info t
  let (res', cal) := resLookup σ.res info.resource
  let σ := { σ with res := res' }
  if info.milestone then
    pure (markDone (setF σ t (fun _ => { start := some minSucc, end_ := some minSucc, est := some 0, spent := some 0 })) t)
  else do
    let used := usedBy env σ.rows info.resource t
    let σ ← bwdEnd env cal used t minDate minSucc σ
    let σ ← fillEst env t σ
    let σ ← bwdStart env cal used t minDate σ
    pure (markDone σ t)

def bwdPass (env : Env) : Nat → List Uid → SS → Uid → Time → Res SS
  | 0, _, _, _, _ => throw (.crash .recursion)
  | fuel + 1, stk, σ, t, minDate =>
    if σ.done.contains t then pure σ
    else if stk.contains t then throw (.crash .recursion)
    else do
      let info := env.info t
      let σ ← passList (fun σ p => if (env.info p).member == info.member then bwdPass env fuel (t :: stk) σ p minDate else pure σ)
                 σ info.succs
      let minSucc := minStarts σ info.succs minDate
      let σ ← passList (fun σ c => bwdPass env fuel (t :: stk) σ c minSucc) σ info.children.reverse
      bwdPlace env σ t minDate minSucc

/-! ### pre-checks (schedule.py:11-44 repaired, 326-337) -/

/-- members of the WBS in `WBS.tasks` order -/
def members (env : Env) : Option (List Uid) :=
  (env.roots.mapM (fun r => subtreeF (fun u => (env.info u).children) (env.n + 1) r)).map List.flatten

/-- `_validate_graph_isolation`: a predecessor outside the WBS must have both dates -/
def isolationOk (env : Env) (f : Uid → Fields) (mem : List Uid) : Bool :=
  mem.all (fun t => (env.info t).preds.all (fun p =>
    mem.contains p || ((f p).start.isSome && (f p).end_.isSome)))

/-- `_check_loops_from_task`: depth-first search with an in-progress list and a validated set;
    returns the new validated set, `runtime` when it meets a task that is in progress -/
def loopsFrom (next : Uid → List Uid) : Nat → List Uid → List Uid → Uid → Res (List Uid)
  | 0, _, _, _ => throw (.crash .recursion)
  | fuel + 1, visiting, validated, t =>
    if validated.contains t then pure validated
    else if visiting.contains t then throw .runtime
    else do
      let v ← (next t).foldlM (fun val s => loopsFrom next fuel (t :: visiting) val s) validated
      pure (v ++ [t])

def leavesOf (env : Env) (t : Uid) : Option (List Uid) :=
  if (env.info t).children.isEmpty then some [t]
  else (descF (fun u => (env.info u).children) (env.n + 1) t).map (fun l => l.filter (fun x => (env.info x).children.isEmpty))

/-- non-hidden ancestors, nearest first (`all_parents`) -/
def ancestorsOf (env : Env) : Nat → Uid → List Uid
  | 0, _ => []
  | f + 1, t => match (env.info t).parent with
    | none => []
    | some p => p :: ancestorsOf env f p

/-- `_waits_for(leaf)` -/
def waitsFor (env : Env) (t : Uid) : List Uid :=
  ((t :: ancestorsOf env (env.n + 1) t).flatMap (fun x => (env.info x).preds)).flatMap (fun p => (leavesOf env p).getD [])

def checkLoops (env : Env) (mem : List Uid) : Res Unit := do
  let _ ← mem.foldlM (fun val t => loopsFrom (fun u => (env.info u).preds) (env.n + 2) [] val t) []
  let _ ← (mem.filter (fun t => (env.info t).children.isEmpty)).foldlM
            (fun val t => loopsFrom (waitsFor env) (env.n + 2) [] val t) []
  pure ()

/-- `__prepare_tasks`: summary tasks lose their own dates / estimate / spent -/
def prepare (env : Env) (f : Uid → Fields) (mem : List Uid) : Uid → Fields :=
  fun u => if mem.contains u && !(env.info u).children.isEmpty then { start := none, end_ := none, est := none, spent := none } else f u

structure Output where
  f : Uid → Fields
  rows : List Row
  res : List (Option Nat × Cal)

/-- the checks `ForwardScheduler.calc` makes on the WBS it is given, before it clones it -/
def fwdPrecheck (env : Env) (f0 : Uid → Fields) : Res Unit := do
  let mem ← (match members env with | some m => pure m | none => throw (.crash .recursion))
  if !isolationOk env f0 mem then throw .runtime
  checkLoops env mem
  -- __check_no_end_dates_in_future
  let nw := env.clock 0
  if mem.any (fun t => match (f0 t).end_ with | some e => decide (nw < e) | none => false) then throw .runtime
  pure ()

/-- prepare + the pass over the roots, on the clone -/
def fwdRun (env : Env) (f0 : Uid → Fields) (res0 : List (Option Nat × Cal)) : Res Output := do
  let mem ← (match members env with | some m => pure m | none => throw (.crash .recursion))
  let σ0 : SS := { f := prepare env f0 mem, rows := [], done := [], res := res0, reads := 1 }
  let σ ← passList (fun σ r => fwdPass env (env.n + 1) [] σ r env.bound) σ0 env.roots
  pure { f := σ.f, rows := σ.rows, res := σ.res }

/-- `ForwardScheduler.calc` (on one environment: the clone is isomorphic to the source, C10) -/
def forwardCalc (env : Env) (f0 : Uid → Fields) (res0 : List (Option Nat × Cal)) : Res Output := do
  fwdPrecheck env f0
  fwdRun env f0 res0

def bwdPrecheck (env : Env) (f0 : Uid → Fields) : Res Unit := do
  let mem ← (match members env with | some m => pure m | none => throw (.crash .recursion))
  if !isolationOk env f0 mem then throw .runtime
  checkLoops env mem

def bwdRun (env : Env) (f0 : Uid → Fields) (res0 : List (Option Nat × Cal)) : Res Output := do
  let mem ← (match members env with | some m => pure m | none => throw (.crash .recursion))
  let σ0 : SS := { f := prepare env f0 mem, rows := [], done := [], res := res0, reads := 0 }
  let σ ← passList (fun σ r => bwdPass env (env.n + 1) [] σ r env.bound) σ0 env.roots.reverse
  pure { f := σ.f, rows := σ.rows, res := σ.res }

/-- `BackwardScheduler.calc` -/
def backwardCalc (env : Env) (f0 : Uid → Fields) (res0 : List (Option Nat × Cal)) : Res Output := do
  bwdPrecheck env f0
  bwdRun env f0 res0

end Pj
