/-
  Model/Clone.lean — `WBS.clone` / `WBS.subtree` (wbs.py:112-166) and `Task.clone` (task.py:916-927), replayed
  through the real setters of Model/Graph.lean on freshly allocated uids.
-/
import PjVerif.Model.GraphOps
namespace Pj

/-- first-occurrence de-duplication (`{task.id: task for task in …}` on a WBS with unique ids keeps one entry per
    task, in the order of first appearance) -/
def dedupFirst (l : List Uid) : List Uid := l.eraseDups

/-- position of `x` in `sel`, i.e. the index of its clone -/
def cloneOf (n : Nat) (sel : List Uid) (x : Uid) : Option Uid :=
  match sel.idxOf? x with
  | some i => some (n + i)
  | none => none

/-- the universe extended by `k` fresh task objects (copies of `sel`) and one fresh hidden WBS root -/
def extend (s : G) (sel : List Uid) : G :=
  let k := sel.length
  let n := s.n
  { s with
    n := n + k + 1,
    tid := fun u => if u < n then s.tid u else if u < n + k then s.tid (sel.getD (u - n) 0) else if u = n + k then emptyId else s.tid u,
    owner := fun u => if u = n + k then some (n + k) else s.owner u }

/-- run a list of state transformers, stopping at the first error.  `norm` re-represents the state between two
    steps (the model uses `id`; the driver passes an array-backed copy, extensionally the same state, so that
    lookups stay cheap) -/
def seqOps (norm : G → G) : G → List (G → G × Option Err) → G × Option Err
  | s, [] => (s, none)
  | s, f :: fs =>
    match f s with
    | (s', some e) => (s', some e)
    | (s', none) => seqOps norm (norm s') fs

/-- `link_target`: members of the source WBS `w` are mapped to their clone (dropped when not selected), tasks that
    do not belong to `w` are shared -/
def linkTarget (s : G) (w : Uid) (n : Nat) (sel : List Uid) (x : Uid) : Option Uid :=
  if s.owner x = some w then cloneOf n sel x else some x

/-- `WBS.__clone(roots)`: returns the extended state and the uid of the new WBS root -/
def cloneSel (s : G) (w : Uid) (roots : List Uid) (norm : G → G := id) : G × Option Err × Uid :=
  match roots.mapM (fun r => subtreeF s.children s.fuel r) with
  | none => (s, some (.crash .recursion), 0)
  | some subs =>
    let sel := dedupFirst subs.flatten
    let n := s.n
    let s0 := extend s sel
    let newRoot := n + sel.length
    let perTask : List (G → G × Option Err) := sel.flatMap (fun t =>
      match cloneOf n sel t with
      | none => []
      | some c =>
        [ (fun g => setParent g c ((s.pubParent t).bind (cloneOf n sel))),
          (fun g => setChildren g c ((s.children t).filterMap (cloneOf n sel))),
          (fun g => setPreds g c ((s.preds t).filterMap (linkTarget s w n sel))),
          (fun g => setSuccs g c ((s.succs t).filterMap (linkTarget s w n sel))) ])
    let final : G → G × Option Err := fun g => setChildren g newRoot (roots.filterMap (cloneOf n sel))
    let r := seqOps norm s0 (perTask ++ [final])
    (r.1, r.2, newRoot)

/-- `WBS.clone()` -/
def cloneWbs (s : G) (w : Uid) (norm : G → G := id) : G × Option Err × Uid := cloneSel s w (s.children w) norm

end Pj
