/-
  Model/Print.lean — utils.TextTable (utils.py:20-109) and task._Repr (task.py:76-189): printed task sheets.
  Strings are `List Char`; lengths are code points, as Python's `len`.
-/
import PjVerif.Model.Basic
namespace Pj.Print

abbrev Str := List Char

structure Cell where
  text : Str
  color : Option Str
  deriving Repr, Inhabited, DecidableEq

def esc : Char := '\x1b'
def resetSeq : Str := [esc, '[', '0', 'm']

/-- `colored_text(text, width, color, None)` -/
def coloredText (text : Str) (width : Nat) (color : Option Str) : Str :=
  let padded := text ++ List.replicate (width - text.length) ' '
  match color with
  | some c => if c.isEmpty then padded else [esc, '['] ++ c ++ padded ++ resetSeq
  | none => padded

/-- column widths: for every column index the longest cell over the rows that have that column -/
def widths (rows : List (List Cell)) : List Nat :=
  let n := (rows.map List.length).foldl max 0
  (List.range n).map (fun i => (rows.map (fun r => match r[i]? with | some c => c.text.length | none => 0)).foldl max 0)

/-- `_TextTableRow.repr(width)` without border; `rowColor` colours the padding cells of a short row -/
def renderRow (ws : List Nat) (rowColor : Option Str) (cells : List Cell) : Str :=
  ((List.range ws.length).map (fun i =>
    match cells[i]? with
    | some c => coloredText (' ' :: c.text ++ [' ']) (ws.getD i 0 + 2) c.color
    | none => coloredText [' ', ' '] (ws.getD i 0 + 2) rowColor)).flatten

/-- `TextTable.text_repr()`: rows joined by newlines; the separator is only written when the text so far is not empty -/
def render (rows : List (Option Str × List Cell)) : Str :=
  let ws := widths (rows.map (·.2))
  rows.foldl (fun acc r => (if acc.isEmpty then acc else acc ++ ['\n']) ++ renderRow ws r.1 r.2) []

/-- what the terminal shows: ANSI colour sequences `ESC [ … m` removed (`inSeq` = inside such a sequence) -/
def visibleAux : Bool → Str → Str
  | _, [] => []
  | false, c :: cs => if c == esc then visibleAux true cs else c :: visibleAux false cs
  | true, c :: cs => if c == 'm' then visibleAux false cs else visibleAux true cs

def visible (s : Str) : Str := visibleAux false s

/-! ### `_Repr`: which rows a sheet has -/

/-- what the model needs to know about one task object -/
structure PTask where
  idText : Str                        -- str(task.id)
  isRoot : Bool                       -- id == EMPTY_TASK_ID (a hidden WBS root)
  name : Option Str
  estimate : Option Str               -- str(estimate)
  spent : Option Str
  dict : List (Str × Option Str)      -- public entries of `__dict__`: name → str(value) / formatted datetime; none = None
  children : List Nat
  preds : List Nat
  succs : List Nat
  parent : Option Nat                 -- public parent
  owner : Option Nat                  -- WBS identity
  deriving Repr, Inhabited

def asciiLower (c : Char) : Char := if 'A' ≤ c ∧ c ≤ 'Z' then Char.ofNat (c.toNat + 32) else c
def asciiUpper (c : Char) : Char := if 'a' ≤ c ∧ c ≤ 'z' then Char.ofNat (c.toNat - 32) else c

def joinComma : List Str → Str
  | [] => []
  | [x] => x
  | x :: xs => x ++ ',' :: joinComma xs

/-- `__get_linked_task_id` -/
def linkedId (ts : Nat → PTask) (t : Nat) (l : Nat) : Str :=
  if (ts l).isRoot then [] else
  (ts l).idText ++ (if (ts l).owner != (ts t).owner then "(external)".toList else [])

/-- `__get_field_value` (task.py:106-133) -/
def fieldValue (ts : Nat → PTask) (t : Nat) (field : Str) : Str :=
  let task := ts t
  if field == "predecessors".toList then '[' :: joinComma (task.preds.map (linkedId ts t)) ++ [']']
  else if field == "successors".toList then '[' :: joinComma (task.succs.map (linkedId ts t)) ++ [']']
  else if field == "parent".toList then (match task.parent with | some p => linkedId ts t p | none => [])
  else if field == "id".toList then task.idText
  else if field == "estimate".toList then (match task.estimate with | some e => e | none => ['-'])
  else if field == "spent".toList then (match task.spent with | some e => e | none => ['-'])
  else
    let look := fun (f : Str) => task.dict.find? (fun p => p.1 == f)
    match (match look field with | some p => some p | none => look (field.map asciiLower)) with
    | none => []
    | some p => (match p.2 with | some v => v | none => ['-'])

structure Theme where
  header : Option Str
  levels : List Str
  deriving Repr, Inhabited

def grey : Str := "97m".toList

/-- `__print_task_subtree`: one row for the task, then (when `children`) its subtree, depth first -/
def subtreeRows (ts : Nat → PTask) (fields : List Str) (children : Bool) (theme : Theme) : Nat → Nat → Nat → List (Option Str × List Cell)
  | 0, _, _ => []
  | fuel + 1, level, t =>
    let task := ts t
    let color : Str := match (task.dict.find? (fun p => p.1 == "print_color".toList)).bind (·.2) with
      | some c => c
      | none => theme.levels.getD level grey
    let cells := fields.map (fun f =>
      if f == "name".toList then { text := List.replicate (3 * level) ' ' ++ (task.name.getD []), color := some color : Cell }
      else { text := fieldValue ts t f, color := some color })
    (some color, cells) ::
      (if children then (task.children.map (subtreeRows ts fields children theme fuel (level + 1))).flatten else [])

/-- `_Repr.repr(tasks, fields, children, theme)` -/
def sheet (ts : Nat → PTask) (n : Nat) (tasks : List Nat) (fields : List Str) (children : Bool) (theme : Theme) : Str :=
  let header : Option Str × List Cell := (theme.header, fields.map (fun f => { text := f.map asciiUpper, color := theme.header }))
  render (header :: (tasks.map (subtreeRows ts fields children theme (n + 1) 0)).flatten)

/-- number of tasks a sheet shows -/
def shownCount (ts : Nat → PTask) (children : Bool) : Nat → Nat → Nat
  | 0, _ => 0
  | fuel + 1, t => 1 + (if children then ((ts t).children.map (shownCount ts children fuel)).sum else 0)

end Pj.Print
