/-
  Model/QueryExpr.lean — the small expression language the filter chain of task.py:237-291 is translated into
  (by tools/extract_query.py), its values and its evaluator.
-/
import PjVerif.Model.Basic
namespace Pj

inductive CmpOp | ne | le | lt | ge | gt | eq
  deriving DecidableEq, Repr, Inhabited

/-- reject condition of one branch; `val` = the task's attribute value, `v` = the filter value -/
inductive RExpr
  | valNone                 -- val is None
  | valNotNone              -- val is not None
  | search                  -- re.search(v, val)
  | inV                     -- val in v
  | cmp (op : CmpOp)        -- val <op> v
  | not (e : RExpr)
  | or (a b : RExpr)        -- Python `or`: the right operand is not evaluated when the left is true
  deriving DecidableEq, Repr, Inhabited

/-- attribute values as the model distinguishes them: None, a number (int or float), a string -/
inductive Val
  | none
  | num (r : Rat)
  | str (s : String)
  deriving DecidableEq, Repr, Inhabited

/-- filter values: a single value, a list (for `_in_` / `_not_in_`), a regular-expression pattern -/
inductive FVal
  | one (v : Val)
  | many (l : List Val)
  | pat (p : String)
  deriving Repr, Inhabited

/-- Python comparison of two values; ordering comparisons between different kinds raise TypeError -/
def cmpVal (op : CmpOp) (a b : Val) : Res Bool :=
  match op, a, b with
  | .eq, a, b => pure (decide (a = b))
  | .ne, a, b => pure (decide (a ≠ b))
  | .le, .num x, .num y => pure (decide (x ≤ y))
  | .lt, .num x, .num y => pure (decide (x < y))
  | .ge, .num x, .num y => pure (decide (y ≤ x))
  | .gt, .num x, .num y => pure (decide (y < x))
  | .le, .str x, .str y => pure (decide (x ≤ y))
  | .lt, .str x, .str y => pure (decide (x < y))
  | .ge, .str x, .str y => pure (decide (y ≤ x))
  | .gt, .str x, .str y => pure (decide (y < x))
  | _, _, _ => throw (.crash .type)

/-- evaluate a reject condition.  `re` is `re.search` (a parameter: pattern → string → matched?). -/
def RExpr.eval (re : String → String → Bool) (val : Val) (v : FVal) : RExpr → Res Bool
  | .valNone => pure (decide (val = .none))
  | .valNotNone => pure (decide (val ≠ .none))
  | .search =>
    match v, val with
    | .pat p, .str s => pure (re p s)
    | _, _ => throw (.crash .type)
  | .inV =>
    match v with
    | .many l => pure (l.contains val)
    | _ => throw (.crash .type)
  | .cmp op =>
    match v with
    | .one w => cmpVal op val w
    | .pat p => cmpVal op val (.str p)
    | .many _ => (match op with | .eq => pure false | .ne => pure true | _ => throw (.crash .type))
  | .not e => do let b ← e.eval re val v; pure (!b)
  | .or a b => do
    let x ← a.eval re val v
    if x then pure true else b.eval re val v

end Pj
