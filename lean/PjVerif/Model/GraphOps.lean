/-
  Model/GraphOps.lean — list façades, operators, WBS-level mutators and the `step` function.
  Composite operations are *defined through* the primitive setters exactly as the code delegates.
-/
import PjVerif.Model.Graph
namespace Pj

/-- Python `list.insert(i, x)`: negative indexes count from the end, out-of-range indexes are clamped -/
def pyInsert (l : List Uid) (i : Int) (x : Uid) : List Uid :=
  let len : Int := l.length
  let j : Int := if i < 0 then (if i + len < 0 then 0 else i + len) else (if i > len then len else i)
  l.take j.toNat ++ [x] ++ l.drop j.toNat

/-! ### `_ChildrenList` (task.py:422-529) -/

def chAppend (s : G) (h t : Uid) : G × Option Err := setParent s t (some h)

def chRemove (s : G) (h t : Uid) : G × Option Err :=
  if (s.children h).contains t then setChildren s h ((s.children h).filter (fun x => x != t)) else (s, none)

/-- repaired `insert`: the sibling list without the task, the task inserted at `index`, assigned as a whole -/
def chInsert (s : G) (h : Uid) (i : Int) (t : Uid) : G × Option Err :=
  setChildren s h (pyInsert ((s.children h).filter (fun x => x != t)) i t)

/-- one iteration of the move loop: `list.remove(task)` then insert before / after the anchor -/
def moveOne (l : List Uid) (task : Uid) (before after : Option Uid) : List Uid :=
  let l1 := l.erase task
  match before, after with
  | some b, _ => let i := l1.idxOf b; l1.take i ++ [task] ++ l1.drop i
  | none, some a => let i := l1.idxOf a + 1; l1.take i ++ [task] ++ l1.drop i
  | none, none => l1

def chMove (s : G) (h : Uid) (ts : List Uid) (before after : Option Uid) : G × Option Err :=
  let l := s.children h
  if ts.any (fun t => !l.contains t) then (s, some .runtime)
  else if (match before with | some b => !l.contains b | none => false) then (s, some .runtime)
  else if (match after with | some a => !l.contains a | none => false) then (s, some .runtime)
  else if before.isSome && after.isSome then (s, some .runtime)
  else if before.isNone && after.isNone then (s, some .runtime)
  else if (match before with | some b => ts.contains b | none => false) ||
          (match after with | some a => ts.contains a | none => false) then (s, some .runtime)
  else ({ s with children := upd s.children h (ts.foldl (fun acc t => moveOne acc t before after) l) }, none)

/-- `sorted(list, key=…, reverse=…)`: stable; with `reverse` ties keep their original order too -/
def sortBy (key : Uid → Int) (rev : Bool) (l : List Uid) : List Uid :=
  if rev then l.mergeSort (fun a b => decide (key b ≤ key a)) else l.mergeSort (fun a b => decide (key a ≤ key b))

def chSort (s : G) (h : Uid) (key : Uid → Int) (rev : Bool) : G × Option Err :=
  ({ s with children := upd s.children h (sortBy key rev (s.children h)) }, none)

/-- the loop of `reorder` (task.py:512-529): `next(t for t in self if t.id == _id)` raises StopIteration for
    an unknown id, `_all.remove(ch)` raises ValueError for a repeated one -/
def reorderLoop (s : G) (l : List Uid) : List Int → List Uid → List Uid → Except Err (List Uid)
  | [], new, rest => pure (new ++ rest)
  | i :: ids, new, rest =>
    match l.find? (fun t => s.tid t == i) with
    | none => throw (.crash .stopIteration)
    | some ch => if rest.contains ch then reorderLoop s l ids (new ++ [ch]) (rest.erase ch) else throw (.crash .value)

def chReorder (s : G) (h : Uid) (ids : List Int) : G × Option Err :=
  match reorderLoop s (s.children h) ids [] (s.children h) with
  | .error e => (s, some e)
  | .ok l => ({ s with children := upd s.children h l }, none)

/-! ### `_PredecessorsList` / `_SuccessorsList` (task.py:532-587) and the operators (929-942) -/

def prAppend (s : G) (t x : Uid) : G × Option Err := setPreds s t (s.preds t ++ [x])
def prRemove (s : G) (t x : Uid) : G × Option Err :=
  if (s.preds t).contains x then setPreds s t ((s.preds t).filter (fun v => v != x)) else (s, none)
def suAppend (s : G) (t x : Uid) : G × Option Err := setSuccs s t (s.succs t ++ [x])
def suRemove (s : G) (t x : Uid) : G × Option Err :=
  if (s.succs t).contains x then setSuccs s t ((s.succs t).filter (fun v => v != x)) else (s, none)

def floordiv (s : G) (h : Uid) (l : List Uid) : G × Option Err := setChildren s h (s.children h ++ l)
def lshift (s : G) (t : Uid) (l : List Uid) : G × Option Err := setPreds s t (s.preds t ++ l)
def rshift (s : G) (t : Uid) (l : List Uid) : G × Option Err := setSuccs s t (s.succs t ++ l)

/-- element-by-element application used by the list-level `<<`, `>>` and bulk attribute assignment:
    stops at the first element that raises, earlier elements stay changed (not atomic) -/
def forEach (f : G → Uid → G × Option Err) : G → List Uid → G × Option Err
  | s, [] => (s, none)
  | s, t :: ts =>
    match f s t with
    | (s', some e) => (s', some e)
    | (s', none) => forEach f s' ts

/-! ### WBS (wbs.py:57-95) -/

/-- `WBS.__remove(task, current)`: depth-first search for the list that holds the task -/
def removeRec (t : Uid) : Nat → G → Uid → Option (G × Option Err × Bool)
  | 0, _, _ => none
  | f + 1, s, cur =>
    if (s.children cur).contains t then
      let r := chRemove s cur t
      some (r.1, r.2, true)
    else
      let rec go : List Uid → Option (G × Option Err × Bool)
        | [] => some (s, none, false)
        | c :: cs =>
          match removeRec t f s c with
          | none => none
          | some (s', some e, b) => some (s', some e, b)
          | some (s', none, true) => some (s', none, true)
          | some (_, none, false) => go cs
      go (s.children cur)

def wbsRemove (s : G) (w t : Uid) : G × Option Err :=
  match removeRec t s.fuel s w with
  | none => (s, some (.crash .recursion))
  | some (s', e, _) => (s', e)

/-! ### operations and `step` -/

inductive Op
  | setParent (t : Uid) (p : Option Uid)
  | setChildren (h : Uid) (l : List Uid)          -- also `WBS.roots = l` (h = the hidden root)
  | chAppend (h t : Uid)
  | chRemove (h t : Uid)
  | chInsert (h : Uid) (i : Int) (t : Uid)
  | chMove (h : Uid) (ts : List Uid) (before after : Option Uid)
  | chSort (h : Uid) (keys : List (Uid × Int)) (rev : Bool)
  | chReorder (h : Uid) (ids : List Int)
  | setPreds (t : Uid) (l : List Uid)
  | setSuccs (t : Uid) (l : List Uid)
  | prAppend (t x : Uid)
  | prRemove (t x : Uid)
  | suAppend (t x : Uid)
  | suRemove (t x : Uid)
  | floordiv (h : Uid) (l : List Uid)
  | lshift (t : Uid) (l : List Uid)
  | rshift (t : Uid) (l : List Uid)
  | listLshift (ts : List Uid) (l : List Uid)
  | listRshift (ts : List Uid) (l : List Uid)
  | listSetParent (ts : List Uid) (p : Option Uid)
  | wbsRemove (w t : Uid)
  | wbsRemoveAll (w : Uid) (ts : List Uid)
  | chRemoveAll (h : Uid) (ts : List Uid)
  deriving Repr, Inhabited

def keyOf (keys : List (Uid × Int)) (u : Uid) : Int :=
  match keys.find? (fun p => p.1 == u) with
  | some p => p.2
  | none => 0

def step (s : G) : Op → G × Option Err
  | .setParent t p => setParent s t p
  | .setChildren h l => setChildren s h l
  | .chAppend h t => chAppend s h t
  | .chRemove h t => chRemove s h t
  | .chInsert h i t => chInsert s h i t
  | .chMove h ts b a => chMove s h ts b a
  | .chSort h keys rev => chSort s h (keyOf keys) rev
  | .chReorder h ids => chReorder s h ids
  | .setPreds t l => setPreds s t l
  | .setSuccs t l => setSuccs s t l
  | .prAppend t x => prAppend s t x
  | .prRemove t x => prRemove s t x
  | .suAppend t x => suAppend s t x
  | .suRemove t x => suRemove s t x
  | .floordiv h l => floordiv s h l
  | .lshift t l => lshift s t l
  | .rshift t l => rshift s t l
  | .listLshift ts l => forEach (fun s t => lshift s t l) s ts
  | .listRshift ts l => forEach (fun s t => rshift s t l) s ts
  | .listSetParent ts p => forEach (fun s t => setParent s t p) s ts
  | .wbsRemove w t => wbsRemove s w t
  | .wbsRemoveAll w ts => forEach (fun s t => wbsRemove s w t) s ts
  | .chRemoveAll h ts => forEach (fun s t => chRemove s h t) s ts

/-- every prefix of a history -/
def run (s : G) (ops : List Op) : G := ops.foldl (fun s op => (step s op).1) s

end Pj

namespace Pj

/-- `WBS.tasks` = `root.all_children` (wbs.py:36-39) -/
def wbsTasks (s : G) (w : Uid) : Option (List Uid) := descF s.children s.fuel w

/-- `wbs[task_id]` (wbs.py:97-101): the first member with that id, RuntimeError when there is none -/
def wbsGet (s : G) (w : Uid) (i : Int) : Res Uid :=
  match wbsTasks s w with
  | none => .error (.crash .recursion)
  | some l =>
    match l.find? (fun t => s.tid t == i) with
    | some t => .ok t
    | none => .error .runtime

end Pj
