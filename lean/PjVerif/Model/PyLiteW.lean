/-
  Model/PyLiteW.lean — the runner of a program LAYERED over another program (wbs.py over task.py).

  `PyLite.progH prim tbl fuel` runs a table of functions calling one another (Model/PyLite.lean, "task constructs").
  wbs.py calls the functions of task.py (the relation setters, `_to_list`, `all_children`, …) and its own methods; the
  translated functions of wbs.py form a second table `top` whose numbers are disjoint from those of `base`:

  * `callFn k args` with `top k = some (params, body)`: the body is run with the handlers `progW … (fuel - 1)`;
  * `callFn k args` with `top k = none`: the call leaves the layer - it is the call of the k-th function of the program
    `base`, `runProg primB base fuel k args`, i.e. exactly the object the theorems of Lemmas/TaskSrc*.lean speak about.
  Every call costs one unit of fuel in both layers, so the fuel bounds the depth of nested calls as before; at fuel 0
  a call ends with RecursionError.
  * `prim` - the read-only library attributes of the upper layer; `fn` - the primitives of the upper layer that CHANGE
    the state (`callVal (fnRef k) args`): the constructors `Task.clone()` / `WBS()`, which allocate a new object.
    Convention of the upper layer: the component `reads` of `PState` (unused otherwise: the layer has no clock) is the
    ALLOCATION POINTER - the objects `ref i`, `i < reads`, exist; a constructor returns `ref reads`, writes the
    attributes of that object and increments `reads`.  (The meaning of the primitives is given where the encoding is
    defined: Lemmas/WbsSrc.lean.)

  The constructs this layer adds to the syntax (all appended to Model/PyLite.lean, interpreted by `Expr.evalP` /
  `Stmt.execP` only): `dictComp`, `dictGet`, `dictIndex`, `dictValues`, `nextComp`, `tryExcept`, `forLive`.
-/
import PjVerif.Model.PyLite
namespace Pj.PyLite

/-- handlers of the program `top` layered over the program `base` -/
def progW (primB : String → List Atom → PState → Res Val) (base : FunTable)
    (prim : String → List Atom → PState → Res Val) (fn : Nat → List Atom → PState → Res (Val × PState))
    (top : FunTable) : Nat → PHandlers
  | 0 =>
    { clock := fun _ => 0
      call := fun _ _ _ => throw stuck
      newResource := fun _ => throw stuck
      prim := prim
      fn := fn
      fnV := fun _ _ _ => throw (.crash .recursion) }
  | fuel + 1 =>
    { clock := fun _ => 0
      call := fun _ _ _ => throw stuck
      newResource := fun _ => throw stuck
      prim := prim
      fn := fn
      fnV := fun k args st =>
        match top k with
        | some (params, body) => callPV (progW primB base prim fn top fuel) params body args st
        | Option.none => runProg primB base (fuel + 1) k args st }

/-- call the k-th function (of either layer) with at most `fuel` nested calls -/
def runProgW (primB : String → List Atom → PState → Res Val) (base : FunTable)
    (prim : String → List Atom → PState → Res Val) (fn : Nat → List Atom → PState → Res (Val × PState))
    (top : FunTable) (fuel : Nat) (k : Nat) (args : List Val) (st : PState) : Res (Val × PState) :=
  (progW primB base prim fn top fuel).fnV k args st

end Pj.PyLite
