/-
  Model/Render.lean — the three renderers: viz/mermaid/gantt.py (`__src`), viz/mermaid/network.py (`__src`) and the
  data section of viz/dhtmlx/gantt.py (`__data`).  Dates and numbers arrive formatted by Python's own built-ins
  (`strftime`, `str`); the templates and `json.dumps` are outside the model (trusted, see DESIGN.md).
-/
import PjVerif.Model.Basic
namespace Pj.Render

abbrev Str := List Char

def lit (x : String) : Str := x.toList

/-- what the Gantt renderer reads of one task -/
structure GTask where
  idText : Str              -- str(task.id)
  name : Str
  milestone : Bool
  done : Bool               -- end <= now
  active : Bool             -- start < now
  start : Str               -- %d.%m.%Y %H:%M
  end_ : Str
  sect : Option Str         -- gantt_section, when the attribute exists
  deriving Repr, Inhabited

def stateOf (t : GTask) : Str :=
  if t.milestone then lit "milestone," else if t.done then lit "done," else if t.active then lit "active," else []

/-- `__mermaid_task`: "    {}: {} {}, {}, {}\n" with every ':' removed from the name -/
def ganttLine (t : GTask) : Str :=
  lit "    " ++ t.name.filter (fun c => c != ':') ++ lit ": " ++ stateOf t ++ lit " id_" ++ t.idText ++ lit ", " ++ t.start ++ lit ", " ++ t.end_ ++ ['\n']

def sectionOf (t : GTask) : Str := t.sect.getD ['-']

/-- `MermaidGantt.__src()` -/
def ganttSrc (title : Option Str) (weekends : Bool) (tick : Option Str) (tasks : List GTask) : Str :=
  let head := lit "gantt\n  dateFormat DD.MM.YYYY HH:mm\n" ++
    (match title with | some t => lit "  title " ++ t ++ ['\n'] | none => []) ++
    (if weekends then lit "  excludes weekends\n" else []) ++
    (match tick with | some t => if t.isEmpty then [] else lit "  tickInterval " ++ t ++ ['\n'] | none => [])
  let secs := (tasks.map sectionOf).eraseDups
  if secs.length == 1 || secs.isEmpty then head ++ (tasks.map ganttLine).flatten
  else head ++ (secs.map (fun k => lit "  section " ++ k ++ ['\n'] ++ ((tasks.filter (fun t => sectionOf t == k)).map ganttLine).flatten)).flatten

/-- what the network renderer reads of one task -/
structure NTask where
  idText : Str
  name : Str
  preds : List Nat          -- indices into the task list (predecessors inside or outside the WBS: any task object)
  style : Option Str        -- network_bar_style rendered as k:v,k:v
  deriving Repr, Inhabited

/-- `.replace('{', '#123;').replace('}', '#125;')`: braces written as Mermaid entity codes.  (The two replacements
    commute with a single pass: neither replacement text contains a brace.) -/
def escLabel (s : Str) : Str :=
  s.flatMap (fun c => if c == '{' then lit "#123;" else if c == '}' then lit "#125;" else [c])

/-- `<id>{{<label>}}`, label = `name.replace('"', '').replace('{', '#123;').replace('}', '#125;')` -/
def nodeLabel (idText name : Str) : Str := idText ++ lit "{{" ++ escLabel (name.filter (fun c => c != '"')) ++ lit "}}"

/-- `MermaidNetwork.__src()`; `all` = every task object a predecessor link can point to, `tasks` = indices of WBS.tasks -/
def networkSrc (all : Nat → NTask) (tasks : List Nat) : Str :=
  lit "flowchart LR\n" ++
  (tasks.map (fun i =>
    let t := all i
    if t.preds.isEmpty then lit "  0((Start)) --> " ++ nodeLabel t.idText t.name ++ ['\n']
    else (t.preds.map (fun p => lit "  " ++ nodeLabel (all p).idText (all p).name ++ lit " --> " ++ nodeLabel t.idText t.name ++ ['\n'])).flatten)).flatten ++
  (tasks.map (fun i => match (all i).style with
    | some st => lit "style " ++ (all i).idText ++ [' '] ++ st ++ ['\n']
    | none => [])).flatten

/-- one entry of the DHTMLX data array (the fields the property speaks about) -/
structure DEntry where
  id : Int
  text : Str
  milestone : Bool
  start : Str
  end_ : Str
  parent : Int              -- parent id, 0 for a root task
  progress : Rat
  deriving Repr, Inhabited, DecidableEq

structure DLink where
  id : Nat
  source : Int
  target : Int
  deriving Repr, Inhabited, DecidableEq

/-- what the DHTMLX renderer reads of one task -/
structure DTask where
  id : Int
  name : Str
  milestone : Bool
  start : Str
  end_ : Str
  endPast : Bool            -- end < now
  estimate : Rat
  spent : Option Rat
  parent : Option Nat       -- public parent (index), when it is a member of the WBS
  children : List Nat
  preds : List Nat
  deriving Repr, Inhabited

/-- `progress` (dhtmlx/gantt.py:121-126) -/
def progressOf (t : DTask) : Rat :=
  if t.endPast then 1
  else if 0 < t.estimate then
    match t.spent with
    | some s => 1 - (if t.estimate - s < 0 then 0 else t.estimate - s) / t.estimate
    | none => 0
  else 0

/-- descendants first, then the task: `_root.all_children + [_root]` per root -/
def postList (ts : Nat → DTask) : Nat → Nat → List Nat
  | 0, _ => []
  | f + 1, t => ((ts t).children.map (fun c => c :: postList ts f c)).flatten

def dhtmlxOrder (ts : Nat → DTask) (n : Nat) (roots : List Nat) : List Nat :=
  (roots.map (fun r => postList ts (n + 1) r ++ [r])).flatten

def dhtmlxData (ts : Nat → DTask) (n : Nat) (roots : List Nat) : List DEntry :=
  (dhtmlxOrder ts n roots).map (fun i =>
    let t := ts i
    { id := t.id, text := t.name, milestone := t.milestone, start := t.start, end_ := t.end_,
      parent := (match t.parent with | some p => (ts p).id | none => 0), progress := progressOf t })

/-- links numbered 1, 2, 3, … in the order the tasks and their predecessor lists are walked -/
def dhtmlxLinks (ts : Nat → DTask) (n : Nat) (roots : List Nat) : List DLink :=
  let pairs := (dhtmlxOrder ts n roots).flatMap (fun i => (ts i).preds.map (fun p => ((ts p).id, (ts i).id)))
  (List.range pairs.length).map (fun k => { id := k + 1, source := (pairs.getD k (0, 0)).1, target := (pairs.getD k (0, 0)).2 })

end Pj.Render
