/-
  Model/Csv.lean — the text layer of io/csv_io.py: Python's `csv` module with the excel dialect, delimiter ';'
  (writer: QUOTE_MINIMAL, doublequote, line terminator "\r\n"; reader: the state machine of Modules/_csv.c fed with
  the lines of a file opened with newline='\n'), and the record layer (flatten / rebuild of the task forest).
  Strings are `List Char`.
-/
import PjVerif.Model.Basic
namespace Pj.Csv

def delim : Char := ';'
def quote : Char := '"'

/-- QUOTE_MINIMAL: a field is quoted iff it contains the delimiter, the quote character or a line-terminator
    character -/
def needsQuote (f : List Char) : Bool := f.any (fun c => c == delim || c == quote || c == '\r' || c == '\n')

def escapeQuotes : List Char → List Char
  | [] => []
  | c :: cs => if c == quote then quote :: quote :: escapeQuotes cs else c :: escapeQuotes cs

def encodeField (f : List Char) : List Char :=
  if needsQuote f then quote :: escapeQuotes f ++ [quote] else f

def joinFields : List (List Char) → List Char
  | [] => []
  | [f] => f
  | f :: fs => f ++ delim :: joinFields fs

/-- `writerow`: a row consisting of one empty field is written as `""` -/
def encodeRow (row : List (List Char)) : List Char :=
  (if row == [[]] then [quote, quote] else joinFields (row.map encodeField)) ++ ['\r', '\n']

def encodeFile (rows : List (List (List Char))) : List Char := (rows.map encodeRow).flatten

/-! ### the reader -/

inductive St | startRecord | startField | inField | inQuoted | quoteInQuoted | eatCrnl
  deriving DecidableEq, Repr, Inhabited

structure P where
  st : St
  field : List Char                 -- reversed characters of the field being read
  fields : List (List Char)         -- reversed fields of the record being read
  recs : List (List (List Char))    -- reversed finished records
  err : Bool
  deriving Inhabited

def P.saveField (p : P) : P := { p with fields := p.field.reverse :: p.fields, field := [] }

/-- one character; `none` is the end-of-line marker the reader processes after every line -/
def stepChar (p : P) (c : Option Char) : P :=
  let isNl := match c with | some x => x == '\n' || x == '\r' | none => false
  let isEol := c.isNone
  match p.st with
  | .startRecord =>
    if isEol then p
    else if isNl then { p with st := .eatCrnl }
    else
      -- falls through to START_FIELD
      match c with
      | some x =>
        if x == quote then { p with st := .inQuoted }
        else if x == delim then { (p.saveField) with st := .startField }
        else { p with field := x :: p.field, st := .inField }
      | none => p
  | .startField =>
    if isNl || isEol then { (p.saveField) with st := if isEol then .startRecord else .eatCrnl }
    else match c with
      | some x =>
        if x == quote then { p with st := .inQuoted }
        else if x == delim then p.saveField
        else { p with field := x :: p.field, st := .inField }
      | none => p
  | .inField =>
    if isNl || isEol then { (p.saveField) with st := if isEol then .startRecord else .eatCrnl }
    else match c with
      | some x => if x == delim then { (p.saveField) with st := .startField } else { p with field := x :: p.field }
      | none => p
  | .inQuoted =>
    match c with
    | none => p
    | some x => if x == quote then { p with st := .quoteInQuoted } else { p with field := x :: p.field }
  | .quoteInQuoted =>
    if isNl || isEol then { (p.saveField) with st := if isEol then .startRecord else .eatCrnl }
    else match c with
      | some x =>
        if x == quote then { p with field := quote :: p.field, st := .inQuoted }
        else if x == delim then { (p.saveField) with st := .startField }
        else { p with field := x :: p.field, st := .inField }
      | none => p
  | .eatCrnl =>
    if isNl then p
    else if isEol then { p with st := .startRecord }
    else { p with err := true }

/-- end-of-line processing: the marker, then — if the record is complete — emit it -/
def endLine (p : P) : P :=
  let p := stepChar p none
  if p.st == .startRecord then { p with recs := p.fields.reverse :: p.recs, fields := [] } else p

/-- end of input: a record that is still open inside a quoted field is closed and returned (non-strict reader) -/
def endInput (p : P) : P :=
  if p.st == .inQuoted then
    let p := p.saveField
    { p with recs := p.fields.reverse :: p.recs, fields := [], st := .startRecord }
  else p

/-- feed a text: lines end at '\n' (file opened with newline='\n'); a final line without '\n' is a line too.
    `fresh` = no character of the current line has been read yet. -/
def feed : P → Bool → List Char → P
  | p, fresh, [] => endInput (if fresh then p else endLine p)
  | p, _, c :: cs =>
    let p := stepChar p (some c)
    if c == '\n' then feed (endLine p) true cs else feed p false cs

def parse (text : List Char) : Option (List (List (List Char))) :=
  let p := feed { st := .startRecord, field := [], fields := [], recs := [], err := false } true text
  if p.err then none else some p.recs.reverse

end Pj.Csv
