/-
  Model/PyLite.lean — a tiny deeply-embedded fragment of Python ("PyLite") with a total big-step interpreter.

  Purpose: tools/extract_calendar.py translates the bodies of the `get_available_units` methods of calendar.py /
  resource.py into PyLite terms (Extracted/CalendarSrc.lean, regenerated on every check); Lemmas/CalendarSrc.lean
  proves that interpreting those terms equals the hand-written model (Model/Calendar.lean).

  A second evaluator over the same syntax ("scheduler layer", end of this file: `Expr.evalW`, `Stmt.execW`, `runW`)
  adds a mutable usage ledger and handlers for method calls on other objects; tools/extract_schedule.py translates
  the three methods of `_ResourceUsage` and the four inner loops of the schedulers (schedule.py) into
  Extracted/ScheduleSrc.lean and Lemmas/ScheduleSrc.lean proves them equal to Model/Sched.lean.  The constructs that
  only the second evaluator understands are `stuck` in the first one, which is otherwise unchanged.

  A third evaluator ("pass layer", end of this file: `Expr.evalP`, `Stmt.execP`, `callP`) interprets the recursive
  passes of the schedulers and their `__prepare_tasks` (tools/extract_pass.py, Extracted/PassSrc.lean,
  Lemmas/PassSrc.lean, Lemmas/PassSrcBwd.lean): it adds a heap of
  task objects whose attributes are read and written, the list `calculated`, the scheduler's resource table, a
  scripted clock, calls of other methods of `self` (handlers) and of the method itself (fuel).  Its constructs are
  `stuck` in the first two evaluators.

  The third evaluator also interprets the "calc constructs" (tools/extract_calc.py, Extracted/CalcSrc.lean,
  Lemmas/CalcSrc.lean): the pre-checks of the schedulers (`_validate_graph_isolation`, `_leaves`, `_waits_for`,
  `_check_loops`, `_check_loops_from_task`, `__check_no_end_dates_in_future`) and the two `calc` methods.  They add
  mutable containers (`box`), function values (`fn`), calls of module-level functions / function values (handler
  `fn`) and library attributes that are not defined in schedule.py (handler `prim`); see the section "pass layer".

  The third evaluator finally interprets the "task constructs" (tools/extract_task.py, Extracted/TaskSrc.lean,
  Lemmas/TaskSrc*.lean): the four relation setters of `Task` (task.py) and their helpers.  They add list-valued
  attributes that are changed in place (`attrAppend` / `attrRemove` / `attrClear`), `type(e) is T`, sets as values
  (`setOf`, `setInter`), truthiness of an object and a runner for a PROGRAM - a table of functions that call one
  another, every call using one unit of fuel (`progH`); see the end of the section "pass layer".

  Trust base = this file + the translators.  Conventions:
  * numbers are `Rat` (the model's abstraction of int/float), datetimes are `Time` (= Rat days), timedeltas are
    `Rat` days; a Python `bool` is a number (True = 1) for arithmetic, ordering and `==`, exactly as in Python;
  * objects with a `get_available_units` method are opaque references `ref i`; the call is interpreted through the
    parameter `sub : Nat → Time → Res (Option Rat)`; `ref 0` is the object itself (`self`);
  * Python exceptions are the model's `Err`: RuntimeError = `.runtime`, TypeError = `.crash .type`,
    ZeroDivisionError = `.crash .zeroDivision`, KeyError = `.crash .key`, AttributeError = `.crash .attribute`;
  * `stuck` (= `.crash .other`) marks a run that leaves the modelled fragment (e.g. list concatenation,
    `datetime + number`, truthiness of a non-bool, NameError, a `while` loop that exhausts the interpreter's
    fuel).  The model never produces `.crash .other` for the translated methods, so an equivalence theorem
    `interp = eval` shows in particular that no run gets stuck.
-/
import PjVerif.Model.Basic
namespace Pj.PyLite

/-! ### values -/

/-- scalar values -/
inductive Atom
  | none
  | num (q : Rat)
  | bool (b : Bool)
  | time (t : Time)
  | delta (d : Rat)        -- `timedelta`, in days
  | ref (i : Nat)          -- an object answering `get_available_units(date)`; `ref 0` = `self`
  | row (res : Nat) (date : Time) (task : Nat) (units : Rat)
                          -- a `ResourceUsageRow(resource, date, task, units)` object (scheduler layer only)
  | str (k : Nat)          -- a `str`, abstracted to a key: equal strings = equal keys (pass layer only)
  | fn (k : Nat)           -- a function value: the k-th entry of the function table of the run (calc constructs only)
  | box (i : Nat)          -- a mutable container (`list` / `set` object): the i-th box of the state (calc constructs only)
  deriving DecidableEq, Repr, Inhabited

inductive Val
  | atom (a : Atom)
  | list (vs : List Atom)
  | dict (kvs : List (Atom × Atom))   -- association list with distinct keys, in insertion order
  deriving DecidableEq, Repr, Inhabited

instance : Coe Atom Val := ⟨Val.atom⟩

def stuck : Err := .crash .other

/-- int/float/bool as a number (Python: `bool` is a subclass of `int`) -/
def Atom.asNum? : Atom → Option Rat
  | .num q => some q
  | .bool b => some (if b then 1 else 0)
  | _ => Option.none

/-- `True`/`False` are the numbers 1/0 -/
def Atom.norm : Atom → Atom
  | .bool b => .num (if b then 1 else 0)
  | a => a

/-- Python `==` (and dict-key identity) on scalars: numeric for numbers/bools, identity for objects,
    False across kinds -/
def Atom.pyEq (a b : Atom) : Bool := decide (a.norm = b.norm)

/-! ### dicts (association lists) -/

def Dict.get? (d : List (Atom × Atom)) (k : Atom) : Option Atom :=
  (d.find? (fun p => p.1.pyEq k)).map (·.2)

/-- `d[k] = v`: an existing key keeps its position -/
def Dict.insert : List (Atom × Atom) → Atom → Atom → List (Atom × Atom)
  | [], k, v => [(k, v)]
  | p :: d, k, v => if p.1.pyEq k then (p.1, v) :: d else p :: Dict.insert d k v

/-- the dict built by inserting the pairs in order (`{k: v for ...}`) -/
def Dict.ofList (kvs : List (Atom × Atom)) : List (Atom × Atom) :=
  kvs.foldl (fun d p => Dict.insert d p.1 p.2) []

/-! ### syntax -/

inductive CmpOp | lt | gt | le | ge | eq | ne
  deriving DecidableEq, Repr, Inhabited

inductive BinOp | add | sub | mul | div
  deriving DecidableEq, Repr, Inhabited

inductive Expr
  | none                                  -- `None`
  | num (q : Rat)                         -- numeric literal
  | bool (b : Bool)                       -- `True` / `False`
  | var (x : String)                      -- local variable / parameter
  | self                                  -- `self` (only as receiver of `get_available_units`)
  | field (f : String)                    -- `self.f` / `self.__f`
  | isNone (e : Expr)                     -- `e is None`
  | isNotNone (e : Expr)                  -- `e is not None`
  | cmp (op : CmpOp) (a b : Expr)         -- `a < b` ...
  | and (a b : Expr) | or (a b : Expr) | not (a : Expr)
  | bin (op : BinOp) (a b : Expr)         -- `a + b` ...
  | ite (c a b : Expr)                    -- `a if c else b`
  | units (c d : Expr)                    -- `c.get_available_units(d)`
  | dayStart (d : Expr)                   -- `_day_start(d)`
  | timedelta (days : Expr)               -- `timedelta(days=e)`
  | weekday (d : Expr)                    -- `d.weekday()`
  | index (d k : Expr)                    -- `d[k]`
  | isIn (k d : Expr)                     -- `k in d`
  -- scheduler layer (interpreted by `Expr.evalW`; `Expr.eval` is stuck on them; `Expr.evalP` interprets `min`,
  -- `attr`, `listComp`, `sum` of these)
  | min (a b : Expr)                      -- `min(a, b)`
  | timedeltaHours (h : Expr)             -- `timedelta(hours=e)`
  | attr (e : Expr) (f : String)          -- `e.f` on a `ResourceUsageRow`
  | listComp (elt : Expr) (x : String) (it cond : Expr)   -- `[elt for x in it if cond]`
  | sum (l start : Expr)                  -- `sum(l, start)`
  | app (param : String) (body arg : Expr)  -- call of a one-parameter static method `def f(param): return body`
  | rows                                  -- `self.rows` (inside `_ResourceUsage`): the ledger
  | mkRow (r d t u : Expr)                -- `ResourceUsageRow(r, d, t, u)`
  | nearest (c d dir : Expr)              -- `c.get_nearest_availability_date(d, dir)`
  | reserved (r d t : Expr)               -- `resource_usage.reserved(r, d, t)` (`t` = `None` when omitted)
  -- pass layer (interpreted by `Expr.evalP` only; the other two evaluators are stuck on them)
  | datetime (t : Time)                   -- `datetime(y, m, d)` with literal arguments, as days since 1970-01-01
  | now                                   -- `datetime.now()`: the next reading of the clock
  | listNil                               -- `[]`
  | listCons (a l : Expr)                 -- `[a, *l]`: list displays `[a, b, ...]`, and the argument lists of calls
  | len (l : Expr)                        -- `len(l)`
  | max (a b : Expr)                      -- `max(a, b)`
  | max3 (a b c : Expr)                   -- `max(a, b, c)`
  | maxList (l : Expr)                    -- `max(l)`
  | minList (l : Expr)                    -- `min(l)`
  | isSame (a b : Expr)                   -- `a is b` on object references / `None`
  | calcHas (e : Expr)                    -- `id(e) in calculated`
  | resSetdefault (k : Expr)              -- `self.__resources.setdefault(k, Resource(k))`
  | callSelf (m : String) (args : Expr)   -- `self.__m(args...)`, a method other than the one being interpreted;
                                          --   the ledger argument is implicit (it is the interpreter's state)
  | reversed (l : Expr)                   -- `reversed(l)` as the iterable of a `for`: the items of the list `l`, last first
  -- calc constructs (pass layer, interpreted by `Expr.evalP` only): the pre-checks and `calc` of schedule.py
  | idOf (e : Expr)                       -- `id(e)` of a task object
  | prim (name : String) (args : Expr)    -- a library attribute / call that is not defined in schedule.py
                                          --   (`wbs.tasks`, `task.all_children`, …): handler `prim`
  | fnRef (k : Nat)                       -- a module-level function, a method or a closed `lambda` as a value
  | callVal (f : Expr) (args : Expr)      -- `f(args...)`, `f` a function value: handler `fn`
  | newBox (l : Expr)                     -- a new mutable container holding the items of `l`: `[]`, `set()`, `set(l)`
  | items (b : Expr)                      -- the current items of the container `b` (a snapshot, as a list value)
  | listOf (e : Expr)                     -- `list(e)`
  | flatComp (inner : Expr) (x : String) (it cond : Expr)
                                          -- `[y for x in it if cond for … ]` = the lists `inner` (the comprehension
                                          --   over the remaining `for` clauses, `x` bound) joined in order
  | anyComp (elt : Expr) (x : String) (it cond : Expr)   -- `any(elt for x in it if cond)`
  | range3 (lo hi step : Expr)            -- `range(lo, hi, step)` as the iterable of a `for`: the list of its items
  | listIndex (l i : Expr)                -- `l[i]`, `l` a list and `i` an `int` (negative: counted from the end)
  -- task constructs (pass layer, interpreted by `Expr.evalP` only): the relation setters of task.py
  | typeIs (e : Expr) (ty : String)       -- `type(e) is <ty>` for ty = Task / list / tuple / set, and
                                          --   `isinstance(e, Iterable)` for ty = Iterable; `e` is None, a task or a list
  | setOf (l : Expr)                      -- `set(l)` as a VALUE: the items of `l` without repetitions
  | setInter (a b : Expr)                 -- `a.intersection(b)` on two such sets
  | callFn (k : Nat) (args : Expr)        -- `f(args...)`, `f` the k-th function of the program; `args` is an argument
                                          --   list `listCons a (listCons b … listNil)` whose items are VALUES (lists too)
  -- wbs constructs (pass layer, interpreted by `Expr.evalP` only): wbs.py
  | dictComp (k v : Expr) (x : String) (it cond : Expr)
                                          -- `{k: v for x in it if cond}`: the key first, then the value (may allocate)
  | dictGet (d k : Expr)                  -- `d.get(k)`: the value, `None` for a missing key
  | dictIndex (d k : Expr)                -- `d[k]` on a dict (KeyError for a missing key)
  | dictValues (d : Expr)                 -- `d.values()` as an iterable: the values in insertion order
  | nextComp (elt : Expr) (x : String) (it cond : Expr)
                                          -- `next(elt for x in it if cond)`: the first element; StopIteration when none
  -- facade constructs (pass layer, interpreted by `Expr.evalP` only): the list facades of task.py; they also use
  -- `nextComp` of the wbs constructs above
  | listInsert (l i e : Expr)             -- the list `l` with `e` inserted before position `i` (`list.insert(i, e)`)
  | listRemove (l e : Expr)               -- the list `l` without the first item equal to `e` (`list.remove(e)`)
  | indexOf (l e : Expr)                  -- `l.index(e)`
  | sortedBy (key : Expr) (x : String) (l rev : Expr)     -- `sorted(l, key=lambda x: key, reverse=rev)`
  | typeIsS (e : Expr) (ty : String)      -- `typeIs` where `e` may also be a `str` and `ty` may also be `str`
  -- critical-path constructs (pass layer, interpreted by `Expr.evalP` only): alg/critical_path.py
  | construct (k : Nat) (args : Expr)     -- `C(args...)`, `C` a class of the program whose `__init__` is the k-th function:
                                          --   the arguments, a NEW object (no attributes), `__init__(obj, args...)`; the object
  | dictNil                               -- `{}`
  | dictSet (d k v : Expr)                -- the dict `d` after `d[k] = v` (Python's order: `v`, `d`, `k`)
  | dictHas (k d : Expr)                  -- `k in d` on a dict
  | abs (e : Expr)                        -- `abs(e)` on a number
  deriving Repr, Inhabited

inductive Stmt
  | assign (x : String) (e : Expr)                     -- `x = e`
  | aug (x : String) (op : BinOp) (e : Expr)           -- `x op= e`
  | ifElse (c : Expr) (t e : List Stmt)                -- `if c: t else: e` (`elif` = nested `ifElse` in `e`)
  | forIn (x : String) (e : Expr) (body : List Stmt)   -- `for x in e: body` (no `break`, no `else`)
  | while (c : Expr) (body : List Stmt)                -- `while c: body` (no `break`, no `else`)
  | raiseRuntime                                       -- `raise RuntimeError(...)`
  | continue
  | ret (e : Expr)                                     -- `return e`
  | pass
  -- scheduler layer (interpreted by `Stmt.execW` only; `Stmt.exec` is stuck on them)
  | forRange (x : String) (lo hi : Expr) (body : List Stmt)   -- `for x in range(lo, hi): body`
  | rowsAppend (e : Expr)                              -- `self.rows.append(e)` (inside `_ResourceUsage`)
  | resReserve (c d t u : Expr)                        -- `c.reserve(d, t, u)` on a resource: `IResource.reserve` is `pass`
  | augReserve (x : String) (op : BinOp) (r d t u : Expr)  -- `x op= resource_usage.reserve(r, d, t, u)`
  -- pass layer (interpreted by `Stmt.execP` only)
  | setAttr (o : Expr) (f : String) (e : Expr)         -- `o.f = e` on a task object
  | calcAppend (e : Expr)                              -- `calculated.append(id(e))`
  | recurse (args : Expr)                              -- `self.__m(args..., resource_usage, calculated)`: the method itself
  -- calc constructs (interpreted by `Stmt.execP` only)
  | expr (e : Expr)                                    -- an expression statement (a call made for its effect)
  | boxAppend (b e : Expr)                             -- `b.append(e)` on a list object / `b.add(e)` on a set object
  | boxPop (b : Expr)                                  -- `b.pop()` on a list object, as a statement
  | ledgerNew                                          -- `x = _ResourceUsage()`: the ledger of the run is a new, empty one
  | calcNew                                            -- `x = []` for the list that is passed on as `calculated`
  -- task constructs (interpreted by `Stmt.execP` only): the list held by an attribute of a task object, changed in place
  | attrAppend (o : Expr) (f : String) (e : Expr)      -- `o.f.append(e)`
  | attrRemove (o : Expr) (f : String) (e : Expr)      -- `o.f.remove(e)`
  | attrClear (o : Expr) (f : String)                  -- `o.f.clear()`
  -- wbs constructs (interpreted by `Stmt.execP` only)
  | tryExcept (body : List Stmt) (exc : Err) (handler : List Stmt)
                                                       -- `try: body` / `except <exc>: handler` (the body writes nothing)
  | forLive (x : String) (o : Expr) (f : String) (body : List Stmt)
                                                       -- `for x in o.f: body` over the LIVE list held by the attribute
  deriving Repr, Inhabited

/-! ### environments -/

abbrev Env := List (String × Val)

def Env.get? (env : Env) (x : String) : Option Val :=
  (env.find? (fun p => p.1 == x)).map (·.2)

def Env.set : Env → String → Val → Env
  | [], x, v => [(x, v)]
  | p :: env, x, v => if p.1 == x then (x, v) :: env else p :: Env.set env x v

/-! ### expressions -/

/-- datetime/timedelta arithmetic -/
def arithTime (op : BinOp) (a b : Atom) : Option Atom :=
  match op, a, b with
  | .add, .time x, .delta d => some (.time (x + d))
  | .add, .delta d, .time x => some (.time (x + d))
  | .sub, .time x, .delta d => some (.time (x - d))
  | .sub, .time x, .time y => some (.delta (x - y))
  | .add, .delta d, .delta e => some (.delta (d + e))
  | .sub, .delta d, .delta e => some (.delta (d - e))
  | _, _, _ => Option.none

/-- `+ - * /` on int/float/bool (`None` operand: TypeError; division by zero: ZeroDivisionError) and `+ -` on
    datetimes/timedeltas -/
def arith (op : BinOp) (a b : Val) : Res Val :=
  match a, b with
  | .atom a, .atom b =>
    if let some r := arithTime op a b then pure r
    else if (a = .none ∨ a.asNum?.isSome) ∧ (b = .none ∨ b.asNum?.isSome) then
      match a.asNum?, b.asNum? with
      | some x, some y =>
        match op with
        | .add => pure (Atom.num (x + y))
        | .sub => pure (Atom.num (x - y))
        | .mul => pure (Atom.num (x * y))
        | .div => if y = 0 then throw (.crash .zeroDivision) else pure (Atom.num (x / y))
      | _, _ => throw (.crash .type)
    else throw stuck
  | _, _ => throw stuck

def cmpRat (op : CmpOp) (x y : Rat) : Bool :=
  match op with
  | .lt => decide (x < y) | .gt => decide (y < x) | .le => decide (x ≤ y) | .ge => decide (y ≤ x)
  | .eq => decide (x = y) | .ne => !decide (x = y)

/-- comparisons: ordering needs two numbers, two datetimes or two timedeltas (`None`, or mixed kinds: TypeError);
    `==`/`!=` on scalars never raise -/
def compare (op : CmpOp) (a b : Val) : Res Val :=
  match a, b with
  | .atom a, .atom b =>
    match op with
    | .eq => pure (Atom.bool (a.pyEq b))
    | .ne => pure (Atom.bool (!a.pyEq b))
    | _ =>
      match a, b with
      | .time x, .time y => pure (Atom.bool (cmpRat op x y))
      | .delta x, .delta y => pure (Atom.bool (cmpRat op x y))
      | .ref _, _ => throw stuck
      | _, .ref _ => throw stuck
      | .str _, _ => throw stuck
      | _, .str _ => throw stuck
      | a, b =>
        match a.asNum?, b.asNum? with
        | some x, some y => pure (Atom.bool (cmpRat op x y))
        | _, _ => throw (.crash .type)
  | _, _ => throw stuck

/-- truthiness is modelled for bools only (the translator rejects anything else in boolean position) -/
def truth : Val → Res Bool
  | .atom (.bool b) => pure b
  | _ => throw stuck

/-- `sub i t` = result of `get_available_units(t)` on the object `ref i`; `self` = the object's fields -/
def Expr.eval (sub : Nat → Time → Res (Option Rat)) (self : Env) (env : Env) : Expr → Res Val
  | .none => pure Atom.none
  | .num q => pure (Atom.num q)
  | .bool b => pure (Atom.bool b)
  | .var x => match env.get? x with
    | some v => pure v
    | Option.none => throw stuck                        -- NameError / UnboundLocalError
  | .self => pure (Atom.ref 0)
  | .field f => match self.get? f with
    | some v => pure v
    | Option.none => throw (.crash .attribute)
  | .isNone e => do
    let v ← e.eval sub self env
    pure (Atom.bool (decide (v = .atom .none)))
  | .isNotNone e => do
    let v ← e.eval sub self env
    pure (Atom.bool (!decide (v = .atom .none)))
  | .cmp op a b => do
    let x ← a.eval sub self env
    let y ← b.eval sub self env
    compare op x y
  | .and a b => do                                     -- `a and b`: `a` if falsy else `b`
    let x ← a.eval sub self env
    if (← truth x) then b.eval sub self env else pure x
  | .or a b => do                                      -- `a or b`: `a` if truthy else `b`
    let x ← a.eval sub self env
    if (← truth x) then pure x else b.eval sub self env
  | .not a => do
    let x ← a.eval sub self env
    pure (Atom.bool (!(← truth x)))
  | .bin op a b => do
    let x ← a.eval sub self env
    let y ← b.eval sub self env
    arith op x y
  | .ite c a b => do
    let x ← c.eval sub self env
    if (← truth x) then a.eval sub self env else b.eval sub self env
  | .units c d => do
    let o ← c.eval sub self env
    let t ← d.eval sub self env
    match o, t with
    | .atom (.ref i), .atom (.time t) =>
      match (← sub i t) with
      | some q => pure (Atom.num q)
      | Option.none => pure Atom.none
    | .atom .none, _ => throw (.crash .attribute)
    | _, _ => throw stuck
  | .dayStart d => do
    match (← d.eval sub self env) with
    | .atom (.time t) => pure (Atom.time (midnight t))
    | .atom .none => throw (.crash .attribute)
    | _ => throw stuck
  | .timedelta d => do
    match (← d.eval sub self env) with
    | .atom .none => throw (.crash .type)
    | .atom a => match a.asNum? with
      | some q => pure (Atom.delta q)
      | Option.none => throw stuck
    | _ => throw stuck
  | .weekday d => do
    match (← d.eval sub self env) with
    | .atom (.time t) => pure (Atom.num ((Pj.weekday t : Nat) : Rat))
    | .atom .none => throw (.crash .attribute)
    | _ => throw stuck
  | .index d k => do
    let dv ← d.eval sub self env
    let kv ← k.eval sub self env
    match dv, kv with
    | .dict kvs, .atom k => match Dict.get? kvs k with
      | some v => pure v
      | Option.none => throw (.crash .key)
    | .atom .none, _ => throw (.crash .type)            -- 'NoneType' object is not subscriptable
    | _, _ => throw stuck
  | .isIn k d => do
    let kv ← k.eval sub self env
    let dv ← d.eval sub self env
    match kv, dv with
    | .atom k, .dict kvs => pure (Atom.bool (Dict.get? kvs k).isSome)
    | .atom k, .list vs => pure (Atom.bool (vs.any (fun v => v.pyEq k)))
    | .atom _, .atom .none => throw (.crash .type)      -- argument of type 'NoneType' is not iterable
    | _, _ => throw stuck
  | .min _ _ => throw stuck
  | .timedeltaHours _ => throw stuck
  | .attr _ _ => throw stuck
  | .listComp _ _ _ _ => throw stuck
  | .sum _ _ => throw stuck
  | .app _ _ _ => throw stuck
  | .rows => throw stuck
  | .mkRow _ _ _ _ => throw stuck
  | .nearest _ _ _ => throw stuck
  | .reserved _ _ _ => throw stuck
  | .datetime _ => throw stuck
  | .now => throw stuck
  | .listNil => throw stuck
  | .listCons _ _ => throw stuck
  | .len _ => throw stuck
  | .max _ _ => throw stuck
  | .max3 _ _ _ => throw stuck
  | .maxList _ => throw stuck
  | .minList _ => throw stuck
  | .isSame _ _ => throw stuck
  | .calcHas _ => throw stuck
  | .resSetdefault _ => throw stuck
  | .callSelf _ _ => throw stuck
  | .reversed _ => throw stuck
  | .idOf _ => throw stuck
  | .prim _ _ => throw stuck
  | .fnRef _ => throw stuck
  | .callVal _ _ => throw stuck
  | .newBox _ => throw stuck
  | .items _ => throw stuck
  | .listOf _ => throw stuck
  | .flatComp _ _ _ _ => throw stuck
  | .anyComp _ _ _ _ => throw stuck
  | .range3 _ _ _ => throw stuck
  | .listIndex _ _ => throw stuck
  | .typeIs _ _ => throw stuck
  | .setOf _ => throw stuck
  | .setInter _ _ => throw stuck
  | .callFn _ _ => throw stuck
  | .dictComp _ _ _ _ _ => throw stuck
  | .dictGet _ _ => throw stuck
  | .dictIndex _ _ => throw stuck
  | .dictValues _ => throw stuck
  | .nextComp _ _ _ _ => throw stuck
  | .listInsert _ _ _ => throw stuck
  | .listRemove _ _ => throw stuck
  | .indexOf _ _ => throw stuck
  | .sortedBy _ _ _ _ => throw stuck
  | .typeIsS _ _ => throw stuck
  | .construct _ _ => throw stuck
  | .dictNil => throw stuck
  | .dictSet _ _ _ => throw stuck
  | .dictHas _ _ => throw stuck
  | .abs _ => throw stuck

/-! ### statements -/

inductive Outcome
  | normal (env : Env)      -- fell through
  | cont (env : Env)        -- `continue` reached
  | ret (v : Val)           -- `return v`
  | raise (e : Err)
  deriving Repr, Inhabited

/-- `for x in vs: body` where `body` is already interpreted as a function of the environment -/
def forLoop (x : String) (body : Env → Outcome) : List Atom → Env → Outcome
  | [], env => .normal env
  | v :: vs, env =>
    match body (env.set x v) with
    | .normal env' => forLoop x body vs env'
    | .cont env' => forLoop x body vs env'
    | r => r

/-- `while cond: body`, both already interpreted as functions of the environment; at most `fuel` evaluations of
    the condition, then the run is stuck -/
def whileLoop (cond : Env → Res Bool) (body : Env → Outcome) : Nat → Env → Outcome
  | 0, _ => .raise stuck
  | fuel + 1, env =>
    match cond env with
    | .error err => .raise err
    | .ok false => .normal env
    | .ok true =>
      match body env with
      | .normal env' => whileLoop cond body fuel env'
      | .cont env' => whileLoop cond body fuel env'
      | r => r

/-- the sequence iterated by `for`: a list, or the keys of a dict; `None`: TypeError -/
def iterOf : Val → Res (List Atom)
  | .list vs => pure vs
  | .dict kvs => pure (kvs.map (·.1))
  | .atom .none => throw (.crash .type)
  | _ => throw stuck

mutual
def Stmt.exec (sub : Nat → Time → Res (Option Rat)) (self : Env) (fuel : Nat) : Stmt → Env → Outcome
  | .assign x e, env =>
    match e.eval sub self env with
    | .ok v => .normal (env.set x v)
    | .error err => .raise err
  | .aug x op e, env =>
    match env.get? x with
    | Option.none => .raise stuck
    | some old =>
      match e.eval sub self env with
      | .error err => .raise err
      | .ok v =>
        match arith op old v with
        | .ok r => .normal (env.set x r)
        | .error err => .raise err
  | .ifElse c t e, env =>
    match (do truth (← c.eval sub self env)) with
    | .ok b => if b then execBlock sub self fuel t env else execBlock sub self fuel e env
    | .error err => .raise err
  | .forIn x e body, env =>
    match (do iterOf (← e.eval sub self env)) with
    | .ok vs => forLoop x (fun env' => execBlock sub self fuel body env') vs env
    | .error err => .raise err
  | .while c body, env =>
    whileLoop (fun env' => do truth (← c.eval sub self env')) (fun env' => execBlock sub self fuel body env') fuel env
  | .raiseRuntime, _ => .raise .runtime
  | .continue, env => .cont env
  | .ret e, env =>
    match e.eval sub self env with
    | .ok v => .ret v
    | .error err => .raise err
  | .pass, env => .normal env
  | .forRange _ _ _ _, _ => .raise stuck
  | .rowsAppend _, _ => .raise stuck
  | .resReserve _ _ _ _, _ => .raise stuck
  | .augReserve _ _ _ _ _ _, _ => .raise stuck
  | .setAttr _ _ _, _ => .raise stuck
  | .calcAppend _, _ => .raise stuck
  | .recurse _, _ => .raise stuck
  | .expr _, _ => .raise stuck
  | .boxAppend _ _, _ => .raise stuck
  | .boxPop _, _ => .raise stuck
  | .ledgerNew, _ => .raise stuck
  | .calcNew, _ => .raise stuck
  | .attrAppend _ _ _, _ => .raise stuck
  | .attrRemove _ _ _, _ => .raise stuck
  | .attrClear _ _, _ => .raise stuck
  | .tryExcept _ _ _, _ => .raise stuck
  | .forLive _ _ _ _, _ => .raise stuck

def execBlock (sub : Nat → Time → Res (Option Rat)) (self : Env) (fuel : Nat) : List Stmt → Env → Outcome
  | [], env => .normal env
  | s :: ss, env =>
    match s.exec sub self fuel env with
    | .normal env' => execBlock sub self fuel ss env'
    | r => r
end

/-- run a method body with the given parameter bindings; falling off the end returns `None`.
    `fuel` bounds every `while` loop (a body without `while` needs none). -/
def runBody (sub : Nat → Time → Res (Option Rat)) (self : Env) (fuel : Nat) (body : List Stmt) (params : Env) :
    Res Val :=
  match execBlock sub self fuel body params with
  | .normal _ => pure Atom.none
  | .cont _ => pure Atom.none                           -- unreachable: `continue` only occurs inside loops
  | .ret v => pure v
  | .raise e => throw e

/-- run `def get_available_units(self, date, ...)`: the returned value must be `None` or a number -/
def run (sub : Nat → Time → Res (Option Rat)) (body : List Stmt) (self : Env) (date : Time) : Res (Option Rat) :=
  match runBody sub self 0 body [("date", .atom (.time date))] with
  | .ok (.atom .none) => pure Option.none
  | .ok (.atom (.num q)) => pure (some q)
  | .ok _ => throw stuck
  | .error e => throw e

/-! ## scheduler layer: a mutable ledger and handlers for method calls

  The inner loops of schedule.py (`ForwardScheduler` / `BackwardScheduler`.`__get_resource_nearest_available_date`,
  `__shift_by_resource_usage_and_calendar`) and the three methods of `_ResourceUsage` are interpreted by a second
  evaluator over the same syntax.  It covers every construct of the first one and adds:

  * a *ledger* `L : List LRow` — the state of the one `_ResourceUsage` object of a run (`self.rows` inside the class,
    the parameter `resource_usage` inside the schedulers).  Expressions only read it; it is changed by the statements
    `rowsAppend` and `augReserve`.  Rows are typed: resource and task are object references, the date is a datetime,
    the units a number — anything else leaves the fragment (`stuck`);
  * *handlers* for the method calls that leave the translated method: on a resource object `ref i`
    (`get_available_units`, `get_nearest_availability_date` with its default `max_days`) and on the ledger object
    (`reserved`, `reserve`).  Lemmas/ScheduleSrc.lean instantiates them with the interpretation of the translated
    source of those methods.
-/

structure LRow where
  res : Nat
  date : Time
  task : Nat
  units : Rat
  deriving DecidableEq, Repr, Inhabited

def LRow.toAtom (x : LRow) : Atom := .row x.res x.date x.task x.units

structure Handlers where
  /-- `ref i`.get_available_units(t[, task]) -/
  units : Nat → Time → Res (Option Rat)
  /-- `ref i`.get_nearest_availability_date(t, dir) -/
  nearest : Nat → Time → Int → Res Time
  /-- `resource_usage.reserved(resource, date, task)` on the ledger -/
  reserved : List LRow → Val → Val → Val → Res Val
  /-- `resource_usage.reserve(resource, date, task, units)` on the ledger: result and new ledger -/
  reserve : List LRow → Val → Val → Val → Val → Res (Val × List LRow)

/-- an `int` -/
def Atom.asInt? : Atom → Option Int
  | .num q => if q.den = 1 then some q.num else Option.none
  | _ => Option.none

/-- `[elt for x in vs if cond]` where `f v` = `some elt` / `none` (filtered out) for the item `v` -/
def compLoop (f : Atom → Res (Option Atom)) : List Atom → Res (List Atom)
  | [] => pure []
  | v :: vs => do
    let o ← f v
    let rest ← compLoop f vs
    pure (match o with | some a => a :: rest | Option.none => rest)

/-- `sum(vs, acc)` -/
def sumLoop : Val → List Atom → Res Val
  | acc, [] => pure acc
  | acc, v :: vs => do
    let acc' ← arith .add acc (.atom v)
    sumLoop acc' vs

/-- attribute of a `ResourceUsageRow` (a frozen dataclass with exactly these fields) -/
def rowAttr (r : Nat) (d : Time) (t : Nat) (u : Rat) (f : String) : Res Val :=
  if f = "resource" then pure (Atom.ref r)
  else if f = "date" then pure (Atom.time d)
  else if f = "task" then pure (Atom.ref t)
  else if f = "units" then pure (Atom.num u)
  else throw (.crash .attribute)

def Expr.evalW (H : Handlers) (self : Env) (L : List LRow) (env : Env) : Expr → Res Val
  | .none => pure Atom.none
  | .num q => pure (Atom.num q)
  | .bool b => pure (Atom.bool b)
  | .var x => match env.get? x with
    | some v => pure v
    | Option.none => throw stuck
  | .self => pure (Atom.ref 0)
  | .field f => match self.get? f with
    | some v => pure v
    | Option.none => throw (.crash .attribute)
  | .isNone e => do
    let v ← e.evalW H self L env
    pure (Atom.bool (decide (v = .atom .none)))
  | .isNotNone e => do
    let v ← e.evalW H self L env
    pure (Atom.bool (!decide (v = .atom .none)))
  | .cmp op a b => do
    let x ← a.evalW H self L env
    let y ← b.evalW H self L env
    compare op x y
  | .and a b => do
    let x ← a.evalW H self L env
    if (← truth x) then b.evalW H self L env else pure x
  | .or a b => do
    let x ← a.evalW H self L env
    if (← truth x) then pure x else b.evalW H self L env
  | .not a => do
    let x ← a.evalW H self L env
    pure (Atom.bool (!(← truth x)))
  | .bin op a b => do
    let x ← a.evalW H self L env
    let y ← b.evalW H self L env
    arith op x y
  | .ite c a b => do
    let x ← c.evalW H self L env
    if (← truth x) then a.evalW H self L env else b.evalW H self L env
  | .units c d => do
    let o ← c.evalW H self L env
    let t ← d.evalW H self L env
    match o, t with
    | .atom (.ref i), .atom (.time t) =>
      match (← H.units i t) with
      | some q => pure (Atom.num q)
      | Option.none => pure Atom.none
    | .atom .none, _ => throw (.crash .attribute)
    | _, _ => throw stuck
  | .dayStart d => do
    match (← d.evalW H self L env) with
    | .atom (.time t) => pure (Atom.time (midnight t))
    | .atom .none => throw (.crash .attribute)
    | _ => throw stuck
  | .timedelta d => do
    match (← d.evalW H self L env) with
    | .atom .none => throw (.crash .type)
    | .atom a => match a.asNum? with
      | some q => pure (Atom.delta q)
      | Option.none => throw stuck
    | _ => throw stuck
  | .weekday d => do
    match (← d.evalW H self L env) with
    | .atom (.time t) => pure (Atom.num ((Pj.weekday t : Nat) : Rat))
    | .atom .none => throw (.crash .attribute)
    | _ => throw stuck
  | .index d k => do
    let dv ← d.evalW H self L env
    let kv ← k.evalW H self L env
    match dv, kv with
    | .dict kvs, .atom k => match Dict.get? kvs k with
      | some v => pure v
      | Option.none => throw (.crash .key)
    | .atom .none, _ => throw (.crash .type)
    | _, _ => throw stuck
  | .isIn k d => do
    let kv ← k.evalW H self L env
    let dv ← d.evalW H self L env
    match kv, dv with
    | .atom k, .dict kvs => pure (Atom.bool (Dict.get? kvs k).isSome)
    | .atom k, .list vs => pure (Atom.bool (vs.any (fun v => v.pyEq k)))
    | .atom _, .atom .none => throw (.crash .type)
    | _, _ => throw stuck
  | .min a b => do                                      -- `min(a, b)`: `b` if `b < a` else `a`; numbers only
    let x ← a.evalW H self L env
    let y ← b.evalW H self L env
    match x, y with
    | .atom p, .atom q =>
      match p.asNum?, q.asNum? with
      | some u, some v => pure (if v < u then y else x)
      | _, _ => throw stuck
    | _, _ => throw stuck
  | .timedeltaHours h => do
    match (← h.evalW H self L env) with
    | .atom .none => throw (.crash .type)
    | .atom a => match a.asNum? with
      | some q => pure (Atom.delta (q / 24))
      | Option.none => throw stuck
    | _ => throw stuck
  | .attr e f => do
    match (← e.evalW H self L env) with
    | .atom (.row r d t u) => rowAttr r d t u f
    | .atom .none => throw (.crash .attribute)
    | _ => throw stuck
  | .listComp elt x it cond => do                       -- `x` is local to the comprehension
    let vs ← iterOf (← it.evalW H self L env)
    let out ← compLoop (fun v => do
      let c ← cond.evalW H self L (env.set x v)
      if (← truth c) then
        match (← elt.evalW H self L (env.set x v)) with
        | .atom a => pure (some a)
        | _ => throw stuck
      else pure Option.none) vs
    pure (Val.list out)
  | .sum l start => do
    let lv ← l.evalW H self L env
    let s ← start.evalW H self L env
    match lv with
    | .list vs => sumLoop s vs
    | _ => throw stuck
  | .app param body arg => do                           -- a fresh scope holding the parameter only
    let v ← arg.evalW H self L env
    body.evalW H self L [(param, v)]
  | .rows => pure (Val.list (L.map LRow.toAtom))
  | .mkRow r d t u => do
    let rv ← r.evalW H self L env
    let dv ← d.evalW H self L env
    let tv ← t.evalW H self L env
    let uv ← u.evalW H self L env
    match rv, dv, tv, uv with
    | .atom (.ref r), .atom (.time d), .atom (.ref t), .atom (.num u) => pure (Atom.row r d t u)
    | _, _, _, _ => throw stuck
  | .nearest c d dir => do
    let o ← c.evalW H self L env
    let t ← d.evalW H self L env
    let k ← dir.evalW H self L env
    match o, t, k with
    | .atom (.ref i), .atom (.time t), .atom k =>
      match k.asInt? with
      | some dir => do
        let r ← H.nearest i t dir
        pure (Atom.time r)
      | Option.none => throw stuck
    | .atom .none, _, _ => throw (.crash .attribute)
    | _, _, _ => throw stuck
  | .reserved r d t => do
    let rv ← r.evalW H self L env
    let dv ← d.evalW H self L env
    let tv ← t.evalW H self L env
    H.reserved L rv dv tv
  | .datetime _ => throw stuck
  | .now => throw stuck
  | .listNil => throw stuck
  | .listCons _ _ => throw stuck
  | .len _ => throw stuck
  | .max _ _ => throw stuck
  | .max3 _ _ _ => throw stuck
  | .maxList _ => throw stuck
  | .minList _ => throw stuck
  | .isSame _ _ => throw stuck
  | .calcHas _ => throw stuck
  | .resSetdefault _ => throw stuck
  | .callSelf _ _ => throw stuck
  | .reversed _ => throw stuck
  | .idOf _ => throw stuck
  | .prim _ _ => throw stuck
  | .fnRef _ => throw stuck
  | .callVal _ _ => throw stuck
  | .newBox _ => throw stuck
  | .items _ => throw stuck
  | .listOf _ => throw stuck
  | .flatComp _ _ _ _ => throw stuck
  | .anyComp _ _ _ _ => throw stuck
  | .range3 _ _ _ => throw stuck
  | .listIndex _ _ => throw stuck
  | .typeIs _ _ => throw stuck
  | .setOf _ => throw stuck
  | .setInter _ _ => throw stuck
  | .callFn _ _ => throw stuck
  | .dictComp _ _ _ _ _ => throw stuck
  | .dictGet _ _ => throw stuck
  | .dictIndex _ _ => throw stuck
  | .dictValues _ => throw stuck
  | .nextComp _ _ _ _ => throw stuck
  | .listInsert _ _ _ => throw stuck
  | .listRemove _ _ => throw stuck
  | .indexOf _ _ => throw stuck
  | .sortedBy _ _ _ _ => throw stuck
  | .typeIsS _ _ => throw stuck
  | .construct _ _ => throw stuck
  | .dictNil => throw stuck
  | .dictSet _ _ _ => throw stuck
  | .dictHas _ _ => throw stuck
  | .abs _ => throw stuck

inductive OutcomeW
  | normal (env : Env) (L : List LRow)
  | cont (env : Env) (L : List LRow)
  | ret (v : Val) (L : List LRow)
  | raise (e : Err)
  deriving Repr, Inhabited

def forLoopW (x : String) (body : Env → List LRow → OutcomeW) : List Atom → Env → List LRow → OutcomeW
  | [], env, L => .normal env L
  | v :: vs, env, L =>
    match body (env.set x v) L with
    | .normal env' L' => forLoopW x body vs env' L'
    | .cont env' L' => forLoopW x body vs env' L'
    | r => r

/-- `for x in range(i, i + n): body` -/
def rangeLoopW (x : String) (body : Env → List LRow → OutcomeW) : Nat → Int → Env → List LRow → OutcomeW
  | 0, _, env, L => .normal env L
  | n + 1, i, env, L =>
    match body (env.set x (.atom (.num (i : Rat)))) L with
    | .normal env' L' => rangeLoopW x body n (i + 1) env' L'
    | .cont env' L' => rangeLoopW x body n (i + 1) env' L'
    | r => r

def whileLoopW (cond : Env → List LRow → Res Bool) (body : Env → List LRow → OutcomeW) :
    Nat → Env → List LRow → OutcomeW
  | 0, _, _ => .raise stuck
  | fuel + 1, env, L =>
    match cond env L with
    | .error err => .raise err
    | .ok false => .normal env L
    | .ok true =>
      match body env L with
      | .normal env' L' => whileLoopW cond body fuel env' L'
      | .cont env' L' => whileLoopW cond body fuel env' L'
      | r => r

/-- the bounds of `range(lo, hi)`: two `int`s -/
def rangeOf (lo hi : Val) : Res (Int × Nat) :=
  match lo, hi with
  | .atom a, .atom b =>
    match a.asInt?, b.asInt? with
    | some i, some j => pure (i, (j - i).toNat)
    | _, _ => throw stuck
  | _, _ => throw stuck

mutual
def Stmt.execW (H : Handlers) (self : Env) (fuel : Nat) : Stmt → Env → List LRow → OutcomeW
  | .assign x e, env, L =>
    match e.evalW H self L env with
    | .ok v => .normal (env.set x v) L
    | .error err => .raise err
  | .aug x op e, env, L =>
    match env.get? x with
    | Option.none => .raise stuck
    | some old =>
      match e.evalW H self L env with
      | .error err => .raise err
      | .ok v =>
        match arith op old v with
        | .ok r => .normal (env.set x r) L
        | .error err => .raise err
  | .ifElse c t e, env, L =>
    match (do truth (← c.evalW H self L env)) with
    | .ok b => if b then execBlockW H self fuel t env L else execBlockW H self fuel e env L
    | .error err => .raise err
  | .forIn x e body, env, L =>
    match (do iterOf (← e.evalW H self L env)) with
    | .ok vs => forLoopW x (fun env' L' => execBlockW H self fuel body env' L') vs env L
    | .error err => .raise err
  | .while c body, env, L =>
    whileLoopW (fun env' L' => do truth (← c.evalW H self L' env'))
      (fun env' L' => execBlockW H self fuel body env' L') fuel env L
  | .raiseRuntime, _, _ => .raise .runtime
  | .continue, env, L => .cont env L
  | .ret e, env, L =>
    match e.evalW H self L env with
    | .ok v => .ret v L
    | .error err => .raise err
  | .pass, env, L => .normal env L
  | .forRange x lo hi body, env, L =>
    match (do rangeOf (← lo.evalW H self L env) (← hi.evalW H self L env)) with
    | .ok (i, n) => rangeLoopW x (fun env' L' => execBlockW H self fuel body env' L') n i env L
    | .error err => .raise err
  | .rowsAppend e, env, L =>
    match e.evalW H self L env with
    | .ok (.atom (.row r d t u)) => .normal env (L ++ [⟨r, d, t, u⟩])
    | .ok _ => .raise stuck
    | .error err => .raise err
  | .resReserve c d t u, env, L =>
    match (do
      let o ← c.evalW H self L env
      let _ ← d.evalW H self L env
      let _ ← t.evalW H self L env
      let _ ← u.evalW H self L env
      pure o) with
    | .ok (.atom (.ref _)) => .normal env L
    | .ok (.atom .none) => .raise (.crash .attribute)
    | .ok _ => .raise stuck
    | .error err => .raise err
  | .augReserve x op r d t u, env, L =>
    match env.get? x with
    | Option.none => .raise stuck
    | some old =>
      match (do
        let rv ← r.evalW H self L env
        let dv ← d.evalW H self L env
        let tv ← t.evalW H self L env
        let uv ← u.evalW H self L env
        H.reserve L rv dv tv uv) with
      | .error err => .raise err
      | .ok (v, L') =>
        match arith op old v with
        | .ok res => .normal (env.set x res) L'
        | .error err => .raise err
  | .setAttr _ _ _, _, _ => .raise stuck
  | .calcAppend _, _, _ => .raise stuck
  | .recurse _, _, _ => .raise stuck
  | .expr _, _, _ => .raise stuck
  | .boxAppend _ _, _, _ => .raise stuck
  | .boxPop _, _, _ => .raise stuck
  | .ledgerNew, _, _ => .raise stuck
  | .calcNew, _, _ => .raise stuck
  | .attrAppend _ _ _, _, _ => .raise stuck
  | .attrRemove _ _ _, _, _ => .raise stuck
  | .attrClear _ _, _, _ => .raise stuck
  | .tryExcept _ _ _, _, _ => .raise stuck
  | .forLive _ _ _ _, _, _ => .raise stuck

def execBlockW (H : Handlers) (self : Env) (fuel : Nat) : List Stmt → Env → List LRow → OutcomeW
  | [], env, L => .normal env L
  | s :: ss, env, L =>
    match s.execW H self fuel env L with
    | .normal env' L' => execBlockW H self fuel ss env' L'
    | r => r
end

/-- run a method body on the ledger `L` with the given parameter bindings: result and final ledger -/
def runW (H : Handlers) (self : Env) (fuel : Nat) (body : List Stmt) (params : Env) (L : List LRow) :
    Res (Val × List LRow) :=
  match execBlockW H self fuel body params L with
  | .normal _ L' => pure (Atom.none, L')
  | .cont _ L' => pure (Atom.none, L')
  | .ret v L' => pure (v, L')
  | .raise e => throw e

/-! ## pass layer: task objects, `calculated`, the resource table, the clock, calls of `self`

  The recursive passes of schedule.py (`ForwardScheduler.__forward_pass`, `BackwardScheduler.__backward_pass`) are
  interpreted by a third evaluator over the same syntax.  Besides the ledger it threads (`PState`):

  * `heap` — the attributes of the task objects: `ref i`.`f` reads `heap i` (`attr`; a missing attribute is
    AttributeError), `o.f = e` (`setAttr`) writes it.  Attributes are plain slots: the property setters of
    task.py (`estimate`, `spent` raise RuntimeError on negative values) are NOT modelled;
  * `done` — the list `calculated` of object identities; the parameter may only occur as `id(x) in calculated`
    (`calcHas`) and `calculated.append(id(x))` (`calcAppend`);
  * `res` — the dict `self.__resources` (name ↦ resource object), only used through
    `self.__resources.setdefault(k, Resource(k))` (`resSetdefault`): `Resource(k)` is evaluated first (handler
    `newResource`: the reference of the object it constructs) and stored when `k` is missing;
  * `reads` — the number of `datetime.now()` calls so far; the k-th call returns `clock k`.

  Expressions may change this state (`now`, `resSetdefault`, `callSelf`), so `Expr.evalP` returns the new state.
  `callSelf m args` leaves the method: handler `call` (it sees and changes the ledger only).  `recurse args` calls the
  method being interpreted: `callP` binds the positional arguments and runs the body with one unit of fuel less; at
  fuel 0 the run ends with RecursionError (`.crash .recursion`) — Python's recursion limit.
  Truthiness (`truthP`) covers `bool`, `None`, numbers and datetimes (always true).  Of the constructs of the other
  two layers the pass layer also interprets `min(a, b)` (here on numbers or datetimes, through `pyMin`) and
  `timedelta(days=e)`; `reversed(l)` yields the items of a list last first (the translator only accepts it as the
  iterable of a `for`, where Python's reverse iterator over an unmodified list yields exactly these).  `while`,
  `for … in range`, the ledger-class constructs and the other calendar constructs are `stuck` here.

  Calc constructs (the pre-checks and `calc` of schedule.py; `stuck` in the first two evaluators):

  * `boxes` — the mutable containers.  A `list` / `set` object that the program mutates or shares between the
    activations of a function is a BOX: `newBox l` appends a new box holding the items of `l` to the store and
    yields the reference `box i`; `items b` reads a box (a snapshot, as a list value); `boxAppend` (`b.append(x)`,
    `s.add(x)`) and `boxPop` (`b.pop()`) change it.  References are atoms, so they are passed to (recursive) calls
    like any other argument and aliasing is what it is in Python.  A box never holds a box (`boxAppend` of a box
    reference is stuck).  A SET box is represented by the list of the items added, WITH repetitions: the translator
    only accepts `x in s`, `x not in s` and `s.add(x)` on a set, for which this representation is faithful.
    All other lists are immutable values (`Val.list`), as before: no construct changes them.
  * function values — `fnRef k` is the k-th entry of the function table of the run (a module-level function, a
    method, or a closed `lambda` the translator lifted), the atom `fn k`; `callVal f args` evaluates `f`, then the
    arguments, and leaves the function: handler `fn k args st` (result and new state).  Lemmas/CalcSrc.lean
    instantiates the handler level by level with the interpretation (`callP`) of the translated source of the
    callee.  The function being interpreted calls itself with `recurse`, as in the pass layer.
  * `prim name args` — a library attribute / method that is not defined in schedule.py (`wbs.tasks`, `wbs.roots`,
    `wbs.clone()`, `task.all_children`, `task.all_parents`): handler `prim` (read-only); Lemmas/CalcSrc.lean gives
    them the meaning the model gives them.
  * `idOf e` = `id(e)` of a task object `ref i`: the `int` `i`.  `listOf e` = `list(e)`.  `flatComp` / `anyComp`:
    a comprehension with several `for` clauses / `any(<generator>)` (which stops at the first truthy element).
    `range3` = the items of `range(lo, hi, step)` (`rangeList`; a zero step: ValueError), `listIndex` = `l[i]` on a
    list with Python's negative indices (IndexError outside the range).
  * `expr e` — an expression statement.  `ledgerNew` / `calcNew`: `x = _ResourceUsage()` / `x = []` for the two
    objects that are interpreter state in this layer (the ledger `L`, the list `calculated` = `done`): the state is
    reset; the translator makes sure that these are the objects passed to the pass.

  Task constructs (the relation setters of task.py and their helpers; `stuck` in the first two evaluators):

  * list-valued attributes.  The private lists of a task object (`__children`, `__predecessors`, `__successors`) are
    attributes holding a list VALUE; `attrAppend` / `attrRemove` / `attrClear` (`o.f.append(x)`, `o.f.remove(x)`,
    `o.f.clear()`) replace the value of the attribute.  This is what Python's in-place operations do as long as no
    other reference to the list object is used while it changes - every such attribute of task.py holds its own list
    object, and the translator rejects a `for` over an attribute whose body (or a function it calls) changes an
    attribute of that name.  `list.remove` of a missing item: ValueError.
  * `typeIs e ty` - `type(e) is ty` / `isinstance(e, Iterable)` - on `None`, a task object or a list; `setOf l` -
    `set(l)` as a value, the first occurrences of the items (only `len`, `in` and `intersection` are applied to it,
    for which the order is irrelevant); `setInter a b`.
  * `truthP` of an object reference is `True` (`Task` defines neither `__bool__` nor `__len__`).
  * `callFn k args` - the call of the k-th function of a PROGRAM; the arguments (`evalArgsP`: the items of the
    argument list `listCons a (listCons b … listNil)`, left to right) are values - lists too, unlike the arguments of
    `callVal` / `callSelf` / `recurse`, which are scalars - and the call is the handler `fnV`.
  * `progH prim tbl fuel` - handlers for a PROGRAM `tbl` (function number ↦ parameters and body): `callFn k args`
    runs the body of the k-th function (`callPV`) with the handlers `progH prim tbl (fuel - 1)`; at fuel 0 the call
    ends with RecursionError.  The fuel thus bounds the DEPTH of nested calls, as Python's recursion limit does;
    functions call themselves through the table like any other function (`recurse` is not used).
-/

structure PState where
  L : List LRow
  heap : Nat → Env
  done : List Nat
  res : List (Atom × Nat)
  reads : Nat
  /-- the mutable containers (calc constructs): `box i` is the i-th entry -/
  boxes : List (List Atom) := []

/-- `ref i`.`f` = `v` -/
def heapSet (h : Nat → Env) (i : Nat) (f : String) (v : Val) : Nat → Env :=
  fun j => if j = i then (h i).set f v else h j

structure PHandlers where
  /-- value of the k-th `datetime.now()` -/
  clock : Nat → Time
  /-- `self.__m(args)` on the ledger: result and new ledger -/
  call : String → List Atom → List LRow → Res (Val × List LRow)
  /-- the object `Resource(name)` constructs -/
  newResource : Atom → Res Nat
  /-- calc constructs: a library attribute / call (`prim name args`), read-only -/
  prim : String → List Atom → PState → Res Val := fun _ _ _ => throw stuck
  /-- calc constructs: the call of the function value `fn k` -/
  fn : Nat → List Atom → PState → Res (Val × PState) := fun _ _ _ => throw stuck
  /-- task constructs: the call of the k-th function of the program, the arguments being values -/
  fnV : Nat → List Val → PState → Res (Val × PState) := fun _ _ _ => throw stuck

/-- the name of a resource: `None` or a `str` -/
def Atom.isName : Atom → Bool
  | .none => true
  | .str _ => true
  | _ => false

def truthP : Val → Res Bool
  | .atom (.bool b) => pure b
  | .atom .none => pure false
  | .atom (.num q) => pure (!decide (q = 0))
  | .atom (.time _) => pure true
  | .atom (.ref _) => pure true       -- an object whose class defines neither `__bool__` nor `__len__` (task constructs)
  | _ => throw stuck

/-- one step of `max`: `b if b > a else a` -/
def pyMax (a b : Val) : Res Val := do
  match (← compare .gt b a) with
  | .atom (.bool true) => pure b
  | _ => pure a

/-- one step of `min`: `b if b < a else a` -/
def pyMin (a b : Val) : Res Val := do
  match (← compare .lt b a) with
  | .atom (.bool true) => pure b
  | _ => pure a

/-- `max(l)` / `min(l)` after the first item -/
def foldLoop (step : Val → Val → Res Val) : Val → List Atom → Res Val
  | m, [] => pure m
  | m, v :: vs => do
    let m' ← step m (.atom v)
    foldLoop step m' vs

/-- `max(l)` / `min(l)`: ValueError on an empty list -/
def foldList (step : Val → Val → Res Val) : Val → Res Val
  | .list [] => throw (.crash .value)
  | .list (v :: vs) => foldLoop step (.atom v) vs
  | .atom .none => throw (.crash .type)
  | _ => throw stuck

/-- `+` also concatenates two lists -/
def arithP (op : BinOp) (a b : Val) : Res Val :=
  match op, a, b with
  | .add, .list xs, .list ys => pure (.list (xs ++ ys))
  | _, _, _ => arith op a b

/-- `[elt for x in vs if cond]`, threading the state -/
def compLoopP (f : Atom → PState → Res (Option Atom × PState)) : List Atom → PState → Res (List Atom × PState)
  | [], st => pure ([], st)
  | v :: vs, st => do
    let (o, st) ← f v st
    let (rest, st) ← compLoopP f vs st
    pure (match o with | some a => a :: rest | Option.none => rest, st)

/-- `[y for x in vs if cond for …]`: the inner lists joined, threading the state -/
def flatLoopP (f : Atom → PState → Res (List Atom × PState)) : List Atom → PState → Res (List Atom × PState)
  | [], st => pure ([], st)
  | v :: vs, st => do
    let (o, st) ← f v st
    let (rest, st) ← flatLoopP f vs st
    pure (o ++ rest, st)

/-- `any(elt for x in vs if cond)`: stops at the first truthy element -/
def anyLoopP (f : Atom → PState → Res (Bool × PState)) : List Atom → PState → Res (Bool × PState)
  | [], st => pure (false, st)
  | v :: vs, st => do
    let (b, st) ← f v st
    if b then pure (true, st) else anyLoopP f vs st

def Atom.isBox : Atom → Bool
  | .box _ => true
  | _ => false

/-- the items of `range(lo, hi, step)`, `step ≠ 0` (Python: `max(0, (hi - lo + step - 1) // step)` items for a
    positive step, `max(0, (lo - hi - step - 1) // (-step))` for a negative one) -/
def rangeList (lo hi step : Int) : List Int :=
  if 0 < step then (List.range ((hi - lo + step - 1) / step).toNat).map (fun (i : Nat) => lo + (i : Int) * step)
  else (List.range ((lo - hi - step - 1) / (-step)).toNat).map (fun (i : Nat) => lo + (i : Int) * step)

/-- `set(l)` as a value: the first occurrences of the items of `l` (Python `==` on scalars) -/
def pyDedup (vs : List Atom) : List Atom := vs.eraseDupsBy (fun a b => a.pyEq b)

/-- `l.remove(a)`: without the first item equal to `a`; `none` when there is no such item (ValueError) -/
def pyErase : List Atom → Atom → Option (List Atom)
  | [], _ => Option.none
  | x :: xs, a => if x.pyEq a then some xs else (pyErase xs a).map (fun r => x :: r)

/-- `type(v) is <ty>` (ty = Task / list / tuple / set) and `isinstance(v, Iterable)` (ty = Iterable) for `v` = None,
    a task object (every object of the store is an instance of `Task` itself) or a `list` -/
def pyTypeIs (v : Val) (ty : String) : Res Bool :=
  if ty = "Task" ∨ ty = "list" ∨ ty = "tuple" ∨ ty = "set" ∨ ty = "Iterable" then
    match v with
    | .atom .none => pure false
    | .atom (.ref _) => pure (decide (ty = "Task"))
    | .list _ => pure (decide (ty = "list" ∨ ty = "Iterable"))
    | _ => throw stuck
  else throw stuck

/-! #### facade constructs: helpers (`listInsert`, `indexOf`, `sortedBy`, `typeIsS`; see the section
    "facade constructs" at the end of the file) -/

/-- Python `list.insert(i, x)`: negative indexes count from the end, out-of-range indexes are clamped -/
def pyInsertA (l : List Atom) (i : Int) (x : Atom) : List Atom :=
  let len : Int := l.length
  let j : Int := if i < 0 then (if i + len < 0 then 0 else i + len) else (if i > len then len else i)
  l.take j.toNat ++ [x] ++ l.drop j.toNat

/-- `l.index(a)`: the position of the first item equal to `a`; `none` when there is no such item (ValueError) -/
def pyIndexOf : List Atom → Atom → Option Nat
  | [], _ => Option.none
  | x :: xs, a => if x.pyEq a then some 0 else (pyIndexOf xs a).map (· + 1)

/-- `a <= b` on sort keys: two numbers (bools included), two datetimes, or two `str`s - abstract strings are numbered
    in lexicographic order, so the order of two strings is the order of their numbers; `none`: not comparable -/
def keyLe (a b : Atom) : Option Bool :=
  match a, b with
  | .str i, .str j => some (decide (i ≤ j))
  | .time x, .time y => some (decide (x ≤ y))
  | a, b =>
    match a.asNum?, b.asNum? with
    | some x, some y => some (decide (x ≤ y))
    | _, _ => Option.none

/-- insert `a` into a list sorted by `le`, before the first item that is not smaller -/
def insLe {α : Type} (le : α → α → Bool) (a : α) : List α → List α
  | [] => [a]
  | b :: l => if le a b then a :: b :: l else b :: insLe le a l

/-- stable sorting by insertion, last item first: items that `le` does not distinguish keep their order -/
def insSort {α : Type} (le : α → α → Bool) : List α → List α
  | [] => []
  | a :: l => insLe le a (insSort le l)

/-- `sorted(items, key=…, reverse=rev)` on (item, key) pairs: the keys must be pairwise comparable (otherwise the
    run leaves the fragment); stable, and with `reverse` the items with equal keys keep their order too -/
def pySorted (rev : Bool) (items : List (Atom × Atom)) : Res (List Atom) :=
  if items.all (fun p => items.all (fun q => (keyLe p.2 q.2).isSome)) then
    pure ((insSort (fun p q => if rev then keyLe q.2 p.2 == some true else keyLe p.2 q.2 == some true) items).map (·.1))
  else throw stuck

/-- `pyTypeIs` where the value may also be a `str` and the type may also be `str` -/
def pyTypeIsS (v : Val) (ty : String) : Res Bool :=
  if ty = "str" then
    match v with
    | .atom (.str _) => pure true
    | .atom .none => pure false
    | .atom (.ref _) => pure false
    | .list _ => pure false
    | _ => throw stuck
  else
    match v with
    | .atom (.str _) =>
      if ty = "Task" ∨ ty = "list" ∨ ty = "tuple" ∨ ty = "set" then pure false
      else if ty = "Iterable" then pure true
      else throw stuck
    | _ => pyTypeIs v ty

/-- `{k: v for x in vs if cond}`: the pairs in order, threading the state (wbs constructs) -/
def pairLoopP (f : Atom → PState → Res (Option (Atom × Atom) × PState)) :
    List Atom → PState → Res (List (Atom × Atom) × PState)
  | [], st => pure ([], st)
  | v :: vs, st => do
    let (o, st) ← f v st
    let (rest, st) ← pairLoopP f vs st
    pure (match o with | some a => a :: rest | Option.none => rest, st)

/-- `next(elt for x in vs if cond)`: stops at the first element; `none` when there is none (wbs constructs) -/
def nextLoopP (f : Atom → PState → Res (Option Atom × PState)) : List Atom → PState → Res (Option Atom × PState)
  | [], st => pure (Option.none, st)
  | v :: vs, st => do
    let (o, st) ← f v st
    match o with
    | some a => pure (some a, st)
    | Option.none => nextLoopP f vs st

mutual
def Expr.evalP (H : PHandlers) (self : Env) (env : Env) : Expr → PState → Res (Val × PState)
  | .none, st => pure (Atom.none, st)
  | .num q, st => pure (Atom.num q, st)
  | .bool b, st => pure (Atom.bool b, st)
  | .var x, st => match env.get? x with
    | some v => pure (v, st)
    | Option.none => throw stuck
  | .field f, st => match self.get? f with
    | some v => pure (v, st)
    | Option.none => throw (.crash .attribute)
  | .isNone e, st => do
    let (v, st) ← e.evalP H self env st
    pure (Atom.bool (decide (v = .atom .none)), st)
  | .isNotNone e, st => do
    let (v, st) ← e.evalP H self env st
    pure (Atom.bool (!decide (v = .atom .none)), st)
  | .cmp op a b, st => do
    let (x, st) ← a.evalP H self env st
    let (y, st) ← b.evalP H self env st
    let r ← compare op x y
    pure (r, st)
  | .and a b, st => do
    let (x, st) ← a.evalP H self env st
    if (← truthP x) then b.evalP H self env st else pure (x, st)
  | .or a b, st => do
    let (x, st) ← a.evalP H self env st
    if (← truthP x) then pure (x, st) else b.evalP H self env st
  | .not a, st => do
    let (x, st) ← a.evalP H self env st
    pure (Atom.bool (!(← truthP x)), st)
  | .bin op a b, st => do
    let (x, st) ← a.evalP H self env st
    let (y, st) ← b.evalP H self env st
    let r ← arithP op x y
    pure (r, st)
  | .ite c a b, st => do
    let (x, st) ← c.evalP H self env st
    if (← truthP x) then a.evalP H self env st else b.evalP H self env st
  | .isIn k d, st => do
    let (kv, st) ← k.evalP H self env st
    let (dv, st) ← d.evalP H self env st
    match kv, dv with
    | .atom k, .list vs => pure (Atom.bool (vs.any (fun v => v.pyEq k)), st)
    | .atom _, .atom .none => throw (.crash .type)
    | _, _ => throw stuck
  | .attr e f, st => do
    let (o, st) ← e.evalP H self env st
    match o with
    | .atom (.ref i) => match (st.heap i).get? f with
      | some v => pure (v, st)
      | Option.none => throw (.crash .attribute)
    | .atom (.row r d t u) => do
      let v ← rowAttr r d t u f
      pure (v, st)
    | .atom .none => throw (.crash .attribute)
    | _ => throw stuck
  | .listComp elt x it cond, st => do                   -- `x` is local to the comprehension
    let (itv, st) ← it.evalP H self env st
    let vs ← iterOf itv
    let (out, st) ← compLoopP (fun v st => do
      let (c, st) ← cond.evalP H self (env.set x v) st
      if (← truthP c) then
        match (← elt.evalP H self (env.set x v) st) with
        | (.atom a, st) => pure (some a, st)
        | _ => throw stuck
      else pure (Option.none, st)) vs st
    pure (Val.list out, st)
  | .sum l start, st => do
    let (lv, st) ← l.evalP H self env st
    let (s, st) ← start.evalP H self env st
    match lv with
    | .list vs => do
      let r ← sumLoop s vs
      pure (r, st)
    | _ => throw stuck
  | .datetime t, st => pure (Atom.time t, st)
  | .now, st => pure (Atom.time (H.clock st.reads), { st with reads := st.reads + 1 })
  | .listNil, st => pure (Val.list [], st)
  | .listCons a l, st => do
    let (x, st) ← a.evalP H self env st
    let (xs, st) ← l.evalP H self env st
    match x, xs with
    | .atom x, .list xs => pure (Val.list (x :: xs), st)
    | _, _ => throw stuck
  | .len l, st => do
    let (lv, st) ← l.evalP H self env st
    match lv with
    | .list vs => pure (Atom.num ((vs.length : Nat) : Rat), st)
    | .atom .none => throw (.crash .type)
    | _ => throw stuck
  | .max a b, st => do
    let (x, st) ← a.evalP H self env st
    let (y, st) ← b.evalP H self env st
    let r ← pyMax x y
    pure (r, st)
  | .max3 a b c, st => do
    let (x, st) ← a.evalP H self env st
    let (y, st) ← b.evalP H self env st
    let (z, st) ← c.evalP H self env st
    let r ← pyMax x y
    let r ← pyMax r z
    pure (r, st)
  | .maxList l, st => do
    let (lv, st) ← l.evalP H self env st
    let r ← foldList pyMax lv
    pure (r, st)
  | .minList l, st => do
    let (lv, st) ← l.evalP H self env st
    let r ← foldList pyMin lv
    pure (r, st)
  | .isSame a b, st => do
    let (x, st) ← a.evalP H self env st
    let (y, st) ← b.evalP H self env st
    match x, y with
    | .atom (.ref i), .atom (.ref j) => pure (Atom.bool (decide (i = j)), st)
    | .atom .none, .atom .none => pure (Atom.bool true, st)
    | .atom .none, .atom (.ref _) => pure (Atom.bool false, st)
    | .atom (.ref _), .atom .none => pure (Atom.bool false, st)
    | _, _ => throw stuck
  | .calcHas e, st => do
    let (o, st) ← e.evalP H self env st
    match o with
    | .atom (.ref i) => pure (Atom.bool (st.done.contains i), st)
    | _ => throw stuck
  | .resSetdefault k, st => do
    let (kv, st) ← k.evalP H self env st
    match kv with
    | .atom a =>
      if a.isName then do                                -- the names of resources: `None` or a `str`
        let r ← H.newResource a
        match st.res.find? (fun p => p.1.pyEq a) with
        | some p => pure (Atom.ref p.2, st)
        | Option.none => pure (Atom.ref r, { st with res := st.res ++ [(a, r)] })
      else throw stuck
    | _ => throw stuck
  | .callSelf m args, st => do
    let (av, st) ← args.evalP H self env st
    match av with
    | .list as => do
      let (v, L') ← H.call m as st.L
      pure (v, { st with L := L' })
    | _ => throw stuck
  | .reversed l, st => do
    let (lv, st) ← l.evalP H self env st
    match lv with
    | .list vs => pure (Val.list vs.reverse, st)
    | .atom .none => throw (.crash .type)
    | _ => throw stuck
  | .min a b, st => do                                  -- `min(a, b)`: `b if b < a else a` (numbers or datetimes)
    let (x, st) ← a.evalP H self env st
    let (y, st) ← b.evalP H self env st
    let r ← pyMin x y
    pure (r, st)
  | .timedelta d, st => do                              -- `timedelta(days=e)`
    let (dv, st) ← d.evalP H self env st
    match dv with
    | .atom .none => throw (.crash .type)
    | .atom a => match a.asNum? with
      | some q => pure (Atom.delta q, st)
      | Option.none => throw stuck
    | _ => throw stuck
  | .idOf e, st => do                                   -- `id(e)`: the identity of a task object, an `int`
    let (o, st) ← e.evalP H self env st
    match o with
    | .atom (.ref i) => pure (Atom.num ((i : Nat) : Rat), st)
    | _ => throw stuck
  | .prim name args, st => do
    let (av, st) ← args.evalP H self env st
    match av with
    | .list as => do
      let v ← H.prim name as st
      pure (v, st)
    | _ => throw stuck
  | .fnRef k, st => pure (Atom.fn k, st)
  | .callVal f args, st => do                           -- the callee first, then the arguments
    let (fv, st) ← f.evalP H self env st
    let (av, st) ← args.evalP H self env st
    match fv, av with
    | .atom (.fn k), .list as => H.fn k as st
    | .atom .none, .list _ => throw (.crash .type)       -- 'NoneType' object is not callable
    | _, _ => throw stuck
  | .newBox l, st => do
    let (lv, st) ← l.evalP H self env st
    let vs ← iterOf lv
    pure (Atom.box st.boxes.length, { st with boxes := st.boxes ++ [vs] })
  | .items b, st => do
    let (bv, st) ← b.evalP H self env st
    match bv with
    | .atom (.box i) =>
      match st.boxes[i]? with
      | some vs => pure (Val.list vs, st)
      | Option.none => throw stuck
    | _ => throw stuck
  | .listOf e, st => do
    let (v, st) ← e.evalP H self env st
    let vs ← iterOf v
    pure (Val.list vs, st)
  | .flatComp inner x it cond, st => do                 -- `x` is local to the comprehension
    let (itv, st) ← it.evalP H self env st
    let vs ← iterOf itv
    let (out, st) ← flatLoopP (fun v st => do
      let (c, st) ← cond.evalP H self (env.set x v) st
      if (← truthP c) then
        match (← inner.evalP H self (env.set x v) st) with
        | (.list l, st) => pure (l, st)
        | _ => throw stuck
      else pure ([], st)) vs st
    pure (Val.list out, st)
  | .anyComp elt x it cond, st => do
    let (itv, st) ← it.evalP H self env st
    let vs ← iterOf itv
    let (b, st) ← anyLoopP (fun v st => do
      let (c, st) ← cond.evalP H self (env.set x v) st
      if (← truthP c) then do
        let (e, st) ← elt.evalP H self (env.set x v) st
        pure ((← truthP e), st)
      else pure (false, st)) vs st
    pure (Atom.bool b, st)
  | .range3 lo hi step, st => do                        -- three `int`s; a zero step: ValueError
    let (a, st) ← lo.evalP H self env st
    let (b, st) ← hi.evalP H self env st
    let (c, st) ← step.evalP H self env st
    match a, b, c with
    | .atom a, .atom b, .atom c =>
      match a.asInt?, b.asInt?, c.asInt? with
      | some i, some j, some k =>
        if k = 0 then throw (.crash .value)
        else pure (Val.list ((rangeList i j k).map (fun (n : Int) => Atom.num (n : Rat))), st)
      | _, _, _ => throw stuck
    | _, _, _ => throw stuck
  | .listIndex l i, st => do
    let (lv, st) ← l.evalP H self env st
    let (iv, st) ← i.evalP H self env st
    match lv, iv with
    | .list vs, .atom a =>
      match a.asInt? with
      | some j =>
        let k : Int := if j < 0 then j + (vs.length : Int) else j
        if k < 0 then throw (.crash .index)
        else match vs[k.toNat]? with
          | some v => pure (Val.atom v, st)
          | Option.none => throw (.crash .index)         -- list index out of range
      | Option.none => throw stuck
    | .atom .none, _ => throw (.crash .type)             -- 'NoneType' object is not subscriptable
    | _, _ => throw stuck
  | .typeIs e ty, st => do
    let (v, st) ← e.evalP H self env st
    let b ← pyTypeIs v ty
    pure (Atom.bool b, st)
  | .setOf l, st => do
    let (lv, st) ← l.evalP H self env st
    match lv with
    | .list vs => pure (Val.list (pyDedup vs), st)
    | .atom .none => throw (.crash .type)
    | _ => throw stuck
  | .setInter a b, st => do
    let (av, st) ← a.evalP H self env st
    let (bv, st) ← b.evalP H self env st
    match av, bv with
    | .list xs, .list ys => pure (Val.list (xs.filter (fun x => ys.any (fun y => y.pyEq x))), st)
    | .atom .none, _ => throw (.crash .attribute)
    | _, _ => throw stuck
  | .callFn k args, st => do                            -- the arguments, left to right, then the call
    let (vs, st) ← args.evalArgsP H self env st
    H.fnV k vs st
  | .self, _ => throw stuck
  | .units _ _, _ => throw stuck
  | .dayStart _, _ => throw stuck
  | .weekday _, _ => throw stuck
  | .index _ _, _ => throw stuck
  | .timedeltaHours _, _ => throw stuck
  | .app _ _ _, _ => throw stuck
  | .rows, _ => throw stuck
  | .mkRow _ _ _ _, _ => throw stuck
  | .nearest _ _ _, _ => throw stuck
  | .reserved _ _ _, _ => throw stuck
  | .dictComp k v x it cond, st => do                   -- `x` is local to the comprehension; the key before the value
    let (itv, st) ← it.evalP H self env st
    let vs ← iterOf itv
    let (out, st) ← pairLoopP (fun a st => do
      let (c, st) ← cond.evalP H self (env.set x a) st
      if (← truthP c) then
        match (← k.evalP H self (env.set x a) st) with
        | (.atom kv, st) =>
          match (← v.evalP H self (env.set x a) st) with
          | (.atom vv, st) => pure (some (kv, vv), st)
          | _ => throw stuck
        | _ => throw stuck
      else pure (Option.none, st)) vs st
    pure (Val.dict (Dict.ofList out), st)
  | .dictGet d k, st => do
    let (dv, st) ← d.evalP H self env st
    let (kv, st) ← k.evalP H self env st
    match dv, kv with
    | .dict kvs, .atom k => match Dict.get? kvs k with
      | some v => pure (Val.atom v, st)
      | Option.none => pure (Atom.none, st)
    | .atom .none, _ => throw (.crash .attribute)
    | _, _ => throw stuck
  | .dictIndex d k, st => do
    let (dv, st) ← d.evalP H self env st
    let (kv, st) ← k.evalP H self env st
    match dv, kv with
    | .dict kvs, .atom k => match Dict.get? kvs k with
      | some v => pure (Val.atom v, st)
      | Option.none => throw (.crash .key)
    | .atom .none, _ => throw (.crash .type)             -- 'NoneType' object is not subscriptable
    | _, _ => throw stuck
  | .dictValues d, st => do
    let (dv, st) ← d.evalP H self env st
    match dv with
    | .dict kvs => pure (Val.list (kvs.map (·.2)), st)
    | .atom .none => throw (.crash .attribute)
    | _ => throw stuck
  | .nextComp elt x it cond, st => do                   -- the iterable first; then lazily, up to the first element
    let (itv, st) ← it.evalP H self env st
    let vs ← iterOf itv
    let (o, st) ← nextLoopP (fun a st => do
      let (c, st) ← cond.evalP H self (env.set x a) st
      if (← truthP c) then
        match (← elt.evalP H self (env.set x a) st) with
        | (.atom r, st) => pure (some r, st)
        | _ => throw stuck
      else pure (Option.none, st)) vs st
    match o with
    | some r => pure (Val.atom r, st)
    | Option.none => throw (.crash .stopIteration)
  -- facade constructs
  | .listInsert l i e, st => do                         -- the list, the index (an `int`), the item
    let (lv, st) ← l.evalP H self env st
    let (iv, st) ← i.evalP H self env st
    let (ev, st) ← e.evalP H self env st
    match lv, iv, ev with
    | .list vs, .atom a, .atom x =>
      match a.asInt? with
      | some j => pure (Val.list (pyInsertA vs j x), st)
      | Option.none => throw stuck
    | .atom .none, _, _ => throw (.crash .attribute)
    | _, _, _ => throw stuck
  | .listRemove l e, st => do
    let (lv, st) ← l.evalP H self env st
    let (ev, st) ← e.evalP H self env st
    match lv, ev with
    | .list vs, .atom a =>
      match pyErase vs a with
      | some vs' => pure (Val.list vs', st)
      | Option.none => throw (.crash .value)             -- list.remove(x): x not in list
    | .atom .none, _ => throw (.crash .attribute)
    | _, _ => throw stuck
  | .indexOf l e, st => do
    let (lv, st) ← l.evalP H self env st
    let (ev, st) ← e.evalP H self env st
    match lv, ev with
    | .list vs, .atom a =>
      match pyIndexOf vs a with
      | some n => pure (Atom.num ((n : Nat) : Rat), st)
      | Option.none => throw (.crash .value)             -- x is not in list
    | .atom .none, _ => throw (.crash .attribute)
    | _, _ => throw stuck
  | .sortedBy key x l rev, st => do                     -- the list, `reverse`, then the key of every item in order
    let (lv, st) ← l.evalP H self env st
    let (rv, st) ← rev.evalP H self env st
    let vs ← iterOf lv
    let r ← truthP rv
    let (ks, st) ← compLoopP (fun v st => do
      match (← key.evalP H self (env.set x v) st) with
      | (.atom a, st) => pure (some a, st)
      | _ => throw stuck) vs st
    let out ← pySorted r (vs.zip ks)
    pure (Val.list out, st)
  | .typeIsS e ty, st => do
    let (v, st) ← e.evalP H self env st
    let b ← pyTypeIsS v ty
    pure (Atom.bool b, st)
  -- critical-path constructs
  | .construct k args, st => do                         -- the arguments, then the new object `ref reads`, then `__init__`
    let (vs, st) ← args.evalArgsP H self env st
    let o := st.reads
    let (_, st) ← H.fnV k (Val.atom (Atom.ref o) :: vs)
      { st with heap := fun j => if j = o then [] else st.heap j, reads := o + 1 }
    pure (Atom.ref o, st)
  | .dictNil, st => pure (Val.dict [], st)
  | .dictSet d k v, st => do                            -- the value, the dict, the key
    let (vv, st) ← v.evalP H self env st
    let (dv, st) ← d.evalP H self env st
    let (kv, st) ← k.evalP H self env st
    match dv, kv, vv with
    | .dict kvs, .atom k, .atom v => pure (Val.dict (Dict.insert kvs k v), st)
    | .atom .none, _, _ => throw (.crash .type)          -- 'NoneType' object does not support item assignment
    | _, _, _ => throw stuck
  | .dictHas k d, st => do
    let (kv, st) ← k.evalP H self env st
    let (dv, st) ← d.evalP H self env st
    match kv, dv with
    | .atom k, .dict kvs => pure (Atom.bool (Dict.get? kvs k).isSome, st)
    | .atom _, .atom .none => throw (.crash .type)
    | _, _ => throw stuck
  | .abs e, st => do
    let (v, st) ← e.evalP H self env st
    match v with
    | .atom .none => throw (.crash .type)
    | .atom a => match a.asNum? with
      | some q => pure (Atom.num (if q < 0 then -q else q), st)
      | Option.none => throw stuck
    | _ => throw stuck

/-- the argument list of `callFn`: `listCons a (listCons b … listNil)`, every item evaluated to a value -/
def Expr.evalArgsP (H : PHandlers) (self : Env) (env : Env) : Expr → PState → Res (List Val × PState)
  | .listNil, st => pure ([], st)
  | .listCons a l, st => do
    let (v, st) ← a.evalP H self env st
    let (vs, st) ← l.evalArgsP H self env st
    pure (v :: vs, st)
  | _, _ => throw stuck
end

inductive OutcomeP
  | normal (env : Env) (st : PState)
  | cont (env : Env) (st : PState)
  | ret (v : Val) (st : PState)
  | raise (e : Err)

def forLoopP (x : String) (body : Env → PState → OutcomeP) : List Atom → Env → PState → OutcomeP
  | [], env, st => .normal env st
  | v :: vs, env, st =>
    match body (env.set x v) st with
    | .normal env' st' => forLoopP x body vs env' st'
    | .cont env' st' => forLoopP x body vs env' st'
    | r => r

/-- `for x in o.f: body` over the LIVE list held by the attribute `f` of the object `ref i` (wbs constructs): `snap` is
    the list at the start of the loop.  Python's list iterator fetches the next item from the list as it is then; the
    loop below checks, every time the iterator is advanced (also when it is exhausted), that the list still is `snap` -
    then the item fetched is the next item of `snap` - and is STUCK otherwise: a run that is not stuck is faithful. -/
def forLiveLoopP (x : String) (i : Nat) (f : String) (snap : List Atom) (body : Env → PState → OutcomeP) :
    List Atom → Env → PState → OutcomeP
  | [], env, st => if (st.heap i).get? f = some (Val.list snap) then .normal env st else .raise stuck
  | v :: vs, env, st =>
    if (st.heap i).get? f = some (Val.list snap) then
      match body (env.set x v) st with
      | .normal env' st' => forLiveLoopP x i f snap body vs env' st'
      | .cont env' st' => forLiveLoopP x i f snap body vs env' st'
      | r => r
    else .raise stuck

mutual
/-- `rec args st` = the call of the method being interpreted with the positional arguments `args` -/
def Stmt.execP (H : PHandlers) (self : Env) (rec : List Atom → PState → Res (Val × PState)) :
    Stmt → Env → PState → OutcomeP
  | .assign x e, env, st =>
    match e.evalP H self env st with
    | .ok (v, st') => .normal (env.set x v) st'
    | .error err => .raise err
  | .aug x op e, env, st =>
    match env.get? x with
    | Option.none => .raise stuck
    | some old =>
      match e.evalP H self env st with
      | .error err => .raise err
      | .ok (v, st') =>
        match arithP op old v with
        | .ok r => .normal (env.set x r) st'
        | .error err => .raise err
  | .ifElse c t e, env, st =>
    match (do let (v, st') ← c.evalP H self env st; pure ((← truthP v), st')) with
    | .ok (b, st') => if b then execBlockP H self rec t env st' else execBlockP H self rec e env st'
    | .error err => .raise err
  | .forIn x e body, env, st =>
    match (do let (v, st') ← e.evalP H self env st; pure ((← iterOf v), st')) with
    | .ok (vs, st') => forLoopP x (fun env' st'' => execBlockP H self rec body env' st'') vs env st'
    | .error err => .raise err
  | .raiseRuntime, _, _ => .raise .runtime
  | .continue, env, st => .cont env st
  | .ret e, env, st =>
    match e.evalP H self env st with
    | .ok (v, st') => .ret v st'
    | .error err => .raise err
  | .pass, env, st => .normal env st
  | .setAttr o f e, env, st =>                          -- the value first, then the target
    match (do
      let (v, st) ← e.evalP H self env st
      let (ov, st) ← o.evalP H self env st
      pure (v, ov, st)) with
    | .ok (v, .atom (.ref i), st') =>
      .normal env { st' with heap := heapSet st'.heap i f v }
    | .ok (_, .atom .none, _) => .raise (.crash .attribute)
    | .ok _ => .raise stuck
    | .error err => .raise err
  | .calcAppend e, env, st =>
    match e.evalP H self env st with
    | .ok (.atom (.ref i), st') => .normal env { st' with done := st'.done ++ [i] }
    | .ok _ => .raise stuck
    | .error err => .raise err
  | .recurse args, env, st =>
    match (do
      let (av, st) ← args.evalP H self env st
      match av with
      | .list as => rec as st
      | _ => throw stuck) with
    | .ok (_, st') => .normal env st'
    | .error err => .raise err
  | .expr e, env, st =>
    match e.evalP H self env st with
    | .ok (_, st') => .normal env st'
    | .error err => .raise err
  | .boxAppend b e, env, st =>                          -- the container first, then the item
    match (do
      let (bv, st) ← b.evalP H self env st
      let (v, st) ← e.evalP H self env st
      pure (bv, v, st)) with
    | .ok (.atom (.box i), .atom a, st') =>
      match st'.boxes[i]? with
      | some vs => if a.isBox then .raise stuck else .normal env { st' with boxes := st'.boxes.set i (vs ++ [a]) }
      | Option.none => .raise stuck
    | .ok (.atom .none, _, _) => .raise (.crash .attribute)
    | .ok _ => .raise stuck
    | .error err => .raise err
  | .boxPop b, env, st =>
    match b.evalP H self env st with
    | .ok (.atom (.box i), st') =>
      match st'.boxes[i]? with
      | some [] => .raise (.crash .index)                -- pop from empty list
      | some vs => .normal env { st' with boxes := st'.boxes.set i vs.dropLast }
      | Option.none => .raise stuck
    | .ok (.atom .none, _) => .raise (.crash .attribute)
    | .ok _ => .raise stuck
    | .error err => .raise err
  | .ledgerNew, env, st => .normal env { st with L := [] }
  | .calcNew, env, st => .normal env { st with done := [] }
  | .attrAppend o f e, env, st =>                       -- the object, then the item; the list is changed in place
    match (do
      let (ov, st) ← o.evalP H self env st
      let (v, st) ← e.evalP H self env st
      pure (ov, v, st)) with
    | .ok (.atom (.ref i), .atom a, st') =>
      match (st'.heap i).get? f with
      | some (.list vs) => .normal env { st' with heap := heapSet st'.heap i f (.list (vs ++ [a])) }
      | some (.atom .none) => .raise (.crash .attribute)
      | some _ => .raise stuck
      | Option.none => .raise (.crash .attribute)
    | .ok (.atom .none, _, _) => .raise (.crash .attribute)
    | .ok _ => .raise stuck
    | .error err => .raise err
  | .attrRemove o f e, env, st =>
    match (do
      let (ov, st) ← o.evalP H self env st
      let (v, st) ← e.evalP H self env st
      pure (ov, v, st)) with
    | .ok (.atom (.ref i), .atom a, st') =>
      match (st'.heap i).get? f with
      | some (.list vs) =>
        match pyErase vs a with
        | some vs' => .normal env { st' with heap := heapSet st'.heap i f (.list vs') }
        | Option.none => .raise (.crash .value)          -- list.remove(x): x not in list
      | some (.atom .none) => .raise (.crash .attribute)
      | some _ => .raise stuck
      | Option.none => .raise (.crash .attribute)
    | .ok (.atom .none, _, _) => .raise (.crash .attribute)
    | .ok _ => .raise stuck
    | .error err => .raise err
  | .attrClear o f, env, st =>
    match o.evalP H self env st with
    | .ok (.atom (.ref i), st') =>
      match (st'.heap i).get? f with
      | some (.list _) => .normal env { st' with heap := heapSet st'.heap i f (.list []) }
      | some (.atom .none) => .raise (.crash .attribute)
      | some _ => .raise stuck
      | Option.none => .raise (.crash .attribute)
    | .ok (.atom .none, _) => .raise (.crash .attribute)
    | .ok _ => .raise stuck
    | .error err => .raise err
  | .while _ _, _, _ => .raise stuck
  | .forRange _ _ _ _, _, _ => .raise stuck
  | .rowsAppend _, _, _ => .raise stuck
  | .resReserve _ _ _ _, _, _ => .raise stuck
  | .augReserve _ _ _ _ _ _, _, _ => .raise stuck
  | .tryExcept body exc handler, env, st =>             -- the body writes nothing (translator): the handler starts from `st`
    match execBlockP H self rec body env st with
    | .raise e => if e = exc then execBlockP H self rec handler env st else .raise e
    | r => r
  | .forLive x o f body, env, st =>
    match o.evalP H self env st with
    | .ok (.atom (.ref i), st') =>
      match (st'.heap i).get? f with
      | some (.list vs) =>
        forLiveLoopP x i f vs (fun env' st'' => execBlockP H self rec body env' st'') vs env st'
      | some (.atom .none) => .raise (.crash .type)      -- 'NoneType' object is not iterable
      | some _ => .raise stuck
      | Option.none => .raise (.crash .attribute)
    | .ok (.atom .none, _) => .raise (.crash .attribute)
    | .ok _ => .raise stuck
    | .error err => .raise err

def execBlockP (H : PHandlers) (self : Env) (rec : List Atom → PState → Res (Val × PState)) :
    List Stmt → Env → PState → OutcomeP
  | [], env, st => .normal env st
  | s :: ss, env, st =>
    match s.execP H self rec env st with
    | .normal env' st' => execBlockP H self rec ss env' st'
    | r => r
end

/-- bind positional arguments to the parameter names (a wrong number of arguments: TypeError) -/
def bindParams : List String → List Atom → Res Env
  | [], [] => pure []
  | p :: ps, a :: as => do
    let rest ← bindParams ps as
    pure ((p, Val.atom a) :: rest)
  | _, _ => throw (.crash .type)

/-- call the method `def m(self, params...): body` with at most `fuel` nested activations -/
def callP (H : PHandlers) (self : Env) (params : List String) (body : List Stmt) :
    Nat → List Atom → PState → Res (Val × PState)
  | 0, _, _ => throw (.crash .recursion)
  | fuel + 1, args, st =>
    match bindParams params args with
    | .error e => throw e
    | .ok env =>
      match execBlockP H self (callP H self params body fuel) body env st with
      | .normal _ st' => pure (Atom.none, st')
      | .cont _ st' => pure (Atom.none, st')
      | .ret v st' => pure (v, st')
      | .raise e => throw e

/-! ### programs: a table of functions calling one another (task constructs) -/

/-- function number ↦ parameter names and body -/
abbrev FunTable := Nat → Option (List String × List Stmt)

/-- bind positional arguments (values) to the parameter names (a wrong number of arguments: TypeError) -/
def bindParamsV : List String → List Val → Res Env
  | [], [] => pure []
  | p :: ps, a :: as => do
    let rest ← bindParamsV ps as
    pure ((p, a) :: rest)
  | _, _ => throw (.crash .type)

/-- run the body of a function of a program on the arguments `args` (`recurse` is not used: stuck) -/
def callPV (H : PHandlers) (params : List String) (body : List Stmt) (args : List Val) (st : PState) :
    Res (Val × PState) :=
  match bindParamsV params args with
  | .error e => throw e
  | .ok env =>
    match execBlockP H [] (fun _ _ => throw stuck) body env st with
    | .normal _ st' => pure (Atom.none, st')
    | .cont _ st' => pure (Atom.none, st')
    | .ret v st' => pure (v, st')
    | .raise e => throw e

/-- handlers of a program: every call of a function of the table costs one unit of `fuel` (the depth of nested calls
    is bounded, as by Python's recursion limit); `prim` gives the library attributes their meaning -/
def progH (prim : String → List Atom → PState → Res Val) (tbl : FunTable) : Nat → PHandlers
  | 0 =>
    { clock := fun _ => 0
      call := fun _ _ _ => throw stuck
      newResource := fun _ => throw stuck
      prim := prim
      fnV := fun _ _ _ => throw (.crash .recursion) }
  | fuel + 1 =>
    { clock := fun _ => 0
      call := fun _ _ _ => throw stuck
      newResource := fun _ => throw stuck
      prim := prim
      fnV := fun k args st =>
        match tbl k with
        | some (params, body) => callPV (progH prim tbl fuel) params body args st
        | Option.none => throw stuck }

/-- call the k-th function of the program with at most `fuel` nested calls -/
def runProg (prim : String → List Atom → PState → Res Val) (tbl : FunTable) (fuel : Nat) (k : Nat)
    (args : List Val) (st : PState) : Res (Val × PState) :=
  (progH prim tbl fuel).fnV k args st

/-! ### facade constructs (tools/extract_facade.py, Extracted/FacadeSrc.lean, Lemmas/FacadeSrc*.lean)

  The methods of the list facades of task.py (`_ChildrenList`, `_PredecessorsList`, `_SuccessorsList`,
  `_ImmutableTaskList`) and the operators of `Task` are further functions of the PROGRAM task.py (`progH`); they add five
  expressions and use `nextComp` of the wbs constructs, all on list VALUES (interpreted by `Expr.evalP` only, `stuck` in the first two evaluators):

  * `listInsert l i e` / `listRemove l e` - the list after `l.insert(i, e)` (`pyInsertA`: Python's treatment of negative
    and out-of-range indexes) / `l.remove(e)` (`pyErase`; ValueError when `e` is missing).  The translator writes the
    result back to where the list lives: a fresh local (`x = listInsert x …`) or the attribute holding the raw list of
    a task (`setAttr o f (listInsert (attr o f) …)`);
  * `indexOf l e` - `l.index(e)` (ValueError when missing);
  * `nextComp elt x it cond` (the constructor shared with the wbs constructs; `nextLoopP`) - `next(elt for x in it if
    cond)`: the first element (lazily), StopIteration when none;
  * `sortedBy key x l rev` - `sorted(l, key=lambda x: key, reverse=rev)`: the keys of all items are computed first
    (`key` with `x` bound to the item, in its own scope like a comprehension variable), then `pySorted` sorts the
    items stably by `keyLe` (numbers, datetimes, abstract strings numbered in lexicographic order); keys that are not
    pairwise comparable leave the fragment;
  * `typeIsS e ty` - `type(e) is ty` as `typeIs`, where the value may also be a `str` and `ty` may also be `str`. -/

/-! ### critical-path constructs (tools/extract_critpath.py, Extracted/CritPathSrc.lean, Lemmas/CritPathSrc*.lean)

  alg/critical_path.py builds a network of objects of its own classes (`_PNode`, `_PLink`) that refer to one another and
  are changed in place.  They are objects of the store like the task objects (`ref i`, attributes read by `attr`, written by
  `setAttr`, list-valued attributes changed in place by `attrAppend`); five expressions are added (interpreted by
  `Expr.evalP` only, `stuck` in the first two evaluators):

  * `construct k args` - the instantiation `C(args...)` of a class of the program whose `__init__` is the k-th function:
    the arguments are evaluated (values, left to right), then a NEW object is allocated - convention of Model/PyLiteW.lean:
    the component `reads` of `PState` is the allocation pointer, the new object is `ref reads`, it has no attributes -,
    then `__init__(obj, args...)` is called (handler `fnV`, one unit of fuel); the value is the object;
  * `dictNil` / `dictSet d k v` / `dictHas k d` - `{}`, the dict after `d[k] = v` (an existing key keeps its position;
    evaluated in Python's order: value, dict, key), `k in d`.  A dict held by an attribute that nothing else refers to is
    changed by `setAttr o f (dictSet (attr o f) k v)`;
  * `abs e` - `abs(e)` on a number. -/

end Pj.PyLite
