/-
  Model/PyLite.lean — a tiny deeply-embedded fragment of Python ("PyLite") with a total big-step interpreter.

  Purpose: tools/extract_calendar.py translates the bodies of the `get_available_units` methods of calendar.py /
  resource.py into PyLite terms (Extracted/CalendarSrc.lean, regenerated on every check); Lemmas/CalendarSrc.lean
  proves that interpreting those terms equals the hand-written model (Model/Calendar.lean).

  Trust base = this file + the translator.  Conventions:
  * numbers are `Rat` (the model's abstraction of int/float), datetimes are `Time` (= Rat days), timedeltas are
    `Rat` days; a Python `bool` is a number (True = 1) for arithmetic, ordering and `==`, exactly as in Python;
  * objects with a `get_available_units` method are opaque references `ref i`; the call is interpreted through the
    parameter `sub : Nat → Time → Res (Option Rat)`; `ref 0` is the object itself (`self`);
  * Python exceptions are the model's `Err`: RuntimeError = `.runtime`, TypeError = `.crash .type`,
    ZeroDivisionError = `.crash .zeroDivision`, KeyError = `.crash .key`, AttributeError = `.crash .attribute`;
  * `stuck` (= `.crash .other`) marks a run that leaves the modelled fragment (e.g. list concatenation,
    `datetime + number`, truthiness of a non-bool, NameError, a `while` loop that exhausts the interpreter's
    fuel).  The model never produces `.crash .other` for the translated methods, so an equivalence theorem
    `interp = eval` shows in particular that no run gets stuck.
-/
import PjVerif.Model.Basic
namespace Pj.PyLite

/-! ### values -/

/-- scalar values -/
inductive Atom
  | none
  | num (q : Rat)
  | bool (b : Bool)
  | time (t : Time)
  | delta (d : Rat)        -- `timedelta`, in days
  | ref (i : Nat)          -- an object answering `get_available_units(date)`; `ref 0` = `self`
  deriving DecidableEq, Repr, Inhabited

inductive Val
  | atom (a : Atom)
  | list (vs : List Atom)
  | dict (kvs : List (Atom × Atom))   -- association list with distinct keys, in insertion order
  deriving DecidableEq, Repr, Inhabited

instance : Coe Atom Val := ⟨Val.atom⟩

def stuck : Err := .crash .other

/-- int/float/bool as a number (Python: `bool` is a subclass of `int`) -/
def Atom.asNum? : Atom → Option Rat
  | .num q => some q
  | .bool b => some (if b then 1 else 0)
  | _ => Option.none

/-- `True`/`False` are the numbers 1/0 -/
def Atom.norm : Atom → Atom
  | .bool b => .num (if b then 1 else 0)
  | a => a

/-- Python `==` (and dict-key identity) on scalars: numeric for numbers/bools, identity for objects,
    False across kinds -/
def Atom.pyEq (a b : Atom) : Bool := decide (a.norm = b.norm)

/-! ### dicts (association lists) -/

def Dict.get? (d : List (Atom × Atom)) (k : Atom) : Option Atom :=
  (d.find? (fun p => p.1.pyEq k)).map (·.2)

/-- `d[k] = v`: an existing key keeps its position -/
def Dict.insert : List (Atom × Atom) → Atom → Atom → List (Atom × Atom)
  | [], k, v => [(k, v)]
  | p :: d, k, v => if p.1.pyEq k then (p.1, v) :: d else p :: Dict.insert d k v

/-- the dict built by inserting the pairs in order (`{k: v for ...}`) -/
def Dict.ofList (kvs : List (Atom × Atom)) : List (Atom × Atom) :=
  kvs.foldl (fun d p => Dict.insert d p.1 p.2) []

/-! ### syntax -/

inductive CmpOp | lt | gt | le | ge | eq | ne
  deriving DecidableEq, Repr, Inhabited

inductive BinOp | add | sub | mul | div
  deriving DecidableEq, Repr, Inhabited

inductive Expr
  | none                                  -- `None`
  | num (q : Rat)                         -- numeric literal
  | bool (b : Bool)                       -- `True` / `False`
  | var (x : String)                      -- local variable / parameter
  | self                                  -- `self` (only as receiver of `get_available_units`)
  | field (f : String)                    -- `self.f` / `self.__f`
  | isNone (e : Expr)                     -- `e is None`
  | isNotNone (e : Expr)                  -- `e is not None`
  | cmp (op : CmpOp) (a b : Expr)         -- `a < b` ...
  | and (a b : Expr) | or (a b : Expr) | not (a : Expr)
  | bin (op : BinOp) (a b : Expr)         -- `a + b` ...
  | ite (c a b : Expr)                    -- `a if c else b`
  | units (c d : Expr)                    -- `c.get_available_units(d)`
  | dayStart (d : Expr)                   -- `_day_start(d)`
  | timedelta (days : Expr)               -- `timedelta(days=e)`
  | weekday (d : Expr)                    -- `d.weekday()`
  | index (d k : Expr)                    -- `d[k]`
  | isIn (k d : Expr)                     -- `k in d`
  deriving Repr, Inhabited

inductive Stmt
  | assign (x : String) (e : Expr)                     -- `x = e`
  | aug (x : String) (op : BinOp) (e : Expr)           -- `x op= e`
  | ifElse (c : Expr) (t e : List Stmt)                -- `if c: t else: e` (`elif` = nested `ifElse` in `e`)
  | forIn (x : String) (e : Expr) (body : List Stmt)   -- `for x in e: body` (no `break`, no `else`)
  | while (c : Expr) (body : List Stmt)                -- `while c: body` (no `break`, no `else`)
  | raiseRuntime                                       -- `raise RuntimeError(...)`
  | continue
  | ret (e : Expr)                                     -- `return e`
  | pass
  deriving Repr, Inhabited

/-! ### environments -/

abbrev Env := List (String × Val)

def Env.get? (env : Env) (x : String) : Option Val :=
  (env.find? (fun p => p.1 == x)).map (·.2)

def Env.set : Env → String → Val → Env
  | [], x, v => [(x, v)]
  | p :: env, x, v => if p.1 == x then (x, v) :: env else p :: Env.set env x v

/-! ### expressions -/

/-- datetime/timedelta arithmetic -/
def arithTime (op : BinOp) (a b : Atom) : Option Atom :=
  match op, a, b with
  | .add, .time x, .delta d => some (.time (x + d))
  | .add, .delta d, .time x => some (.time (x + d))
  | .sub, .time x, .delta d => some (.time (x - d))
  | .sub, .time x, .time y => some (.delta (x - y))
  | .add, .delta d, .delta e => some (.delta (d + e))
  | .sub, .delta d, .delta e => some (.delta (d - e))
  | _, _, _ => Option.none

/-- `+ - * /` on int/float/bool (`None` operand: TypeError; division by zero: ZeroDivisionError) and `+ -` on
    datetimes/timedeltas -/
def arith (op : BinOp) (a b : Val) : Res Val :=
  match a, b with
  | .atom a, .atom b =>
    if let some r := arithTime op a b then pure r
    else if (a = .none ∨ a.asNum?.isSome) ∧ (b = .none ∨ b.asNum?.isSome) then
      match a.asNum?, b.asNum? with
      | some x, some y =>
        match op with
        | .add => pure (Atom.num (x + y))
        | .sub => pure (Atom.num (x - y))
        | .mul => pure (Atom.num (x * y))
        | .div => if y = 0 then throw (.crash .zeroDivision) else pure (Atom.num (x / y))
      | _, _ => throw (.crash .type)
    else throw stuck
  | _, _ => throw stuck

def cmpRat (op : CmpOp) (x y : Rat) : Bool :=
  match op with
  | .lt => decide (x < y) | .gt => decide (y < x) | .le => decide (x ≤ y) | .ge => decide (y ≤ x)
  | .eq => decide (x = y) | .ne => !decide (x = y)

/-- comparisons: ordering needs two numbers, two datetimes or two timedeltas (`None`, or mixed kinds: TypeError);
    `==`/`!=` on scalars never raise -/
def compare (op : CmpOp) (a b : Val) : Res Val :=
  match a, b with
  | .atom a, .atom b =>
    match op with
    | .eq => pure (Atom.bool (a.pyEq b))
    | .ne => pure (Atom.bool (!a.pyEq b))
    | _ =>
      match a, b with
      | .time x, .time y => pure (Atom.bool (cmpRat op x y))
      | .delta x, .delta y => pure (Atom.bool (cmpRat op x y))
      | .ref _, _ => throw stuck
      | _, .ref _ => throw stuck
      | a, b =>
        match a.asNum?, b.asNum? with
        | some x, some y => pure (Atom.bool (cmpRat op x y))
        | _, _ => throw (.crash .type)
  | _, _ => throw stuck

/-- truthiness is modelled for bools only (the translator rejects anything else in boolean position) -/
def truth : Val → Res Bool
  | .atom (.bool b) => pure b
  | _ => throw stuck

/-- `sub i t` = result of `get_available_units(t)` on the object `ref i`; `self` = the object's fields -/
def Expr.eval (sub : Nat → Time → Res (Option Rat)) (self : Env) (env : Env) : Expr → Res Val
  | .none => pure Atom.none
  | .num q => pure (Atom.num q)
  | .bool b => pure (Atom.bool b)
  | .var x => match env.get? x with
    | some v => pure v
    | Option.none => throw stuck                        -- NameError / UnboundLocalError
  | .self => pure (Atom.ref 0)
  | .field f => match self.get? f with
    | some v => pure v
    | Option.none => throw (.crash .attribute)
  | .isNone e => do
    let v ← e.eval sub self env
    pure (Atom.bool (decide (v = .atom .none)))
  | .isNotNone e => do
    let v ← e.eval sub self env
    pure (Atom.bool (!decide (v = .atom .none)))
  | .cmp op a b => do
    let x ← a.eval sub self env
    let y ← b.eval sub self env
    compare op x y
  | .and a b => do                                     -- `a and b`: `a` if falsy else `b`
    let x ← a.eval sub self env
    if (← truth x) then b.eval sub self env else pure x
  | .or a b => do                                      -- `a or b`: `a` if truthy else `b`
    let x ← a.eval sub self env
    if (← truth x) then pure x else b.eval sub self env
  | .not a => do
    let x ← a.eval sub self env
    pure (Atom.bool (!(← truth x)))
  | .bin op a b => do
    let x ← a.eval sub self env
    let y ← b.eval sub self env
    arith op x y
  | .ite c a b => do
    let x ← c.eval sub self env
    if (← truth x) then a.eval sub self env else b.eval sub self env
  | .units c d => do
    let o ← c.eval sub self env
    let t ← d.eval sub self env
    match o, t with
    | .atom (.ref i), .atom (.time t) =>
      match (← sub i t) with
      | some q => pure (Atom.num q)
      | Option.none => pure Atom.none
    | .atom .none, _ => throw (.crash .attribute)
    | _, _ => throw stuck
  | .dayStart d => do
    match (← d.eval sub self env) with
    | .atom (.time t) => pure (Atom.time (midnight t))
    | .atom .none => throw (.crash .attribute)
    | _ => throw stuck
  | .timedelta d => do
    match (← d.eval sub self env) with
    | .atom .none => throw (.crash .type)
    | .atom a => match a.asNum? with
      | some q => pure (Atom.delta q)
      | Option.none => throw stuck
    | _ => throw stuck
  | .weekday d => do
    match (← d.eval sub self env) with
    | .atom (.time t) => pure (Atom.num ((Pj.weekday t : Nat) : Rat))
    | .atom .none => throw (.crash .attribute)
    | _ => throw stuck
  | .index d k => do
    let dv ← d.eval sub self env
    let kv ← k.eval sub self env
    match dv, kv with
    | .dict kvs, .atom k => match Dict.get? kvs k with
      | some v => pure v
      | Option.none => throw (.crash .key)
    | .atom .none, _ => throw (.crash .type)            -- 'NoneType' object is not subscriptable
    | _, _ => throw stuck
  | .isIn k d => do
    let kv ← k.eval sub self env
    let dv ← d.eval sub self env
    match kv, dv with
    | .atom k, .dict kvs => pure (Atom.bool (Dict.get? kvs k).isSome)
    | .atom k, .list vs => pure (Atom.bool (vs.any (fun v => v.pyEq k)))
    | .atom _, .atom .none => throw (.crash .type)      -- argument of type 'NoneType' is not iterable
    | _, _ => throw stuck

/-! ### statements -/

inductive Outcome
  | normal (env : Env)      -- fell through
  | cont (env : Env)        -- `continue` reached
  | ret (v : Val)           -- `return v`
  | raise (e : Err)
  deriving Repr, Inhabited

/-- `for x in vs: body` where `body` is already interpreted as a function of the environment -/
def forLoop (x : String) (body : Env → Outcome) : List Atom → Env → Outcome
  | [], env => .normal env
  | v :: vs, env =>
    match body (env.set x v) with
    | .normal env' => forLoop x body vs env'
    | .cont env' => forLoop x body vs env'
    | r => r

/-- `while cond: body`, both already interpreted as functions of the environment; at most `fuel` evaluations of
    the condition, then the run is stuck -/
def whileLoop (cond : Env → Res Bool) (body : Env → Outcome) : Nat → Env → Outcome
  | 0, _ => .raise stuck
  | fuel + 1, env =>
    match cond env with
    | .error err => .raise err
    | .ok false => .normal env
    | .ok true =>
      match body env with
      | .normal env' => whileLoop cond body fuel env'
      | .cont env' => whileLoop cond body fuel env'
      | r => r

/-- the sequence iterated by `for`: a list, or the keys of a dict; `None`: TypeError -/
def iterOf : Val → Res (List Atom)
  | .list vs => pure vs
  | .dict kvs => pure (kvs.map (·.1))
  | .atom .none => throw (.crash .type)
  | _ => throw stuck

mutual
def Stmt.exec (sub : Nat → Time → Res (Option Rat)) (self : Env) (fuel : Nat) : Stmt → Env → Outcome
  | .assign x e, env =>
    match e.eval sub self env with
    | .ok v => .normal (env.set x v)
    | .error err => .raise err
  | .aug x op e, env =>
    match env.get? x with
    | Option.none => .raise stuck
    | some old =>
      match e.eval sub self env with
      | .error err => .raise err
      | .ok v =>
        match arith op old v with
        | .ok r => .normal (env.set x r)
        | .error err => .raise err
  | .ifElse c t e, env =>
    match (do truth (← c.eval sub self env)) with
    | .ok b => if b then execBlock sub self fuel t env else execBlock sub self fuel e env
    | .error err => .raise err
  | .forIn x e body, env =>
    match (do iterOf (← e.eval sub self env)) with
    | .ok vs => forLoop x (fun env' => execBlock sub self fuel body env') vs env
    | .error err => .raise err
  | .while c body, env =>
    whileLoop (fun env' => do truth (← c.eval sub self env')) (fun env' => execBlock sub self fuel body env') fuel env
  | .raiseRuntime, _ => .raise .runtime
  | .continue, env => .cont env
  | .ret e, env =>
    match e.eval sub self env with
    | .ok v => .ret v
    | .error err => .raise err
  | .pass, env => .normal env

def execBlock (sub : Nat → Time → Res (Option Rat)) (self : Env) (fuel : Nat) : List Stmt → Env → Outcome
  | [], env => .normal env
  | s :: ss, env =>
    match s.exec sub self fuel env with
    | .normal env' => execBlock sub self fuel ss env'
    | r => r
end

/-- run a method body with the given parameter bindings; falling off the end returns `None`.
    `fuel` bounds every `while` loop (a body without `while` needs none). -/
def runBody (sub : Nat → Time → Res (Option Rat)) (self : Env) (fuel : Nat) (body : List Stmt) (params : Env) :
    Res Val :=
  match execBlock sub self fuel body params with
  | .normal _ => pure Atom.none
  | .cont _ => pure Atom.none                           -- unreachable: `continue` only occurs inside loops
  | .ret v => pure v
  | .raise e => throw e

/-- run `def get_available_units(self, date, ...)`: the returned value must be `None` or a number -/
def run (sub : Nat → Time → Res (Option Rat)) (body : List Stmt) (self : Env) (date : Time) : Res (Option Rat) :=
  match runBody sub self 0 body [("date", .atom (.time date))] with
  | .ok (.atom .none) => pure Option.none
  | .ok (.atom (.num q)) => pure (some q)
  | .ok _ => throw stuck
  | .error e => throw e

end Pj.PyLite
