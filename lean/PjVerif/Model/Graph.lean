/-
  Model/Graph.lean — the mutable task graph of task.py / wbs.py as a value.

  Objects are indices (`Uid`); Python identity is `Uid` equality.  Several uids may carry the same task id.
  A WBS is identified by the uid of its hidden root task (id = EMPTY_TASK_ID).  All fields are the *raw*
  private fields (`__parent`, `__children`, `__predecessors`, `__successors`, `__wbs`).
  Every Python recursion is structural recursion on a fuel argument; `none` = fuel exhausted, which stands for
  Python's RecursionError (it can only happen on cyclic structures, i.e. never on a well-formed state).
-/
import PjVerif.Model.Basic
namespace Pj

abbrev Uid := Nat

/-- `sys.maxsize` on the 64-bit CPython the repository runs on (task.py:9) -/
def emptyId : Int := 9223372036854775807

structure G where
  n : Nat
  tid : Uid → Int
  parent : Uid → Option Uid
  children : Uid → List Uid
  preds : Uid → List Uid
  succs : Uid → List Uid
  owner : Uid → Option Uid

def upd {β : Type} (f : Uid → β) (k : Uid) (v : β) : Uid → β := fun x => if x = k then v else f x

@[simp] theorem upd_same {β : Type} (f : Uid → β) (k : Uid) (v : β) : upd f k v k = v := by simp [upd]
@[simp] theorem upd_other {β : Type} (f : Uid → β) (k : Uid) (v : β) (x : Uid) (h : x ≠ k) :
    upd f k v x = f x := by simp [upd, h]

namespace G

/-- a WBS root task: `id == EMPTY_TASK_ID` -/
def hidden (s : G) (u : Uid) : Bool := s.tid u == emptyId

/-- the public `parent` property hides the WBS root (task.py:694-699) -/
def pubParent (s : G) (t : Uid) : Option Uid :=
  match s.parent t with
  | some p => if s.hidden p then none else some p
  | none => none

def fuel (s : G) : Nat := s.n + 1

end G

/-- generator `get_children` / `get_predecessor` / `get_successor` (task.py:805-811, 851-857, 897-904):
    pre-order list of everything reachable through `next`, with repetitions. -/
def descF (next : Uid → List Uid) : Nat → Uid → Option (List Uid)
  | 0, _ => none
  | f + 1, t => ((next t).mapM (fun c => (descF next f c).map (fun r => c :: r))).map List.flatten

/-- `_collect_subtree` (task.py:29-33) -/
def subtreeF (next : Uid → List Uid) (f : Nat) (t : Uid) : Option (List Uid) :=
  (descF next f t).map (fun r => t :: r)

/-- `__get_all_parents` (task.py:749-755): the chain of non-hidden ancestors -/
def ancF (s : G) : Nat → Option Uid → Option (List Uid)
  | 0, _ => none
  | _ + 1, none => some []
  | f + 1, some p => if s.hidden p then some [] else (ancF s f (s.pubParent p)).map (fun r => p :: r)

/-- `_find_root` over the raw parent (includes the hidden WBS root) -/
def rootF (s : G) : Nat → Uid → Option Uid
  | 0, _ => none
  | f + 1, t =>
    match s.parent t with
    | none => some t
    | some p => rootF s f p

/-- `_has_id_intersection(parent, children)` (task.py:36-51, repaired: duplicates among the incoming
    tasks count, the receiving tree is the whole tree of the raw root) -/
def hasIdIntersection (s : G) (parent : Uid) (chs : List Uid) : Option Bool := do
  let root ← rootF s s.fuel parent
  let tree ← subtreeF s.children s.fuel root
  let subs ← chs.mapM (subtreeF s.children s.fuel)
  let new := (subs.flatten.filter (fun t => !tree.contains t)).eraseDups
  if new.isEmpty then pure false
  else
    let newIds := new.map s.tid
    if newIds.eraseDups.length != newIds.length then pure true
    else pure (newIds.any (fun i => (tree.map s.tid).contains i))

/-- `_linked_with_any(tasks, others)` -/
def linkedWithAny (s : G) (tasks others : List Uid) : Bool :=
  tasks.any (fun t => (s.preds t ++ s.succs t).any (fun l => others.contains l))

/-- owner := w on a list of tasks (`_attach` / `_detach` over a subtree) -/
def setOwners (s : G) (ts : List Uid) (w : Option Uid) : G :=
  { s with owner := fun x => if ts.contains x then w else s.owner x }

/-! ### the parent setter (task.py:707-742) -/

/-- validations of `t.parent = p` for `p` not None; `none` = accepted -/
def chkParentSome (s : G) (t p : Uid) : Option Err :=
  let c1 : Option Err :=
    match s.owner t with
    | none =>
      if s.pubParent t = none ∨ s.pubParent t ≠ some p then
        (match hasIdIntersection s p [t] with
         | none => some (.crash .recursion)
         | some true => some .runtime
         | some false => none)
      else none
    | some w => if s.owner p ≠ some w then some .runtime else none
  match c1 with
  | some e => some e
  | none =>
    match descF s.children s.fuel t with
    | none => some (.crash .recursion)
    | some desc =>
      if p = t ∨ desc.contains p then some .runtime
      else
        match ancF s s.fuel (s.parent p) with
        | none => some (.crash .recursion)
        | some anc => if linkedWithAny s (t :: desc) (p :: anc) then some .runtime else none

/-- `if self.__parent is not None and self in self.__parent.__children: remove` -/
def detachOld (s : G) (t : Uid) : G :=
  match s.parent t with
  | some q => if (s.children q).contains t then { s with children := upd s.children q ((s.children q).erase t) } else s
  | none => s

/-- mutation phase for `p` not None: detach, set parent, `_attach(parent.__wbs)`, append if missing.
    The subtree enumeration of `_attach` is evaluated first: on a cyclic structure Python's RecursionError would
    interrupt the mutation half-way; the model reports the crash with the state unchanged (such structures are
    unreachable: every reachable state is a forest, C01). -/
def mutParentSome (s : G) (t p : Uid) : G × Option Err :=
  match subtreeF s.children s.fuel t with
  | none => (s, some (.crash .recursion))
  | some sub =>
    let s1 := detachOld s t
    let s2 := { s1 with parent := upd s1.parent t (some p) }
    let s3 := match s2.owner p with
      | none => s2
      | some w => setOwners s2 sub (some w)
    (if (s3.children p).contains t then s3 else { s3 with children := upd s3.children p (s3.children p ++ [t]) }, none)

def setParentSome (s : G) (t p : Uid) : G × Option Err :=
  match chkParentSome s t p with
  | some e => (s, some e)
  | none => mutParentSome s t p

/-- `t.parent = None`: a member of a WBS becomes a root task of that WBS (through
    `wbs._root().children.append(self)`, i.e. the same setter with the hidden root as parent), a detached task just
    loses its parent.  Modelling note: Python removes the task from its old parent's list *before* the inner call;
    the inner call's validations do not look at that list entry on a forest (the old parent is not below the task),
    so the model evaluates them on the state before the removal; `mutParentSome` performs the removal itself. -/
def setParentNone (s : G) (t : Uid) : G × Option Err :=
  match s.owner t with
  | some w => setParentSome s t w
  | none =>
    let s1 := detachOld s t
    ({ s1 with parent := upd s1.parent t none }, none)

def setParent (s : G) (t : Uid) (p : Option Uid) : G × Option Err :=
  match p with
  | some p => setParentSome s t p
  | none => setParentNone s t

/-! ### the children setter (task.py:765-798) -/

def chkChildren (s : G) (h : Uid) (l : List Uid) : Option Err :=
  let c1 : Option Err :=
    match s.owner h with
    | none => if l.any (fun v => (s.owner v).isSome) then some .runtime else none
    | some w => if l.any (fun v => (s.owner v).isSome && s.owner v != some w) then some .runtime else none
  match c1 with
  | some e => some e
  | none =>
    match hasIdIntersection s h l with
    | none => some (.crash .recursion)
    | some true => some .runtime
    | some false =>
      match ancF s s.fuel (s.parent h) with
      | none => some (.crash .recursion)
      | some anc =>
        l.findSome? (fun ch =>
          match descF s.children s.fuel ch with
          | none => some (.crash .recursion)
          | some desc =>
            if ch = h ∨ desc.contains h then some .runtime
            else if linkedWithAny s (ch :: desc) (h :: anc) then some .runtime
            else none)

/-- `for v in self.__children: v.__parent = None; if v not in value: v._detach()` then `clear()`
    (subtree enumeration first, see `mutParentSome`) -/
def releaseChildren (s : G) (h : Uid) (l : List Uid) : G × Option Err :=
  let old := s.children h
  let gone := old.filter (fun v => !l.contains v)
  match gone.mapM (subtreeF s.children s.fuel) with
  | none => (s, some (.crash .recursion))
  | some subs =>
    let s1 := { s with parent := fun x => if old.contains x then none else s.parent x }
    let s2 := setOwners s1 subs.flatten none
    ({ s2 with children := upd s2.children h [] }, none)

def foldSetParent : G → List Uid → Uid → G × Option Err
  | s, [], _ => (s, none)
  | s, v :: vs, h =>
    match setParent s v (some h) with
    | (s', some e) => (s', some e)
    | (s', none) => foldSetParent s' vs h

def setChildren (s : G) (h : Uid) (l : List Uid) : G × Option Err :=
  match chkChildren s h l with
  | some e => (s, some e)
  | none =>
    match releaseChildren s h l with
    | (s1, some e) => (s1, some e)
    | (s1, none) => foldSetParent s1 l h

/-! ### predecessor / successor setters (task.py:818-844, 864-890) -/

def chkLinks (s : G) (next : Uid → List Uid) (t : Uid) (l : List Uid) : Option Err :=
  match ancF s s.fuel (s.parent t) with
  | none => some (.crash .recursion)
  | some anc =>
    match descF s.children s.fuel t with
    | none => some (.crash .recursion)
    | some desc =>
      if l.any (fun v => anc.contains v || desc.contains v) then some .runtime
      else
        l.findSome? (fun v =>
          if v = t then some .runtime
          else match descF next s.fuel v with
            | none => some (.crash .recursion)
            | some r => if r.contains t then some .runtime else none)

def mutPreds (s : G) (t : Uid) (l : List Uid) : G :=
  let succs1 : Uid → List Uid := fun v => if (s.preds t).contains v then (s.succs v).filter (fun x => x != t) else s.succs v
  { s with preds := upd s.preds t l,
           succs := fun v => if l.contains v ∧ !(succs1 v).contains t then succs1 v ++ [t] else succs1 v }

def setPreds (s : G) (t : Uid) (l : List Uid) : G × Option Err :=
  match chkLinks s s.preds t l with
  | some e => (s, some e)
  | none => (mutPreds s t l, none)

def mutSuccs (s : G) (t : Uid) (l : List Uid) : G :=
  let preds1 : Uid → List Uid := fun v => if (s.succs t).contains v then (s.preds v).filter (fun x => x != t) else s.preds v
  { s with succs := upd s.succs t l,
           preds := fun v => if l.contains v ∧ !(preds1 v).contains t then preds1 v ++ [t] else preds1 v }

def setSuccs (s : G) (t : Uid) (l : List Uid) : G × Option Err :=
  match chkLinks s s.succs t l with
  | some e => (s, some e)
  | none => (mutSuccs s t l, none)

end Pj
