/-
  Model/Query.lean — `_ImmutableTaskList.__call__` with keyword filters (task.py:216-294): the filter chain is the
  table `Extracted.queryChain` that tools/extract.py translates from the source on every run; `holds` is *defined*
  from that table, so a change of a comparison operator, a slice length or the branch order changes the model.
-/
import PjVerif.Extracted.Query
namespace Pj

/-- `k.endswith(suffix)` / `k[0:-cut]` on the characters of the keyword -/
def endsWith (k suffix : List Char) : Bool := suffix.isSuffixOf k

def cutLast (k : List Char) (n : Nat) : List Char := k.take (k.length - n)

/-- first branch of the chain whose suffix matches: (attribute name, reject condition) -/
def parseKey (chain : List (String × Nat × RExpr)) (dflt : RExpr) (k : List Char) : List Char × RExpr :=
  match chain.find? (fun b => endsWith k b.1.toList) with
  | some b => (cutLast k b.2.1, b.2.2)
  | none => (k, dflt)

/-- one filter `keyword=value` against one task; `attr` is the task's attribute lookup
    (`__get_task_attribute`: parent id, id, the properties listed in `Extracted.querySpecial`, else `__dict__`) -/
def holds (re : String → String → Bool) (attr : List Char → Val) (k : List Char) (v : FVal) : Res Bool := do
  let (name, rej) := parseKey Extracted.queryChain Extracted.queryDefault k
  let r ← rej.eval re (attr name) v
  pure (!r)

/-- all filters, in keyword order; the first rejecting filter ends the evaluation (`return False`) -/
def holdsAll (re : String → String → Bool) (attr : List Char → Val) : List (List Char × FVal) → Res Bool
  | [] => pure true
  | (k, v) :: fs => do
    let h ← holds re attr k v
    if h then holdsAll re attr fs else pure false

/-- `[t for t in self if search(t, **kwargs)]`: positions of the selected tasks -/
def queryIdx (re : String → String → Bool) (attrs : List (List Char → Val)) (fs : List (List Char × FVal)) : Res (List Nat) :=
  (List.range attrs.length).foldlM (fun acc i => do
    let h ← holdsAll re (attrs.getD i (fun _ => .none)) fs
    pure (if h then acc ++ [i] else acc)) []

end Pj
