/-
  Model/Basic.lean — shared vocabulary of the executable model (core Lean only, no Mathlib).
-/
namespace Pj

/-- exception classes other than RuntimeError that the Python code can raise on the modelled paths -/
inductive Crash
  | index | value | stopIteration | key | type | zeroDivision | recursion | attribute | other
  deriving DecidableEq, Repr, Inhabited

/-- `runtime` = RuntimeError raised as a diagnosis; `crash k` = any other exception
    (RecursionError is a crash although Python files it under RuntimeError). -/
inductive Err
  | runtime
  | crash (k : Crash)
  deriving DecidableEq, Repr, Inhabited

abbrev Res (α : Type) := Except Err α

def Crash.name : Crash → String
  | .index => "IndexError" | .value => "ValueError" | .stopIteration => "StopIteration"
  | .key => "KeyError" | .type => "TypeError" | .zeroDivision => "ZeroDivisionError"
  | .recursion => "RecursionError" | .attribute => "AttributeError" | .other => "Other"

def Err.name : Err → String
  | .runtime => "runtime"
  | .crash k => "crash:" ++ k.name

/-- naive datetimes as rational days since 1970-01-01T00:00 -/
abbrev Time := Rat

def dayOf (t : Time) : Int := t.floor
/-- `datetime(d.year, d.month, d.day)` -/
def midnight (t : Time) : Time := (dayOf t : Rat)
/-- Python's `datetime.weekday()`: Monday = 0; 1970-01-01 was a Thursday -/
def weekday (t : Time) : Nat := ((dayOf t + 3) % 7).toNat

def Res.isOk {α} : Res α → Bool
  | .ok _ => true
  | .error _ => false

end Pj
