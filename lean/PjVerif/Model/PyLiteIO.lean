/-
  Model/PyLiteIO.lean — the I/O layer of PyLite (CSV tie: tools/extract_csv.py, Extracted/CsvSrc.lean, Lemmas/CsvSrc*.lean).
  NOTHING of Model/PyLite.lean is changed: no new constructor.  This file adds

  * strings WITH content: the atom `.str k` of a text `s : List Char` is `.str (strCode s)`, `strCode` an injective
    numbering (`strDecode_code`); Python `==` on two such atoms (`Atom.pyEq`) therefore is equality of the texts;
  * `IOLib` - the built-ins whose meaning is a PARAMETER: `str(x)` of a number, `strftime('%d.%m.%y')`,
    `strptime(s, '%d.%m.%y')`, `float(s)`, `int(s)`, `type(v).__name__`;
  * `ioPrim L` - the read-only primitives (`prim name args`): string literals (`lit:<text>`), `bool(x)`, `strlen`,
    `replace`, `split`, `join`, `startswith`, `str`, `strftime`, `strptime`, `float`, `int`, `isinstance_datetime`,
    `type_name`, `open` (the identity on the text), `csv.writerow` (the line the writer emits for a row = the model's
    `Csv.encodeRow` of the cells, `None` ↦ '', a `str` itself, `True` / `False`, a number through `str`), `rest` (an iterator
    after one `next`), and the object library: `__dict__` (the attribute names of an object in creation order; the
    property-backed / private slots of a `Task` appear under their mangled name `_Task__…`), `__getattribute__`, `dir`,
    `tasks` (`wbs.tasks`: depth first), `wbs_getitem` (`wbs[id]`: the first task with that id, RuntimeError when none);
  * `ioFn L` - the library functions that CHANGE the store, called as `callFn k args` with `k ≥ 100` (their arguments are
    VALUES): 100 `o.__setattr__(k, v)`, 101 `Task(id, name, resource, start, end, estimate, spent, milestone, min_start)`,
    102 `WBS()`, 103 `csv.reader(text, delimiter)` (the rows of the model's `Csv.parse`, each row a new list object =
    box; `csv.Error` is ValueError), 104 `p.children.append(t)`, 105 `t.parent = p`, 106 `wbs.roots.append(t)`,
    107 `t.predecessors.append(p)`;
  * `progIO` - the runner of a program over that library (as `progH`; a number outside the table is a library function).
  Convention (Model/PyLiteW.lean): `reads` is the allocation pointer.
-/
import PjVerif.Model.PyLite
import PjVerif.Model.CsvRec
namespace Pj.PyLite

/-! ### strings with content -/

def strBase : Nat := 1114113

def strCode : List Char → Nat
  | [] => 0
  | c :: cs => c.toNat + 1 + strBase * strCode cs

def strDecodeF : Nat → Nat → List Char
  | 0, _ => []
  | f + 1, n => if n = 0 then [] else Char.ofNat (n % strBase - 1) :: strDecodeF f (n / strBase)

def strDecode (n : Nat) : List Char := strDecodeF n n

/-- the atom of a text -/
def strA (s : List Char) : Atom := .str (strCode s)
/-- the atom of a literal -/
def litA (s : String) : Atom := strA s.toList

/-! ### the built-ins with a parametric meaning -/

structure IOLib where
  strNum : Rat → List Char
  strftime : Time → List Char
  strptime : List Char → Res Time
  toFloat : List Char → Res Rat
  toInt : List Char → Res Rat
  typeName : Atom → List Char

/-- the text the csv writer emits for a cell: `None` ↦ '', a `str` itself, anything else through `str` -/
def IOLib.cell (L : IOLib) : Atom → Res (List Char)
  | .none => pure []
  | .str k => pure (strDecode k)
  | .bool b => pure (if b then "True".toList else "False".toList)
  | .num q => pure (L.strNum q)
  | _ => throw stuck

def dateFormat : List Char := "%d.%m.%y".toList

/-! ### the object library -/

def hiddenSlots : List String := ["id", "estimate", "spent", "parent", "children", "predecessors", "successors"]

/-- names every `Task` has through its class (methods and properties) -/
def taskClassNames : List String :=
  ["all_children", "all_parents", "all_predecessors", "all_successors", "children", "clone", "estimate", "get_children",
   "get_parent", "get_predecessor", "get_successor", "id", "parent", "predecessors", "print", "spent", "successors",
   "to_dict", "wbs"]

def isTask (env : Env) : Bool := (env.get? "__task__").isSome

/-- `o.__dict__.keys()` -/
def dictNames (env : Env) : List String :=
  if isTask env then
    ((env.filter (fun p => p.1 != "__task__")).map (fun p => if hiddenSlots.contains p.1 then "_Task__" ++ p.1 else p.1))
  else env.map (·.1)

def nameA (s : String) : Atom := strA s.toList

def refsOf : Val → List Nat
  | .list vs => vs.filterMap (fun a => match a with | .ref i => some i | _ => Option.none)
  | _ => []

/-- depth-first enumeration through the `children` slots -/
def dfsHeap (heap : Nat → Env) : Nat → List Nat → List Nat
  | 0, _ => []
  | f + 1, l => l.flatMap (fun i => i :: dfsHeap heap f (refsOf (((heap i).get? "children").getD (.list []))))

def wbsTasks (st : PState) (w : Nat) : List Nat :=
  dfsHeap st.heap (st.reads + 1) (refsOf (((st.heap w).get? "roots").getD (.list [])))

def atomsOf (cells : List (List Char)) : List Atom := cells.map strA

def ioPrim (L : IOLib) : String → List Atom → PState → Res Val := fun name args st =>
  if name.startsWith "lit:" then pure (Val.atom (strA (name.toList.drop 4)))
  else if name = "bool" then
    match args with
    | [.none] => pure (Atom.bool false)
    | [.bool b] => pure (Atom.bool b)
    | [.num q] => pure (Atom.bool (!decide (q = 0)))
    | [.str k] => pure (Atom.bool (!decide (k = 0)))
    | [.ref _] => pure (Atom.bool true)
    | [.time _] => pure (Atom.bool true)
    | _ => throw stuck
  else if name = "strlen" then
    match args with
    | [.str k] => pure (Atom.num (((strDecode k).length : Nat) : Rat))
    | [.none] => throw (.crash .type)
    | _ => throw stuck
  else if name = "replace" then
    match args with
    | [.str k, .str a, .str b] =>
      match strDecode a, strDecode b with
      | [c], [] => pure (Val.atom (strA ((strDecode k).filter (fun x => x != c))))
      | _, _ => throw stuck
    | _ => throw stuck
  else if name = "split" then
    match args with
    | [.str k, .str a] =>
      match strDecode a with
      | [c] => pure (Val.list (atomsOf (Csv.splitOn c (strDecode k))))
      | _ => throw stuck
    | _ => throw stuck
  else if name = "join" then
    match args with
    | .str a :: items =>
      match strDecode a with
      | [c] =>
        if items.all (fun x => match x with | .str _ => true | _ => false) then
          pure (Val.atom (strA (Csv.joinWith c (items.map (fun x => match x with | .str k => strDecode k | _ => [])))))
        else throw (.crash .type)
      | _ => throw stuck
    | _ => throw stuck
  else if name = "startswith" then
    match args with
    | [.str k, .str a] => pure (Atom.bool ((strDecode a).isPrefixOf (strDecode k)))
    | _ => throw stuck
  else if name = "str" then
    match args with
    | [.str k] => pure (Val.atom (Atom.str k))
    | [.num q] => pure (Val.atom (strA (L.strNum q)))
    | _ => throw stuck
  else if name = "strftime" then
    match args with
    | [.time t, .str f] => if strDecode f = dateFormat then pure (Val.atom (strA (L.strftime t))) else throw stuck
    | _ => throw stuck
  else if name = "strptime" then
    match args with
    | [.str k, .str f] =>
      if strDecode f = dateFormat then (L.strptime (strDecode k)).map (fun t => Val.atom (Atom.time t)) else throw stuck
    | _ => throw stuck
  else if name = "float" then
    match args with
    | [.str k] => (L.toFloat (strDecode k)).map (fun q => Val.atom (Atom.num q))
    | _ => throw stuck
  else if name = "int" then
    match args with
    | [.str k] => (L.toInt (strDecode k)).map (fun q => Val.atom (Atom.num q))
    | _ => throw stuck
  else if name = "isinstance_datetime" then
    match args with
    | [.time _] => pure (Atom.bool true)
    | [.ref _] => throw stuck
    | [_] => pure (Atom.bool false)
    | _ => throw stuck
  else if name = "type_name" then
    match args with
    | [a] => pure (Val.atom (strA (L.typeName a)))
    | _ => throw stuck
  else if name = "open" then
    match args with
    | [.str k] => pure (Val.atom (Atom.str k))
    | _ => throw stuck
  else if name = "csv.writerow" then
    match args with
    | .str d :: cells =>
      if strDecode d = [Csv.delim] then do
        let cs ← cells.mapM L.cell
        pure (Val.atom (strA (Csv.encodeRow cs)))
      else throw stuck
    | _ => throw stuck
  else if name = "rest" then pure (Val.list args.tail)
  else if name = "__dict__" then
    match args with
    | [.ref i] => pure (Val.list ((dictNames (st.heap i)).map nameA))
    | _ => throw stuck
  else if name = "__getattribute__" then
    match args with
    | [.ref i, .str k] =>
      match (st.heap i).get? (String.ofList (strDecode k)) with
      | some v => pure v
      | Option.none => throw (.crash .attribute)
    | _ => throw stuck
  else if name = "dir" then
    match args with
    | [.ref i] => pure (Val.list ((((st.heap i).map (·.1)) ++ taskClassNames).map nameA))
    | _ => throw stuck
  else if name = "tasks" then
    match args with
    | [.ref w] => pure (Val.list ((wbsTasks st w).map Atom.ref))
    | _ => throw stuck
  else if name = "wbs_getitem" then
    match args with
    | [.ref w, k] =>
      match (wbsTasks st w).find? (fun i => match (st.heap i).get? "id" with
          | some (.atom a) => a.pyEq k
          | _ => false) with
      | some i => pure (Val.atom (Atom.ref i))
      | Option.none => throw .runtime
    | _ => throw stuck
  else throw stuck

/-! ### library functions that change the store -/

def allocRows : List (List (List Char)) → PState → List Atom × PState
  | [], st => ([], st)
  | r :: rs, st =>
    let b := Atom.box st.boxes.length
    let (bs, st') := allocRows rs { st with boxes := st.boxes ++ [atomsOf r] }
    (b :: bs, st')

def negNum : Val → Bool
  | .atom (.num q) => decide (q < 0)
  | _ => false

def listSlot (heap : Nat → Env) (i : Nat) (f : String) : List Atom :=
  match (heap i).get? f with
  | some (.list l) => l
  | _ => []

def setParent (st : PState) (t p : Nat) : PState :=
  let h0 := st.heap
  let h1 : Nat → Env := match (h0 t).get? "parent" with
    | some (.atom (.ref o)) => heapSet h0 o "children" (.list ((listSlot h0 o "children").filter (fun a => a != Atom.ref t)))
    | _ => h0
  let h2 := heapSet h1 p "children" (.list ((listSlot h1 p "children").filter (fun a => a != Atom.ref t) ++ [Atom.ref t]))
  { st with heap := heapSet h2 t "parent" (.atom (.ref p)) }

def ioFn (_L : IOLib) : Nat → List Val → PState → Res (Val × PState) := fun k args st =>
  if k = 100 then
    match args with
    | [.atom (.ref i), .atom (.str n), v] =>
      pure (Atom.none, { st with heap := heapSet st.heap i (String.ofList (strDecode n)) v })
    | _ => throw stuck
  else if k = 101 then
    match args with
    | [.atom id, .atom name, .atom resource, .atom start, .atom end_, .atom est, .atom spent, .atom ms, .atom minStart] =>
      if negNum (.atom est) || negNum (.atom spent) then throw .runtime
      else
        let o := st.reads
        let env : Env := [("__task__", .atom (.bool true)), ("id", .atom id), ("name", .atom name), ("resource", .atom resource),
          ("start", .atom start), ("end", .atom end_), ("milestone", .atom ms), ("estimate", .atom est), ("spent", .atom spent),
          ("parent", .atom .none), ("children", .list []), ("predecessors", .list []), ("successors", .list []),
          ("min_start", .atom minStart)]
        pure (Atom.ref o, { st with heap := fun j => if j = o then env else st.heap j, reads := o + 1 })
    | _ => throw stuck
  else if k = 102 then
    match args with
    | [] =>
      let o := st.reads
      pure (Atom.ref o, { st with heap := fun j => if j = o then [("__wbs__", .atom (.bool true)), ("roots", .list [])]
                                                  else st.heap j, reads := o + 1 })
    | _ => throw stuck
  else if k = 103 then
    match args with
    | [.atom (.str t), .atom (.str d)] =>
      if strDecode d = [Csv.delim] then
        match Csv.parse (strDecode t) with
        | some rows => let (bs, st') := allocRows rows st; pure (Val.list bs, st')
        | Option.none => throw (.crash .value)
      else throw stuck
    | _ => throw stuck
  else if k = 104 then
    match args with
    | [.atom (.ref p), .atom (.ref t)] => pure (Atom.none, setParent st t p)
    | _ => throw stuck
  else if k = 105 then
    match args with
    | [.atom (.ref t), .atom (.ref p)] => pure (Atom.none, setParent st t p)
    | _ => throw stuck
  else if k = 106 then
    match args with
    | [.atom (.ref w), .atom (.ref t)] =>
      pure (Atom.none, { st with heap := heapSet st.heap w "roots" (.list (listSlot st.heap w "roots" ++ [Atom.ref t])) })
    | _ => throw stuck
  else if k = 107 then
    match args with
    | [.atom (.ref t), .atom (.ref p)] =>
      let h1 := heapSet st.heap t "predecessors" (.list (listSlot st.heap t "predecessors" ++ [Atom.ref p]))
      pure (Atom.none, { st with heap := heapSet h1 p "successors" (.list (listSlot h1 p "successors" ++ [Atom.ref t])) })
    | _ => throw stuck
  else throw stuck

/-- handlers of a program over the library: `callFn k` with `tbl k = none` is the library function `k` -/
def progIO (prim : String → List Atom → PState → Res Val) (fnP : Nat → List Val → PState → Res (Val × PState))
    (tbl : FunTable) : Nat → PHandlers
  | 0 =>
    { clock := fun _ => 0
      call := fun _ _ _ => throw stuck
      newResource := fun _ => throw stuck
      prim := prim
      fnV := fun _ _ _ => throw (.crash .recursion) }
  | fuel + 1 =>
    { clock := fun _ => 0
      call := fun _ _ _ => throw stuck
      newResource := fun _ => throw stuck
      prim := prim
      fnV := fun k args st =>
        match tbl k with
        | some (params, body) => callPV (progIO prim fnP tbl fuel) params body args st
        | Option.none => fnP k args st }

def runIO (L : IOLib) (tbl : FunTable) (fuel : Nat) (k : Nat) (args : List Val) (st : PState) : Res (Val × PState) :=
  (progIO (ioPrim L) (ioFn L) tbl fuel).fnV k args st

end Pj.PyLite
