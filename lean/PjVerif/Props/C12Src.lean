/-
  Props/C12Src.lean — C12, source level: the translated critical_path.py computes the model's critical path (the lemma files import
  Props/C12.lean for `C12_total` / `C12_members`, hence a module of its own).
-/
import PjVerif.Lemmas.CritPathSrcD
namespace Pj
open CPEnv

/-! ### the tie of `WBS.critical_path()` / `CriticalPathCalculator` (alg/critical_path.py, the `end_date = None` path) to the current source,
    by translation (tools/extract_critpath.py → Extracted/CritPathSrc.lean, Lemmas/CritPathSrc*.lean).  The source builds an
    activity-on-arrow network of `_PNode` / `_PLink` objects and runs two memoised recursions over it; the model characterises the result
    directly (earliest finish, longest remaining tail).  So this is an algorithmic equivalence: `init_ok` (the network `__init__` builds),
    `lpF` / `ltF` (what `__forward` / `__backward` compute on it), then the theorems below. -/

/-- running the translated `WBS.critical_path()` on an acyclic WBS whose member leaves have pairwise different ids returns the model's
    critical tasks, each once, as a SET (the source lists them in insertion order of its `__links` dict - a depth-first post-order - the
    model in WBS order) - provided the source's float tolerance test `abs(r) <= 1e-9 * max(1.0, length)` agrees with the model's exact
    test `r = 0` on the leaves (`TolExact`) -/
theorem C12_source_critical_path (e : CPEnv) (tid : Uid → Int) (hid : CritPathSrc.IdInj e tid) (hdesc : CritPathSrc.DescOK e)
    (hac : acyclicB e = true) (htol : CritPathSrc.TolExact e) (F : Nat) (hF : 2 * e.n + 9 ≤ F) :
    ∃ (r l : List Uid), CritPathSrc.interpCriticalPath F e tid = .ok (TaskSrc.refs r) ∧ criticalPath e = .ok l ∧ r.Nodup ∧
      ∀ t, t ∈ r ↔ t ∈ l :=
  CritPathSrc.interpCriticalPath_set e tid hid hdesc hac htol F hF

/-- … a permutation of the model's list when the WBS lists every member once -/
theorem C12_source_critical_path_perm (e : CPEnv) (tid : Uid → Int) (hid : CritPathSrc.IdInj e tid) (hdesc : CritPathSrc.DescOK e)
    (hac : acyclicB e = true) (htol : CritPathSrc.TolExact e) (hmem : e.members.Nodup) (F : Nat) (hF : 2 * e.n + 9 ≤ F) :
    ∃ (r l : List Uid), CritPathSrc.interpCriticalPath F e tid = .ok (TaskSrc.refs r) ∧ criticalPath e = .ok l ∧ r.Perm l :=
  CritPathSrc.interpCriticalPath_perm e tid hid hdesc hac htol hmem F hF

/-- the grid form of the tolerance hypothesis: every length `max(estimate - spent, 0)` of a member leaf is a multiple of 1/8 and the
    project is shorter than 10^8 units -/
theorem C12_source_critical_path_grid (e : CPEnv) (tid : Uid → Int) (hid : CritPathSrc.IdInj e tid) (hdesc : CritPathSrc.DescOK e)
    (hac : acyclicB e = true) (hg : CritPathSrc.OnGrid e) (hlt : ∀ len, projectLen e = some len → len < 100000000)
    (F : Nat) (hF : 2 * e.n + 9 ≤ F) :
    ∃ (r l : List Uid), CritPathSrc.interpCriticalPath F e tid = .ok (TaskSrc.refs r) ∧ criticalPath e = .ok l ∧ r.Nodup ∧
      ∀ t, t ∈ r ↔ t ∈ l :=
  CritPathSrc.interpCriticalPath_grid e tid hid hdesc hac hg hlt F hF


end Pj
