/-
  Props/C12.lean — C12: critical_path returns exactly the zero-float leaves of the dependency network.
-/
import PjVerif.Lemmas.CritPath
namespace Pj
open CPEnv

/-- on an (effectively) acyclic WBS the call returns exactly the leaves whose earliest finish plus longest remaining
    tail equals the project length -/
theorem C12_exact (e : CPEnv) (l : List Uid) (h : criticalPath e = .ok l) :
    specCritical e = some l := by
  sorry

/-- … and it does return (no KeyError) whenever the leaf-level waits-for relation is acyclic -/
theorem C12_total (e : CPEnv) (ha : acyclicB e = true) : ∃ l, criticalPath e = .ok l := by
  sorry

/-- only leaf tasks of the WBS are returned, each at most once -/
theorem C12_members (e : CPEnv) (l : List Uid) (h : criticalPath e = .ok l) (hn : e.members.Nodup) :
    l.Nodup ∧ ∀ t ∈ l, t ∈ e.members ∧ e.isLeaf t = true := by
  sorry

/-- the result is never empty when the WBS has a leaf -/
theorem C12_nonempty (e : CPEnv) (l : List Uid) (h : criticalPath e = .ok l) (hl : leaves e ≠ []) : l ≠ [] := by
  sorry

/-- dependencies declared on summary tasks bind all their leaves: a leaf below a summary that has a predecessor
    waits for every leaf member below that predecessor -/
theorem C12_inherited (e : CPEnv) (t a p x : Uid) (ha : a ∈ t :: ancestors e (e.n + 1) t) (hp : p ∈ e.preds a)
    (hx : x = p ∨ ∃ d, descF e.children (e.n + 1) p = some d ∧ x ∈ d)
    (hl : e.isLeaf x = true) (hm : x ∈ e.members) : x ∈ prereqs e t := by
  sorry

end Pj
