/-
  Props/C12.lean — C12: critical_path returns exactly the zero-float leaves of the dependency network.
-/
import PjVerif.Lemmas.CritPath
namespace Pj
open CPEnv

/-- on an (effectively) acyclic WBS the call returns exactly the leaves whose earliest finish plus longest remaining
    tail equals the project length -/
theorem C12_exact (e : CPEnv) (l : List Uid) (h : criticalPath e = .ok l) :
    specCritical e = some l := by
  unfold criticalPath at h
  split at h
  · cases h
  · next len hlen =>
    split at h
    · cases h
    · next l' hl' =>
      cases h
      unfold specCritical
      rw [hlen]
      have hm := mapM_some_congr _ (fun t => do
          let f ← ef e t
          let tl ← tail e t
          pure (t, decide (f + tl = len))) _ _ ?_ hl'
      · simp only [bind, Option.bind] at hm ⊢
        rw [hm]; rfl
      · intro a _ b hb
        cases hf : ef e a with
        | none => simp [hf, bind] at hb
        | some f =>
          cases hv : lfF e len (e.n + 1) a with
          | none => simp [hf, hv, bind] at hb
          | some v =>
            have ht : tail e a = some (len - v) := tailF_of_lfF e len _ a v hv
            simp only [hf, hv, bind, Option.bind, pure, Option.some.injEq] at hb
            subst hb
            simp only [ht, bind, Option.bind, pure, Option.some.injEq, Prod.mk.injEq, true_and, decide_eq_decide]
            grind

/-- … and it does return (no KeyError) whenever the leaf-level waits-for relation is acyclic -/
theorem C12_total (e : CPEnv) (ha : acyclicB e = true) : ∃ l, criticalPath e = .ok l := by
  have hef : ∀ t ∈ leaves e, ∃ w, ef e t = some w := by
    intro t ht
    unfold acyclicB at ha
    exact Option.isSome_iff_exists.mp (List.all_eq_true.mp ha t ht)
  obtain ⟨efs, hefs⟩ := mapM_total (ef e) (leaves e) hef
  have hlen : projectLen e = some (efs.foldl max 0) := by
    unfold projectLen; rw [hefs]; rfl
  obtain ⟨l', hl'⟩ := mapM_total (fun t => do
      let f ← ef e t
      let l ← lfF e (efs.foldl max 0) (e.n + 1) t
      pure (t, decide (l - (f - e.dur t) - e.dur t = 0))) (leaves e) (by
    intro t ht
    obtain ⟨w, hw⟩ := hef t ht
    obtain ⟨v, hv⟩ := lfF_total e (efs.foldl max 0) ha t ht
    exact ⟨(t, decide (v - (w - e.dur t) - e.dur t = 0)), by simp only [hw, hv, bind, Option.bind, pure]⟩)
  refine ⟨(l'.filter (·.2)).map (·.1), ?_⟩
  unfold criticalPath
  simp only [hlen, hl']

/-- only leaf tasks of the WBS are returned, each at most once -/
theorem C12_members (e : CPEnv) (l : List Uid) (h : criticalPath e = .ok l) (hn : e.members.Nodup) :
    l.Nodup ∧ ∀ t ∈ l, t ∈ e.members ∧ e.isLeaf t = true := by
  unfold criticalPath at h
  split at h
  · cases h
  · next len hlen =>
    split at h
    · cases h
    · next l' hl' =>
      cases h
      have hfst : l'.map (·.1) = leaves e := by
        refine mapM_tag_fst _ _ _ ?_ hl'
        intro a _ b hb
        cases hf : ef e a with
        | none => simp [hf, bind] at hb
        | some f =>
          cases hv : lfF e len (e.n + 1) a with
          | none => simp [hf, hv, bind] at hb
          | some v =>
            simp only [hf, hv, bind, Option.bind, pure, Option.some.injEq] at hb
            subst hb; rfl
      have hsub : List.Sublist ((l'.filter (·.2)).map (·.1)) (leaves e) := by
        rw [← hfst]
        exact List.Sublist.map _ List.filter_sublist
      constructor
      · exact List.Nodup.sublist hsub (List.Nodup.sublist List.filter_sublist hn)
      · intro t ht
        have := hsub.subset ht
        unfold leaves at this
        exact List.mem_filter.mp this

/-- the result is never empty when the WBS has a leaf -/
theorem C12_nonempty (e : CPEnv) (l : List Uid) (h : criticalPath e = .ok l) (hl : leaves e ≠ []) : l ≠ [] := by
  unfold criticalPath at h
  split at h
  · cases h
  · next len hlen =>
    split at h
    · cases h
    · next l' hl' =>
      cases h
      obtain ⟨hall, hmax⟩ := projectLen_spec e len hlen
      obtain ⟨t, ht, heft⟩ := hmax hl
      obtain ⟨b, hb, hg⟩ := mapM_some_mem _ _ _ hl' t ht
      cases hv : lfF e len (e.n + 1) t with
      | none => simp [heft, hv, bind] at hg
      | some v =>
        simp only [heft, hv, bind, Option.bind, pure, Option.some.injEq] at hg
        have h1 := lfF_le_len e len _ t v hv
        have h2 := ef_le_lfF e len hall _ t ht v hv len heft
        have hz : v - (len - e.dur t) - e.dur t = 0 := by grind
        have hb2 : b.2 = true := by rw [← hg]; exact decide_eq_true hz
        have hmem : b.1 ∈ (l'.filter (·.2)).map (·.1) :=
          List.mem_map.mpr ⟨b, List.mem_filter.mpr ⟨hb, hb2⟩, rfl⟩
        intro hnil
        rw [hnil] at hmem
        cases hmem

/-- dependencies declared on summary tasks bind all their leaves: a leaf below a summary that has a predecessor
    waits for every leaf member below that predecessor -/
theorem C12_inherited (e : CPEnv) (t a p x : Uid) (ha : a ∈ t :: ancestors e (e.n + 1) t) (hp : p ∈ e.preds a)
    (hx : x = p ∨ ∃ d, descF e.children (e.n + 1) p = some d ∧ x ∈ d)
    (hl : e.isLeaf x = true) (hm : x ∈ e.members) : x ∈ prereqs e t := by
  unfold prereqs
  rw [List.mem_eraseDups, List.mem_filter]
  refine ⟨List.mem_flatMap.mpr ⟨p, List.mem_flatMap.mpr ⟨a, ha, hp⟩, ?_⟩, ?_⟩
  · rcases hx with rfl | ⟨d, hd, hxd⟩
    · exact List.mem_cons_self
    · rw [hd]; exact List.mem_cons_of_mem _ hxd
  · simp [hl, hm]

end Pj
