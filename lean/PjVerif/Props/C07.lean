/-
  Props/C07.lean — C07: every scheduled task has start ≤ end and summary tasks roll up their children.
-/
import PjVerif.Lemmas.SchedC07
import PjVerif.Lemmas.PassSrc
import PjVerif.Lemmas.PassSrcBwd
namespace Pj

/-- forward: summary start/end/estimate/spent are the roll-ups of the children whatever the user had put there;
    start ≤ end for every task when the user-fixed dates are consistent (a fixed end comes with a fixed start not
    after it) -/
theorem C07_forward (env : Env) (f0 : Uid → Fields) (res0 : List (Option Nat × Cal)) (o : Output)
    (hf : env.flagsOK) (hcons : consistentFixed env f0 = true) (h : forwardCalc env f0 res0 = .ok o) :
    c07StartLeEnd env o = true ∧ c07Rollup env o = true := by
  have := fwdRun_c07 env f0 res0 o (consistentFixed env f0 = true) hf id (forwardCalc_run env f0 res0 o h)
  exact ⟨this.2 hcons, this.1⟩

theorem C07_rollup_forward (env : Env) (f0 : Uid → Fields) (res0 : List (Option Nat × Cal)) (o : Output)
    (hf : env.flagsOK) (h : forwardCalc env f0 res0 = .ok o) : c07Rollup env o = true :=
  (fwdRun_c07 env f0 res0 o False hf False.elim (forwardCalc_run env f0 res0 o h)).1

theorem C07_backward (env : Env) (f0 : Uid → Fields) (res0 : List (Option Nat × Cal)) (o : Output)
    (hf : env.flagsOK) (h : backwardCalc env f0 res0 = .ok o) :
    c07StartLeEnd env o = true ∧ c07Rollup env o = true :=
  bwdRun_c07 env f0 res0 o hf (backwardCalc_run env f0 res0 o h)

/-- consequently `WBS.start` / `WBS.end` (earliest root start / latest root end, wbs.py:41-55) are the earliest
    start and the latest end over all tasks of the result (milestones are leaves) -/
theorem C07_wbs_start_end_forward (env : Env) (f0 : Uid → Fields) (res0 : List (Option Nat × Cal)) (o : Output)
    (hf : env.flagsOK) (h : forwardCalc env f0 res0 = .ok o)
    (hms : ∀ t ∈ memberList env, (env.info t).milestone = true → isLeaf env t = true) :
    minOpt (env.roots.filterMap (fun r => (o.f r).start)) = minOpt ((memberList env).filterMap (fun t => (o.f t).start)) ∧
    maxOpt (env.roots.filterMap (fun r => (o.f r).end_)) = maxOpt ((memberList env).filterMap (fun t => (o.f t).end_)) :=
  forwardCalc_wbs_start_end env f0 res0 o hf h hms

theorem C07_wbs_start_end_backward (env : Env) (f0 : Uid → Fields) (res0 : List (Option Nat × Cal)) (o : Output)
    (hf : env.flagsOK) (h : backwardCalc env f0 res0 = .ok o)
    (hms : ∀ t ∈ memberList env, (env.info t).milestone = true → isLeaf env t = true) :
    minOpt (env.roots.filterMap (fun r => (o.f r).start)) = minOpt ((memberList env).filterMap (fun t => (o.f t).start)) ∧
    maxOpt (env.roots.filterMap (fun r => (o.f r).end_)) = maxOpt ((memberList env).filterMap (fun t => (o.f t).end_)) :=
  backwardCalc_wbs_start_end env f0 res0 o hf h hms

/-! ### the tie of the recursive forward pass to the current source, by translation

`tools/extract_pass.py` translates `ForwardScheduler.__forward_pass` (schedule.py) into a PyLite term on every run
(Extracted/PassSrc.lean); a third evaluator of PyLite runs it on an object store: task attributes as mutable slots, the
`calculated` list, the resource table with `setdefault`, the scripted clock, the ledger, recursion with fuel; the two calls
of the inner-loop methods run the translated source of 12.6b.  The theorem: interpreting the translated method on the
encoding of a model state is the encoding of the model's `fwdPass` - unless the model run ends in RecursionError (fuel
exhausted or a task met again while in progress: a check Python does not have; excluded for real inputs by C14).  `ms` is
the tasks' own milestone flag; `hms` says the model's flag is the effective one (flagged and childless). -/

theorem C07_source_forward_pass (env : Env) (ms : Uid → Bool) (wfuel : Nat)
    (hms : ∀ u, (env.info u).milestone = (ms u && (env.info u).children.isEmpty))
    (hw : Extracted.fwdShiftMaxSteps < wfuel) (fuel fuel' : Nat) (hle : fuel ≤ fuel') (stk : List Uid) (σ : SS)
    (t : Uid) (minDate : Time) (hne : fwdPass env fuel stk σ t minDate ≠ .error (.crash .recursion)) :
    PassSrc.interpFwdPass env wfuel (PassSrc.calRef σ.res) fuel' (PassSrc.encS env ms σ) t minDate =
      (fwdPass env fuel stk σ t minDate).map (PassSrc.encS env ms) :=
  PassSrc.interpFwdPass_eq env ms wfuel hms hw fuel fuel' hle stk σ t minDate hne

/-- the translated `BackwardScheduler.__backward_pass` (Extracted/PassSrc.lean), interpreted on the encoding of a model state,
    is the encoding of the model's `bwdPass` - unless the model run ends in RecursionError (see `*_source_forward_pass`).
    `encSB` is `encS` with the tasks' successor lists. -/
theorem C07_source_backward_pass (env : Env) (ms : Uid → Bool) (wfuel : Nat)
    (hms : ∀ u, (env.info u).milestone = (ms u && (env.info u).children.isEmpty))
    (hw : Extracted.bwdShiftMaxSteps < wfuel) (fuel fuel' : Nat) (hle : fuel ≤ fuel') (stk : List Uid) (σ : SS)
    (t : Uid) (minDate : Time) (hne : bwdPass env fuel stk σ t minDate ≠ .error (.crash .recursion)) :
    PassSrcBwd.interpBwdPass env wfuel (PassSrc.calRef σ.res) fuel' (PassSrcBwd.encSB env ms σ) t minDate =
      (bwdPass env fuel stk σ t minDate).map (PassSrcBwd.encSB env ms) :=
  PassSrcBwd.interpBwdPass_eq env ms wfuel hms hw fuel fuel' hle stk σ t minDate hne

/-- the translated `__prepare_tasks` of both schedulers clear exactly what the model's `prepare` clears (the dates, estimate and
    spent a user had put on a summary task): `mem` = the members (`project.tasks`), `w` the WBS object -/
theorem C07_source_prepare (env : Env) (ms : Uid → Bool) (σ : SS) (w : Nat) (mem : List Uid) (hw : w ∉ mem) :
    PassSrcBwd.interpPrepare Extracted.src_Fwd_prepare (PassSrcBwd.wbsState (PassSrc.encS env ms σ) w mem) w =
      .ok (PassSrcBwd.wbsState (PassSrc.encS env ms { σ with f := prepare env σ.f mem }) w mem) ∧
    PassSrcBwd.interpPrepare Extracted.src_Bwd_prepare (PassSrcBwd.wbsState (PassSrcBwd.encSB env ms σ) w mem) w =
      .ok (PassSrcBwd.wbsState (PassSrcBwd.encSB env ms { σ with f := prepare env σ.f mem }) w mem) :=
  ⟨PassSrcBwd.interpFwdPrepare_eq env ms σ w mem hw, PassSrcBwd.interpBwdPrepare_eq env ms σ w mem hw⟩

end Pj
