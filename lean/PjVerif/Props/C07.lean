/-
  Props/C07.lean — C07: every scheduled task has start ≤ end and summary tasks roll up their children.
-/
import PjVerif.Lemmas.SchedC07
namespace Pj

/-- forward: summary start/end/estimate/spent are the roll-ups of the children whatever the user had put there;
    start ≤ end for every task when the user-fixed dates are consistent (a fixed end comes with a fixed start not
    after it) -/
theorem C07_forward (env : Env) (f0 : Uid → Fields) (res0 : List (Option Nat × Cal)) (o : Output)
    (hf : env.flagsOK) (hcons : consistentFixed env f0 = true) (h : forwardCalc env f0 res0 = .ok o) :
    c07StartLeEnd env o = true ∧ c07Rollup env o = true := by
  have := fwdRun_c07 env f0 res0 o (consistentFixed env f0 = true) hf id (forwardCalc_run env f0 res0 o h)
  exact ⟨this.2 hcons, this.1⟩

theorem C07_rollup_forward (env : Env) (f0 : Uid → Fields) (res0 : List (Option Nat × Cal)) (o : Output)
    (hf : env.flagsOK) (h : forwardCalc env f0 res0 = .ok o) : c07Rollup env o = true :=
  (fwdRun_c07 env f0 res0 o False hf False.elim (forwardCalc_run env f0 res0 o h)).1

theorem C07_backward (env : Env) (f0 : Uid → Fields) (res0 : List (Option Nat × Cal)) (o : Output)
    (hf : env.flagsOK) (h : backwardCalc env f0 res0 = .ok o) :
    c07StartLeEnd env o = true ∧ c07Rollup env o = true :=
  bwdRun_c07 env f0 res0 o hf (backwardCalc_run env f0 res0 o h)

/-- consequently `WBS.start` / `WBS.end` (earliest root start / latest root end, wbs.py:41-55) are the earliest
    start and the latest end over all tasks of the result (milestones are leaves) -/
theorem C07_wbs_start_end_forward (env : Env) (f0 : Uid → Fields) (res0 : List (Option Nat × Cal)) (o : Output)
    (hf : env.flagsOK) (h : forwardCalc env f0 res0 = .ok o)
    (hms : ∀ t ∈ memberList env, (env.info t).milestone = true → isLeaf env t = true) :
    minOpt (env.roots.filterMap (fun r => (o.f r).start)) = minOpt ((memberList env).filterMap (fun t => (o.f t).start)) ∧
    maxOpt (env.roots.filterMap (fun r => (o.f r).end_)) = maxOpt ((memberList env).filterMap (fun t => (o.f t).end_)) :=
  forwardCalc_wbs_start_end env f0 res0 o hf h hms

theorem C07_wbs_start_end_backward (env : Env) (f0 : Uid → Fields) (res0 : List (Option Nat × Cal)) (o : Output)
    (hf : env.flagsOK) (h : backwardCalc env f0 res0 = .ok o)
    (hms : ∀ t ∈ memberList env, (env.info t).milestone = true → isLeaf env t = true) :
    minOpt (env.roots.filterMap (fun r => (o.f r).start)) = minOpt ((memberList env).filterMap (fun t => (o.f t).start)) ∧
    maxOpt (env.roots.filterMap (fun r => (o.f r).end_)) = maxOpt ((memberList env).filterMap (fun t => (o.f t).end_)) :=
  backwardCalc_wbs_start_end env f0 res0 o hf h hms

end Pj
