/-
  Props/C03.lean — C03: schedules never over-allocate a resource.  The conclusions are the very Bool predicates the
  driver evaluates on the implementation's observations (Spec/Sched.lean).
-/
import PjVerif.Lemmas.SchedPass
namespace Pj

/-- every forward schedule, for every WBS, resource set, calendar, balance setting and clock: each usage row is a
    positive amount, booked on the resource named by its task, on a day for which that resource's calendar offers
    capacity, and the amounts booked on one resource on one day never exceed the day's capacity (all tasks together
    when balancing, each task separately otherwise) — independently of the order in which the pass visits tasks -/
theorem C03_forward (env : Env) (f0 : Uid → Fields) (res0 : List (Option Nat × Cal)) (o : Output)
    (h : forwardCalc env f0 res0 = .ok o) :
    c03Positive o = true ∧ c03OwnResource env o = true ∧ c03CapacityDay o = true ∧ c03NoOverAlloc env o = true := by
  exact forwardCalc_c03 env f0 res0 o h

theorem C03_backward (env : Env) (f0 : Uid → Fields) (res0 : List (Option Nat × Cal)) (o : Output)
    (h : backwardCalc env f0 res0 = .ok o) :
    c03Positive o = true ∧ c03OwnResource env o = true ∧ c03CapacityDay o = true ∧ c03NoOverAlloc env o = true := by
  exact backwardCalc_c03 env f0 res0 o h

/-- every resource named by a member task is present in the result: the supplied ones first, in the given order,
    then one default (Monday-Friday, 8 units: the extracted DEFAULT_CALENDAR) per missing name -/
theorem C03_resources_forward (env : Env) (f0 : Uid → Fields) (res0 : List (Option Nat × Cal)) (o : Output)
    (hf : env.flagsOK) (h : forwardCalc env f0 res0 = .ok o) : c03Resources env res0 o = true := by
  exact forwardCalc_c03Resources env f0 res0 o hf h

theorem C03_resources_backward (env : Env) (f0 : Uid → Fields) (res0 : List (Option Nat × Cal)) (o : Output)
    (hf : env.flagsOK) (h : backwardCalc env f0 res0 = .ok o) : c03Resources env res0 o = true := by
  exact backwardCalc_c03Resources env f0 res0 o hf h

/-- the default calendar really is Monday-Friday 8 (ties the extracted constants to the statement) -/
theorem C03_default_calendar :
    defaultCal = .weekly none none [8, 8, 8, 8, 8, 0, 0] := by
  rfl

end Pj
