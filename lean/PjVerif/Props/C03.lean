/-
  Props/C03.lean — C03: schedules never over-allocate a resource.  The conclusions are the very Bool predicates the
  driver evaluates on the implementation's observations (Spec/Sched.lean).
-/
import PjVerif.Lemmas.SchedPass
import PjVerif.Lemmas.ScheduleSrc
namespace Pj

/-- every forward schedule, for every WBS, resource set, calendar, balance setting and clock: each usage row is a
    positive amount, booked on the resource named by its task, on a day for which that resource's calendar offers
    capacity, and the amounts booked on one resource on one day never exceed the day's capacity (all tasks together
    when balancing, each task separately otherwise) — independently of the order in which the pass visits tasks -/
theorem C03_forward (env : Env) (f0 : Uid → Fields) (res0 : List (Option Nat × Cal)) (o : Output)
    (h : forwardCalc env f0 res0 = .ok o) :
    c03Positive o = true ∧ c03OwnResource env o = true ∧ c03CapacityDay o = true ∧ c03NoOverAlloc env o = true := by
  exact forwardCalc_c03 env f0 res0 o h

theorem C03_backward (env : Env) (f0 : Uid → Fields) (res0 : List (Option Nat × Cal)) (o : Output)
    (h : backwardCalc env f0 res0 = .ok o) :
    c03Positive o = true ∧ c03OwnResource env o = true ∧ c03CapacityDay o = true ∧ c03NoOverAlloc env o = true := by
  exact backwardCalc_c03 env f0 res0 o h

/-- every resource named by a member task is present in the result: the supplied ones first, in the given order,
    then one default (Monday-Friday, 8 units: the extracted DEFAULT_CALENDAR) per missing name -/
theorem C03_resources_forward (env : Env) (f0 : Uid → Fields) (res0 : List (Option Nat × Cal)) (o : Output)
    (hf : env.flagsOK) (h : forwardCalc env f0 res0 = .ok o) : c03Resources env res0 o = true := by
  exact forwardCalc_c03Resources env f0 res0 o hf h

theorem C03_resources_backward (env : Env) (f0 : Uid → Fields) (res0 : List (Option Nat × Cal)) (o : Output)
    (hf : env.flagsOK) (h : backwardCalc env f0 res0 = .ok o) : c03Resources env res0 o = true := by
  exact backwardCalc_c03Resources env f0 res0 o hf h

/-- the default calendar really is Monday-Friday 8 (ties the extracted constants to the statement) -/
theorem C03_default_calendar :
    defaultCal = .weekly none none [8, 8, 8, 8, 8, 0, 0] := by
  rfl

/-! ### the tie of the inner loops to the current source, by translation

`tools/extract_schedule.py` translates, on every run, `_ResourceUsage.reserved / reserve / __get_key` and the methods
`__get_resource_nearest_available_date` / `__shift_by_resource_usage_and_calendar` of both schedulers (schedule.py) into
PyLite terms (Extracted/ScheduleSrc.lean); calls that leave a method run the translated source of the callee (the ledger
methods, resource.py, calendar.py).  The theorems say that running the translated source on a ledger is the model's
function - with the model's `used` being what `reserved` returns on that ledger for the scheduler's balance setting - and
that the ledger afterwards is the old one plus the model's rows.  A semantic edit of those methods breaks these proofs. -/

/-- `_ResourceUsage.reserved(resource, date[, task])` as translated = the model's `reserved` -/
theorem C03_source_reserved (rows : List Row) (r : Option Nat) (d : Time) (t : Option Uid) :
    SchedSrc.interpReserved (rows.map SchedSrc.encRow) (.atom (.ref (SchedSrc.resRef r))) (.atom (.time d)) (SchedSrc.optRef t) =
      .ok (.atom (.num (reserved rows r (dayOf d) t))) :=
  SchedSrc.interpReserved_model rows r d t

/-- `_ResourceUsage.reserve(resource, date, task, units)` as translated appends the row of the day and returns `units` -/
theorem C03_source_reserve (rows : List Row) (r : Option Nat) (d : Time) (t : Uid) (u : Rat) :
    SchedSrc.interpReserve (rows.map SchedSrc.encRow) (.atom (.ref (SchedSrc.resRef r))) (.atom (.time d)) (.atom (.ref t)) (.atom (.num u)) =
      .ok (.atom (.num u), (rows ++ [({ res := r, day := dayOf d, task := t, units := u } : Row)]).map SchedSrc.encRow) :=
  SchedSrc.interpReserve_model rows r d t u

/-- forward `__get_resource_nearest_available_date` as translated = the model's `nearestFwd`; the ledger is not touched -/
theorem C03_source_nearest_forward (cal : Cal) (b : Bool) (rows : List Row) (r : Option Nat) (t : Uid) (start : Time) :
    SchedSrc.interpNearestFwd cal b (SchedSrc.resRef r) t (rows.map SchedSrc.encRow) start =
      (nearestFwd cal (SchedSrc.usedOf rows r t b) start).map (fun e => (e, rows.map SchedSrc.encRow)) :=
  SchedSrc.interpNearestFwd_eq cal b rows r t start

/-- forward `__shift_by_resource_usage_and_calendar` as translated = the model's `shiftFwd`, and the ledger afterwards is
    the old one followed by the model's rows -/
theorem C03_source_shift_forward (fuel : Nat) (cal : Cal) (b : Bool) (rows : List Row) (r : Option Nat) (t : Uid)
    (start : Time) (left : Rat) (hf : Extracted.fwdShiftMaxSteps < fuel) :
    SchedSrc.interpShiftFwd fuel cal b (SchedSrc.resRef r) t (rows.map SchedSrc.encRow) start left =
      (shiftFwd cal (SchedSrc.usedOf rows r t b) start left).map
        (fun p => (p.1, (rows ++ p.2.map (mkRow r t)).map SchedSrc.encRow)) :=
  SchedSrc.interpShiftFwd_eq fuel cal b rows r t start left hf

/-- backward `__get_resource_nearest_available_date` as translated = the model's `nearestBwd` -/
theorem C03_source_nearest_backward (cal : Cal) (b : Bool) (rows : List Row) (r : Option Nat) (t : Uid) (start : Time) :
    SchedSrc.interpNearestBwd cal b (SchedSrc.resRef r) t (rows.map SchedSrc.encRow) start =
      (nearestBwd cal (SchedSrc.usedOf rows r t b) start).map (fun e => (e, rows.map SchedSrc.encRow)) :=
  SchedSrc.interpNearestBwd_eq cal b rows r t start

/-- backward `__shift_by_resource_usage_and_calendar` as translated = the model's `shiftBwd` -/
theorem C03_source_shift_backward (fuel : Nat) (cal : Cal) (b : Bool) (rows : List Row) (r : Option Nat) (t : Uid)
    (end_ : Time) (left : Rat) (hf : Extracted.bwdShiftMaxSteps < fuel) :
    SchedSrc.interpShiftBwd fuel cal b (SchedSrc.resRef r) t (rows.map SchedSrc.encRow) end_ left =
      (shiftBwd cal (SchedSrc.usedOf rows r t b) end_ left).map
        (fun p => (p.1, (rows ++ p.2.map (mkRow r t)).map SchedSrc.encRow)) :=
  SchedSrc.interpShiftBwd_eq fuel cal b rows r t end_ left hf

end Pj
