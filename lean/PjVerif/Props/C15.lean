/-
  Props/C15.lean — C15: a rejected mutation changes nothing.
-/
import PjVerif.Lemmas.GraphInvStep
import PjVerif.Lemmas.TaskSrcD
namespace Pj

/-- partial: every mutator except the three element-wise list-level operations (`list << x`, `list >> x`, bulk
    attribute assignment on a task list, known finding G12) is atomic on every reachable state: if the call
    raises, the state is literally the one before the call. -/
theorem C15_partial (s : G) (op : Op) (hi : Inv s) (hl : op.legal s) (hne : op.elementwise = false)
    (he : (step s op).2 ≠ none) : (step s op).1 = s :=
  step_err_unchanged s op hi hl hne he

/-- the real content for multi-element arguments: once the children setter's up-front validation has passed,
    none of the inner parent-setter calls can raise -/
theorem C15_children_validated_no_inner_raise (s : G) (h : Uid) (l : List Uid) (hi : Inv s)
    (hv : ∀ v ∈ l, s.hidden v = false) (hh : h < s.n) (hl : ∀ v ∈ l, v < s.n)
    (hc : chkChildren s h l = none) : (setChildren s h l).2 = none :=
  setChildren_atomic s h l hi hv hh hl hc

/-- the full statement fails for the element-wise operations: `[t0, t1] << t0` sets `t1`… no: links `t0`'s
    element first.  Witness: universe of 2 tasks, `[t1, t0] << [t0]` appends `t0` to `t1`'s predecessors and then
    raises on `t0 << t0`. -/
theorem C15_full_fails :
    let s0 := fresh 2 (fun u => (u : Int))
    let op := Op.listLshift [1, 0] [0]
    (step s0 op).2 = some .runtime ∧ (step s0 op).1.preds 1 = [0] ∧ s0.preds 1 = [] := by
  decide

/-! ### the tie of the relation setters of `Task` to the current source, by translation (tools/extract_task.py → Extracted/TaskSrc.lean,
    Lemmas/TaskSrc*.lean): the statements above are about the model's `setParent` / `setPreds` / `setSuccs` / `setChildren`; these say that
    the model's functions are what the CURRENT task.py computes -/
/- (C15: for a rejected call the interpreter's result carries the error class only - that the store is left alone is a property of the
   model's setters, `C15_*` above, and of the correspondence stream; see Lemmas/TaskSrc.lean, limitation 1) -/

/-- running the translated `parent` setter (with `_find_root`, `_collect_subtree`, `_has_id_intersection`, `_linked_with_any`, `_attach`,
    `_detach`, `all_parents`, `all_children` as translated callees) on the encoding of a well-formed state gives the encoding of the
    model's new state when the model accepts and the model's error when it rejects - unless the model's fuel runs out -/
theorem C15_source_set_parent (s : G) (hw : WF s) (t : Uid) (p : Option Uid) (F : Nat) (hF : s.n + 6 ≤ F)
    (hrec : (setParent s t p).2 ≠ some (.crash .recursion)) :
    TaskSrc.interpSetParent F t p (TaskSrc.encSt s) = TaskSrc.setterResult (TaskSrc.encSt s) (setParent s t p) :=
  TaskSrc.interpSetParent_eq_wf s hw t p F hF hrec

/-- the translated `predecessors` / `successors` setters (validation loops, unlink loop, relink loop) are the model's `setPreds` /
    `setSuccs`, for every state (no well-formedness needed) and every admissible right-hand side (`ValueOf`: a list of tasks and
    `None`s, one task, `None`) -/
theorem C15_source_set_predecessors (s : G) (st : PyLite.PState) (hh : st.heap = TaskSrc.encHeap s) (t : Uid) (v : PyLite.Val)
    (l : List Uid) (hv : TaskSrc.ValueOf v l) (F : Nat) (hF : s.n + 4 ≤ F) (hrec : (setPreds s t l).2 ≠ some (.crash .recursion)) :
    TaskSrc.interpSetPreds F t v st = TaskSrc.setterResult st (setPreds s t l) :=
  TaskSrc.interpSetPreds_eq s st hh t v l hv F hF hrec

theorem C15_source_set_successors (s : G) (st : PyLite.PState) (hh : st.heap = TaskSrc.encHeap s) (t : Uid) (v : PyLite.Val)
    (l : List Uid) (hv : TaskSrc.ValueOf v l) (F : Nat) (hF : s.n + 4 ≤ F) (hrec : (setSuccs s t l).2 ≠ some (.crash .recursion)) :
    TaskSrc.interpSetSuccs F t v st = TaskSrc.setterResult st (setSuccs s t l) :=
  TaskSrc.interpSetSuccs_eq s st hh t v l hv F hF hrec

/-- the translated `children` setter (validations, release of the old children, the loop of `v.parent = self` assignments - each
    running the translated `parent` setter on an intermediate state) is the model's `setChildren`, for every state -/
theorem C15_source_set_children (s : G) (st : PyLite.PState) (hh : st.heap = TaskSrc.encHeap s) (h : Uid) (v : PyLite.Val)
    (l : List Uid) (hv : TaskSrc.ValueOf v l) (F : Nat) (hF : s.n + 6 ≤ F) (hrec : (setChildren s h l).2 ≠ some (.crash .recursion)) :
    TaskSrc.interpSetChildren F h v st = TaskSrc.setterResult st (setChildren s h l) :=
  TaskSrc.interpSetChildren_eq s st hh h v l hv F hF hrec

end Pj
