/-
  Props/C15.lean — C15: a rejected mutation changes nothing.
-/
import PjVerif.Lemmas.GraphInvStep
namespace Pj

/-- partial: every mutator except the three element-wise list-level operations (`list << x`, `list >> x`, bulk
    attribute assignment on a task list, known finding G12) is atomic on every reachable state: if the call
    raises, the state is literally the one before the call. -/
theorem C15_partial (s : G) (op : Op) (hi : Inv s) (hl : op.legal s) (hne : op.elementwise = false)
    (he : (step s op).2 ≠ none) : (step s op).1 = s :=
  step_err_unchanged s op hi hl hne he

/-- the real content for multi-element arguments: once the children setter's up-front validation has passed,
    none of the inner parent-setter calls can raise -/
theorem C15_children_validated_no_inner_raise (s : G) (h : Uid) (l : List Uid) (hi : Inv s)
    (hv : ∀ v ∈ l, s.hidden v = false) (hh : h < s.n) (hl : ∀ v ∈ l, v < s.n)
    (hc : chkChildren s h l = none) : (setChildren s h l).2 = none :=
  setChildren_atomic s h l hi hv hh hl hc

/-- the full statement fails for the element-wise operations: `[t0, t1] << t0` sets `t1`… no: links `t0`'s
    element first.  Witness: universe of 2 tasks, `[t1, t0] << [t0]` appends `t0` to `t1`'s predecessors and then
    raises on `t0 << t0`. -/
theorem C15_full_fails :
    let s0 := fresh 2 (fun u => (u : Int))
    let op := Op.listLshift [1, 0] [0]
    (step s0 op).2 = some .runtime ∧ (step s0 op).1.preds 1 = [0] ∧ s0.preds 1 = [] := by
  decide

end Pj
