/-
  Props/C15.lean — C15: a rejected mutation changes nothing.
-/
import PjVerif.Lemmas.GraphInvStep
import PjVerif.Lemmas.TaskSrcD
import PjVerif.Lemmas.FacadeSrcD
namespace Pj

/-- partial: every mutator except the three element-wise list-level operations (`list << x`, `list >> x`, bulk
    attribute assignment on a task list, known finding G12) is atomic on every reachable state: if the call
    raises, the state is literally the one before the call. -/
theorem C15_partial (s : G) (op : Op) (hi : Inv s) (hl : op.legal s) (hne : op.elementwise = false)
    (he : (step s op).2 ≠ none) : (step s op).1 = s :=
  step_err_unchanged s op hi hl hne he

/-- the real content for multi-element arguments: once the children setter's up-front validation has passed,
    none of the inner parent-setter calls can raise -/
theorem C15_children_validated_no_inner_raise (s : G) (h : Uid) (l : List Uid) (hi : Inv s)
    (hv : ∀ v ∈ l, s.hidden v = false) (hh : h < s.n) (hl : ∀ v ∈ l, v < s.n)
    (hc : chkChildren s h l = none) : (setChildren s h l).2 = none :=
  setChildren_atomic s h l hi hv hh hl hc

/-- the full statement fails for the element-wise operations: `[t0, t1] << t0` sets `t1`… no: links `t0`'s
    element first.  Witness: universe of 2 tasks, `[t1, t0] << [t0]` appends `t0` to `t1`'s predecessors and then
    raises on `t0 << t0`. -/
theorem C15_full_fails :
    let s0 := fresh 2 (fun u => (u : Int))
    let op := Op.listLshift [1, 0] [0]
    (step s0 op).2 = some .runtime ∧ (step s0 op).1.preds 1 = [0] ∧ s0.preds 1 = [] := by
  decide

/-! ### the tie of the relation setters of `Task` to the current source, by translation (tools/extract_task.py → Extracted/TaskSrc.lean,
    Lemmas/TaskSrc*.lean): the statements above are about the model's `setParent` / `setPreds` / `setSuccs` / `setChildren`; these say that
    the model's functions are what the CURRENT task.py computes -/
/- (C15: for a rejected call the interpreter's result carries the error class only - that the store is left alone is a property of the
   model's setters, `C15_*` above, and of the correspondence stream; see Lemmas/TaskSrc.lean, limitation 1) -/

/-- running the translated `parent` setter (with `_find_root`, `_collect_subtree`, `_has_id_intersection`, `_linked_with_any`, `_attach`,
    `_detach`, `all_parents`, `all_children` as translated callees) on the encoding of a well-formed state gives the encoding of the
    model's new state when the model accepts and the model's error when it rejects - unless the model's fuel runs out -/
theorem C15_source_set_parent (s : G) (hw : WF s) (t : Uid) (p : Option Uid) (F : Nat) (hF : s.n + 6 ≤ F)
    (hrec : (setParent s t p).2 ≠ some (.crash .recursion)) :
    TaskSrc.interpSetParent F t p (TaskSrc.encSt s) = TaskSrc.setterResult (TaskSrc.encSt s) (setParent s t p) :=
  TaskSrc.interpSetParent_eq_wf s hw t p F hF hrec

/-- the translated `predecessors` / `successors` setters (validation loops, unlink loop, relink loop) are the model's `setPreds` /
    `setSuccs`, for every state (no well-formedness needed) and every admissible right-hand side (`ValueOf`: a list of tasks and
    `None`s, one task, `None`) -/
theorem C15_source_set_predecessors (s : G) (st : PyLite.PState) (hh : st.heap = TaskSrc.encHeap s) (t : Uid) (v : PyLite.Val)
    (l : List Uid) (hv : TaskSrc.ValueOf v l) (F : Nat) (hF : s.n + 4 ≤ F) (hrec : (setPreds s t l).2 ≠ some (.crash .recursion)) :
    TaskSrc.interpSetPreds F t v st = TaskSrc.setterResult st (setPreds s t l) :=
  TaskSrc.interpSetPreds_eq s st hh t v l hv F hF hrec

theorem C15_source_set_successors (s : G) (st : PyLite.PState) (hh : st.heap = TaskSrc.encHeap s) (t : Uid) (v : PyLite.Val)
    (l : List Uid) (hv : TaskSrc.ValueOf v l) (F : Nat) (hF : s.n + 4 ≤ F) (hrec : (setSuccs s t l).2 ≠ some (.crash .recursion)) :
    TaskSrc.interpSetSuccs F t v st = TaskSrc.setterResult st (setSuccs s t l) :=
  TaskSrc.interpSetSuccs_eq s st hh t v l hv F hF hrec

/-- the translated `children` setter (validations, release of the old children, the loop of `v.parent = self` assignments - each
    running the translated `parent` setter on an intermediate state) is the model's `setChildren`, for every state -/
theorem C15_source_set_children (s : G) (st : PyLite.PState) (hh : st.heap = TaskSrc.encHeap s) (h : Uid) (v : PyLite.Val)
    (l : List Uid) (hv : TaskSrc.ValueOf v l) (F : Nat) (hF : s.n + 6 ≤ F) (hrec : (setChildren s h l).2 ≠ some (.crash .recursion)) :
    TaskSrc.interpSetChildren F h v st = TaskSrc.setterResult st (setChildren s h l) :=
  TaskSrc.interpSetChildren_eq s st hh h v l hv F hF hrec

/-! ### the tie of the list façades of task.py (`_ChildrenList`, `_PredecessorsList`, `_SuccessorsList`, the operators, the list-level
    operations) to the current source, by translation (tools/extract_facade.py → Extracted/FacadeSrc.lean, Lemmas/FacadeSrc*.lean): 17 further
    functions of the program of task.py; the setter theorems of Lemmas/TaskSrc*.lean lift to the extended program by `progH_mono` -/

/-- the three element-wise list-level operations (the operations of the known findings KF-G12a/b/c) are, in the current source, what the
    model's `step` says: the setter applied element by element -/
theorem C15_source_list_lshift (s : G) (st : PyLite.PState) (hh : st.heap = TaskSrc.encHeap s) (ts : List Uid) (v : PyLite.Val) (l : List Uid)
    (hv : TaskSrc.ValueOf v l) (F : Nat) (hF : s.n + 6 ≤ F) (hrec : (step s (.listLshift ts l)).2 ≠ some (.crash .recursion)) :
    FacadeSrc.interpListLshift F ts v st = FacadeSrc.opResult st v (step s (.listLshift ts l)) :=
  FacadeSrc.interpListLshift_eq s st hh ts v l hv F hF hrec

theorem C15_source_list_rshift (s : G) (st : PyLite.PState) (hh : st.heap = TaskSrc.encHeap s) (ts : List Uid) (v : PyLite.Val) (l : List Uid)
    (hv : TaskSrc.ValueOf v l) (F : Nat) (hF : s.n + 6 ≤ F) (hrec : (step s (.listRshift ts l)).2 ≠ some (.crash .recursion)) :
    FacadeSrc.interpListRshift F ts v st = FacadeSrc.opResult st v (step s (.listRshift ts l)) :=
  FacadeSrc.interpListRshift_eq s st hh ts v l hv F hF hrec

theorem C15_source_list_set_parent (s : G) (st : PyLite.PState) (hh : st.heap = TaskSrc.encHeap s) (hi : Inv s) (ts : List Uid) (p : Option Uid)
    (hvis : ∀ t ∈ ts, s.hidden t = false) (hts : ∀ t ∈ ts, t < s.n) (hp : ∀ q, p = some q → q < s.n) (F : Nat)
    (hF : s.n + 7 ≤ F) (hrec : (step s (.listSetParent ts p)).2 ≠ some (.crash .recursion)) :
    FacadeSrc.interpListSetParent F ts p st = FacadeSrc.opResult st (.atom .none) (step s (.listSetParent ts p)) :=
  FacadeSrc.interpListSetParent_eq s st hh hi ts p hvis hts hp F hF hrec

/-- `None` as the task argument of `remove` / `insert` / `append` of the three façades is refused with RuntimeError in every state -/
theorem C15_source_none_argument_refused (st : PyLite.PState) (F : Nat) (hF : 2 ≤ F) (o i : PyLite.Val) :
    FacadeSrc.interpF FacadeSrc.noLib F Extracted.Facade.fn_ChildrenList_remove [o, .atom .none] st = .error .runtime ∧
    FacadeSrc.interpF FacadeSrc.noLib F Extracted.Facade.fn_ChildrenList_insert [o, i, .atom .none] st = .error .runtime ∧
    FacadeSrc.interpF FacadeSrc.noLib F Extracted.fn_ChildrenList_append [o, .atom .none] st = .error .runtime ∧
    FacadeSrc.interpF FacadeSrc.noLib F Extracted.Facade.fn_PredecessorsList_append [o, .atom .none] st = .error .runtime ∧
    FacadeSrc.interpF FacadeSrc.noLib F Extracted.Facade.fn_PredecessorsList_remove [o, .atom .none] st = .error .runtime ∧
    FacadeSrc.interpF FacadeSrc.noLib F Extracted.Facade.fn_SuccessorsList_append [o, .atom .none] st = .error .runtime ∧
    FacadeSrc.interpF FacadeSrc.noLib F Extracted.Facade.fn_SuccessorsList_remove [o, .atom .none] st = .error .runtime :=
  FacadeSrc.interpNoneArg_eq st F hF o i

end Pj
