/-
  Props/C14.lean — C14: calc terminates with a schedule or a RuntimeError diagnosis.
  In the model non-termination is impossible (every loop has fuel) and every Python exception class has a constructor,
  so the property reads: the outcome is `ok` or `error runtime`, never `error (crash …)` — RecursionError (fuel
  exhausted / a task met again while it is in progress), KeyError, TypeError, ZeroDivisionError, ValueError.
-/
import PjVerif.Lemmas.SchedC14
import PjVerif.Lemmas.CalcSrc
namespace Pj

/-- structural invariants of the WBS handed to `calc` (what C01/C05/C11 guarantee for every reachable graph), in the
    vocabulary of the scheduling environment -/
structure EnvWF (env : Env) : Prop where
  /-- every uid mentioned anywhere is one of the `n` objects -/
  rootsLt : ∀ r ∈ env.roots, r < env.n
  childLt : ∀ a c, c ∈ (env.info a).children → c < env.n
  predLt : ∀ a p, p ∈ (env.info a).preds → p < env.n
  succLt : ∀ a p, p ∈ (env.info a).succs → p < env.n
  /-- the hierarchy is a forest stored on both ends; roots have no parent -/
  parentIff : ∀ c p, (env.info c).parent = some p ↔ c ∈ (env.info p).children
  childrenNodup : ∀ p, (env.info p).children.Nodup
  rootsNodup : env.roots.Nodup
  rootsTop : ∀ r ∈ env.roots, (env.info r).parent = none
  forest : ∀ x, ¬ TC (fun a b => b ∈ (env.info a).children) x x
  /-- links are symmetric and acyclic, and never connect a task with its own ancestor or descendant -/
  sym : ∀ a b, a ∈ (env.info b).preds ↔ b ∈ (env.info a).succs
  dag : ∀ x, ¬ TC (fun a b => a ∈ (env.info b).preds) x x
  noAncDep : ∀ a b, a ∈ (env.info b).preds →
    ¬ TC (fun x y => y ∈ (env.info x).children) a b ∧ ¬ TC (fun x y => y ∈ (env.info x).children) b a
  flags : env.flagsOK

/-- no calendar query raises (excludes division by a calendar whose value is 0, which C17 leaves undefined) -/
def CalsTotal (res0 : List (Option Nat × Cal)) : Prop :=
  ∀ p ∈ res0, ∀ t, ∃ v, capR p.2 t = .ok v

theorem EnvWF.toWFE {env : Env} (hw : EnvWF env) : WFE env :=
  ⟨hw.rootsLt, hw.childLt, hw.predLt, hw.succLt, hw.parentIff, hw.childrenNodup, hw.rootsNodup, hw.rootsTop,
    hw.forest, hw.sym, hw.dag, hw.noAncDep, hw.flags⟩

theorem CalsTotal.toCalsOK {res0 : List (Option Nat × Cal)} (hc : CalsTotal res0) : CalsOK res0 :=
  fun p hp t => hc p hp t

theorem C14_forward (env : Env) (f0 : Uid → Fields) (res0 : List (Option Nat × Cal))
    (hw : EnvWF env) (hc : CalsTotal res0) : c14Outcome (forwardCalc env f0 res0) = true :=
  c14Outcome_of_nocrash _ (forwardCalc_nocrash env f0 res0 hw.toWFE hc.toCalsOK)

theorem C14_backward (env : Env) (f0 : Uid → Fields) (res0 : List (Option Nat × Cal))
    (hw : EnvWF env) (hc : CalsTotal res0) : c14Outcome (backwardCalc env f0 res0) = true :=
  c14Outcome_of_nocrash _ (backwardCalc_nocrash env f0 res0 hw.toWFE hc.toCalsOK)

/-- the unschedulable classes are diagnosed: a predecessor outside the WBS without both dates, a fixed end in the
    future (forward), a dependency cycle that closes through the hierarchy ⇒ RuntimeError -/
theorem C14_diagnoses_forward (env : Env) (f0 : Uid → Fields) (res0 : List (Option Nat × Cal))
    (hw : EnvWF env) (hc : CalsTotal res0) (hd : c14MustDiagnose env f0 true = true) :
    forwardCalc env f0 res0 = .error .runtime :=
  have _ := hc  -- the diagnosis is made by the pre-check, before any calendar is consulted
  forwardCalc_diagnoses env f0 res0 hw.toWFE hd

theorem C14_diagnoses_backward (env : Env) (f0 : Uid → Fields) (res0 : List (Option Nat × Cal))
    (hw : EnvWF env) (hc : CalsTotal res0) (hd : c14MustDiagnose env f0 false = true) :
    backwardCalc env f0 res0 = .error .runtime :=
  have _ := hc
  backwardCalc_diagnoses env f0 res0 hw.toWFE hd

/-- a resource that never becomes available within the horizon ⇒ RuntimeError from the availability search
    (forward: nothing on or after the start day; backward: nothing before the end day) -/
theorem C14_dead_resource_forward (cal : Cal) (used : Int → Rat) (start : Time)
    (hdead : ∀ k : Nat, k < Extracted.maxDays → ∃ c, capR cal (midnight start + (k : Rat)) = .ok c ∧ c ≤ 0) :
    nearestFwd cal used start = .error .runtime :=
  nearestFwd_dead cal used start hdead

theorem C14_dead_resource_backward (cal : Cal) (used : Int → Rat) (start : Time)
    (hdead : ∀ k : Nat, k < Extracted.maxDays → ∃ c, capR cal (midnight start - (k : Rat) - 1) = .ok c ∧ c ≤ 0) :
    nearestBwd cal used start = .error .runtime :=
  nearestBwd_dead cal used start hdead

/-- the DFS pre-check is sound: when it passes, the relation it walked has no cycle through any task it started
    from — the fact the "no unbounded recursion" argument rests on -/
theorem C14_loopsFrom_sound (next : Uid → List Uid) (fuel : Nat) (starts : List Uid) (val : List Uid)
    (h : starts.foldlM (fun v t => loopsFrom next fuel [] v t) [] = .ok val) :
    ∀ t ∈ starts, ¬ TC (fun a b => b ∈ next a) t t :=
  loopsFrom_sound next fuel starts val h

/-! ### the tie of the pre-checks and of `calc` to the current source, by translation (tools/extract_calc.py, Lemmas/CalcSrc.lean) -/

/-- the translated `_check_loops` (both passes of the depth-first search, with its in-progress list, its validated set and the
    function-valued `waits_for` parameter) is the model's `checkLoops` - unless the model's fuel runs out -/
theorem C14_source_check_loops (env : Env) (ms : Uid → Bool) (mem : List Uid) (w : Nat)
    {E : TaskInfo → Bool → Fields → PyLite.Env} (hE : CalcSrc.CalcEnc E) (f : Uid → Fields) (st : PyLite.PState)
    (hh : st.heap = PassSrcBwd.heapOf E env ms f) (fuel' : Nat) (hf : env.n + 2 ≤ fuel')
    (hne : checkLoops env mem ≠ .error (.crash .recursion)) :
    CalcSrc.unit (CalcSrc.interpCheckLoops env mem w fuel' [.ref w] st) = checkLoops env mem :=
  CalcSrc.interpCheckLoops_eq env ms mem w hE f st hh fuel' hf hne

/-- the translated `_validate_graph_isolation` raises RuntimeError exactly when the model's `isolationOk` is false -/
theorem C14_source_isolation (env : Env) (ms : Uid → Bool) (mem : List Uid) (w : Nat)
    {E : TaskInfo → Bool → Fields → PyLite.Env} (hE : CalcSrc.CalcEnc E) (f : Uid → Fields) (st : PyLite.PState)
    (hh : st.heap = PassSrcBwd.heapOf E env ms f) :
    CalcSrc.interpIsolation env mem w [.ref w] st =
      if isolationOk env f mem = true then
        .ok (.atom .none, { st with boxes := st.boxes ++ [mem.map CalcSrc.idA] })
      else .error .runtime :=
  CalcSrc.interpIsolation_eq env ms mem w hE f st hh

/-- the translated `_waits_for` is the model's `waitsFor` (own and inherited predecessors, expanded to leaves) -/
theorem C14_source_waits_for (env : Env) (ms : Uid → Bool) (mem : List Uid) (w : Nat)
    {E : TaskInfo → Bool → Fields → PyLite.Env} (hE : CalcSrc.CalcEnc E) (f : Uid → Fields) (st : PyLite.PState)
    (hh : st.heap = PassSrcBwd.heapOf E env ms f) (t : Uid) :
    CalcSrc.interpWaitsFor env mem w [.ref t] st = .ok (.list ((waitsFor env t).map PyLite.Atom.ref), st) :=
  CalcSrc.interpWaitsFor_eq env ms mem w hE f st hh t

/-- the translated `ForwardScheduler.calc` (validation, loop check, future-end check, clone, prepare, the pass over the roots; every
    call runs the translated source of its callee down to calendar.py) is the model's `forwardCalc`, errors included - unless the model
    ends in RecursionError (excluded for inputs that pass the pre-checks, C14).  `mem` = `WBS.tasks`, `w` the WBS object, `B0` the
    store of list/set containers, `hms` the effective-milestone encoding. -/
theorem C14_source_calc_forward (env : Env) (ms : Uid → Bool) (mem : List Uid) (w : Nat)
    (hmem : members env = some mem)
    (hms : ∀ u, (env.info u).milestone = (ms u && (env.info u).children.isEmpty))
    (fuel wfuel pfuel : Nat) (hf : env.n + 2 ≤ fuel) (hw : Extracted.fwdShiftMaxSteps < wfuel) (hp : env.n + 1 ≤ pfuel)
    (f0 : Uid → Fields) (res0 : List (Option Nat × Cal)) (rows0 : List Row) (done0 : List Uid) (B0 : List (List PyLite.Atom))
    (hne : forwardCalc env f0 res0 ≠ .error (.crash .recursion)) :
    match forwardCalc env f0 res0 with
    | .ok out => ∃ σ B, CalcSrc.interpFwdCalc env mem w fuel wfuel (PassSrc.calRef res0) pfuel
          (CalcSrc.wb (PassSrc.encS env ms { f := f0, rows := rows0, done := done0, res := res0, reads := 0 }) B0) =
          .ok (.atom (.ref w), CalcSrc.wb (PassSrc.encS env ms σ) B) ∧ out = { f := σ.f, rows := σ.rows, res := σ.res }
    | .error e => CalcSrc.interpFwdCalc env mem w fuel wfuel (PassSrc.calRef res0) pfuel
          (CalcSrc.wb (PassSrc.encS env ms { f := f0, rows := rows0, done := done0, res := res0, reads := 0 }) B0) = .error e :=
  CalcSrc.interpFwdCalc_eq env ms mem w hmem hms fuel wfuel pfuel hf hw hp f0 res0 rows0 done0 B0 hne

/-- the same for `BackwardScheduler.calc` and `backwardCalc` -/
theorem C14_source_calc_backward (env : Env) (ms : Uid → Bool) (mem : List Uid) (w : Nat)
    (hmem : members env = some mem)
    (hms : ∀ u, (env.info u).milestone = (ms u && (env.info u).children.isEmpty))
    (fuel wfuel pfuel : Nat) (hf : env.n + 2 ≤ fuel) (hw : Extracted.bwdShiftMaxSteps < wfuel) (hp : env.n + 1 ≤ pfuel)
    (f0 : Uid → Fields) (res0 : List (Option Nat × Cal)) (rows0 : List Row) (done0 : List Uid) (B0 : List (List PyLite.Atom))
    (hne : backwardCalc env f0 res0 ≠ .error (.crash .recursion)) :
    match backwardCalc env f0 res0 with
    | .ok out => ∃ σ B, CalcSrc.interpBwdCalc env mem w fuel wfuel (PassSrc.calRef res0) pfuel
          (CalcSrc.wb (PassSrcBwd.encSB env ms { f := f0, rows := rows0, done := done0, res := res0, reads := 0 }) B0) =
          .ok (.atom (.ref w), CalcSrc.wb (PassSrcBwd.encSB env ms σ) B) ∧ out = { f := σ.f, rows := σ.rows, res := σ.res }
    | .error e => CalcSrc.interpBwdCalc env mem w fuel wfuel (PassSrc.calRef res0) pfuel
          (CalcSrc.wb (PassSrcBwd.encSB env ms { f := f0, rows := rows0, done := done0, res := res0, reads := 0 }) B0) = .error e :=
  CalcSrc.interpBwdCalc_eq env ms mem w hmem hms fuel wfuel pfuel hf hw hp f0 res0 rows0 done0 B0 hne

end Pj
