/-
  Props/C09.lean — C09: backward schedules meet deadline and dependencies, as late as capacity allows.
  PARTIAL for the dependency and late-packing clauses (no links on tasks that have children, finding KF-S2-C09);
  deadline and date encoding are proved for every WBS without user-fixed dates.
-/
import PjVerif.Lemmas.SchedC09
import PjVerif.Props.Witness
import PjVerif.Lemmas.ScheduleSrc
import PjVerif.Lemmas.PassSrcBwd
namespace Pj

/-- no task ends after the requested project end -/
theorem C09_deadline (env : Env) (f0 : Uid → Fields) (res0 : List (Option Nat × Cal)) (o : Output)
    (hf : env.flagsOK) (hn : noFixedDates env f0 = true) (h : backwardCalc env f0 res0 = .ok o) :
    c09Deadline env o = true := by
  exact backwardCalc_c09Deadline env f0 res0 o hf hn h

/-- dates encode capacity from the end of the day -/
theorem C09_encode (env : Env) (f0 : Uid → Fields) (res0 : List (Option Nat × Cal)) (o : Output)
    (hf : env.flagsOK) (hn : noFixedDates env f0 = true) (h : backwardCalc env f0 res0 = .ok o) :
    c09Encode env o = true := by
  exact backwardCalc_c09Encode env f0 res0 o hf hn h

/-- every dependency between member tasks is respected and the schedule is late-packed, when no task that has
    children carries a dependency link.  Further hypotheses are the structural facts C01 guarantees (parent pointers
    agree with the children lists, links stored on both ends) and that predecessors / successors outside the WBS are
    plain leaves (their own dates stand for themselves). -/
theorem C09_partial (env : Env) (f0 : Uid → Fields) (res0 : List (Option Nat × Cal)) (o : Output)
    (hf : env.flagsOK) (hn : noFixedDates env f0 = true) (hs : noSummaryLinks env = true)
    (hp : env.parentsOK) (hl : env.linksSym) (ho : outsideLeaves env = true)
    (hos : ∀ t ∈ memberList env, ∀ s ∈ (env.info t).succs,
      s ∈ memberList env ∨ (env.info s).children.isEmpty = true)
    (h : backwardCalc env f0 res0 = .ok o) :
    c09Deps env o = true ∧ c09LatePacked env o = true :=
  C09_partial_v2 env f0 res0 o hf hn hs hp hl ho hos h

theorem C09_full_fails :
    ∃ o, backwardCalc Witness.kfS2C09Env Witness.kfS2C09F0 Witness.kfS2C09Res = .ok o ∧
      c09Deps Witness.kfS2C09Env o = false := by
  have hev : (match backwardCalc Witness.kfS2C09Env Witness.kfS2C09F0 Witness.kfS2C09Res with
      | .ok o => c09Deps Witness.kfS2C09Env o == false
      | .error _ => false) = true := by decide +kernel
  cases hb : backwardCalc Witness.kfS2C09Env Witness.kfS2C09F0 Witness.kfS2C09Res with
  | error e => rw [hb] at hev; cases hev
  | ok o => rw [hb] at hev; exact ⟨o, rfl, by simpa using hev⟩

/-! ### the tie of the inner loops to the current source, by translation

`tools/extract_schedule.py` translates, on every run, `_ResourceUsage.reserved / reserve / __get_key` and the methods
`__get_resource_nearest_available_date` / `__shift_by_resource_usage_and_calendar` of both schedulers (schedule.py) into
PyLite terms (Extracted/ScheduleSrc.lean); calls that leave a method run the translated source of the callee (the ledger
methods, resource.py, calendar.py).  The theorems say that running the translated source on a ledger is the model's
function - with the model's `used` being what `reserved` returns on that ledger for the scheduler's balance setting - and
that the ledger afterwards is the old one plus the model's rows.  A semantic edit of those methods breaks these proofs. -/

/-- backward `__get_resource_nearest_available_date` as translated = the model's `nearestBwd` -/
theorem C09_source_nearest_backward (cal : Cal) (b : Bool) (rows : List Row) (r : Option Nat) (t : Uid) (start : Time) :
    SchedSrc.interpNearestBwd cal b (SchedSrc.resRef r) t (rows.map SchedSrc.encRow) start =
      (nearestBwd cal (SchedSrc.usedOf rows r t b) start).map (fun e => (e, rows.map SchedSrc.encRow)) :=
  SchedSrc.interpNearestBwd_eq cal b rows r t start

/-- backward `__shift_by_resource_usage_and_calendar` as translated = the model's `shiftBwd` -/
theorem C09_source_shift_backward (fuel : Nat) (cal : Cal) (b : Bool) (rows : List Row) (r : Option Nat) (t : Uid)
    (end_ : Time) (left : Rat) (hf : Extracted.bwdShiftMaxSteps < fuel) :
    SchedSrc.interpShiftBwd fuel cal b (SchedSrc.resRef r) t (rows.map SchedSrc.encRow) end_ left =
      (shiftBwd cal (SchedSrc.usedOf rows r t b) end_ left).map
        (fun p => (p.1, (rows ++ p.2.map (mkRow r t)).map SchedSrc.encRow)) :=
  SchedSrc.interpShiftBwd_eq fuel cal b rows r t end_ left hf

/-- the translated `BackwardScheduler.__backward_pass` (Extracted/PassSrc.lean), interpreted on the encoding of a model state,
    is the encoding of the model's `bwdPass` - unless the model run ends in RecursionError (see `*_source_forward_pass`).
    `encSB` is `encS` with the tasks' successor lists. -/
theorem C09_source_backward_pass (env : Env) (ms : Uid → Bool) (wfuel : Nat)
    (hms : ∀ u, (env.info u).milestone = (ms u && (env.info u).children.isEmpty))
    (hw : Extracted.bwdShiftMaxSteps < wfuel) (fuel fuel' : Nat) (hle : fuel ≤ fuel') (stk : List Uid) (σ : SS)
    (t : Uid) (minDate : Time) (hne : bwdPass env fuel stk σ t minDate ≠ .error (.crash .recursion)) :
    PassSrcBwd.interpBwdPass env wfuel (PassSrc.calRef σ.res) fuel' (PassSrcBwd.encSB env ms σ) t minDate =
      (bwdPass env fuel stk σ t minDate).map (PassSrcBwd.encSB env ms) :=
  PassSrcBwd.interpBwdPass_eq env ms wfuel hms hw fuel fuel' hle stk σ t minDate hne

end Pj
