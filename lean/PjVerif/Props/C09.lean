/-
  Props/C09.lean — C09: backward schedules meet deadline and dependencies, as late as capacity allows.
  PARTIAL for the dependency and late-packing clauses (no links on tasks that have children, finding KF-S2-C09);
  deadline and date encoding are proved for every WBS without user-fixed dates.
-/
import PjVerif.Lemmas.SchedC09
import PjVerif.Props.Witness
namespace Pj

/-- no task ends after the requested project end -/
theorem C09_deadline (env : Env) (f0 : Uid → Fields) (res0 : List (Option Nat × Cal)) (o : Output)
    (hf : env.flagsOK) (hn : noFixedDates env f0 = true) (h : backwardCalc env f0 res0 = .ok o) :
    c09Deadline env o = true := by
  exact backwardCalc_c09Deadline env f0 res0 o hf hn h

/-- dates encode capacity from the end of the day -/
theorem C09_encode (env : Env) (f0 : Uid → Fields) (res0 : List (Option Nat × Cal)) (o : Output)
    (hf : env.flagsOK) (hn : noFixedDates env f0 = true) (h : backwardCalc env f0 res0 = .ok o) :
    c09Encode env o = true := by
  exact backwardCalc_c09Encode env f0 res0 o hf hn h

/-- every dependency between member tasks is respected and the schedule is late-packed, when no task that has
    children carries a dependency link.  Further hypotheses are the structural facts C01 guarantees (parent pointers
    agree with the children lists, links stored on both ends) and that predecessors / successors outside the WBS are
    plain leaves (their own dates stand for themselves). -/
theorem C09_partial (env : Env) (f0 : Uid → Fields) (res0 : List (Option Nat × Cal)) (o : Output)
    (hf : env.flagsOK) (hn : noFixedDates env f0 = true) (hs : noSummaryLinks env = true)
    (hp : env.parentsOK) (hl : env.linksSym) (ho : outsideLeaves env = true)
    (hos : ∀ t ∈ memberList env, ∀ s ∈ (env.info t).succs,
      s ∈ memberList env ∨ (env.info s).children.isEmpty = true)
    (h : backwardCalc env f0 res0 = .ok o) :
    c09Deps env o = true ∧ c09LatePacked env o = true :=
  C09_partial_v2 env f0 res0 o hf hn hs hp hl ho hos h

theorem C09_full_fails :
    ∃ o, backwardCalc Witness.kfS2C09Env Witness.kfS2C09F0 Witness.kfS2C09Res = .ok o ∧
      c09Deps Witness.kfS2C09Env o = false := by
  have hev : (match backwardCalc Witness.kfS2C09Env Witness.kfS2C09F0 Witness.kfS2C09Res with
      | .ok o => c09Deps Witness.kfS2C09Env o == false
      | .error _ => false) = true := by decide +kernel
  cases hb : backwardCalc Witness.kfS2C09Env Witness.kfS2C09F0 Witness.kfS2C09Res with
  | error e => rw [hb] at hev; cases hev
  | ok o => rw [hb] at hev; exact ⟨o, rfl, by simpa using hev⟩

end Pj
