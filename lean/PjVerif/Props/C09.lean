/-
  Props/C09.lean — C09: backward schedules meet deadline and dependencies, as late as capacity allows.
  PARTIAL for the dependency and late-packing clauses (no links on tasks that have children, finding KF-S2-C09);
  deadline and date encoding are proved for every WBS without user-fixed dates.
-/
import PjVerif.Lemmas.SchedC09
import PjVerif.Props.Witness
namespace Pj

/-- no task ends after the requested project end -/
theorem C09_deadline (env : Env) (f0 : Uid → Fields) (res0 : List (Option Nat × Cal)) (o : Output)
    (hf : env.flagsOK) (hn : noFixedDates env f0 = true) (h : backwardCalc env f0 res0 = .ok o) :
    c09Deadline env o = true := by
  exact backwardCalc_c09Deadline env f0 res0 o hf hn h

/-- dates encode capacity from the end of the day -/
theorem C09_encode (env : Env) (f0 : Uid → Fields) (res0 : List (Option Nat × Cal)) (o : Output)
    (hf : env.flagsOK) (hn : noFixedDates env f0 = true) (h : backwardCalc env f0 res0 = .ok o) :
    c09Encode env o = true := by
  exact backwardCalc_c09Encode env f0 res0 o hf hn h

/-- every dependency between member tasks is respected and the schedule is late-packed -/
theorem C09_partial (env : Env) (f0 : Uid → Fields) (res0 : List (Option Nat × Cal)) (o : Output)
    (hf : env.flagsOK) (hn : noFixedDates env f0 = true) (hs : noSummaryLinks env = true)
    (h : backwardCalc env f0 res0 = .ok o) :
    c09Deps env o = true ∧ c09LatePacked env o = true := by
  -- FALSE as stated (kernel-checked counterexamples `C09CE.C09_partial_false_asym`, `…_parent` in
  -- Lemmas/SchedC09.lean); the corrected statement `C09_partial_v2` (extra hypotheses `env.parentsOK`,
  -- `env.linksSym`, `outsideLeaves env`, outside successors are leaves) is proved there
  sorry

theorem C09_full_fails :
    ∃ o, backwardCalc Witness.kfS2C09Env Witness.kfS2C09F0 Witness.kfS2C09Res = .ok o ∧
      c09Deps Witness.kfS2C09Env o = false := by
  have hev : (match backwardCalc Witness.kfS2C09Env Witness.kfS2C09F0 Witness.kfS2C09Res with
      | .ok o => c09Deps Witness.kfS2C09Env o == false
      | .error _ => false) = true := by decide +kernel
  cases hb : backwardCalc Witness.kfS2C09Env Witness.kfS2C09F0 Witness.kfS2C09Res with
  | error e => rw [hb] at hev; cases hev
  | ok o => rw [hb] at hev; exact ⟨o, rfl, by simpa using hev⟩

end Pj
