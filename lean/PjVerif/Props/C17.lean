/-
  Props/C17.lean — property theorems for C17 (calendars and the availability search).
  Only property theorems and non-vacuity examples live here; helper lemmas go to Lemmas/Calendar.lean.
-/
import PjVerif.Lemmas.Calendar
import PjVerif.Lemmas.CalendarSrc
namespace Pj

/-- leaf constructors, scalar promotion and `/ 0` reject exactly the invalid definitions, with
    RuntimeError (never another exception) -/
theorem C17_ctor_rejects (e : CExpr) (hs : e.wellShaped = true) (hd : e.dictKeysNodup = true) :
    (e.invalid = true → e.build = .error .runtime) ∧
    (e.invalid = false → ∃ c, e.build = .ok c) :=
  -- `hd`: the weekday mapping is a Python dict, its keys are distinct (without it the statement is
  -- false for the list encoding: `ctor_rejects_counterexample` in Lemmas/Calendar.lean)
  ctor_rejects_of_nodup e hs hd

/-- a valid definition evaluates, at every date, to the meaning C17 gives it: the operator applied
    to the operands' values, operands without information skipped, negative difference = none,
    `|` = first positive operand, a number = constant calendar, leaf calendars = configured value
    inside validity and none/0 outside.  Undefined (`den = none`) only for division by a calendar
    whose value on the date is 0, where Python raises ZeroDivisionError. -/
theorem C17_eval_den (e : CExpr) (c : Cal) (t : Time) (hs : e.wellShaped = true)
    (hb : e.build = .ok c) :
    c.eval t = (match e.den t with
                | some v => .ok v
                | none => .error (.crash .zeroDivision)) := by
  rw [eval_den_lift e t c hs hb]
  cases e.den t <;> rfl

/-- a resource reports 0, never None, where its calendar has no information -/
theorem C17_resource_total (c : Cal) (t : Time) (v : Option Rat) (h : c.eval t = .ok v) :
    capR c t = .ok (v.getD 0) := by
  simp [capR, h, bind, Except.bind, pure, Except.pure]

/-- the availability search returns the earliest (backward: latest) whole-day offset with positive
    capacity (backward: on the preceding day) and raises RuntimeError exactly when there is none
    within the horizon -/
theorem C17_search (c : Cal) (cap : Time → Rat) (hcap : ∀ x, capR c x = .ok (cap x))
    (dir : Int) (hdir : dir = 1 ∨ dir = -1) (H : Nat) (t : Time) :
    SearchSpec cap dir H t (search c dir H t) := by
  have _ := hdir  -- the spec holds for any step; `hdir` only records the API contract
  exact search_spec c cap hcap dir H t

/-- the spec determines the result: two results meeting it are equal (so "exactly when") -/
theorem C17_search_unique (cap : Time → Rat) (dir : Int) (hdir : dir = 1 ∨ dir = -1) (H : Nat)
    (t : Time) (r r' : Res Time)
    (h : SearchSpec cap dir H t r) (h' : SearchSpec cap dir H t r') : r = r' := by
  have _ := hdir
  exact SearchSpec_unique cap dir H t r r' h h'

/-- the executable monitor is sound for the spec -/
theorem C17_searchSpecB_sound (cap : Time → Rat) (dir : Int) (H : Nat) (t : Time) (r : Res Time)
    (h : searchSpecB cap dir H t r = true) : SearchSpec cap dir H t r := by
  exact searchSpecB_sound cap dir H t r h

/-! non-vacuity: a concrete composed definition is well-shaped, valid, builds, and has the stated value -/
example :
    let e : CExpr := .op .sub (.op .add (.weeklyList none none [0,1,2,3,4] 8) (.num 2)) (.fixed 3 (some 10) none)
    e.wellShaped = true ∧ e.invalid = false ∧ e.den 11 = some (some 7) ∧ e.den 9 = some (some 2) := by
  decide +kernel

/-! ### the tie to the current source, by translation

`tools/extract_calendar.py` translates, on every run, the bodies of `get_available_units` of the eight calendar classes,
of `Resource.get_available_units` and of `IResource.get_nearest_availability_date` (calendar.py, resource.py) into terms
of the small embedded language `PyLite` (Extracted/CalendarSrc.lean); `Model/PyLite.lean` gives them meaning.  The three
theorems below say that running the translated source on the fields of a constructed calendar object is the model the
theorems above are about - so an edit of those methods that changes their meaning breaks these proofs. -/

/-- interpreting the translated `get_available_units` methods on a calendar object = the model's `Cal.eval` -/
theorem C17_source_eval (c : Cal) (t : Time) : CalSrc.interp c t = c.eval t :=
  CalSrc.interp_eq_eval c t

/-- `Resource.get_available_units` as translated = the model's capacity function (None becomes 0) -/
theorem C17_source_resource (c : Cal) (t : Time) : CalSrc.interpResource c t = (capR c t).map some :=
  CalSrc.interpResource_eq_capR c t

/-- the translated `while` loop of `get_nearest_availability_date` = the model's search (`fuel` bounds the interpreter's
    loop and only needs to exceed the horizon) -/
theorem C17_source_search (fuel : Nat) (c : Cal) (dir : Int) (n : Nat) (t : Time) (hf : n < fuel) :
    CalSrc.interpSearch fuel c dir n t = search c dir n t :=
  CalSrc.interpSearch_eq_search fuel c dir n t hf

end Pj
