/-
  Props/C01.lean — C01: hierarchy and dependency graph stay well-formed under any mutation history.
-/
import PjVerif.Lemmas.GraphPerm
namespace Pj

/-- a universe of isolated tasks and empty WBSs is well-formed -/
theorem C01_init (n : Nat) (tid : Uid → Int) : WF (fresh n tid) := by
  constructor
  · intro t p; simp [fresh]
  · intro p; simp [fresh]
  · intro t h
    cases h with
    | single h => simp [par, fresh] at h
    | tail _ h => simp [par, fresh] at h
  · intro r _; simp [fresh]
  · intro a b; simp [fresh]
  · intro t h
    cases h with
    | single h => simp [dep, fresh] at h
    | tail _ h => simp [dep, fresh] at h
  · intro a b h; simp [dep, fresh] at h

/-- one call of any public mutator, legal or illegal arguments, returning or raising -/
theorem C01_step (s : G) (op : Op) (hw : WF s) (hv : op.visible s) : WF (step s op).1 :=
  step_WF s op hw hv

/-- every intermediate state of every finite history (the arguments never name a hidden WBS root in task
    position, which the public API cannot do) -/
theorem C01_run (ops : List Op) (s : G) (hw : WF s) (hv : ∀ op ∈ ops, op.visible s) : WF (run s ops) := by
  induction ops generalizing s with
  | nil => exact hw
  | cons op ops ih =>
    have h1 : run s (op :: ops) = run (step s op).1 ops := by simp [run]
    rw [h1]
    apply ih
    · exact step_WF s op hw (hv op List.mem_cons_self)
    · intro op' hop'
      exact visible_of_tid s _ (step_tid s op) op' (hv op' (List.mem_cons_of_mem _ hop'))

/-- … and every prefix, i.e. "at every intermediate state" -/
theorem C01_run_prefix (ops pre : List Op) (s : G) (hw : WF s) (hv : ∀ op ∈ ops, op.visible s)
    (hp : pre <+: ops) : WF (run s pre) :=
  C01_run pre s hw (fun op hop => hv op (hp.subset hop))

end Pj
