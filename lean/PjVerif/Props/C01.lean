/-
  Props/C01.lean — C01: hierarchy and dependency graph stay well-formed under any mutation history.
-/
import PjVerif.Lemmas.GraphPerm
import PjVerif.Lemmas.TaskSrcD
namespace Pj

/-- a universe of isolated tasks and empty WBSs is well-formed -/
theorem C01_init (n : Nat) (tid : Uid → Int) : WF (fresh n tid) := by
  constructor
  · intro t p; simp [fresh]
  · intro p; simp [fresh]
  · intro t h
    cases h with
    | single h => simp [par, fresh] at h
    | tail _ h => simp [par, fresh] at h
  · intro r _; simp [fresh]
  · intro a b; simp [fresh]
  · intro t h
    cases h with
    | single h => simp [dep, fresh] at h
    | tail _ h => simp [dep, fresh] at h
  · intro a b h; simp [dep, fresh] at h

/-- one call of any public mutator, legal or illegal arguments, returning or raising -/
theorem C01_step (s : G) (op : Op) (hw : WF s) (hv : op.visible s) : WF (step s op).1 :=
  step_WF s op hw hv

/-- every intermediate state of every finite history (the arguments never name a hidden WBS root in task
    position, which the public API cannot do) -/
theorem C01_run (ops : List Op) (s : G) (hw : WF s) (hv : ∀ op ∈ ops, op.visible s) : WF (run s ops) := by
  induction ops generalizing s with
  | nil => exact hw
  | cons op ops ih =>
    have h1 : run s (op :: ops) = run (step s op).1 ops := by simp [run]
    rw [h1]
    apply ih
    · exact step_WF s op hw (hv op List.mem_cons_self)
    · intro op' hop'
      exact visible_of_tid s _ (step_tid s op) op' (hv op' (List.mem_cons_of_mem _ hop'))

/-- … and every prefix, i.e. "at every intermediate state" -/
theorem C01_run_prefix (ops pre : List Op) (s : G) (hw : WF s) (hv : ∀ op ∈ ops, op.visible s)
    (hp : pre <+: ops) : WF (run s pre) :=
  C01_run pre s hw (fun op hop => hv op (hp.subset hop))

/-! ### the tie of the relation setters of `Task` to the current source, by translation (tools/extract_task.py → Extracted/TaskSrc.lean,
    Lemmas/TaskSrc*.lean): the statements above are about the model's `setParent` / `setPreds` / `setSuccs` / `setChildren`; these say that
    the model's functions are what the CURRENT task.py computes -/

/-- running the translated `parent` setter (with `_find_root`, `_collect_subtree`, `_has_id_intersection`, `_linked_with_any`, `_attach`,
    `_detach`, `all_parents`, `all_children` as translated callees) on the encoding of a well-formed state gives the encoding of the
    model's new state when the model accepts and the model's error when it rejects - unless the model's fuel runs out -/
theorem C01_source_set_parent (s : G) (hw : WF s) (t : Uid) (p : Option Uid) (F : Nat) (hF : s.n + 6 ≤ F)
    (hrec : (setParent s t p).2 ≠ some (.crash .recursion)) :
    TaskSrc.interpSetParent F t p (TaskSrc.encSt s) = TaskSrc.setterResult (TaskSrc.encSt s) (setParent s t p) :=
  TaskSrc.interpSetParent_eq_wf s hw t p F hF hrec

/-- the translated `predecessors` / `successors` setters (validation loops, unlink loop, relink loop) are the model's `setPreds` /
    `setSuccs`, for every state (no well-formedness needed) and every admissible right-hand side (`ValueOf`: a list of tasks and
    `None`s, one task, `None`) -/
theorem C01_source_set_predecessors (s : G) (st : PyLite.PState) (hh : st.heap = TaskSrc.encHeap s) (t : Uid) (v : PyLite.Val)
    (l : List Uid) (hv : TaskSrc.ValueOf v l) (F : Nat) (hF : s.n + 4 ≤ F) (hrec : (setPreds s t l).2 ≠ some (.crash .recursion)) :
    TaskSrc.interpSetPreds F t v st = TaskSrc.setterResult st (setPreds s t l) :=
  TaskSrc.interpSetPreds_eq s st hh t v l hv F hF hrec

theorem C01_source_set_successors (s : G) (st : PyLite.PState) (hh : st.heap = TaskSrc.encHeap s) (t : Uid) (v : PyLite.Val)
    (l : List Uid) (hv : TaskSrc.ValueOf v l) (F : Nat) (hF : s.n + 4 ≤ F) (hrec : (setSuccs s t l).2 ≠ some (.crash .recursion)) :
    TaskSrc.interpSetSuccs F t v st = TaskSrc.setterResult st (setSuccs s t l) :=
  TaskSrc.interpSetSuccs_eq s st hh t v l hv F hF hrec

/-- the translated `children` setter (validations, release of the old children, the loop of `v.parent = self` assignments - each
    running the translated `parent` setter on an intermediate state) is the model's `setChildren`, for every state -/
theorem C01_source_set_children (s : G) (st : PyLite.PState) (hh : st.heap = TaskSrc.encHeap s) (h : Uid) (v : PyLite.Val)
    (l : List Uid) (hv : TaskSrc.ValueOf v l) (F : Nat) (hF : s.n + 6 ≤ F) (hrec : (setChildren s h l).2 ≠ some (.crash .recursion)) :
    TaskSrc.interpSetChildren F h v st = TaskSrc.setterResult st (setChildren s h l) :=
  TaskSrc.interpSetChildren_eq s st hh h v l hv F hF hrec

end Pj
