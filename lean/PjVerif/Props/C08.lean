/-
  Props/C08.lean — C08: forward schedules are tight; dates encode used capacity.
  PARTIAL: the no-idle-days clause is proved when no task that has children carries a dependency link (finding KF-S3;
  links stored on both ends, clock or project start not before 1970-01-01); the encoding clause is proved as stated,
  for every clock that is not later than the project start (the finding KF-S6 was repaired: the end is clamped to the
  clock only once the clock is later than the project start); the WBS-order clause is proved for every WBS
  that is a forest with consistent parent pointers and symmetric links (what C01 gives for reachable graphs); the
  removal clause (balancing off) is proved for tasks that take part in no dependency (`C08_removal_free_partial`: their
  dates are a function of their own data, their calendar, the project start and the clock) and rests on the
  correspondence stream for tasks with prerequisites (whose dates legitimately depend on those prerequisites).
-/
import PjVerif.Lemmas.SchedC08
import PjVerif.Lemmas.SchedC08Removal
import PjVerif.Props.Witness
import PjVerif.Lemmas.ScheduleSrc
import PjVerif.Lemmas.PassSrc
namespace Pj

/-- with balancing on, every day from a leaf's release day up to (excluding) its last work day is fully booked on
    its resource in the final ledger.  Domain: dependency links are stored on both ends (`linksSym`, C01), and the
    clock or the project start is not before the epoch — a leaf without `min_start` is never started before
    1970-01-01 (`_task.min_start or datetime(1970, 1, 1)`, schedule.py), a floor the release day does not know
    about, so with all dates before 1970 the days up to the epoch stay idle (kernel-checked counterexample:
    one leaf, clock = project start = day -10) -/
theorem C08_noIdle_partial (env : Env) (f0 : Uid → Fields) (res0 : List (Option Nat × Cal)) (o : Output)
    (hf : env.flagsOK) (hc : env.clockOK) (hs : noSummaryLinks env = true) (ho : outsideLeaves env = true)
    (hl : env.linksSym) (he : epoch ≤ env.clock 0 ∨ epoch ≤ env.bound)
    (h : forwardCalc env f0 res0 = .ok o) : c08NoIdle env f0 o = true := by
  exact C08.noIdle_partial env f0 res0 o hf hc hs ho hl he h

/-- start = first work day's midnight + share booked before the task, end = last work day's midnight + share booked
    up to and including the task; claimed, as the statement does, when the clock is not later than the project start -/
theorem C08_encode (env : Env) (f0 : Uid → Fields) (res0 : List (Option Nat × Cal)) (o : Output)
    (hf : env.flagsOK) (hc : env.clockOK) (hb : ∀ k, env.clock k ≤ env.bound)
    (h : forwardCalc env f0 res0 = .ok o) : c08Encode env f0 o = true := by
  have _ := hf
  have _ := hc
  exact C08.encode_partial env f0 res0 o hb h

/-- among leaves that take part in no dependency (neither themselves nor through an ancestor) capacity is handed out
    in WBS order: the usage rows of an earlier one all precede those of a later one.  Domain: the WBS is a forest
    whose parent pointers mirror the children lists (`membersNodup`, `childrenOK`: otherwise a task listed twice, or
    a leaf whose parent pointer hides an ancestor that carries a link, breaks the clause) and links are stored on
    both ends (`linksSym`) -/
theorem C08_order (env : Env) (f0 : Uid → Fields) (res0 : List (Option Nat × Cal)) (o : Output)
    (hf : env.flagsOK) (hl : env.linksSym) (hch : env.childrenOK) (hn : env.membersNodup)
    (h : forwardCalc env f0 res0 = .ok o) : c08Order env o = true := by
  exact C08.order_holds env f0 res0 o hf hl hch hn h

/-- PARTIAL (tasks without prerequisites): with balancing off the dates, estimate, spent and (day, units) usage rows of
    a leaf that takes part in no dependency - neither itself nor through an ancestor - do not change when other tasks
    are removed, added or re-ordered: `env'` is any other WBS, scheduled with the same project start, (constant) clock
    and default estimate, in which a task `t'` carries the same own data as `t` and whose resource resolves to the same
    calendar -/
theorem C08_removal_free_partial (env env' : Env) (f0 f0' : Uid → Fields) (res0 res0' : List (Option Nat × Cal))
    (o o' : Output) (t t' : Uid)
    (hf : env.flagsOK) (hf' : env'.flagsOK) (hl : env.linksSym) (hl' : env'.linksSym)
    (hp : env.parentsOK) (hp' : env'.parentsOK) (hch : env.childrenOK) (hch' : env'.childrenOK)
    (hn : env.membersNodup) (hn' : env'.membersNodup)
    (hb : env.balance = false) (hb' : env'.balance = false)
    (hclk : ∀ k, env.clock k = env.clock 0) (hclk' : ∀ k, env'.clock k = env.clock 0)
    (hbound : env'.bound = env.bound) (hde : env'.defaultEst = env.defaultEst)
    (ht : t ∈ memberList env) (ht' : t' ∈ memberList env')
    (hfree : freeLeaf env t = true) (hfree' : freeLeaf env' t' = true)
    (hown : C08R.SameOwn env env' f0 f0' t t')
    (hcal : C08R.calOf res0 (env.info t).resource = C08R.calOf res0' (env'.info t').resource)
    (h : forwardCalc env f0 res0 = .ok o) (h' : forwardCalc env' f0' res0' = .ok o') :
    o.f t = o'.f t' ∧ C08R.dayUnits o.rows t = C08R.dayUnits o'.rows t' :=
  C08R.removal_free env env' f0 f0' res0 res0' o o' t t' hf hf' hl hl' hp hp' hch hch' hn hn' hb hb' hclk hclk'
    hbound hde ht ht' hfree hfree' hown hcal h h'

/-- the full no-idle statement fails on the model as on the code (findings/KF-S3-C08.json) -/
theorem C08_noIdle_full_fails :
    ∃ o, forwardCalc Witness.kfS3C08Env Witness.kfS3C08F0 Witness.kfS3C08Res = .ok o ∧
      c08NoIdle Witness.kfS3C08Env Witness.kfS3C08F0 o = false := by
  have h : (match forwardCalc Witness.kfS3C08Env Witness.kfS3C08F0 Witness.kfS3C08Res with
      | .ok o => c08NoIdle Witness.kfS3C08Env Witness.kfS3C08F0 o == false
      | .error _ => false) = true := by decide +kernel
  cases hr : forwardCalc Witness.kfS3C08Env Witness.kfS3C08F0 Witness.kfS3C08Res with
  | ok o => rw [hr] at h; exact ⟨o, rfl, by simpa using h⟩
  | error e => rw [hr] at h; cases h

/-! ### the tie of the inner loops to the current source, by translation

`tools/extract_schedule.py` translates, on every run, `_ResourceUsage.reserved / reserve / __get_key` and the methods
`__get_resource_nearest_available_date` / `__shift_by_resource_usage_and_calendar` of both schedulers (schedule.py) into
PyLite terms (Extracted/ScheduleSrc.lean); calls that leave a method run the translated source of the callee (the ledger
methods, resource.py, calendar.py).  The theorems say that running the translated source on a ledger is the model's
function - with the model's `used` being what `reserved` returns on that ledger for the scheduler's balance setting - and
that the ledger afterwards is the old one plus the model's rows.  A semantic edit of those methods breaks these proofs. -/

/-- forward `__get_resource_nearest_available_date` as translated = the model's `nearestFwd`; the ledger is not touched -/
theorem C08_source_nearest_forward (cal : Cal) (b : Bool) (rows : List Row) (r : Option Nat) (t : Uid) (start : Time) :
    SchedSrc.interpNearestFwd cal b (SchedSrc.resRef r) t (rows.map SchedSrc.encRow) start =
      (nearestFwd cal (SchedSrc.usedOf rows r t b) start).map (fun e => (e, rows.map SchedSrc.encRow)) :=
  SchedSrc.interpNearestFwd_eq cal b rows r t start

/-- forward `__shift_by_resource_usage_and_calendar` as translated = the model's `shiftFwd`, and the ledger afterwards is
    the old one followed by the model's rows -/
theorem C08_source_shift_forward (fuel : Nat) (cal : Cal) (b : Bool) (rows : List Row) (r : Option Nat) (t : Uid)
    (start : Time) (left : Rat) (hf : Extracted.fwdShiftMaxSteps < fuel) :
    SchedSrc.interpShiftFwd fuel cal b (SchedSrc.resRef r) t (rows.map SchedSrc.encRow) start left =
      (shiftFwd cal (SchedSrc.usedOf rows r t b) start left).map
        (fun p => (p.1, (rows ++ p.2.map (mkRow r t)).map SchedSrc.encRow)) :=
  SchedSrc.interpShiftFwd_eq fuel cal b rows r t start left hf

/-! ### the tie of the recursive forward pass to the current source, by translation

`tools/extract_pass.py` translates `ForwardScheduler.__forward_pass` (schedule.py) into a PyLite term on every run
(Extracted/PassSrc.lean); a third evaluator of PyLite runs it on an object store: task attributes as mutable slots, the
`calculated` list, the resource table with `setdefault`, the scripted clock, the ledger, recursion with fuel; the two calls
of the inner-loop methods run the translated source of 12.6b.  The theorem: interpreting the translated method on the
encoding of a model state is the encoding of the model's `fwdPass` - unless the model run ends in RecursionError (fuel
exhausted or a task met again while in progress: a check Python does not have; excluded for real inputs by C14).  `ms` is
the tasks' own milestone flag; `hms` says the model's flag is the effective one (flagged and childless). -/

theorem C08_source_forward_pass (env : Env) (ms : Uid → Bool) (wfuel : Nat)
    (hms : ∀ u, (env.info u).milestone = (ms u && (env.info u).children.isEmpty))
    (hw : Extracted.fwdShiftMaxSteps < wfuel) (fuel fuel' : Nat) (hle : fuel ≤ fuel') (stk : List Uid) (σ : SS)
    (t : Uid) (minDate : Time) (hne : fwdPass env fuel stk σ t minDate ≠ .error (.crash .recursion)) :
    PassSrc.interpFwdPass env wfuel (PassSrc.calRef σ.res) fuel' (PassSrc.encS env ms σ) t minDate =
      (fwdPass env fuel stk σ t minDate).map (PassSrc.encS env ms) :=
  PassSrc.interpFwdPass_eq env ms wfuel hms hw fuel fuel' hle stk σ t minDate hne

end Pj
