/-
  Props/C16.lean — C16: accepted mutations have exactly their documented effect and touch nothing else.
  `effOf s op` (Spec/GraphEff.lean) is the documented effect as a closed-form state; the frame is part of it: every
  field it does not mention is copied from `s`.
-/
import PjVerif.Lemmas.GraphEffLemmas
import PjVerif.Lemmas.TaskSrcD
namespace Pj

/-- two states agree on every field of every object -/
def G.Same (a b : G) : Prop :=
  a.n = b.n ∧ ∀ u, a.tid u = b.tid u ∧ a.parent u = b.parent u ∧ a.children u = b.children u ∧
    a.preds u = b.preds u ∧ a.succs u = b.succs u ∧ a.owner u = b.owner u

/-- operations whose effect goes through the children setter's re-adoption loop -/
def Op.viaChildrenSetter : Op → Bool
  | .setChildren _ _ => true
  | .floordiv _ _ => true
  | .chInsert _ _ _ => true
  | .chRemove _ _ => true
  | .chRemoveAll _ _ => true
  | .wbsRemove _ _ => true
  | _ => false

/-- every accepted call of a mutator with a closed-form description has exactly that effect, on every reachable
    state: parent / predecessor / successor setters and their list façades (append, remove), the `<<` and `>>`
    operators, `reorder` -/
theorem C16_effect_direct (s s' e : G) (op : Op) (hi : Inv s) (hl : op.legal s)
    (hv : op.viaChildrenSetter = false) (he : effOf s op = some e) (h : step s op = (s', none)) : G.Same s' e :=
  have _ := hl
  have hv' : viaCS op = false := by rw [← hv]; cases op <;> rfl
  SameG.of_eq (effect_direct s s' e op hi.wf hv' he h)

/-- … and so have the operations that assign a whole children list: `children = l`, `roots = l`, `//`, `insert`,
    `remove`, `remove_all`, `WBS.remove` -/
theorem C16_effect_children (s s' e : G) (op : Op) (hi : Inv s) (hl : op.legal s)
    (hv : op.viaChildrenSetter = true) (he : effOf s op = some e) (h : step s op = (s', none)) : G.Same s' e :=
  have hv' : viaCS op = true := by rw [← hv]; cases op <;> rfl
  SameG.of_eq (effect_children s s' e op hi hl hv' he h)

/-- `sort`: only the one children list changes; it becomes a stable, ordered (reversed on request) permutation -/
theorem C16_sort (s : G) (h : Uid) (keys : List (Uid × Int)) (rev : Bool) :
    let s' := (step s (.chSort h keys rev)).1
    (step s (.chSort h keys rev)).2 = none ∧
    sortedByB (keyOf keys) rev (s.children h) (s'.children h) = true ∧
    G.Same s' { s with children := upd s.children h (s'.children h) } := by
  refine ⟨rfl, ?_, ?_⟩
  · show sortedByB (keyOf keys) rev (s.children h) (upd s.children h (sortBy (keyOf keys) rev (s.children h)) h) = true
    rw [upd_same]
    exact sortBy_sorted (keyOf keys) rev (s.children h)
  · apply SameG.of_eq
    show ({ s with children := upd s.children h (sortBy (keyOf keys) rev (s.children h)) } : G) =
      { s with children := upd s.children h (upd s.children h (sortBy (keyOf keys) rev (s.children h)) h) }
    rw [upd_same]

/-- `move`: accepted ⇒ exactly the fold of single moves, nothing else changes -/
theorem C16_move (s s' : G) (h : Uid) (ts : List Uid) (b a : Option Uid)
    (hs : step s (.chMove h ts b a) = (s', none)) : G.Same s' (effMove s h ts b a) :=
  SameG.of_eq (chMove_ok_eq s s' h ts b a hs)

/-- one move puts the task immediately before / after the anchor and keeps the relative order of the others -/
theorem C16_moveOne (l : List Uid) (t : Uid) (b a : Option Uid) (hn : l.Nodup) (ht : t ∈ l)
    (hb : ∀ x, b = some x → x ∈ l ∧ x ≠ t) (ha : ∀ x, a = some x → x ∈ l ∧ x ≠ t) (hab : b.isSome ≠ a.isSome) :
    (moveOne l t b a).erase t = l.erase t ∧
    (∀ x, b = some x → ∃ pre post, moveOne l t b a = pre ++ t :: x :: post) ∧
    (∀ x, a = some x → ∃ pre post, moveOne l t b a = pre ++ x :: t :: post) :=
  moveOne_spec l t b a hn ht hb ha hab

/-- frame: an accepted call changes no relation of a task that is neither named in the call, nor a child of the
    edited holder, nor below a named task, nor a former parent / link partner of a named task -/
theorem C16_frame_links (s s' : G) (t : Uid) (l : List Uid) (u : Uid) (hi : Inv s)
    (h : step s (.setPreds t l) = (s', none)) (hu : u ≠ t) (hl : u ∉ l) (ho : u ∉ s.preds t) :
    s'.preds u = s.preds u ∧ s'.succs u = s.succs u ∧ s'.parent u = s.parent u ∧ s'.children u = s.children u ∧
    s'.owner u = s.owner u :=
  have _ := hi
  frame_links s s' t l u h hu hl ho

/-! ### the tie of the relation setters of `Task` to the current source, by translation (tools/extract_task.py → Extracted/TaskSrc.lean,
    Lemmas/TaskSrc*.lean): the statements above are about the model's `setParent` / `setPreds` / `setSuccs` / `setChildren`; these say that
    the model's functions are what the CURRENT task.py computes -/

/-- running the translated `parent` setter (with `_find_root`, `_collect_subtree`, `_has_id_intersection`, `_linked_with_any`, `_attach`,
    `_detach`, `all_parents`, `all_children` as translated callees) on the encoding of a well-formed state gives the encoding of the
    model's new state when the model accepts and the model's error when it rejects - unless the model's fuel runs out -/
theorem C16_source_set_parent (s : G) (hw : WF s) (t : Uid) (p : Option Uid) (F : Nat) (hF : s.n + 6 ≤ F)
    (hrec : (setParent s t p).2 ≠ some (.crash .recursion)) :
    TaskSrc.interpSetParent F t p (TaskSrc.encSt s) = TaskSrc.setterResult (TaskSrc.encSt s) (setParent s t p) :=
  TaskSrc.interpSetParent_eq_wf s hw t p F hF hrec

/-- the translated `predecessors` / `successors` setters (validation loops, unlink loop, relink loop) are the model's `setPreds` /
    `setSuccs`, for every state (no well-formedness needed) and every admissible right-hand side (`ValueOf`: a list of tasks and
    `None`s, one task, `None`) -/
theorem C16_source_set_predecessors (s : G) (st : PyLite.PState) (hh : st.heap = TaskSrc.encHeap s) (t : Uid) (v : PyLite.Val)
    (l : List Uid) (hv : TaskSrc.ValueOf v l) (F : Nat) (hF : s.n + 4 ≤ F) (hrec : (setPreds s t l).2 ≠ some (.crash .recursion)) :
    TaskSrc.interpSetPreds F t v st = TaskSrc.setterResult st (setPreds s t l) :=
  TaskSrc.interpSetPreds_eq s st hh t v l hv F hF hrec

theorem C16_source_set_successors (s : G) (st : PyLite.PState) (hh : st.heap = TaskSrc.encHeap s) (t : Uid) (v : PyLite.Val)
    (l : List Uid) (hv : TaskSrc.ValueOf v l) (F : Nat) (hF : s.n + 4 ≤ F) (hrec : (setSuccs s t l).2 ≠ some (.crash .recursion)) :
    TaskSrc.interpSetSuccs F t v st = TaskSrc.setterResult st (setSuccs s t l) :=
  TaskSrc.interpSetSuccs_eq s st hh t v l hv F hF hrec

/-- the translated `children` setter (validations, release of the old children, the loop of `v.parent = self` assignments - each
    running the translated `parent` setter on an intermediate state) is the model's `setChildren`, for every state -/
theorem C16_source_set_children (s : G) (st : PyLite.PState) (hh : st.heap = TaskSrc.encHeap s) (h : Uid) (v : PyLite.Val)
    (l : List Uid) (hv : TaskSrc.ValueOf v l) (F : Nat) (hF : s.n + 6 ≤ F) (hrec : (setChildren s h l).2 ≠ some (.crash .recursion)) :
    TaskSrc.interpSetChildren F h v st = TaskSrc.setterResult st (setChildren s h l) :=
  TaskSrc.interpSetChildren_eq s st hh h v l hv F hF hrec

end Pj
