/-
  Props/C16.lean — C16: accepted mutations have exactly their documented effect and touch nothing else.
  `effOf s op` (Spec/GraphEff.lean) is the documented effect as a closed-form state; the frame is part of it: every
  field it does not mention is copied from `s`.
-/
import PjVerif.Lemmas.GraphEffLemmas
import PjVerif.Lemmas.TaskSrcD
import PjVerif.Lemmas.WbsSrcC
import PjVerif.Lemmas.FacadeSrcD
namespace Pj

/-- two states agree on every field of every object -/
def G.Same (a b : G) : Prop :=
  a.n = b.n ∧ ∀ u, a.tid u = b.tid u ∧ a.parent u = b.parent u ∧ a.children u = b.children u ∧
    a.preds u = b.preds u ∧ a.succs u = b.succs u ∧ a.owner u = b.owner u

/-- operations whose effect goes through the children setter's re-adoption loop -/
def Op.viaChildrenSetter : Op → Bool
  | .setChildren _ _ => true
  | .floordiv _ _ => true
  | .chInsert _ _ _ => true
  | .chRemove _ _ => true
  | .chRemoveAll _ _ => true
  | .wbsRemove _ _ => true
  | _ => false

/-- every accepted call of a mutator with a closed-form description has exactly that effect, on every reachable
    state: parent / predecessor / successor setters and their list façades (append, remove), the `<<` and `>>`
    operators, `reorder` -/
theorem C16_effect_direct (s s' e : G) (op : Op) (hi : Inv s) (hl : op.legal s)
    (hv : op.viaChildrenSetter = false) (he : effOf s op = some e) (h : step s op = (s', none)) : G.Same s' e :=
  have _ := hl
  have hv' : viaCS op = false := by rw [← hv]; cases op <;> rfl
  SameG.of_eq (effect_direct s s' e op hi.wf hv' he h)

/-- … and so have the operations that assign a whole children list: `children = l`, `roots = l`, `//`, `insert`,
    `remove`, `remove_all`, `WBS.remove` -/
theorem C16_effect_children (s s' e : G) (op : Op) (hi : Inv s) (hl : op.legal s)
    (hv : op.viaChildrenSetter = true) (he : effOf s op = some e) (h : step s op = (s', none)) : G.Same s' e :=
  have hv' : viaCS op = true := by rw [← hv]; cases op <;> rfl
  SameG.of_eq (effect_children s s' e op hi hl hv' he h)

/-- `sort`: only the one children list changes; it becomes a stable, ordered (reversed on request) permutation -/
theorem C16_sort (s : G) (h : Uid) (keys : List (Uid × Int)) (rev : Bool) :
    let s' := (step s (.chSort h keys rev)).1
    (step s (.chSort h keys rev)).2 = none ∧
    sortedByB (keyOf keys) rev (s.children h) (s'.children h) = true ∧
    G.Same s' { s with children := upd s.children h (s'.children h) } := by
  refine ⟨rfl, ?_, ?_⟩
  · show sortedByB (keyOf keys) rev (s.children h) (upd s.children h (sortBy (keyOf keys) rev (s.children h)) h) = true
    rw [upd_same]
    exact sortBy_sorted (keyOf keys) rev (s.children h)
  · apply SameG.of_eq
    show ({ s with children := upd s.children h (sortBy (keyOf keys) rev (s.children h)) } : G) =
      { s with children := upd s.children h (upd s.children h (sortBy (keyOf keys) rev (s.children h)) h) }
    rw [upd_same]

/-- `move`: accepted ⇒ exactly the fold of single moves, nothing else changes -/
theorem C16_move (s s' : G) (h : Uid) (ts : List Uid) (b a : Option Uid)
    (hs : step s (.chMove h ts b a) = (s', none)) : G.Same s' (effMove s h ts b a) :=
  SameG.of_eq (chMove_ok_eq s s' h ts b a hs)

/-- one move puts the task immediately before / after the anchor and keeps the relative order of the others -/
theorem C16_moveOne (l : List Uid) (t : Uid) (b a : Option Uid) (hn : l.Nodup) (ht : t ∈ l)
    (hb : ∀ x, b = some x → x ∈ l ∧ x ≠ t) (ha : ∀ x, a = some x → x ∈ l ∧ x ≠ t) (hab : b.isSome ≠ a.isSome) :
    (moveOne l t b a).erase t = l.erase t ∧
    (∀ x, b = some x → ∃ pre post, moveOne l t b a = pre ++ t :: x :: post) ∧
    (∀ x, a = some x → ∃ pre post, moveOne l t b a = pre ++ x :: t :: post) :=
  moveOne_spec l t b a hn ht hb ha hab

/-- frame: an accepted call changes no relation of a task that is neither named in the call, nor a child of the
    edited holder, nor below a named task, nor a former parent / link partner of a named task -/
theorem C16_frame_links (s s' : G) (t : Uid) (l : List Uid) (u : Uid) (hi : Inv s)
    (h : step s (.setPreds t l) = (s', none)) (hu : u ≠ t) (hl : u ∉ l) (ho : u ∉ s.preds t) :
    s'.preds u = s.preds u ∧ s'.succs u = s.succs u ∧ s'.parent u = s.parent u ∧ s'.children u = s.children u ∧
    s'.owner u = s.owner u :=
  have _ := hi
  frame_links s s' t l u h hu hl ho

/-! ### the tie of the relation setters of `Task` to the current source, by translation (tools/extract_task.py → Extracted/TaskSrc.lean,
    Lemmas/TaskSrc*.lean): the statements above are about the model's `setParent` / `setPreds` / `setSuccs` / `setChildren`; these say that
    the model's functions are what the CURRENT task.py computes -/

/-- running the translated `parent` setter (with `_find_root`, `_collect_subtree`, `_has_id_intersection`, `_linked_with_any`, `_attach`,
    `_detach`, `all_parents`, `all_children` as translated callees) on the encoding of a well-formed state gives the encoding of the
    model's new state when the model accepts and the model's error when it rejects - unless the model's fuel runs out -/
theorem C16_source_set_parent (s : G) (hw : WF s) (t : Uid) (p : Option Uid) (F : Nat) (hF : s.n + 6 ≤ F)
    (hrec : (setParent s t p).2 ≠ some (.crash .recursion)) :
    TaskSrc.interpSetParent F t p (TaskSrc.encSt s) = TaskSrc.setterResult (TaskSrc.encSt s) (setParent s t p) :=
  TaskSrc.interpSetParent_eq_wf s hw t p F hF hrec

/-- the translated `predecessors` / `successors` setters (validation loops, unlink loop, relink loop) are the model's `setPreds` /
    `setSuccs`, for every state (no well-formedness needed) and every admissible right-hand side (`ValueOf`: a list of tasks and
    `None`s, one task, `None`) -/
theorem C16_source_set_predecessors (s : G) (st : PyLite.PState) (hh : st.heap = TaskSrc.encHeap s) (t : Uid) (v : PyLite.Val)
    (l : List Uid) (hv : TaskSrc.ValueOf v l) (F : Nat) (hF : s.n + 4 ≤ F) (hrec : (setPreds s t l).2 ≠ some (.crash .recursion)) :
    TaskSrc.interpSetPreds F t v st = TaskSrc.setterResult st (setPreds s t l) :=
  TaskSrc.interpSetPreds_eq s st hh t v l hv F hF hrec

theorem C16_source_set_successors (s : G) (st : PyLite.PState) (hh : st.heap = TaskSrc.encHeap s) (t : Uid) (v : PyLite.Val)
    (l : List Uid) (hv : TaskSrc.ValueOf v l) (F : Nat) (hF : s.n + 4 ≤ F) (hrec : (setSuccs s t l).2 ≠ some (.crash .recursion)) :
    TaskSrc.interpSetSuccs F t v st = TaskSrc.setterResult st (setSuccs s t l) :=
  TaskSrc.interpSetSuccs_eq s st hh t v l hv F hF hrec

/-- the translated `children` setter (validations, release of the old children, the loop of `v.parent = self` assignments - each
    running the translated `parent` setter on an intermediate state) is the model's `setChildren`, for every state -/
theorem C16_source_set_children (s : G) (st : PyLite.PState) (hh : st.heap = TaskSrc.encHeap s) (h : Uid) (v : PyLite.Val)
    (l : List Uid) (hv : TaskSrc.ValueOf v l) (F : Nat) (hF : s.n + 6 ≤ F) (hrec : (setChildren s h l).2 ≠ some (.crash .recursion)) :
    TaskSrc.interpSetChildren F h v st = TaskSrc.setterResult st (setChildren s h l) :=
  TaskSrc.interpSetChildren_eq s st hh h v l hv F hF hrec

/-! ### the tie of `WBS` (wbs.py) to the current source, by translation (tools/extract_wbs.py → Extracted/WbsSrc.lean, Lemmas/WbsSrc*.lean);
    the program of wbs.py is layered over the program of task.py: a call into task.py runs the translated setters of Lemmas/TaskSrc*.lean -/

/-- the translated `WBS.remove` (with its recursive `__remove` and `_ChildrenList.remove`) is the model's `wbsRemove`, for every state;
    `wbsRemoveResult_state`: state and error are those of `wbsRemove`, the returned flag is the one of `removeRec` -/
theorem C16_source_remove (s : G) (st : PyLite.PState) (hh : st.heap = TaskSrc.encHeap s) (w t : Uid) (F : Nat)
    (hF : 2 * s.n + 12 ≤ F) (hrec : (wbsRemove s w t).2 ≠ some (.crash .recursion)) :
    WbsSrc.interpRemove F w (.atom (.ref t)) st = WbsSrc.wbsRemoveResult st s w t :=
  WbsSrc.interpRemove_eq s st hh w t F hF hrec

/-- the translated `WBS.remove_all` removes, one after the other, the tasks its filter selected (the filter evaluation
    `self.tasks(key, **kwargs)` is an oracle `filt`: C18 is about it) and returns them -/
theorem C16_source_remove_all (filt : List PyLite.Atom → PyLite.PState → List Uid) (s : G) (st : PyLite.PState)
    (hh : st.heap = TaskSrc.encHeap s) (w : Uid) (key kw : PyLite.Atom) (F : Nat) (hF : 2 * s.n + 12 ≤ F)
    (hrec : (forEach (fun s t => wbsRemove s w t) s (filt [.ref w, key, kw] st)).2 ≠ some (.crash .recursion)) :
    WbsSrc.interpRemoveAll filt F w key kw st =
      WbsSrc.resultV st (TaskSrc.refs (filt [.ref w, key, kw] st)) (forEach (fun s t => wbsRemove s w t) s (filt [.ref w, key, kw] st)) :=
  WbsSrc.interpRemoveAll_eq filt s st hh w key kw F hF hrec

/-- the translated `roots` setter and `WBS.__floordiv__` are the children setter / `floordiv` on the hidden root -/
theorem C16_source_roots_set (s : G) (st : PyLite.PState) (hh : st.heap = TaskSrc.encHeap s) (w : Uid) (v : PyLite.Val) (l : List Uid)
    (hv : TaskSrc.ValueOf v l) (F : Nat) (hF : s.n + 7 ≤ F) (hrec : (setChildren s w l).2 ≠ some (.crash .recursion)) :
    WbsSrc.interpRootsSet F w v st = TaskSrc.setterResult st (setChildren s w l) :=
  WbsSrc.interpRootsSet_eq s st hh w v l hv F hF hrec

theorem C16_source_wbs_floordiv (s : G) (st : PyLite.PState) (hh : st.heap = TaskSrc.encHeap s) (w : Uid) (v : PyLite.Val) (l : List Uid)
    (hv : TaskSrc.ValueOf v l) (F : Nat) (hF : s.n + 8 ≤ F) (hrec : (floordiv s w l).2 ≠ some (.crash .recursion)) :
    WbsSrc.interpFloordiv F w v st = WbsSrc.resultV st v (floordiv s w l) :=
  WbsSrc.interpFloordiv_eq s st hh w v l hv F hF hrec

/-! ### the tie of the list façades of task.py (`_ChildrenList`, `_PredecessorsList`, `_SuccessorsList`, the operators, the list-level
    operations) to the current source, by translation (tools/extract_facade.py → Extracted/FacadeSrc.lean, Lemmas/FacadeSrc*.lean): 17 further
    functions of the program of task.py; the setter theorems of Lemmas/TaskSrc*.lean lift to the extended program by `progH_mono` -/

/-- `h.children.append(t)` / `.remove(t)` / `.insert(i, t)` (a façade taken from the current state) are the model's `chAppend` / `chRemove` /
    `chInsert` (`pyInsert`: Python's negative and out-of-range indexes) -/
theorem C16_source_children_append (s : G) (st : PyLite.PState) (hh : st.heap = TaskSrc.encHeap s) (h t : Uid) (F : Nat) (hF : s.n + 5 ≤ F)
    (hrec : (chAppend s h t).2 ≠ some (.crash .recursion)) :
    FacadeSrc.interpChAppend F h t st = FacadeSrc.opResult st (.atom .none) (chAppend s h t) :=
  FacadeSrc.interpChAppend_eq s st hh h t F hF hrec

theorem C16_source_children_remove (s : G) (st : PyLite.PState) (hh : st.heap = TaskSrc.encHeap s) (h t : Uid) (F : Nat) (hF : s.n + 7 ≤ F)
    (hrec : (chRemove s h t).2 ≠ some (.crash .recursion)) :
    FacadeSrc.interpChRemove F h t st = FacadeSrc.opResult st (.atom (.bool ((s.children h).contains t))) (chRemove s h t) :=
  FacadeSrc.interpChRemove_eq s st hh h t F hF hrec

theorem C16_source_children_insert (s : G) (st : PyLite.PState) (hh : st.heap = TaskSrc.encHeap s) (h : Uid) (i : Int) (t : Uid) (F : Nat)
    (hF : s.n + 7 ≤ F) (hrec : (chInsert s h i t).2 ≠ some (.crash .recursion)) :
    FacadeSrc.interpChInsert F h i t st = FacadeSrc.opResult st (.atom .none) (chInsert s h i t) :=
  FacadeSrc.interpChInsert_eq s st hh h i t F hF hrec

/-- `h.children.move(v, before=b, after=a)` is the model's `chMove` (`moveOne`), `h.children.reorder(ids)` the model's `chReorder`
    (`reorderLoop`: StopIteration for an unknown id, ValueError for a repeated one) - for every state, no proviso -/
theorem C16_source_children_move (s : G) (st : PyLite.PState) (hh : st.heap = TaskSrc.encHeap s) (h : Uid) (v : PyLite.Val) (ts : List Uid)
    (hv : TaskSrc.ValueOf v ts) (b a : Option Uid) (F : Nat) (hF : 3 ≤ F) :
    FacadeSrc.interpChMove F h v b a st = FacadeSrc.opResult st (.atom .none) (chMove s h ts b a) :=
  FacadeSrc.interpChMove_eq s st hh h v ts hv b a F hF

theorem C16_source_children_reorder (s : G) (st : PyLite.PState) (hh : st.heap = TaskSrc.encHeap s) (h : Uid) (ids : List Int) (F : Nat)
    (hF : 2 ≤ F) :
    FacadeSrc.interpChReorder F h ids st = FacadeSrc.opResult st (.atom .none) (chReorder s h ids) :=
  FacadeSrc.interpChReorder_eq s st hh h ids F hF

/-- `h.children.sort(key, reverse)` with a `str` key is the model's `chSort` (`sortBy`), for EVERY meaning `L` of `__getattribute__`
    under which the attribute values of the children are ordered as the model's integer keys (Python's stable `sorted` is a primitive,
    proved equal to the model's merge sort: `insSort_eq_mergeSort`) -/
theorem C16_source_children_sort (L : FacadeSrc.Lib) (s : G) (st : PyLite.PState) (hh : st.heap = TaskSrc.encHeap s) (h : Uid) (k : Nat)
    (rev : Bool) (key : Uid → Int) (val : Uid → PyLite.Atom) (F : Nat) (hF : 2 ≤ F)
    (hval : ∀ u ∈ s.children h, L "__getattribute__" [.ref u, .str k] = .ok (val u))
    (hord : ∀ u ∈ s.children h, ∀ v ∈ s.children h, PyLite.keyLe (val u) (val v) = some (decide (key u ≤ key v))) :
    FacadeSrc.interpChSort L F h (.atom (.str k)) rev st = FacadeSrc.opResult st (.atom .none) (chSort s h key rev) :=
  FacadeSrc.interpChSort_str_eq L s st hh h k rev key val F hF hval hord

/-- `t.predecessors.append(x)` / `.remove(x)` and the successor twins are the model's `prAppend` / `prRemove` / `suAppend` / `suRemove` -/
theorem C16_source_predecessors_append (s : G) (st : PyLite.PState) (hh : st.heap = TaskSrc.encHeap s) (t x : Uid) (F : Nat) (hF : s.n + 5 ≤ F)
    (hrec : (prAppend s t x).2 ≠ some (.crash .recursion)) :
    FacadeSrc.interpPrAppend F t x st = FacadeSrc.opResult st (.atom .none) (prAppend s t x) :=
  FacadeSrc.interpPrAppend_eq s st hh t x F hF hrec

theorem C16_source_predecessors_remove (s : G) (st : PyLite.PState) (hh : st.heap = TaskSrc.encHeap s) (t x : Uid) (F : Nat) (hF : s.n + 5 ≤ F)
    (hrec : (prRemove s t x).2 ≠ some (.crash .recursion)) :
    FacadeSrc.interpPrRemove F t x st = FacadeSrc.opResult st (.atom (.bool ((s.preds t).contains x))) (prRemove s t x) :=
  FacadeSrc.interpPrRemove_eq s st hh t x F hF hrec

theorem C16_source_successors_append (s : G) (st : PyLite.PState) (hh : st.heap = TaskSrc.encHeap s) (t x : Uid) (F : Nat) (hF : s.n + 5 ≤ F)
    (hrec : (suAppend s t x).2 ≠ some (.crash .recursion)) :
    FacadeSrc.interpSuAppend F t x st = FacadeSrc.opResult st (.atom .none) (suAppend s t x) :=
  FacadeSrc.interpSuAppend_eq s st hh t x F hF hrec

theorem C16_source_successors_remove (s : G) (st : PyLite.PState) (hh : st.heap = TaskSrc.encHeap s) (t x : Uid) (F : Nat) (hF : s.n + 5 ≤ F)
    (hrec : (suRemove s t x).2 ≠ some (.crash .recursion)) :
    FacadeSrc.interpSuRemove F t x st = FacadeSrc.opResult st (.atom (.bool ((s.succs t).contains x))) (suRemove s t x) :=
  FacadeSrc.interpSuRemove_eq s st hh t x F hF hrec

/-- the operators `h // v`, `t << v`, `t >> v` are the model's `floordiv` / `lshift` / `rshift` and return their right operand -/
theorem C16_source_floordiv (s : G) (st : PyLite.PState) (hh : st.heap = TaskSrc.encHeap s) (h : Uid) (v : PyLite.Val) (l : List Uid)
    (hv : TaskSrc.ValueOf v l) (F : Nat) (hF : s.n + 7 ≤ F) (hrec : (floordiv s h l).2 ≠ some (.crash .recursion)) :
    FacadeSrc.interpFloordiv F h v st = FacadeSrc.opResult st v (floordiv s h l) :=
  FacadeSrc.interpFloordiv_eq s st hh h v l hv F hF hrec

theorem C16_source_lshift (s : G) (st : PyLite.PState) (hh : st.heap = TaskSrc.encHeap s) (t : Uid) (v : PyLite.Val) (l : List Uid)
    (hv : TaskSrc.ValueOf v l) (F : Nat) (hF : s.n + 5 ≤ F) (hrec : (lshift s t l).2 ≠ some (.crash .recursion)) :
    FacadeSrc.interpLshift F t v st = FacadeSrc.opResult st v (lshift s t l) :=
  FacadeSrc.interpLshift_eq s st hh t v l hv F hF hrec

theorem C16_source_rshift (s : G) (st : PyLite.PState) (hh : st.heap = TaskSrc.encHeap s) (t : Uid) (v : PyLite.Val) (l : List Uid)
    (hv : TaskSrc.ValueOf v l) (F : Nat) (hF : s.n + 5 ≤ F) (hrec : (rshift s t l).2 ≠ some (.crash .recursion)) :
    FacadeSrc.interpRshift F t v st = FacadeSrc.opResult st v (rshift s t l) :=
  FacadeSrc.interpRshift_eq s st hh t v l hv F hF hrec

end Pj
