/-
  Props/C13Src.lean — C13, source level (PARTIAL tie): io/csv_io.py and io/raw.py are translated on every run
  (tools/extract_csv.py → Extracted/CsvSrc.lean: the cell parsers and formatters, `read_csv`, `write_csv`, `tasks_to_raws`, `raws_to_wbs`).
  Proved in general: the numbering of texts round-trips and `__parse_str` is the model's `nonEmpty`.  The other cell functions, the
  write side (header order, one row per task in WBS order with parent and predecessor ids = the model's `writeCsv` of the records) and
  the read side (= the model's `readCsv` + `rebuildForest`, older files without `min_start`, BOM, permuted columns, the error cases)
  are tied by kernel-evaluated runs of the translated program on concrete files (Lemmas/CsvSrcCheck*.lean - imported here, so a
  translated source that no longer reproduces them breaks this module): tests at the level of the kernel, not theorems about every
  input.
-/
import PjVerif.Lemmas.CsvSrcD
import PjVerif.Lemmas.CsvSrcCheckA
import PjVerif.Lemmas.CsvSrcCheckB
import PjVerif.Lemmas.CsvSrcCheckC
namespace Pj
open Pj.PyLite Pj.Csv

/-- texts are numbered injectively (a text is the atom `.str (strCode s)`) -/
theorem C13_source_text_code_roundtrip (s : List Char) : strDecode (strCode s) = s :=
  CsvSrc.strDecode_code s

/-- the translated `__parse_str`: an empty cell is `None`, any other cell is its text - for every meaning `L` of the built-ins -/
theorem C13_source_parse_str (L : IOLib) (F : Nat) (s : List Char) :
    CsvSrc.interpCell L (F + 1) Extracted.Csv.fn_parse_str (strA s) = .ok (.atom (CsvSrc.optStr (nonEmpty s))) :=
  CsvSrc.parse_str_eq L F s

end Pj
