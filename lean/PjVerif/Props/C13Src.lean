/-
  Props/C13Src.lean — C13, source level (PARTIAL tie): io/csv_io.py and io/raw.py are translated on every run
  (tools/extract_csv.py → Extracted/CsvSrc.lean: the cell parsers and formatters, `read_csv`, `write_csv`, `tasks_to_raws`, `raws_to_wbs`).
  Proved in general, for every meaning `L` of the built-ins (Lemmas/CsvSrcA.lean, CsvSrcB*.lean, CsvSrcW*.lean, CsvSrcR*.lean): every cell
  parser and `__format_custom`, `__parse_header` (= the model's `headerIndex`), and the whole WRITE side: `write_csv` of a well-formed
  WBS description is the model's `writeCsv` of the records.  The READ side is proved down to the record layer (`read_csv` = `raws_to_wbs`
  on the parsed rows, success direction; the first two loops of `raws_to_wbs` - create the tasks, hang the hierarchy - as explicit folds on
  the store: Lemmas/CsvSrcS*.lean); and Lemmas/CsvSrcT*.lean: the `roots` loop, the predecessor loop, the whole run of `raws_to_wbs` and of `read_csv` - `C13_source_read_csv` below -
  with the resulting store in closed form over the row table: `final_roots`, `final_kids`, `final_parent`, `final_preds`, `final_tasks`);
  the last step from those closed forms to the literal `rebuildForest` of the model (it needs `int()` injective on the id texts and a fuel
  argument on the model side), the `successors` lists, the error direction and so the full reader are
  tied by kernel-evaluated runs of the translated program on concrete files (Lemmas/CsvSrcCheckC.lean - imported here, so a translated
  source that no longer reproduces them breaks this module): tests at the level of the kernel, not theorems about every input.
-/
import PjVerif.Lemmas.CsvSrcD
import PjVerif.Lemmas.CsvSrcB
import PjVerif.Lemmas.CsvSrcS
import PjVerif.Lemmas.CsvSrcT
import PjVerif.Lemmas.CsvSrcCheckA
import PjVerif.Lemmas.CsvSrcCheckB
import PjVerif.Lemmas.CsvSrcCheckC
namespace Pj
open Pj.PyLite Pj.Csv

/-- texts are numbered injectively (a text is the atom `.str (strCode s)`) -/
theorem C13_source_text_code_roundtrip (s : List Char) : strDecode (strCode s) = s :=
  CsvSrc.strDecode_code s

/-- the translated `__parse_str`: an empty cell is `None`, any other cell is its text - for every meaning `L` of the built-ins -/
theorem C13_source_parse_str (L : IOLib) (F : Nat) (s : List Char) :
    CsvSrc.interpCell L (F + 1) Extracted.Csv.fn_parse_str (strA s) = .ok (.atom (CsvSrc.optStr (nonEmpty s))) :=
  CsvSrc.parse_str_eq L F s

/-- the translated cell parsers: an empty cell is `None`; otherwise the library conversion decides, its error being the cell's error -/
theorem C13_source_parse_bool (L : IOLib) (F : Nat) (s : List Char) :
    CsvSrc.interpCell L (F + 1) Extracted.Csv.fn_parse_bool (strA s) = .ok (.atom (.bool (s == "True".toList))) :=
  CsvSrc.parse_bool_eq L F s

theorem C13_source_parse_int (L : IOLib) (F : Nat) (s : List Char) :
    CsvSrc.interpCell L (F + 1) Extracted.Csv.fn_parse_int (strA s) = CsvSrc.cellParse L.toInt PyLite.Atom.num s :=
  CsvSrc.parse_int_eq L F s

theorem C13_source_parse_float (L : IOLib) (F : Nat) (s : List Char) :
    CsvSrc.interpCell L (F + 1) Extracted.Csv.fn_parse_float (strA s) = CsvSrc.cellParse L.toFloat PyLite.Atom.num s :=
  CsvSrc.parse_float_eq L F s

theorem C13_source_parse_date (L : IOLib) (F : Nat) (s : List Char) :
    CsvSrc.interpCell L (F + 1) Extracted.Csv.fn_parse_date (strA s) = CsvSrc.cellParse L.strptime PyLite.Atom.time s :=
  CsvSrc.parse_date_eq L F s

/-- `__parse_predecessors`: the cell split on ';', every piece through `int()` -/
theorem C13_source_parse_predecessors (L : IOLib) (F : Nat) (s : List Char) :
    CsvSrc.interpCell L (F + 1) Extracted.Csv.fn_parse_predecessors (strA s) =
      if s = [] then .ok (.list []) else ((splitOn ';' s).mapM L.toInt).map (fun qs => PyLite.Val.list (qs.map PyLite.Atom.num)) :=
  CsvSrc.parse_predecessors_eq L F s

/-- `__format_custom`: datetimes through `strftime`, every other value unchanged (0, 0.0, False, '' and None included - the empty
    cell for `None` is the csv writer's doing) -/
theorem C13_source_format_custom (L : IOLib) (F : Nat) (a : PyLite.Atom) :
    CsvSrc.interpCell L (F + 1) Extracted.Csv.fn_format_custom a =
      match a with
      | .time t => .ok (.atom (strA (L.strftime t)))
      | .ref _ => .error PyLite.stuck
      | a => .ok (.atom a) :=
  CsvSrc.format_custom_eq L F a

/-- `__parse_header` is the model's `headerIndex`: BOM stripped, the last of repeated column names wins -/
theorem C13_source_header_index (cells : List Str) (name : Str) :
    PyLite.Dict.get? (CsvSrc.hdrDict cells) (strA name) = (headerIndex cells name).map CsvSrc.numI :=
  CsvSrc.hdrDict_get cells name

/-- the WRITE side: running the translated `write_csv` (with `tasks_to_raws`, the header assembly, the row loop and the csv writer) on
    a well-formed description `W` of a WBS (`WF`: indices in range, custom attribute names distinct, not slot names, not starting
    with '_', values None / number / bool / str / datetime) produces exactly the model's file -/
theorem C13_source_write_csv (L : IOLib) (F : Nat) (W : CsvSrc.WbsD) (hWF : CsvSrc.WF W) :
    CsvSrc.interpWrite L (F + 3) W = .ok (writeCsv (CsvSrc.recsOf L W)) :=
  CsvSrc.write_csv_eq L F W hWF

/-- the READ side, success direction: for a text that parses into a header and rows whose standard cells are present and parseable
    (`RowsRaw`), with well-typed raw rows (`RawOK2`: scalars where scalars belong, estimates / spent not negative), pairwise different
    ids, predecessor ids that name rows and acyclic parent ids, running the translated `read_csv` (with `raws_to_wbs`: create the tasks,
    hang the hierarchy, add the roots, link the predecessors through `wbs[id]`) returns the new WBS object and the store `finalSt`, whose
    roots, children lists, parents, predecessor lists and depth-first task order are given in closed form over the row table by
    `CsvSrc.final_roots`, `final_kids`, `final_parent`, `final_preds`, `final_tasks` -/
theorem C13_source_read_csv (L : IOLib) (F : Nat) (text : List Char) (hdr : List Str) (rows : List (List Str))
    (es : List PyLite.Env) (hp : parse text = some (hdr :: rows)) (hes : CsvSrc.RowsRaw L hdr rows es)
    (hok : ∀ e ∈ es, CsvSrc.RawOK2 e) (hno : ∀ e ∈ es, ∀ x, e.get? "parent" ≠ some (.atom (.ref x)))
    (hids : (es.map (fun e => CsvSrc.slot e "id")).Pairwise (fun a b => a.pyEq b = false))
    (hpreds : ∀ e ∈ es, ∀ k ∈ CsvSrc.predsOf e,
      (CsvSrc.dictRef (CsvSrc.idDict (CsvSrc.readSt hdr rows es) (List.range es.length)) k).isSome)
    (hac : CsvSrc.Acyclic (CsvSrc.readSt hdr rows es) (List.range es.length)) :
    CsvSrc.interpRead L (F + 3) text =
      .ok (.atom (.ref (CsvSrc.wbsRef (CsvSrc.readSt hdr rows es) (List.range es.length))),
        CsvSrc.finalSt (CsvSrc.readSt hdr rows es) (List.range es.length)) :=
  CsvSrc.read_csv_run2 L F text hdr rows es hp hes hok hno hids hpreds hac

end Pj
