/-
  Props/C10.lean — C10: clone and subtree produce faithful, independent copies.
  The copy is the model's own setters replayed on fresh uids (Model/Clone.lean), so everything proved about the
  setters (C01, C05, C11, C15) applies to it.
-/
import PjVerif.Lemmas.CloneLemmas
import PjVerif.Lemmas.WbsSrcC
namespace Pj

/-- the selection a `clone` / `subtree(roots)` call copies: the roots and their descendants, each once -/
def selOf (s : G) (roots : List Uid) : Option (List Uid) :=
  (roots.mapM (fun r => subtreeF s.children s.fuel r)).map (fun l => dedupFirst l.flatten)

/-- the call is well-formed: `w` is a WBS of a reachable state and the roots are ordinary members of it -/
structure CloneArgs (s : G) (w : Uid) (roots : List Uid) : Prop where
  inv : Inv s
  wbs : s.hidden w = true
  wLt : w < s.n
  member : ∀ r ∈ roots, s.owner r = some w ∧ s.hidden r = false

/-- the copies are new objects: every uid of the source universe keeps its id, and the state only grows by the
    copies and the new WBS root -/
theorem C10_fresh (s : G) (w : Uid) (roots sel : List Uid) (h : selOf s roots = some sel) :
    (cloneSel s w roots).1.n = s.n + sel.length + 1 ∧ (cloneSel s w roots).2.2 = s.n + sel.length ∧
    (∀ u, u < s.n → (cloneSel s w roots).1.tid u = s.tid u) ∧
    (∀ i, i < sel.length → (cloneSel s w roots).1.tid (s.n + i) = s.tid (sel.getD i 0)) := by
  obtain ⟨subs, hsubs, rfl⟩ := Option.map_eq_some_iff.mp h
  rw [cloneSel_eq s w roots subs hsubs]
  obtain ⟨hn, ht⟩ := seqOps_n_tid s w roots (dedupFirst subs.flatten) (extend s (dedupFirst subs.flatten))
  refine ⟨hn, rfl, ?_, ?_⟩
  · intro u hu
    show (seqOps id _ _).1.tid u = _
    rw [ht]; exact extend_tid_lt s _ u hu
  · intro i hi
    show (seqOps id _ _).1.tid (s.n + i) = _
    rw [ht]; exact extend_tid_clone s _ i hi

/-- whatever the outcome, the state after the call satisfies the full invariant: well-formed graph, truthful owners,
    unique ids, bounded -/
theorem C10_result_inv (s : G) (w : Uid) (roots : List Uid) (ha : CloneArgs s w roots) :
    Inv (cloneSel s w roots).1 :=
  cloneSel_Inv s w roots ha.inv ha.member

/-- the source WBS is left unchanged: every field of every task that belongs to `w` (and of `w`'s root) -/
theorem C10_source_frame (s : G) (w : Uid) (roots : List Uid) (ha : CloneArgs s w roots) :
    sourceFrameB s (cloneSel s w roots).1 w = true :=
  cloneSel_sourceFrame s w roots ha.inv

/-- tasks outside the source WBS only gain mirror entries that point to copies -/
theorem C10_outside_frame (s : G) (w : Uid) (roots : List Uid) (ha : CloneArgs s w roots) :
    outsideFrameB s (cloneSel s w roots).1 w = true :=
  cloneSel_outsideFrame s w roots ha.inv

/-- on a reachable state the copy is never rejected -/
theorem C10_accepted (s : G) (w : Uid) (roots : List Uid) (ha : CloneArgs s w roots) :
    (cloneSel s w roots).2.1 = none :=
  cloneSel_accepted s w roots ha.inv ha.wbs ha.member

/-- the copy mirrors the selection: ids, hierarchy and sibling order, owner = the new WBS; links between selected
    tasks are copied, links to other members of the source are dropped, links to outside tasks are shared -/
theorem C10_iso (s : G) (w : Uid) (roots sel : List Uid) (ha : CloneArgs s w roots) (h : selOf s roots = some sel)
    (hind : rootsIndependentB s roots = true) :
    cloneHierarchyB s (cloneSel s w roots).1 (s.n + sel.length) sel roots = true ∧
    cloneLinksB s (cloneSel s w roots).1 w sel = true := by
  obtain ⟨subs, hsubs, rfl⟩ := Option.map_eq_some_iff.mp h
  exact cloneSel_iso s w roots subs ha.inv ha.wbs ha.member hsubs hind

/-- non-vacuity and a concrete check: a 5-task WBS with a link inside, a link to a task of another WBS and a link to
    a non-selected member; `subtree` of one branch -/
theorem C10_example :
    let s0 := fresh 8 (fun u => if u == 6 || u == 7 then emptyId else (u : Int))
    let s := run s0 [.setChildren 6 [0, 1], .setChildren 0 [2, 3], .setChildren 7 [4], .setPreds 2 [3, 1, 4], .suAppend 3 5]
    let r := cloneSel s 6 [0]
    r.2.1 = none ∧ cloneHierarchyB s r.1 (s.n + 3) [0, 2, 3] [0] = true ∧ cloneLinksB s r.1 6 [0, 2, 3] = true ∧
    sourceFrameB s r.1 6 = true ∧ outsideFrameB s r.1 6 = true ∧ r.1.preds 9 = [4, 10] := by
  decide +kernel

/-! ### the tie of `WBS` (wbs.py) to the current source, by translation (tools/extract_wbs.py → Extracted/WbsSrc.lean, Lemmas/WbsSrc*.lean);
    the program of wbs.py is layered over the program of task.py: a call into task.py runs the translated setters of Lemmas/TaskSrc*.lean -/

/-- the translated `WBS.clone` / `WBS.subtree` (with `__clone`, `__clone_tasks` and its closure `link_target`) build, on a reachable
    state and for roots that are members of the WBS, exactly the model's copy (`cloneWbs` / `cloneSel`): the new WBS object, the store
    of the model's new state, the allocation pointer.  Source and model differ in three places (dicts keyed by task id vs identity;
    relations read while the setters run vs from the initial state; the new WBS() made last vs first) - each proved equal on
    reachable states.  `Task.clone()`, `WBS()` and the copying of a WBS's public attributes are primitives. -/
theorem C10_source_clone (s : G) (st : PyLite.PState) (hh : st.heap = TaskSrc.encHeap s) (hr : st.reads = s.n) (hi : Inv s) (w : Uid)
    (hwbs : s.hidden w = true) (F : Nat) (hF : (cloneWbs s w).1.n + 12 ≤ F) :
    WbsSrc.interpClone F w st = WbsSrc.cloneResult st (cloneWbs s w) :=
  WbsSrc.interpClone_eq s st hh hr hi w hwbs F hF

theorem C10_source_subtree (s : G) (st : PyLite.PState) (hh : st.heap = TaskSrc.encHeap s) (hr : st.reads = s.n) (hi : Inv s) (w : Uid)
    (hwbs : s.hidden w = true) (v : PyLite.Val) (roots : List Uid) (hv : TaskSrc.ValueOf v roots)
    (hm : ∀ r ∈ roots, s.owner r = some w ∧ s.hidden r = false) (F : Nat) (hF : (cloneSel s w roots).1.n + 12 ≤ F) :
    WbsSrc.interpSubtree F w v st = WbsSrc.cloneResult st (cloneSel s w roots) :=
  WbsSrc.interpSubtree_eq s st hh hr hi w hwbs v roots hv hm F hF

end Pj
