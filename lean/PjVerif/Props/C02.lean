/-
  Props/C02.lean — C02: forward schedules never start a task before its prerequisites are finished.
  PARTIAL: proved when no task that has children carries a dependency link (known findings KF-S2: with links on
  summary tasks the recursive pass hands bounds down the wrong edges).
-/
import PjVerif.Lemmas.SchedC02
import PjVerif.Props.Witness
import PjVerif.Lemmas.PassSrc
namespace Pj

/-- under the structural facts C01 guarantees for every reachable graph (parent pointers agree with the children
    lists, links are stored on both ends) and when no task that has children carries a dependency link:
    a leaf with unfixed start never starts, and never has work reserved, on a day earlier than the end day of any
    prerequisite, the project start day, its min_start day or the current day; a milestone sits exactly at the latest
    prerequisite end (or the project start) -/
theorem C02_partial (env : Env) (f0 : Uid → Fields) (res0 : List (Option Nat × Cal)) (o : Output)
    (hf : env.flagsOK) (hc : env.clockOK) (hs : noSummaryLinks env = true) (ho : outsideLeaves env = true)
    (hp : env.parentsOK) (hl : env.linksSym)
    (h : forwardCalc env f0 res0 = .ok o) :
    c02Leaf env f0 o = true ∧ c02Milestone env o = true :=
  C02_partial_v2 env f0 res0 o hf hc hs ho hp hl h

/-- the full statement fails on the model exactly as it fails on the code (replayed there on every run,
    findings/KF-S2-C02.json): a kernel-checked counterexample with a link on a summary task -/
theorem C02_full_fails :
    ∃ o, forwardCalc Witness.kfS2Env Witness.kfS2F0 Witness.kfS2Res = .ok o ∧ c02Leaf Witness.kfS2Env Witness.kfS2F0 o = false := by
  have hev : (match forwardCalc Witness.kfS2Env Witness.kfS2F0 Witness.kfS2Res with
      | .ok o => c02Leaf Witness.kfS2Env Witness.kfS2F0 o == false
      | .error _ => false) = true := by decide +kernel
  cases hc : forwardCalc Witness.kfS2Env Witness.kfS2F0 Witness.kfS2Res with
  | error e => rw [hc] at hev; cases hev
  | ok o => rw [hc] at hev; exact ⟨o, rfl, by simpa using hev⟩

/-! ### the tie of the recursive forward pass to the current source, by translation

`tools/extract_pass.py` translates `ForwardScheduler.__forward_pass` (schedule.py) into a PyLite term on every run
(Extracted/PassSrc.lean); a third evaluator of PyLite runs it on an object store: task attributes as mutable slots, the
`calculated` list, the resource table with `setdefault`, the scripted clock, the ledger, recursion with fuel; the two calls
of the inner-loop methods run the translated source of 12.6b.  The theorem: interpreting the translated method on the
encoding of a model state is the encoding of the model's `fwdPass` - unless the model run ends in RecursionError (fuel
exhausted or a task met again while in progress: a check Python does not have; excluded for real inputs by C14).  `ms` is
the tasks' own milestone flag; `hms` says the model's flag is the effective one (flagged and childless). -/

theorem C02_source_forward_pass (env : Env) (ms : Uid → Bool) (wfuel : Nat)
    (hms : ∀ u, (env.info u).milestone = (ms u && (env.info u).children.isEmpty))
    (hw : Extracted.fwdShiftMaxSteps < wfuel) (fuel fuel' : Nat) (hle : fuel ≤ fuel') (stk : List Uid) (σ : SS)
    (t : Uid) (minDate : Time) (hne : fwdPass env fuel stk σ t minDate ≠ .error (.crash .recursion)) :
    PassSrc.interpFwdPass env wfuel (PassSrc.calRef σ.res) fuel' (PassSrc.encS env ms σ) t minDate =
      (fwdPass env fuel stk σ t minDate).map (PassSrc.encS env ms) :=
  PassSrc.interpFwdPass_eq env ms wfuel hms hw fuel fuel' hle stk σ t minDate hne

end Pj
