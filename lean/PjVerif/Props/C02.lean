/-
  Props/C02.lean — C02: forward schedules never start a task before its prerequisites are finished.
  PARTIAL: proved when no task that has children carries a dependency link (known findings KF-S2: with links on
  summary tasks the recursive pass hands bounds down the wrong edges).
-/
import PjVerif.Lemmas.SchedC02
import PjVerif.Props.Witness
namespace Pj

theorem C02_partial (env : Env) (f0 : Uid → Fields) (res0 : List (Option Nat × Cal)) (o : Output)
    (hf : env.flagsOK) (hc : env.clockOK) (hs : noSummaryLinks env = true) (ho : outsideLeaves env = true)
    (h : forwardCalc env f0 res0 = .ok o) :
    c02Leaf env f0 o = true ∧ c02Milestone env o = true := by
  sorry

/-- the full statement fails on the model exactly as it fails on the code (replayed there on every run,
    findings/KF-S2-C02.json): a kernel-checked counterexample with a link on a summary task -/
theorem C02_full_fails :
    ∃ o, forwardCalc Witness.kfS2Env Witness.kfS2F0 Witness.kfS2Res = .ok o ∧ c02Leaf Witness.kfS2Env Witness.kfS2F0 o = false := by
  sorry

end Pj
