/-
  Props/C02.lean — C02: forward schedules never start a task before its prerequisites are finished.
  PARTIAL: proved when no task that has children carries a dependency link (known findings KF-S2: with links on
  summary tasks the recursive pass hands bounds down the wrong edges).
-/
import PjVerif.Lemmas.SchedC02
import PjVerif.Props.Witness
namespace Pj

/-- under the structural facts C01 guarantees for every reachable graph (parent pointers agree with the children
    lists, links are stored on both ends) and when no task that has children carries a dependency link:
    a leaf with unfixed start never starts, and never has work reserved, on a day earlier than the end day of any
    prerequisite, the project start day, its min_start day or the current day; a milestone sits exactly at the latest
    prerequisite end (or the project start) -/
theorem C02_partial (env : Env) (f0 : Uid → Fields) (res0 : List (Option Nat × Cal)) (o : Output)
    (hf : env.flagsOK) (hc : env.clockOK) (hs : noSummaryLinks env = true) (ho : outsideLeaves env = true)
    (hp : env.parentsOK) (hl : env.linksSym)
    (h : forwardCalc env f0 res0 = .ok o) :
    c02Leaf env f0 o = true ∧ c02Milestone env o = true :=
  C02_partial_v2 env f0 res0 o hf hc hs ho hp hl h

/-- the full statement fails on the model exactly as it fails on the code (replayed there on every run,
    findings/KF-S2-C02.json): a kernel-checked counterexample with a link on a summary task -/
theorem C02_full_fails :
    ∃ o, forwardCalc Witness.kfS2Env Witness.kfS2F0 Witness.kfS2Res = .ok o ∧ c02Leaf Witness.kfS2Env Witness.kfS2F0 o = false := by
  have hev : (match forwardCalc Witness.kfS2Env Witness.kfS2F0 Witness.kfS2Res with
      | .ok o => c02Leaf Witness.kfS2Env Witness.kfS2F0 o == false
      | .error _ => false) = true := by decide +kernel
  cases hc : forwardCalc Witness.kfS2Env Witness.kfS2F0 Witness.kfS2Res with
  | error e => rw [hc] at hev; cases hev
  | ok o => rw [hc] at hev; exact ⟨o, rfl, by simpa using hev⟩

end Pj
