/-
  Props/C13.lean — C13: write_csv followed by read_csv reproduces the WBS.
  Three layers: text (Python's csv dialect, modelled and validated against the C module by a differential stream),
  fields (None ↔ '', 'True', ';'-joined ids, header lookup, BOM), structure (hierarchy through parent_id).
-/
import PjVerif.Lemmas.CsvLemmas
namespace Pj.Csv

/-- text layer: every matrix of strings — delimiters, quotes, carriage returns and line feeds included — is read
    back exactly as written -/
theorem C13_text (rows : List (List (List Char))) : parse (encodeFile rows) = some rows :=
  parse_encodeFile rows

/-- a record the writer can be given: formatted cells are non-empty, ids contain no ';', custom columns are distinct,
    do not clash with the standard columns and contain no byte-order mark -/
structure WfRec (r : Rec) : Prop where
  idNe : r.id ≠ []
  startNe : r.start ≠ some []
  endNe : r.end_ ≠ some []
  estNe : r.estimate ≠ some []
  spentNe : r.spent ≠ some []
  pidNe : r.parentId ≠ some []
  preds : ∀ p ∈ r.predIds, p ≠ [] ∧ ';' ∉ p
  cols : (r.custom.map (·.1)).Nodup
  colsStd : ∀ c ∈ r.custom.map (·.1), c ∉ defaultFields ∧ '﻿' ∉ c

/-- field layer: reading a written file returns the records, empty text read as None, custom cells per file column -/
theorem C13_fields (recs : List Rec) (hw : ∀ r ∈ recs, WfRec r) :
    readCsv (writeCsv recs) = some (recs.map (normalise (customColumns recs))) := by
  have hg : GoodCols (customColumns recs) := goodCols_customColumns recs (fun r hr => (hw r hr).colsStd)
  exact readCsv_writeCsv recs _ (fun r hr =>
    have w := hw r hr
    readRow_rowCells_normalise hg r w.startNe w.endNe w.estNe w.spentNe w.pidNe w.preds)

/-- one round trip is a fixpoint: what was read back is reproduced exactly by a further write/read cycle, hence the
    file written from it is reproduced byte for byte -/
theorem C13_fixpoint (recs r1 : List Rec) (hw : ∀ r ∈ recs, WfRec r) (h : readCsv (writeCsv recs) = some r1) :
    readCsv (writeCsv r1) = some r1 ∧
    ∀ r2, readCsv (writeCsv r1) = some r2 → writeCsv r2 = writeCsv r1 := by
  have hg : GoodCols (customColumns recs) := goodCols_customColumns recs (fun r hr => (hw r hr).colsStd)
  have hr1 : r1 = recs.map (normalise (customColumns recs)) := by
    rw [C13_fields recs hw] at h; exact (Option.some.inj h).symm
  -- what was read back is again writable
  have hw1 : ∀ r ∈ r1, WfRec r := by
    intro r hr
    rw [hr1] at hr
    obtain ⟨r0, hr0, rfl⟩ := List.mem_map.mp hr
    have w := hw r0 hr0
    exact { idNe := w.idNe, startNe := w.startNe, endNe := w.endNe, estNe := w.estNe, spentNe := w.spentNe,
            pidNe := w.pidNe, preds := w.preds,
            cols := by rw [custom_names_normalise]; exact hg.1,
            colsStd := by rw [custom_names_normalise]; exact hg.2 }
  have hfix : readCsv (writeCsv r1) = some r1 := by
    rw [C13_fields r1 hw1]
    by_cases hne : recs = []
    · subst hne; subst hr1; rfl
    · have hc : customColumns r1 = customColumns recs := by
        rw [hr1]; exact customColumns_normalise _ hg.1 recs hne
      rw [hc, hr1, List.map_map]
      congr 1
      exact List.map_congr_left (fun r _ => normalise_idem _ r)
  refine ⟨hfix, fun r2 h2 => ?_⟩
  rw [hfix] at h2
  rw [← Option.some.inj h2]

/-- a UTF-8 byte-order mark in front of the first header cell does not change how a row is read -/
theorem C13_bom (hdr : List Str) (h0 : Str) (row : List Str) :
    readRow (('﻿' :: h0) :: hdr) row = readRow (h0 :: hdr) row :=
  readRow_bom hdr h0 row

/-- ids of a forest, depth first -/
def Tree.ids : Tree → List Str
  | .node id ch => id :: Tree.idsList ch
where
  Tree.idsList : List Tree → List Str
    | [] => []
    | t :: ts => Tree.ids t ++ Tree.idsList ts

/-- structure layer: hierarchy and sibling order survive the trip through (id, parent_id) rows, for any depth, when
    ids are unique (C05) -/
theorem C13_structure (f : List Tree) (hn : ((Tree.rowsList none f).map (·.1)).Nodup) :
    rebuildForest (Tree.rowsList none f) = f :=
  rebuildForest_rows f hn

end Pj.Csv
