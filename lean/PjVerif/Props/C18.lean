/-
  Props/C18.lean — C18: task queries select exactly the matching tasks.
  The filter chain is translated from the source on every run (Extracted/Query.lean); these theorems are re-checked
  against what the code says now.
-/
import PjVerif.Lemmas.Query
namespace Pj

/-- the translated chain has exactly the documented suffixes, each branch cuts exactly its suffix off the keyword -/
theorem C18_table :
    Extracted.queryChain.map (fun b => (b.1, b.2.1)) =
      allKinds.map (fun k => (kindSuffix k, (kindSuffix k).length)) := by
  decide

/-- every branch's reject condition is the negation of the documented meaning of its kind, for every attribute value
    and every filter value (including the cases where Python raises TypeError) -/
theorem C18_kind_meaning (re : String → String → Bool) (val : Val) (v : FVal) :
    ∀ p ∈ Extracted.queryChain.zip allKinds,
      p.1.2.2.eval re val v = (meaning re p.2 val v).map (fun b => !b) := by
  simp only [Extracted.queryChain, allKinds, List.zip_cons_cons, List.zip_nil_right, List.mem_cons,
    List.not_mem_nil, or_false]
  rintro p (rfl | rfl | rfl | rfl | rfl | rfl | rfl | rfl | rfl | rfl | rfl) <;>
    cases val <;> cases v <;>
    simp [RExpr.eval, meaning, cmpVal, Except.map, bind, Except.bind, pure, Except.pure, throw, throwThe,
      MonadExceptOf.throw]

theorem C18_default_meaning (re : String → String → Bool) (val : Val) (v : FVal) :
    Extracted.queryDefault.eval re val v = (meaning re .eq val v).map (fun b => !b) := by
  cases val <;> cases v <;>
    simp [Extracted.queryDefault, RExpr.eval, meaning, cmpVal, Except.map, pure, Except.pure]

/-- the chain's first-match parsing agrees with the documented suffixes for every keyword -/
theorem C18_parse (k : List Char) :
    ∃ kd, specParse k = ((parseKey Extracted.queryChain Extracted.queryDefault k).1, kd) ∧
      ∀ re val v, (parseKey Extracted.queryChain Extracted.queryDefault k).2.eval re val v =
        (meaning re kd val v).map (fun b => !b) := by
  have htab : ∀ x ∈ Extracted.queryChain.zip allKinds,
      x.1.1 = kindSuffix x.2 ∧ x.1.2.1 = (kindSuffix x.2).length := by decide
  have hfind := find?_zip_agree (fun b : String × Nat × RExpr => endsWith k b.1.toList)
    (fun kd => endsWith k (kindSuffix kd).toList) Extracted.queryChain allKinds (by decide)
    (fun x hx => by simp only [(htab x hx).1])
  rw [specParse_eq_find]
  unfold parseKey
  rcases hfind with ⟨h1, h2⟩ | ⟨a, b, hm, h1, h2⟩
  · rw [h1, h2]
    exact ⟨.eq, rfl, fun re val v => C18_default_meaning re val v⟩
  · rw [h1, h2]
    refine ⟨b, ?_, fun re val v => C18_kind_meaning re val v (a, b) hm⟩
    show (cutLast k (kindSuffix b).length, b) = (cutLast k a.2.1, b)
    rw [show a.2.1 = (kindSuffix b).length from (htab (a, b) hm).2]

/-- one filter holds in the code's sense exactly when it holds by the documented meaning -/
theorem C18_holds (re : String → String → Bool) (attr : List Char → Val) (k : List Char) (v : FVal) :
    holds re attr k v = specHolds re attr k v := by
  obtain ⟨kd, h1, h2⟩ := C18_parse k
  rw [holds_eq, specHolds_eq, h1, h2]
  exact map_not_bind_not _

theorem C18_holdsAll (re : String → String → Bool) (attr : List Char → Val) (fs : List (List Char × FVal)) :
    holdsAll re attr fs = specHoldsAll re attr fs := by
  induction fs with
  | nil => rfl
  | cons f fs ih =>
    obtain ⟨k, v⟩ := f
    simp only [holdsAll, specHoldsAll, C18_holds, ih]

/-- a task lacking the attribute never satisfies a comparison or pattern filter -/
theorem C18_absent (re : String → String → Bool) (attr : List Char → Val) (k : List Char) (v : FVal)
    (habs : attr (specParse k).1 = .none)
    (hk : (specParse k).2 ∈ [Kind.ne, .lt, .le, .gt, .ge, .like, .notLike]) :
    holds re attr k v = .ok false := by
  rw [C18_holds, specHolds_eq, habs]
  simp only [List.mem_cons, List.not_mem_nil, or_false] at hk
  rcases hk with h | h | h | h | h | h | h <;> rw [h] <;> rfl

/-- the query returns, in list order, exactly the positions whose task satisfies every filter -/
theorem C18_query (re : String → String → Bool) (attrs : List (List Char → Val)) (fs : List (List Char × FVal))
    (idx : List Nat) (h : queryIdx re attrs fs = .ok idx) :
    idx = (List.range attrs.length).filter (fun i => isOkTrue (specHoldsAll re (attrs.getD i (fun _ => .none)) fs)) ∧
    idx.Pairwise (· < ·) := by
  have hsel := foldlM_select (fun i => holdsAll re (attrs.getD i (fun _ => .none)) fs)
    (List.range attrs.length) [] idx h
  simp only [C18_holdsAll, List.nil_append] at hsel
  refine ⟨hsel, ?_⟩
  rw [hsel]
  exact List.Pairwise.filter _ List.pairwise_lt_range

end Pj
