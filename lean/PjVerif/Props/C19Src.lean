/-
  Props/C19Src.lean — C19, source level: the Mermaid renderers (viz/mermaid/network.py, gantt.py) are translated on every run
  (tools/extract_render.py → Extracted/RenderSrc.lean).  Proved in general (Lemmas/RenderSrcA.lean, RenderSrcB.lean), for every string
  library whose encoding round-trips, every view (members, title, flags, the clock `now`, style texts) and task description: the network
  label (quotes removed, both braces escaped), the whole network source (one edge per predecessor, Start edges, style lines) = the model's
  `networkSrc`; the Gantt task state (milestone / done / active) and the Gantt task line = the model's `stateOf` / `ganttLine`.  The
  Gantt `__src` (title, weekends, tick interval, the grouping into sections) is tied by kernel-evaluated runs of the translated program
  on concrete views (Lemmas/RenderSrcCheck.lean, RenderSrcCheckB.lean - imported here, so a translated source that no longer reproduces
  them breaks this module): tests at the level of the kernel, not theorems about every input.  The DHTMLX renderer, `to_html` and the
  templates are not translated.
-/
import PjVerif.Lemmas.RenderSrcA
import PjVerif.Lemmas.RenderSrcB
import PjVerif.Lemmas.RenderSrcCheck
import PjVerif.Lemmas.RenderSrcCheckB
namespace Pj
open Pj.PyLite Pj.Render

/-- the translated `MermaidNetwork.__label`: the double quotes are removed and both braces escaped -/
theorem C19_source_network_label (S : PrintSrc.Lib) (V : RenderSrc.View) (pts : Nat → RenderSrc.RTask) (hS : S.OK) (F : Nat) (name : Str)
    (hF : 1 ≤ F) :
    RenderSrc.interpLabel S V pts F name = .ok (.atom (S.s (escLabel (name.filter (fun c => c != '"'))))) :=
  RenderSrc.interpLabel_eq V pts hS F name hF

/-- the translated `MermaidNetwork.__src` returns the model's network source: one edge per predecessor of every member, a Start edge for
    every member without predecessors, the style lines -/
theorem C19_source_network_src (S : PrintSrc.Lib) (V : RenderSrc.View) (pts : Nat → RenderSrc.RTask) (hS : S.OK) (F : Nat) (hF : 2 ≤ F) :
    RenderSrc.interpNetworkSrc S V pts F = .ok (.atom (S.s (networkSrc (RenderSrc.nAll S V pts) V.tasks))) :=
  RenderSrc.interpNetworkSrc_eq V pts hS F hF

/-- the translated `MermaidGantt.__mermaid_task_state` (milestone first, then done, then active, relative to the clock of the view) and the
    translated task line are the model's `stateOf` / `ganttLine` -/
theorem C19_source_gantt_task_state (S : PrintSrc.Lib) (V : RenderSrc.View) (pts : Nat → RenderSrc.RTask) (F t : Nat) (hF : 1 ≤ F) :
    RenderSrc.interpTaskState S V pts F t = .ok (.atom (S.s (stateOf (RenderSrc.toGTask S V (pts t))))) :=
  RenderSrc.interpTaskState_eq V pts F t hF

theorem C19_source_gantt_line (S : PrintSrc.Lib) (V : RenderSrc.View) (pts : Nat → RenderSrc.RTask) (hS : S.OK) (F t : Nat) (hF : 2 ≤ F) :
    RenderSrc.interpGanttLine S V pts F t = .ok (.atom (S.s (ganttLine (RenderSrc.toGTask S V (pts t))))) :=
  RenderSrc.interpGanttLine_eq V pts hS F t hF

end Pj
