/-
  Props/C19Src.lean — C19, source level: the Mermaid renderers (viz/mermaid/network.py, gantt.py) are translated on every run
  (tools/extract_render.py → Extracted/RenderSrc.lean).  Proved in general (Lemmas/RenderSrcA.lean, RenderSrcB.lean), for every string
  library whose encoding round-trips, every view (members, title, flags, the clock `now`, style texts) and task description: the network
  label (quotes removed, both braces escaped), the whole network source (one edge per predecessor, Start edges, style lines) = the model's
  `networkSrc`; the Gantt task state (milestone / done / active), the Gantt task line and the whole Gantt source (`__src`: title, weekends,
  tick interval, grouping into sections in first-occurrence order - Lemmas/RenderSrcC0.lean, RenderSrcC.lean) = the model's `stateOf` /
  `ganttLine` / `ganttSrc`.  `DhtmlxGantt.__data` (entries and links, tools/extract_dhtmlx.py → Extracted/DhtmlxSrc.lean) is tied by
  kernel-evaluated runs of the translated program on concrete WBSs (Lemmas/DhtmlxSrcCheck.lean, DhtmlxSrcCheckB.lean - a WBS with nested
  tasks, a milestone, outside predecessors and parents, user attributes named like entry keys; a grid of 72 progress cases; every forest
  on three tasks with every single link): tests at the level of the kernel, not theorems about every input - imported here, so a
  translated source that no longer reproduces them breaks this module.  `to_html`, the templates, `__columns` and scales are not
  translated.  The kernel runs of the Mermaid programs (RenderSrcCheck*.lean) stay imported as regression tests.
-/
import PjVerif.Lemmas.RenderSrcA
import PjVerif.Lemmas.RenderSrcB
import PjVerif.Lemmas.RenderSrcC
import PjVerif.Lemmas.DhtmlxSrcCheck
import PjVerif.Lemmas.DhtmlxSrcCheckB
import PjVerif.Lemmas.RenderSrcCheck
import PjVerif.Lemmas.RenderSrcCheckB
namespace Pj
open Pj.PyLite Pj.Render

/-- the translated `MermaidNetwork.__label`: the double quotes are removed and both braces escaped -/
theorem C19_source_network_label (S : PrintSrc.Lib) (V : RenderSrc.View) (pts : Nat → RenderSrc.RTask) (hS : S.OK) (F : Nat) (name : Str)
    (hF : 1 ≤ F) :
    RenderSrc.interpLabel S V pts F name = .ok (.atom (S.s (escLabel (name.filter (fun c => c != '"'))))) :=
  RenderSrc.interpLabel_eq V pts hS F name hF

/-- the translated `MermaidNetwork.__src` returns the model's network source: one edge per predecessor of every member, a Start edge for
    every member without predecessors, the style lines -/
theorem C19_source_network_src (S : PrintSrc.Lib) (V : RenderSrc.View) (pts : Nat → RenderSrc.RTask) (hS : S.OK) (F : Nat) (hF : 2 ≤ F) :
    RenderSrc.interpNetworkSrc S V pts F = .ok (.atom (S.s (networkSrc (RenderSrc.nAll S V pts) V.tasks))) :=
  RenderSrc.interpNetworkSrc_eq V pts hS F hF

/-- the translated `MermaidGantt.__mermaid_task_state` (milestone first, then done, then active, relative to the clock of the view) and the
    translated task line are the model's `stateOf` / `ganttLine` -/
theorem C19_source_gantt_task_state (S : PrintSrc.Lib) (V : RenderSrc.View) (pts : Nat → RenderSrc.RTask) (F t : Nat) (hF : 1 ≤ F) :
    RenderSrc.interpTaskState S V pts F t = .ok (.atom (S.s (stateOf (RenderSrc.toGTask S V (pts t))))) :=
  RenderSrc.interpTaskState_eq V pts F t hF

theorem C19_source_gantt_line (S : PrintSrc.Lib) (V : RenderSrc.View) (pts : Nat → RenderSrc.RTask) (hS : S.OK) (F t : Nat) (hF : 2 ≤ F) :
    RenderSrc.interpGanttLine S V pts F t = .ok (.atom (S.s (ganttLine (RenderSrc.toGTask S V (pts t))))) :=
  RenderSrc.interpGanttLine_eq V pts hS F t hF

/-- the translated `MermaidGantt.__src` returns the model's Gantt source: the header lines, then - when there is more than one section (tasks
    without one form the section '-') - for every section in first-occurrence order its header and the lines of its tasks in WBS order,
    else the lines of all tasks.  `SecOK`: section values that are equal as Python values are equal as texts and vice versa (true when every
    `gantt_section` is a str: `secOK_of_strs`) -/
theorem C19_source_gantt_src (S : PrintSrc.Lib) (V : RenderSrc.View) (pts : Nat → RenderSrc.RTask) (hS : S.OK)
    (hK : RenderSrc.SecOK S V pts) (F : Nat) (hF : 3 ≤ F) :
    RenderSrc.interpGanttSrc S V pts F = .ok (.atom (S.s (ganttSrc V.title V.weekends V.tick (RenderSrc.gTasks S V pts)))) :=
  RenderSrc.interpGanttSrc_eq V pts hS hK F hF

end Pj
