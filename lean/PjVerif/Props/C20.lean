/-
  Props/C20.lean — C20: printed sheets list each visible task once, indented by depth, columns aligned.
-/
import PjVerif.Lemmas.PrintLemmas
namespace Pj.Print

/-- a text the table can show in one cell: no escape character (colour codes come from the table only) and no line
    break -/
def Plain (s : Str) : Prop := esc ∉ s ∧ '\n' ∉ s

/-- a colour code as utils.py defines them: it contains no escape character and ends the sequence with its final 'm'
    (e.g. "94m") -/
def ColorOK (c : Str) : Prop := esc ∉ c ∧ ∃ body, c = body ++ ['m'] ∧ 'm' ∉ body ∧ esc ∉ body

/-- every column is wide enough for its longest cell -/
theorem C20_wide (rows : List (List Cell)) (r : List Cell) (hr : r ∈ rows) (i : Nat) (c : Cell) (hc : r[i]? = some c) :
    c.text.length ≤ (widths rows).getD i 0 := by
  exact text_le_widths rows r hr i c hc

/-- the number of columns is the length of the longest row -/
theorem C20_widths_length (rows : List (List Cell)) : (widths rows).length = (rows.map List.length).foldl max 0 := by
  exact widths_length rows

/-- ignoring colour codes, a row has the width of the table: the sum of the column widths plus two blanks per column -/
theorem C20_row_width (ws : List Nat) (rowColor : Option Str) (cells : List Cell)
    (hlen : cells.length ≤ ws.length) (hfit : ∀ i c, cells[i]? = some c → c.text.length ≤ ws.getD i 0)
    (hp : ∀ c ∈ cells, Plain c.text) (hcol : ∀ c ∈ cells, ∀ k, c.color = some k → k = [] ∨ ColorOK k)
    (hrc : ∀ k, rowColor = some k → k = [] ∨ ColorOK k) :
    (visible (renderRow ws rowColor cells)).length = (ws.map (· + 2)).sum := by
  have _ := hlen  -- not needed: cells beyond the last column are not printed
  refine row_width ws rowColor cells hfit (fun c hc => (hp c hc).1) ?_ ?_
  · intro c hc k hk
    rcases hcol c hc k hk with h | ⟨_, body, hb, hm, _⟩
    · exact Or.inl h
    · exact Or.inr ⟨body, hb, hm⟩
  · intro k hk
    rcases hrc k hk with h | ⟨_, body, hb, hm, _⟩
    · exact Or.inl h
    · exact Or.inr ⟨body, hb, hm⟩

/-- all lines of a rendered table have the same visible width -/
theorem C20_aligned (rows : List (Option Str × List Cell))
    (hp : ∀ r ∈ rows, ∀ c ∈ r.2, Plain c.text)
    (hcol : ∀ r ∈ rows, (∀ k, r.1 = some k → k = [] ∨ ColorOK k) ∧ ∀ c ∈ r.2, ∀ k, c.color = some k → k = [] ∨ ColorOK k) :
    ∀ r ∈ rows, (visible (renderRow (widths (rows.map (·.2))) r.1 r.2)).length = ((widths (rows.map (·.2))).map (· + 2)).sum := by
  intro r hr
  have hmem : r.2 ∈ rows.map (·.2) := List.mem_map.2 ⟨r, hr, rfl⟩
  exact C20_row_width _ r.1 r.2 (length_le_widths_length _ _ hmem)
    (fun i c hc => text_le_widths _ _ hmem i c hc) (hp r hr) (hcol r hr).2 (hcol r hr).1

/-- the rendered text is the rows' lines joined by single line breaks, one line per row, when the table has at least
    one column (with no column every row is empty and the text collapses to the empty string) -/
theorem C20_lines (rows : List (Option Str × List Cell)) (hw : widths (rows.map (·.2)) ≠ []) :
    render rows = (List.intersperse ['\n'] (rows.map (fun r => renderRow (widths (rows.map (·.2))) r.1 r.2))).flatten := by
  unfold render
  exact foldl_lines _ rows (fun r _ => renderRow_ne_nil _ r.1 r.2 hw)

/-- a sheet has one row per task shown: the given tasks and, when children are shown, all their descendants -/
theorem C20_rows (ts : Nat → PTask) (fields : List Str) (children : Bool) (theme : Theme) (fuel level t : Nat) :
    (subtreeRows ts fields children theme fuel level t).length = shownCount ts children fuel t := by
  exact subtreeRows_length ts fields children theme fuel level t

/-- depth-first order and indentation: the first row of a subtree is the task's own row, whose `name` cell is the name
    indented by three blanks per level (None = empty), followed by the rows of its children's subtrees in list order
    one level deeper -/
theorem C20_indent (ts : Nat → PTask) (fields : List Str) (children : Bool) (theme : Theme) (fuel level t : Nat) :
    ∃ color, subtreeRows ts fields children theme (fuel + 1) level t =
      (some color, fields.map (fun f =>
          if f == "name".toList then { text := List.replicate (3 * level) ' ' ++ ((ts t).name.getD []), color := some color : Cell }
          else { text := fieldValue ts t f, color := some color })) ::
      (if children then ((ts t).children.map (subtreeRows ts fields children theme fuel (level + 1))).flatten else []) := by
  exact ⟨_, rfl⟩

/-- dependency and parent columns show the linked ids; a link that leaves the WBS is marked external; the hidden WBS
    root is shown as nothing -/
theorem C20_links (ts : Nat → PTask) (t l : Nat) :
    linkedId ts t l = (if (ts l).isRoot then [] else
      (ts l).idText ++ (if (ts l).owner = (ts t).owner then [] else "(external)".toList)) := by
  unfold linkedId
  by_cases h : (ts l).owner = (ts t).owner <;> simp [h]

/-- an unknown field gives an empty cell (so the column is as wide as its header) -/
theorem C20_unknown_field (ts : Nat → PTask) (t : Nat) (f : Str)
    (hstd : f ∉ ["predecessors", "successors", "parent", "id", "estimate", "spent"].map String.toList)
    (h1 : ∀ p ∈ (ts t).dict, p.1 ≠ f) (h2 : ∀ p ∈ (ts t).dict, p.1 ≠ f.map asciiLower) :
    fieldValue ts t f = [] := by
  simp only [List.map_cons, List.map_nil, List.mem_cons, List.not_mem_nil, or_false, not_or] at hstd
  obtain ⟨e1, e2, e3, e4, e5, e6⟩ := hstd
  have n1 : (ts t).dict.find? (fun p => p.1 == f) = none :=
    List.find?_eq_none.2 (fun p hp => by simpa using h1 p hp)
  have n2 : (ts t).dict.find? (fun p => p.1 == f.map asciiLower) = none :=
    List.find?_eq_none.2 (fun p hp => by simpa using h2 p hp)
  unfold fieldValue
  simp only [beq_iff_eq, e1, e2, e3, e4, e5, e6, if_false, n1, n2]

end Pj.Print
