/-
  Props/C19.lean — C19: renderings show every task and dependency exactly once with its real dates.
  "Text put into task names cannot add, drop or alter other entries" is stated as: reading the emitted source with a
  plain lexical reader of the lines the renderer writes gives back exactly the entries of the WBS.
-/
import PjVerif.Lemmas.RenderLemmas
namespace Pj.Render

/-- single-line text (the property's domain for task names, titles, section names) -/
def OneLine (s : Str) : Prop := '\n' ∉ s

/-- formatted ids and dates as Python's `str(int)` / `strftime` produce them: no comma, no line break, no blank-id -/
def Token (s : Str) : Prop := ',' ∉ s ∧ '\n' ∉ s ∧ '\x00' ∉ s

/-- one Gantt task line reads back as the task's entry, whatever single-line text the name contains — quotes, braces,
    angle brackets, '$', ':' (removed by the renderer), commas, "id_…" look-alikes -/
theorem C19_gantt_line (t : GTask) (hn : OneLine t.name) (hz : '\x00' ∉ t.name)
    (hid : Token t.idText ∧ (∀ c ∈ t.idText, c ≠ ' ')) (hs : Token t.start) (he : Token t.end_) :
    readGanttLine (ganttLine t).dropLast = some (expectedGantt t) := by
  -- `hn`, `hz`, `he` are not needed for a single line (they matter for the whole source)
  have _ := hn; have _ := hz; have _ := he
  rw [ganttLine_dropLast]
  exact readGanttLine_body t hid.1.1 hs.1

/-- the Gantt source has exactly one task line per task (no sections: in WBS order), each reading back as that task -/
theorem C19_gantt (title : Option Str) (weekends : Bool) (tick : Option Str) (tasks : List GTask)
    (hsec : ∀ t ∈ tasks, t.sect = none)
    (ht : ∀ x, title = some x → OneLine x) (hk : ∀ x, tick = some x → OneLine x)
    (hn : ∀ t ∈ tasks, OneLine t.name ∧ '\x00' ∉ t.name)
    (hid : ∀ t ∈ tasks, Token t.idText ∧ (∀ c ∈ t.idText, c ≠ ' ') ∧ Token t.start ∧ Token t.end_) :
    (readGantt (ganttSrc title weekends tick tasks)).map (·.2) = tasks.map expectedGantt := by
  refine readGantt_noSections title weekends tick tasks hsec ht hk ?_
  intro t h
  obtain ⟨hi, _, hs, he⟩ := hid t h
  exact ⟨(hn t h).1, hi.1, hi.2.1, hs.1, hs.2.1, he.2.1⟩

/-- with sections every task still has exactly one line: the entries read are a permutation of the tasks' entries,
    grouped by section in order of first appearance -/
theorem C19_gantt_sections (title : Option Str) (weekends : Bool) (tick : Option Str) (tasks : List GTask)
    (ht : ∀ x, title = some x → OneLine x) (hk : ∀ x, tick = some x → OneLine x)
    (hn : ∀ t ∈ tasks, OneLine t.name ∧ '\x00' ∉ t.name ∧ OneLine (sectionOf t))
    (hid : ∀ t ∈ tasks, Token t.idText ∧ (∀ c ∈ t.idText, c ≠ ' ') ∧ Token t.start ∧ Token t.end_) :
    ((readGantt (ganttSrc title weekends tick tasks)).map (·.2)).Perm (tasks.map expectedGantt) := by
  refine readGantt_perm title weekends tick tasks ht hk ?_ (fun t h => (hn t h).2.2)
  intro t h
  obtain ⟨hi, _, hs, he⟩ := hid t h
  exact ⟨(hn t h).1, hi.1, hi.2.1, hs.1, hs.2.1, he.2.1⟩

/-- the network source has exactly one edge per dependency and one Start edge per task without predecessors, whatever
    single-line text the names contain — braces included: the renderer writes them as `#123;` / `#125;`, so the label of
    a node never contains a brace (finding KF-R1, repaired).  The labels read are the escaped ones (`escLabel`); they
    are not claimed to be decoded back (`escLabel` is not injective: "{" and "#123;" give the same label). -/
theorem C19_network (all : Nat → NTask) (tasks : List Nat)
    (hn : ∀ i, OneLine (all i).name)
    (hid : ∀ i, (∀ c ∈ (all i).idText, c.isDigit ∨ c = '-') ∧ (all i).idText ≠ [])
    (hst : ∀ i ∈ tasks, (all i).style = none) :
    readNetwork (networkSrc all tasks) = expectedEdges all tasks := by
  exact readNetwork_ok all tasks hn hid hst

/-- the label of a node contains no brace, whatever the name -/
theorem C19_escLabel_noBrace (s : Str) : '{' ∉ escLabel s ∧ '}' ∉ escLabel s :=
  ⟨lbrace_notin_escLabel s, rbrace_notin_escLabel s⟩

/-- the former attack name `a}} --> 7{{x` (KF-R1) no longer adds an edge: the source reads back as the two real edges -/
theorem C19_network_example :
    let all : Nat → NTask := fun i => if i = 0 then { idText := lit "1", name := lit "a}} --> 7{{x", preds := [], style := none }
                                       else { idText := lit "2", name := lit "b", preds := [0], style := none }
    readNetwork (networkSrc all [0, 1]) = expectedEdges all [0, 1] ∧ (readNetwork (networkSrc all [0, 1])).length = 2 := by
  decide +kernel

/-- DHTMLX data: progress lies within 0..1 -/
theorem C19_progress (t : DTask) (hs : ∀ s, t.spent = some s → 0 ≤ s) : 0 ≤ progressOf t ∧ progressOf t ≤ 1 := by
  unfold progressOf
  split
  · constructor <;> grind
  · split
    · cases h : t.spent with
      | none => constructor <;> grind
      | some s =>
        have := hs s h
        rename_i h1 h2
        simp only
        split
        · rw [Rat.div_def, Rat.zero_mul]; constructor <;> grind
        · rename_i h3
          have := rat_div_unit (t.estimate - s) t.estimate (by grind) (by grind) h2
          constructor <;> grind
    · constructor <;> grind

/-- DHTMLX links are numbered 1..k without repetition, one per dependency in walk order -/
theorem C19_links (ts : Nat → DTask) (n : Nat) (roots : List Nat) :
    (dhtmlxLinks ts n roots).map (·.id) = (List.range (dhtmlxLinks ts n roots).length).map (· + 1) ∧
    (dhtmlxLinks ts n roots).map (fun l => (l.source, l.target)) =
      (dhtmlxOrder ts n roots).flatMap (fun i => (ts i).preds.map (fun p => ((ts p).id, (ts i).id))) := by
  unfold dhtmlxLinks
  generalize (dhtmlxOrder ts n roots).flatMap (fun i => (ts i).preds.map (fun p => ((ts p).id, (ts i).id))) = pairs
  constructor
  · simp [Function.comp_def]
  · apply List.ext_getElem
    · simp
    · intro i h1 h2
      simp at h1 h2 ⊢
      simp [h2]

/-- DHTMLX data has exactly one entry per task walked, carrying its id, name, dates, parent id or 0 -/
theorem C19_data (ts : Nat → DTask) (n : Nat) (roots : List Nat) :
    (dhtmlxData ts n roots).length = (dhtmlxOrder ts n roots).length ∧
    ∀ k, k < (dhtmlxOrder ts n roots).length →
      let t := ts ((dhtmlxOrder ts n roots).getD k 0)
      let e := (dhtmlxData ts n roots).getD k default
      e.id = t.id ∧ e.text = t.name ∧ e.start = t.start ∧ e.end_ = t.end_ ∧ e.milestone = t.milestone ∧
      e.parent = (match t.parent with | some p => (ts p).id | none => 0) := by
  unfold dhtmlxData
  generalize dhtmlxOrder ts n roots = o
  constructor
  · simp
  · intro k hk
    simp [List.getD_eq_getElem?_getD, hk]
    cases (ts o[k]).parent <;> rfl

end Pj.Render
