/-
  Props/C11.lean — C11: Task.wbs always tells the truth about WBS membership.
-/
import PjVerif.Lemmas.GraphTasks
import PjVerif.Lemmas.TaskSrcD
import PjVerif.Lemmas.WbsSrcC
namespace Pj

theorem C11_step (s : G) (op : Op) (hi : Inv s) (hl : op.legal s) : OwnerOK (step s op).1 :=
  (step_Inv s op hi hl).own

theorem C11_run (ops : List Op) (s : G) (hi : Inv s) (hl : ∀ op ∈ ops, op.legal s) : OwnerOK (run s ops) :=
  (run_Inv ops s hi hl).own

/-- a task reports WBS `w` as owner exactly when it appears in `w.tasks` -/
theorem C11_member_iff (s : G) (w t : Uid) (hi : Inv s) (hw : s.hidden w = true) (ht : s.hidden t = false) :
    s.owner t = some w ↔ ∃ l, wbsTasks s w = some l ∧ t ∈ l :=
  owner_member_iff s w t hi hw ht

/-- a task has no owner exactly when it is in no WBS -/
theorem C11_none_iff (s : G) (t : Uid) (hi : Inv s) :
    s.owner t = none ↔ ∀ w, s.hidden w = true → ¬ RTC (par s) t w :=
  owner_none_iff_noWbs s t hi

/-- tasks left out of an accepted children/roots assignment (hence also `remove`, `remove_all`, `WBS.remove`,
    which all go through it) report no owner afterwards, together with their whole subtree, unless part of that
    subtree is itself adopted by the same call -/
theorem C11_released (s s' : G) (h : Uid) (l : List Uid) (hi : Inv s)
    (hv : ∀ v ∈ l, s.hidden v = false) (hh : h < s.n) (hl : ∀ v ∈ l, v < s.n)
    (hok : setChildren s h l = (s', none)) (c : Uid) (hc : c ∈ s.children h) (hcl : c ∉ l)
    (hno : ∀ y ∈ l, ¬ RTC (par s) y c) :
    ∀ x, RTC (par s) x c → s'.owner x = none ∧ s'.parent c = none := by
  have hr := setChildren_released s s' h l hi.wf hv hok c hc hno
  exact fun x hx => ⟨hr.own x hx, hr.top⟩

/-- a released (detached, parentless) subtree whose ids do not clash can be attached to another WBS -/
theorem C11_reattach (s : G) (w t : Uid) (hi : Inv s) (hw : s.hidden w = true) (ht : s.hidden t = false)
    (htn : t < s.n) (hwn : w < s.n) (hdet : s.owner t = none) (hpar : s.parent t = none)
    (hids : ∀ x y, RTC (par s) x t → TC (par s) y w → s.tid x ≠ s.tid y) :
    ∃ s', chAppend s w t = (s', none) ∧ s'.owner t = some w :=
  reattach s w t hi hw ht hdet hpar hids

/-! ### the tie of the relation setters of `Task` to the current source, by translation (tools/extract_task.py → Extracted/TaskSrc.lean,
    Lemmas/TaskSrc*.lean): the statements above are about the model's `setParent` / `setPreds` / `setSuccs` / `setChildren`; these say that
    the model's functions are what the CURRENT task.py computes -/

/-- running the translated `parent` setter (with `_find_root`, `_collect_subtree`, `_has_id_intersection`, `_linked_with_any`, `_attach`,
    `_detach`, `all_parents`, `all_children` as translated callees) on the encoding of a well-formed state gives the encoding of the
    model's new state when the model accepts and the model's error when it rejects - unless the model's fuel runs out -/
theorem C11_source_set_parent (s : G) (hw : WF s) (t : Uid) (p : Option Uid) (F : Nat) (hF : s.n + 6 ≤ F)
    (hrec : (setParent s t p).2 ≠ some (.crash .recursion)) :
    TaskSrc.interpSetParent F t p (TaskSrc.encSt s) = TaskSrc.setterResult (TaskSrc.encSt s) (setParent s t p) :=
  TaskSrc.interpSetParent_eq_wf s hw t p F hF hrec

/-- the translated `children` setter (validations, release of the old children, the loop of `v.parent = self` assignments - each
    running the translated `parent` setter on an intermediate state) is the model's `setChildren`, for every state -/
theorem C11_source_set_children (s : G) (st : PyLite.PState) (hh : st.heap = TaskSrc.encHeap s) (h : Uid) (v : PyLite.Val)
    (l : List Uid) (hv : TaskSrc.ValueOf v l) (F : Nat) (hF : s.n + 6 ≤ F) (hrec : (setChildren s h l).2 ≠ some (.crash .recursion)) :
    TaskSrc.interpSetChildren F h v st = TaskSrc.setterResult st (setChildren s h l) :=
  TaskSrc.interpSetChildren_eq s st hh h v l hv F hF hrec

/-- the translated `_attach` / `_detach` write the owner on exactly the task and its descendants (`setOwners`) -/
theorem C11_source_attach (w : Uid) (f : Nat) (s : G) (st : PyLite.PState) (hh : st.heap = TaskSrc.encHeap s) (t : Uid) (r : List Uid)
    (h : descF s.children f t = some r) (F : Nat) (hF : f ≤ F) :
    (TaskSrc.Hd F).fnV Extracted.fn_Task_attach [.atom (.ref t), .atom (.ref w)] st =
      .ok (.atom .none, TaskSrc.withG st (setOwners s (t :: r) (some w))) :=
  TaskSrc.attach_spec w f s st hh t r h F hF

theorem C11_source_detach (f : Nat) (s : G) (st : PyLite.PState) (hh : st.heap = TaskSrc.encHeap s) (t : Uid) (r : List Uid)
    (h : descF s.children f t = some r) (F : Nat) (hF : f ≤ F) :
    (TaskSrc.Hd F).fnV Extracted.fn_Task_detach [.atom (.ref t)] st = .ok (.atom .none, TaskSrc.withG st (setOwners s (t :: r) none)) :=
  TaskSrc.detach_spec f s st hh t r h F hF

/-! ### the tie of `WBS` (wbs.py) to the current source, by translation (tools/extract_wbs.py → Extracted/WbsSrc.lean, Lemmas/WbsSrc*.lean);
    the program of wbs.py is layered over the program of task.py: a call into task.py runs the translated setters of Lemmas/TaskSrc*.lean -/

/-- the translated `WBS.tasks` returns the model's member list (`wbsTasks`: the depth-first enumeration below the hidden root) -/
theorem C11_source_tasks (s : G) (st : PyLite.PState) (hh : st.heap = TaskSrc.encHeap s) (w : Uid) (r : List Uid)
    (h : wbsTasks s w = some r) (F : Nat) (hF : s.n + 3 ≤ F) :
    WbsSrc.interpTasks F w st = .ok (TaskSrc.refs r, st) :=
  WbsSrc.interpTasks_eq s st hh w r h F hF

/-- the translated `WBS.remove` (with its recursive `__remove` and `_ChildrenList.remove`) is the model's `wbsRemove`, for every state;
    `wbsRemoveResult_state`: state and error are those of `wbsRemove`, the returned flag is the one of `removeRec` -/
theorem C11_source_remove (s : G) (st : PyLite.PState) (hh : st.heap = TaskSrc.encHeap s) (w t : Uid) (F : Nat)
    (hF : 2 * s.n + 12 ≤ F) (hrec : (wbsRemove s w t).2 ≠ some (.crash .recursion)) :
    WbsSrc.interpRemove F w (.atom (.ref t)) st = WbsSrc.wbsRemoveResult st s w t :=
  WbsSrc.interpRemove_eq s st hh w t F hF hrec

end Pj
