/-
  Props/C11.lean — C11: Task.wbs always tells the truth about WBS membership.
-/
import PjVerif.Lemmas.GraphTasks
namespace Pj

theorem C11_step (s : G) (op : Op) (hi : Inv s) (hl : op.legal s) : OwnerOK (step s op).1 :=
  (step_Inv s op hi hl).own

theorem C11_run (ops : List Op) (s : G) (hi : Inv s) (hl : ∀ op ∈ ops, op.legal s) : OwnerOK (run s ops) :=
  (run_Inv ops s hi hl).own

/-- a task reports WBS `w` as owner exactly when it appears in `w.tasks` -/
theorem C11_member_iff (s : G) (w t : Uid) (hi : Inv s) (hw : s.hidden w = true) (ht : s.hidden t = false) :
    s.owner t = some w ↔ ∃ l, wbsTasks s w = some l ∧ t ∈ l :=
  owner_member_iff s w t hi hw ht

/-- a task has no owner exactly when it is in no WBS -/
theorem C11_none_iff (s : G) (t : Uid) (hi : Inv s) :
    s.owner t = none ↔ ∀ w, s.hidden w = true → ¬ RTC (par s) t w :=
  owner_none_iff_noWbs s t hi

/-- tasks left out of an accepted children/roots assignment (hence also `remove`, `remove_all`, `WBS.remove`,
    which all go through it) report no owner afterwards, together with their whole subtree, unless part of that
    subtree is itself adopted by the same call -/
theorem C11_released (s s' : G) (h : Uid) (l : List Uid) (hi : Inv s)
    (hv : ∀ v ∈ l, s.hidden v = false) (hh : h < s.n) (hl : ∀ v ∈ l, v < s.n)
    (hok : setChildren s h l = (s', none)) (c : Uid) (hc : c ∈ s.children h) (hcl : c ∉ l)
    (hno : ∀ y ∈ l, ¬ RTC (par s) y c) :
    ∀ x, RTC (par s) x c → s'.owner x = none ∧ s'.parent c = none := by
  have hr := setChildren_released s s' h l hi.wf hv hok c hc hno
  exact fun x hx => ⟨hr.own x hx, hr.top⟩

/-- a released (detached, parentless) subtree whose ids do not clash can be attached to another WBS -/
theorem C11_reattach (s : G) (w t : Uid) (hi : Inv s) (hw : s.hidden w = true) (ht : s.hidden t = false)
    (htn : t < s.n) (hwn : w < s.n) (hdet : s.owner t = none) (hpar : s.parent t = none)
    (hids : ∀ x y, RTC (par s) x t → TC (par s) y w → s.tid x ≠ s.tid y) :
    ∃ s', chAppend s w t = (s', none) ∧ s'.owner t = some w :=
  reattach s w t hi hw ht hdet hpar hids

end Pj
