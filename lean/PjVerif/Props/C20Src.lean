/-
  Props/C20Src.lean — C20, source level (PARTIAL tie): the sheet printer `_Repr` of task.py is translated on every run
  (tools/extract_print.py → Extracted/PrintSrc.lean).  Proved in general: the cell texts of the link columns and of the six computed
  fields.  The `__dict__` part of `__get_field_value`, the layout numbers (`__calc_max_title_len`, `__max_field_len`) and the row
  sequence of `__print_task_subtree` / `repr` are tied by kernel-evaluated runs of the translated program on a concrete WBS
  (Lemmas/PrintSrcCheck.lean, PrintSrcCheckB.lean - imported here, so a translated source that no longer reproduces them breaks this
  module): they are tests at the level of the kernel, not theorems about every input.
-/
import PjVerif.Lemmas.PrintSrcA
import PjVerif.Lemmas.PrintSrcCheck
import PjVerif.Lemmas.PrintSrcCheckB
namespace Pj
open Pj.PyLite Pj.Print

/-- the translated `_Repr.__get_linked_task_id`: the linked task's id, marked `(external)` when it belongs to another WBS; '' for None
    and for the hidden root - for every string library `S` whose encoding round-trips (`S.OK`) -/
theorem C20_source_linked_id (S : PrintSrc.Lib) (pts : Nat → PrintSrc.PyTask) (hS : S.OK) (F t : Nat) (l : Option Nat) (hF : 1 ≤ F) :
    PrintSrc.interpLinkedId S pts F t l =
      .ok (.atom (S.s (match l with | none => [] | some l => linkedId (PrintSrc.tsOf S pts) t l))) :=
  PrintSrc.interpLinkedId_eq pts hS F t l hF

/-- the translated `_Repr.__get_linked_tasks_id`: the comma-joined ids of the linked tasks, in list order, one per link -/
theorem C20_source_linked_ids (S : PrintSrc.Lib) (pts : Nat → PrintSrc.PyTask) (hS : S.OK) (F t : Nat) (ls : List Nat) (hF : 2 ≤ F) :
    PrintSrc.interpLinkedIds S pts F t ls =
      .ok (.atom (S.s (joinComma (ls.map (linkedId (PrintSrc.tsOf S pts) t))))) :=
  PrintSrc.interpLinkedIds_eq pts hS F t ls hF

/-- the translated `_Repr.__get_field_value` on the computed fields (predecessors, successors, parent, id, estimate, spent) is the
    model's cell function `fieldValue` -/
theorem C20_source_field_value_std (S : PrintSrc.Lib) (pts : Nat → PrintSrc.PyTask) (hS : S.OK) (F t : Nat) (field : Str)
    (hf : field ∈ PrintSrc.stdFields) (hF : 3 ≤ F) :
    PrintSrc.interpFieldValue S pts F t field = .ok (.atom (S.s (fieldValue (PrintSrc.tsOf S pts) t field))) :=
  PrintSrc.interpFieldValue_eq pts hS F t field hf hF

end Pj
