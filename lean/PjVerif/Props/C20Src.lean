/-
  Props/C20Src.lean — C20, source level (PARTIAL tie): the sheet printer `_Repr` of task.py is translated on every run
  (tools/extract_print.py → Extracted/PrintSrc.lean).  Proved in general (Lemmas/PrintSrcA.lean, PrintSrcB.lean): the cell texts for EVERY
  field name, the rows `__print_task_subtree` hands to the table (depth-first, children on/off, the colour rule) and the value of `repr`
  (header row + the rows of every task of the list = the model's `sheet`), and the two layout numbers (`__calc_max_title_len`,
  `__max_field_len`, Lemmas/PrintSrcC.lean).  `TextTable` / `colored_text` (utils.py) are a primitive whose meaning is the model's
  `render`.  The kernel-evaluated runs of the translated program on a concrete WBS (Lemmas/PrintSrcCheck.lean, PrintSrcCheckB.lean)
  stay imported as regression tests beside the theorems.
-/
import PjVerif.Lemmas.PrintSrcA
import PjVerif.Lemmas.PrintSrcB
import PjVerif.Lemmas.PrintSrcC
import PjVerif.Lemmas.PrintSrcCheck
import PjVerif.Lemmas.PrintSrcCheckB
namespace Pj
open Pj.PyLite Pj.Print

/-- the translated `_Repr.__get_linked_task_id`: the linked task's id, marked `(external)` when it belongs to another WBS; '' for None
    and for the hidden root - for every string library `S` whose encoding round-trips (`S.OK`) -/
theorem C20_source_linked_id (S : PrintSrc.Lib) (pts : Nat → PrintSrc.PyTask) (hS : S.OK) (F t : Nat) (l : Option Nat) (hF : 1 ≤ F) :
    PrintSrc.interpLinkedId S pts F t l =
      .ok (.atom (S.s (match l with | none => [] | some l => linkedId (PrintSrc.tsOf S pts) t l))) :=
  PrintSrc.interpLinkedId_eq pts hS F t l hF

/-- the translated `_Repr.__get_linked_tasks_id`: the comma-joined ids of the linked tasks, in list order, one per link -/
theorem C20_source_linked_ids (S : PrintSrc.Lib) (pts : Nat → PrintSrc.PyTask) (hS : S.OK) (F t : Nat) (ls : List Nat) (hF : 2 ≤ F) :
    PrintSrc.interpLinkedIds S pts F t ls =
      .ok (.atom (S.s (joinComma (ls.map (linkedId (PrintSrc.tsOf S pts) t))))) :=
  PrintSrc.interpLinkedIds_eq pts hS F t ls hF

/-- the translated `_Repr.__get_field_value` on the computed fields (predecessors, successors, parent, id, estimate, spent) is the
    model's cell function `fieldValue` -/
theorem C20_source_field_value_std (S : PrintSrc.Lib) (pts : Nat → PrintSrc.PyTask) (hS : S.OK) (F t : Nat) (field : Str)
    (hf : field ∈ PrintSrc.stdFields) (hF : 3 ≤ F) :
    PrintSrc.interpFieldValue S pts F t field = .ok (.atom (S.s (fieldValue (PrintSrc.tsOf S pts) t field))) :=
  PrintSrc.interpFieldValue_eq pts hS F t field hf hF

/-- … and on EVERY field name: unknown names give '', differently-cased names are retried through `lower()`, `None` gives '-',
    datetimes go through `strftime`, everything else through `str()` -/
theorem C20_source_field_value (S : PrintSrc.Lib) (pts : Nat → PrintSrc.PyTask) (hS : S.OK) (F t : Nat) (field : Str) (hF : 3 ≤ F) :
    PrintSrc.interpFieldValue S pts F t field = .ok (.atom (S.s (fieldValue (PrintSrc.tsOf S pts) t field))) :=
  PrintSrc.interpFieldValue_eq_all pts hS F t field hF

/-- the translated `_Repr.__print_task_subtree` hands the table exactly the model's rows of the subtree, in depth-first order, with
    the colour rule (`print_color`, else `level_colors[level]`, else GREY) - for a subtree at most `n + 1` levels deep (`DepthOK`; the
    model's enumeration has that fuel) and `print_color` values that are `None` or a str (`ColOK`) -/
theorem C20_source_subtree_rows (S : PrintSrc.Lib) (pts : Nat → PrintSrc.PyTask) (th : PrintSrc.PyTheme) (hS : S.OK)
    (hc : PrintSrc.ColOK S pts) (F n t level : Nat) (fields : List Str) (children : Bool) (log : List PyLite.Atom)
    (hd : children = true → PrintSrc.DepthOK pts (n + 1) t) (hF : n + 4 ≤ F) :
    PrintSrc.interpSubtree S pts th F t fields level children log =
      .ok (log ++ PrintSrc.logOfRows S (subtreeRows (PrintSrc.tsOf S pts) fields children (PrintSrc.toTheme th) (n + 1) level t)) :=
  PrintSrc.interpSubtree_eq pts th hS hc F n t level fields children log hd hF

/-- the translated `_Repr.repr`: the header row followed by the rows of every task of the list; its value is the model's `sheet` -/
theorem C20_source_repr (S : PrintSrc.Lib) (pts : Nat → PrintSrc.PyTask) (th : PrintSrc.PyTheme) (hS : S.OK)
    (hc : PrintSrc.ColOK S pts) (F n : Nat) (tasks : List Nat) (fields : List Str) (children : Bool)
    (hd : children = true → ∀ t ∈ tasks, PrintSrc.DepthOK pts (n + 1) t) (hF : n + 5 ≤ F) :
    PrintSrc.interpRepr S pts th F tasks fields children =
      .ok (.atom (S.s (sheet (PrintSrc.tsOf S pts) n tasks fields children (PrintSrc.toTheme th))),
        PrintSrc.logOfRows S (PrintSrc.sheetRows (PrintSrc.tsOf S pts) n tasks fields children (PrintSrc.toTheme th))) :=
  PrintSrc.interpRepr_eq pts th hS hc F n tasks fields children hd hF

/-- the translated `_Repr.__calc_max_title_len` / `__max_field_len`: the width of the name column (indentation included) and of any
    other column (header + 1, the longest cell text over the tasks and their descendants) -/
theorem C20_source_title_len (S : PrintSrc.Lib) (pts : Nat → PrintSrc.PyTask) (hS : S.OK) (F n t level cur : Nat)
    (hd : PrintSrc.DepthOK pts (n + 1) t) (hF : n + 1 ≤ F) :
    PrintSrc.interpTitleLen S pts F t level cur =
      .ok (.atom (.num ((PrintSrc.titleLen (PrintSrc.tsOf S pts) (n + 1) level t cur : Nat) : Rat))) :=
  PrintSrc.interpTitleLen_eq pts hS F n t level cur hd hF

theorem C20_source_max_field_len (S : PrintSrc.Lib) (pts : Nat → PrintSrc.PyTask) (hS : S.OK) (F n : Nat) (tasks : List Nat)
    (field : Str) (hd : ∀ t ∈ tasks, PrintSrc.DepthOK pts n t) (hF : n + 4 ≤ F) :
    PrintSrc.interpMaxFieldLen S pts F tasks field =
      .ok (.atom (.num ((PrintSrc.maxFieldLen (PrintSrc.tsOf S pts) field (n + 1) tasks : Nat) : Rat))) :=
  PrintSrc.interpMaxFieldLen_eq pts hS F n tasks field hd hF

end Pj
