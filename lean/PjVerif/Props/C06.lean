/-
  Props/C06.lean — C06: scheduling is pure and deterministic in WBS, resources, start and clock.
  The model is a function, so determinism and purity of the *model* hold by construction; that the implementation
  behaves as this function (same object twice, fresh object, input untouched) is what the correspondence stream of the
  check tests.  What is proved here: the output shape and clock independence (PARTIAL, findings KF-S6-C06).
-/
import PjVerif.Lemmas.SchedC06
import PjVerif.Props.Witness
import PjVerif.Lemmas.CalcSrc
import PjVerif.Lemmas.WbsSrcC
namespace Pj

/-- every member of the result has a start and an end, both schedulers -/
theorem C06_dates_present_forward (env : Env) (f0 : Uid → Fields) (res0 : List (Option Nat × Cal)) (o : Output)
    (hf : env.flagsOK) (h : forwardCalc env f0 res0 = .ok o) :
    ∀ t ∈ memberList env, (o.f t).start.isSome = true ∧ (o.f t).end_.isSome = true :=
  have _ := hf
  forwardCalc_dates env f0 res0 o h

theorem C06_dates_present_backward (env : Env) (f0 : Uid → Fields) (res0 : List (Option Nat × Cal)) (o : Output)
    (hf : env.flagsOK) (h : backwardCalc env f0 res0 = .ok o) :
    ∀ t ∈ memberList env, (o.f t).start.isSome = true ∧ (o.f t).end_.isSome = true :=
  have _ := hf
  backwardCalc_dates env f0 res0 o h

/-- hypotheses of clock independence for one clock: no reading is later than the project start, every reading lies
    on a day before the day of every user-fixed start that has no fixed end, user-fixed ends are not in the future, and
    - when some working leaf with open dates has no work left, so that its end is the later of its start and the clock
    (`__shift_by_resource_usage_and_calendar` returns the date it is given) while its start is the *midnight*-based
    date of the availability search - no reading is later than the midnight of the project start day -/
def ClockHyp (env : Env) (f0 : Uid → Fields) (clk : Nat → Time) : Prop :=
  (∀ k, clk k ≤ env.bound) ∧
  (∀ t ∈ memberList env, ∀ s, (f0 t).start = some s → (f0 t).end_ = none → ∀ k, dayOf (clk k) < dayOf s) ∧
  (∀ t ∈ memberList env, ∀ e, (f0 t).end_ = some e → e ≤ clk 0) ∧
  (∀ t ∈ memberList env, works env f0 t = true → (f0 t).start = none → remaining env f0 t = 0 →
    ∀ k, clk k ≤ ((dayOf env.bound : Int) : Rat))

/-- under those hypotheses the forward result does not depend on the clock at all -/
theorem C06_clock_partial (env : Env) (f0 : Uid → Fields) (res0 : List (Option Nat × Cal)) (clk clk' : Nat → Time)
    (hf : env.flagsOK) (h1 : ClockHyp env f0 clk) (h2 : ClockHyp env f0 clk') :
    (forwardCalc { env with clock := clk } f0 res0).map (fun o => (o.rows, o.res, (memberList env).map o.f)) =
    (forwardCalc { env with clock := clk' } f0 res0).map (fun o => (o.rows, o.res, (memberList env).map o.f)) :=
  congrArg _ (forwardCalc_clock env f0 res0 clk clk' hf h1 h2)

/-- the full statement fails (findings/KF-S6-C06.json: two clocks, both not later than the project start, different
    results).  After the repair of the end clamp the witness is of the zero-work kind: its only task has nothing left
    to do, starts at the midnight of the project start day and ends at the later of that midnight and the clock -/
theorem C06_clock_full_fails :
    let env := Witness.kfS6C06Env
    let clk' : Nat → Time := fun _ => env.bound
    (∀ k, env.clock k ≤ env.bound) ∧ (∀ k, clk' k ≤ env.bound) ∧
    (forwardCalc env Witness.kfS6C06F0 Witness.kfS6C06Res).map (fun o => (memberList env).map o.f) ≠
    (forwardCalc { env with clock := clk' } Witness.kfS6C06F0 Witness.kfS6C06Res).map (fun o => (memberList env).map o.f) := by
  refine ⟨fun k => ?_, fun k => Rat.le_refl, ?_⟩
  · show ((315687 : Rat) / 16) ≤ ((315721 : Rat) / 16)
    decide +kernel
  · apply map_ne_of_proj _ _ _ (fun l => l.map (fun x => x.end_))
    decide +kernel

/-- the remaining kind of clock dependence: a member leaf with a user-fixed start (Monday 2024-01-01) and no fixed end,
    project start Wednesday 2024-01-03, two clocks both not later than the project start, one on the day before the
    fixed start's day and one on the day after it: the work is booked from the clock on, so the usage rows differ -/
theorem C06_clock_fixed_start_fails :
    let env : Env :=
      { n := 1,
        info := fun u => match u with
          | 0 => { tid := 1, parent := none, children := [], preds := [], succs := [], member := true,
                   resource := some 0, milestone := false, minStart := none }
          | _ => default,
        roots := [0], balance := true, defaultEst := (8 : Rat),
        clock := fun _ => ((39445 : Rat) / 2), bound := (19725 : Rat) }
    let f0 : Uid → Fields := fun _ => { start := some (19723 : Rat), end_ := none, est := none, spent := none }
    let clk' : Nat → Time := fun _ => ((39449 : Rat) / 2)
    (∀ k, env.clock k ≤ env.bound) ∧ (∀ k, clk' k ≤ env.bound) ∧
    (forwardCalc env f0 []).map (fun o => o.rows) ≠ (forwardCalc { env with clock := clk' } f0 []).map (fun o => o.rows) := by
  refine ⟨fun k => ?_, fun k => ?_, ?_⟩
  · show ((39445 : Rat) / 2) ≤ (19725 : Rat)
    decide +kernel
  · show ((39449 : Rat) / 2) ≤ (19725 : Rat)
    decide +kernel
  · apply map_ne_of_proj _ _ _ (fun l => l.map (fun x => x.day))
    decide +kernel

/-- the translated `ForwardScheduler.calc` (validation, loop check, future-end check, clone, prepare, the pass over the roots; every
    call runs the translated source of its callee down to calendar.py) is the model's `forwardCalc`, errors included - unless the model
    ends in RecursionError (excluded for inputs that pass the pre-checks, C14).  `mem` = `WBS.tasks`, `w` the WBS object, `B0` the
    store of list/set containers, `hms` the effective-milestone encoding. -/
theorem C06_source_calc_forward (env : Env) (ms : Uid → Bool) (mem : List Uid) (w : Nat)
    (hmem : members env = some mem)
    (hms : ∀ u, (env.info u).milestone = (ms u && (env.info u).children.isEmpty))
    (fuel wfuel pfuel : Nat) (hf : env.n + 2 ≤ fuel) (hw : Extracted.fwdShiftMaxSteps < wfuel) (hp : env.n + 1 ≤ pfuel)
    (f0 : Uid → Fields) (res0 : List (Option Nat × Cal)) (rows0 : List Row) (done0 : List Uid) (B0 : List (List PyLite.Atom))
    (hne : forwardCalc env f0 res0 ≠ .error (.crash .recursion)) :
    match forwardCalc env f0 res0 with
    | .ok out => ∃ σ B, CalcSrc.interpFwdCalc env mem w fuel wfuel (PassSrc.calRef res0) pfuel
          (CalcSrc.wb (PassSrc.encS env ms { f := f0, rows := rows0, done := done0, res := res0, reads := 0 }) B0) =
          .ok (.atom (.ref w), CalcSrc.wb (PassSrc.encS env ms σ) B) ∧ out = { f := σ.f, rows := σ.rows, res := σ.res }
    | .error e => CalcSrc.interpFwdCalc env mem w fuel wfuel (PassSrc.calRef res0) pfuel
          (CalcSrc.wb (PassSrc.encS env ms { f := f0, rows := rows0, done := done0, res := res0, reads := 0 }) B0) = .error e :=
  CalcSrc.interpFwdCalc_eq env ms mem w hmem hms fuel wfuel pfuel hf hw hp f0 res0 rows0 done0 B0 hne

/-- the same for `BackwardScheduler.calc` and `backwardCalc` -/
theorem C06_source_calc_backward (env : Env) (ms : Uid → Bool) (mem : List Uid) (w : Nat)
    (hmem : members env = some mem)
    (hms : ∀ u, (env.info u).milestone = (ms u && (env.info u).children.isEmpty))
    (fuel wfuel pfuel : Nat) (hf : env.n + 2 ≤ fuel) (hw : Extracted.bwdShiftMaxSteps < wfuel) (hp : env.n + 1 ≤ pfuel)
    (f0 : Uid → Fields) (res0 : List (Option Nat × Cal)) (rows0 : List Row) (done0 : List Uid) (B0 : List (List PyLite.Atom))
    (hne : backwardCalc env f0 res0 ≠ .error (.crash .recursion)) :
    match backwardCalc env f0 res0 with
    | .ok out => ∃ σ B, CalcSrc.interpBwdCalc env mem w fuel wfuel (PassSrc.calRef res0) pfuel
          (CalcSrc.wb (PassSrcBwd.encSB env ms { f := f0, rows := rows0, done := done0, res := res0, reads := 0 }) B0) =
          .ok (.atom (.ref w), CalcSrc.wb (PassSrcBwd.encSB env ms σ) B) ∧ out = { f := σ.f, rows := σ.rows, res := σ.res }
    | .error e => CalcSrc.interpBwdCalc env mem w fuel wfuel (PassSrc.calRef res0) pfuel
          (CalcSrc.wb (PassSrcBwd.encSB env ms { f := f0, rows := rows0, done := done0, res := res0, reads := 0 }) B0) = .error e :=
  CalcSrc.interpBwdCalc_eq env ms mem w hmem hms fuel wfuel pfuel hf hw hp f0 res0 rows0 done0 B0 hne

/-! ### the tie of `WBS` (wbs.py) to the current source, by translation (tools/extract_wbs.py → Extracted/WbsSrc.lean, Lemmas/WbsSrc*.lean);
    the program of wbs.py is layered over the program of task.py: a call into task.py runs the translated setters of Lemmas/TaskSrc*.lean -/

/-- the translated `WBS.clone` / `WBS.subtree` (with `__clone`, `__clone_tasks` and its closure `link_target`) build, on a reachable
    state and for roots that are members of the WBS, exactly the model's copy (`cloneWbs` / `cloneSel`): the new WBS object, the store
    of the model's new state, the allocation pointer.  Source and model differ in three places (dicts keyed by task id vs identity;
    relations read while the setters run vs from the initial state; the new WBS() made last vs first) - each proved equal on
    reachable states.  `Task.clone()`, `WBS()` and the copying of a WBS's public attributes are primitives. -/
theorem C06_source_clone (s : G) (st : PyLite.PState) (hh : st.heap = TaskSrc.encHeap s) (hr : st.reads = s.n) (hi : Inv s) (w : Uid)
    (hwbs : s.hidden w = true) (F : Nat) (hF : (cloneWbs s w).1.n + 12 ≤ F) :
    WbsSrc.interpClone F w st = WbsSrc.cloneResult st (cloneWbs s w) :=
  WbsSrc.interpClone_eq s st hh hr hi w hwbs F hF

theorem C06_source_subtree (s : G) (st : PyLite.PState) (hh : st.heap = TaskSrc.encHeap s) (hr : st.reads = s.n) (hi : Inv s) (w : Uid)
    (hwbs : s.hidden w = true) (v : PyLite.Val) (roots : List Uid) (hv : TaskSrc.ValueOf v roots)
    (hm : ∀ r ∈ roots, s.owner r = some w ∧ s.hidden r = false) (F : Nat) (hF : (cloneSel s w roots).1.n + 12 ≤ F) :
    WbsSrc.interpSubtree F w v st = WbsSrc.cloneResult st (cloneSel s w roots) :=
  WbsSrc.interpSubtree_eq s st hh hr hi w hwbs v roots hv hm F hF

end Pj
