/-
  Props/C06.lean — C06: scheduling is pure and deterministic in WBS, resources, start and clock.
  The model is a function, so determinism and purity of the *model* hold by construction; that the implementation
  behaves as this function (same object twice, fresh object, input untouched) is what the correspondence stream of the
  check tests.  What is proved here: the output shape and clock independence (PARTIAL, findings KF-S6-C06).
-/
import PjVerif.Lemmas.SchedC06
import PjVerif.Props.Witness
namespace Pj

/-- every member of the result has a start and an end, both schedulers -/
theorem C06_dates_present_forward (env : Env) (f0 : Uid → Fields) (res0 : List (Option Nat × Cal)) (o : Output)
    (hf : env.flagsOK) (h : forwardCalc env f0 res0 = .ok o) :
    ∀ t ∈ memberList env, (o.f t).start.isSome = true ∧ (o.f t).end_.isSome = true :=
  have _ := hf
  forwardCalc_dates env f0 res0 o h

theorem C06_dates_present_backward (env : Env) (f0 : Uid → Fields) (res0 : List (Option Nat × Cal)) (o : Output)
    (hf : env.flagsOK) (h : backwardCalc env f0 res0 = .ok o) :
    ∀ t ∈ memberList env, (o.f t).start.isSome = true ∧ (o.f t).end_.isSome = true :=
  have _ := hf
  backwardCalc_dates env f0 res0 o h

/-- hypotheses of clock independence for one clock: every reading lies on a day before the project start day and
    before the day of every user-fixed start that has no fixed end; user-fixed ends are not in the future -/
def ClockHyp (env : Env) (f0 : Uid → Fields) (clk : Nat → Time) : Prop :=
  (∀ k, dayOf (clk k) < dayOf env.bound) ∧
  (∀ t ∈ memberList env, ∀ s, (f0 t).start = some s → (f0 t).end_ = none → ∀ k, dayOf (clk k) < dayOf s) ∧
  (∀ t ∈ memberList env, ∀ e, (f0 t).end_ = some e → e ≤ clk 0)

/-- under those hypotheses the forward result does not depend on the clock at all -/
theorem C06_clock_partial (env : Env) (f0 : Uid → Fields) (res0 : List (Option Nat × Cal)) (clk clk' : Nat → Time)
    (hf : env.flagsOK) (h1 : ClockHyp env f0 clk) (h2 : ClockHyp env f0 clk') :
    (forwardCalc { env with clock := clk } f0 res0).map (fun o => (o.rows, o.res, (memberList env).map o.f)) =
    (forwardCalc { env with clock := clk' } f0 res0).map (fun o => (o.rows, o.res, (memberList env).map o.f)) :=
  congrArg _ (forwardCalc_clock env f0 res0 clk clk' hf h1 h2)

/-- the full statement fails: with the clock on the project start day the result moves with the clock
    (findings/KF-S6-C06.json: two clocks, both not later than the project start, different results) -/
theorem C06_clock_full_fails :
    let env := Witness.kfS6C06Env
    let clk' : Nat → Time := fun _ => env.bound
    (∀ k, env.clock k ≤ env.bound) ∧ (∀ k, clk' k ≤ env.bound) ∧
    (forwardCalc env Witness.kfS6C06F0 Witness.kfS6C06Res).map (fun o => (memberList env).map o.f) ≠
    (forwardCalc { env with clock := clk' } Witness.kfS6C06F0 Witness.kfS6C06Res).map (fun o => (memberList env).map o.f) := by
  refine ⟨fun k => ?_, fun k => Rat.le_refl, ?_⟩
  · show ((315687 : Rat) / 16) ≤ ((315721 : Rat) / 16)
    decide +kernel
  · apply map_ne_of_proj _ _ _ (fun l => l.map (fun x => x.end_))
    decide +kernel

end Pj
