/-
  Props/C05.lean — C05: task ids stay unique inside every WBS and detached tree; lookup by id is exact;
  WBS.tasks lists every member once, depth first.
-/
import PjVerif.Lemmas.GraphTasks
namespace Pj

/-- no accepted or rejected operation can make two different tasks of one WBS / one detached tree share an id -/
theorem C05_step (s : G) (op : Op) (hi : Inv s) (hl : op.legal s) : UniqueIds (step s op).1 :=
  (step_Inv s op hi hl).ids

/-- … along every history -/
theorem C05_run (ops : List Op) (s : G) (hi : Inv s) (hl : ∀ op ∈ ops, op.legal s) : UniqueIds (run s ops) :=
  (run_Inv ops s hi hl).ids

/-- an operation that is rejected on a reachable state is rejected with RuntimeError (never RecursionError,
    KeyError, …); the one exception is `reorder` with an unknown or repeated id, which is no id-clash rejection -/
theorem C05_reject_is_runtime (s : G) (op : Op) (hi : Inv s) (hl : op.legal s) (e : Err)
    (he : (step s op).2 = some e) (hno : ∀ h ids, op ≠ .chReorder h ids) : e = .runtime := by
  rcases step_err_kind s op hi hl e he with h | ⟨h, ids, rfl⟩
  · exact h
  · exact absurd rfl (hno h ids)

/-- an attach that would bring a second task with an id already present in the receiving WBS/tree is rejected:
    the id-intersection test of the children setter fires ⇒ RuntimeError and nothing changes -/
theorem C05_clash_rejected (s : G) (h : Uid) (l : List Uid)
    (hown : ∀ e, (match s.owner h with
                  | none => if l.any (fun v => (s.owner v).isSome) then some Err.runtime else none
                  | some w => if l.any (fun v => (s.owner v).isSome && s.owner v != some w) then some Err.runtime else none) = some e
              → e = .runtime)
    (hclash : hasIdIntersection s h l = some true) : setChildren s h l = (s, some .runtime) :=
  setChildren_clash s h l hown hclash

/-- `wbs[id]` returns the one member with that id … -/
theorem C05_lookup_some (s : G) (w : Uid) (i : Int) (t : Uid) (hi : Inv s) (hw : s.hidden w = true) :
    wbsGet s w i = .ok t ↔ (TC (par s) t w ∧ s.tid t = i) :=
  wbsGet_ok_iff s w i t hi

/-- … and raises RuntimeError exactly when there is none -/
theorem C05_lookup_none (s : G) (w : Uid) (i : Int) (hi : Inv s) (hw : s.hidden w = true) :
    wbsGet s w i = .error .runtime ↔ ¬ ∃ t, TC (par s) t w ∧ s.tid t = i :=
  wbsGet_error_iff s w i hi

/-- `WBS.tasks` lists exactly the members, each once -/
theorem C05_tasks_members (s : G) (w : Uid) (hi : Inv s) :
    ∃ l, wbsTasks s w = some l ∧ l.Nodup ∧ ∀ t, t ∈ l ↔ TC (par s) t w :=
  wbsTasks_spec s w hi

/-- depth-first order: every member is directly followed by all of its descendants (in their own depth-first
    order), and siblings appear in list order -/
theorem C05_tasks_preorder (s : G) (w : Uid) (hi : Inv s) (l : List Uid) (hl : wbsTasks s w = some l) :
    (∀ t, t ∈ l → ∃ pre post d, descF s.children s.fuel t = some d ∧ l = pre ++ t :: d ++ post) ∧
    (∀ p a b, (p = w ∨ p ∈ l) → a ≠ b → (s.children p).idxOf a < (s.children p).idxOf b → b ∈ s.children p →
        l.idxOf a < l.idxOf b) :=
  ⟨descF_segment s.children s.fuel w l hl,
   fun p a b hp hab hidx hb => descF_order s hi.wf s.fuel w l hl p a b hp hab hidx hb⟩

end Pj
