/-
  Props/C05.lean — C05: task ids stay unique inside every WBS and detached tree; lookup by id is exact;
  WBS.tasks lists every member once, depth first.
-/
import PjVerif.Lemmas.GraphTasks
import PjVerif.Lemmas.TaskSrcD
import PjVerif.Lemmas.WbsSrcC
namespace Pj

/-- no accepted or rejected operation can make two different tasks of one WBS / one detached tree share an id -/
theorem C05_step (s : G) (op : Op) (hi : Inv s) (hl : op.legal s) : UniqueIds (step s op).1 :=
  (step_Inv s op hi hl).ids

/-- … along every history -/
theorem C05_run (ops : List Op) (s : G) (hi : Inv s) (hl : ∀ op ∈ ops, op.legal s) : UniqueIds (run s ops) :=
  (run_Inv ops s hi hl).ids

/-- an operation that is rejected on a reachable state is rejected with RuntimeError (never RecursionError,
    KeyError, …); the one exception is `reorder` with an unknown or repeated id, which is no id-clash rejection -/
theorem C05_reject_is_runtime (s : G) (op : Op) (hi : Inv s) (hl : op.legal s) (e : Err)
    (he : (step s op).2 = some e) (hno : ∀ h ids, op ≠ .chReorder h ids) : e = .runtime := by
  rcases step_err_kind s op hi hl e he with h | ⟨h, ids, rfl⟩
  · exact h
  · exact absurd rfl (hno h ids)

/-- an attach that would bring a second task with an id already present in the receiving WBS/tree is rejected:
    the id-intersection test of the children setter fires ⇒ RuntimeError and nothing changes -/
theorem C05_clash_rejected (s : G) (h : Uid) (l : List Uid)
    (hown : ∀ e, (match s.owner h with
                  | none => if l.any (fun v => (s.owner v).isSome) then some Err.runtime else none
                  | some w => if l.any (fun v => (s.owner v).isSome && s.owner v != some w) then some Err.runtime else none) = some e
              → e = .runtime)
    (hclash : hasIdIntersection s h l = some true) : setChildren s h l = (s, some .runtime) :=
  setChildren_clash s h l hown hclash

/-- `wbs[id]` returns the one member with that id … -/
theorem C05_lookup_some (s : G) (w : Uid) (i : Int) (t : Uid) (hi : Inv s) (hw : s.hidden w = true) :
    wbsGet s w i = .ok t ↔ (TC (par s) t w ∧ s.tid t = i) :=
  wbsGet_ok_iff s w i t hi

/-- … and raises RuntimeError exactly when there is none -/
theorem C05_lookup_none (s : G) (w : Uid) (i : Int) (hi : Inv s) (hw : s.hidden w = true) :
    wbsGet s w i = .error .runtime ↔ ¬ ∃ t, TC (par s) t w ∧ s.tid t = i :=
  wbsGet_error_iff s w i hi

/-- `WBS.tasks` lists exactly the members, each once -/
theorem C05_tasks_members (s : G) (w : Uid) (hi : Inv s) :
    ∃ l, wbsTasks s w = some l ∧ l.Nodup ∧ ∀ t, t ∈ l ↔ TC (par s) t w :=
  wbsTasks_spec s w hi

/-- depth-first order: every member is directly followed by all of its descendants (in their own depth-first
    order), and siblings appear in list order -/
theorem C05_tasks_preorder (s : G) (w : Uid) (hi : Inv s) (l : List Uid) (hl : wbsTasks s w = some l) :
    (∀ t, t ∈ l → ∃ pre post d, descF s.children s.fuel t = some d ∧ l = pre ++ t :: d ++ post) ∧
    (∀ p a b, (p = w ∨ p ∈ l) → a ≠ b → (s.children p).idxOf a < (s.children p).idxOf b → b ∈ s.children p →
        l.idxOf a < l.idxOf b) :=
  ⟨descF_segment s.children s.fuel w l hl,
   fun p a b hp hab hidx hb => descF_order s hi.wf s.fuel w l hl p a b hp hab hidx hb⟩

/-! ### the tie of the relation setters of `Task` to the current source, by translation (tools/extract_task.py → Extracted/TaskSrc.lean,
    Lemmas/TaskSrc*.lean): the statements above are about the model's `setParent` / `setPreds` / `setSuccs` / `setChildren`; these say that
    the model's functions are what the CURRENT task.py computes -/

/-- running the translated `parent` setter (with `_find_root`, `_collect_subtree`, `_has_id_intersection`, `_linked_with_any`, `_attach`,
    `_detach`, `all_parents`, `all_children` as translated callees) on the encoding of a well-formed state gives the encoding of the
    model's new state when the model accepts and the model's error when it rejects - unless the model's fuel runs out -/
theorem C05_source_set_parent (s : G) (hw : WF s) (t : Uid) (p : Option Uid) (F : Nat) (hF : s.n + 6 ≤ F)
    (hrec : (setParent s t p).2 ≠ some (.crash .recursion)) :
    TaskSrc.interpSetParent F t p (TaskSrc.encSt s) = TaskSrc.setterResult (TaskSrc.encSt s) (setParent s t p) :=
  TaskSrc.interpSetParent_eq_wf s hw t p F hF hrec

/-- the translated `children` setter (validations, release of the old children, the loop of `v.parent = self` assignments - each
    running the translated `parent` setter on an intermediate state) is the model's `setChildren`, for every state -/
theorem C05_source_set_children (s : G) (st : PyLite.PState) (hh : st.heap = TaskSrc.encHeap s) (h : Uid) (v : PyLite.Val)
    (l : List Uid) (hv : TaskSrc.ValueOf v l) (F : Nat) (hF : s.n + 6 ≤ F) (hrec : (setChildren s h l).2 ≠ some (.crash .recursion)) :
    TaskSrc.interpSetChildren F h v st = TaskSrc.setterResult st (setChildren s h l) :=
  TaskSrc.interpSetChildren_eq s st hh h v l hv F hF hrec

/-- the translated `_has_id_intersection` (the id clash test both hierarchy setters run before they write) is the model's
    `hasIdIntersection` -/
theorem C05_source_has_id_intersection (s : G) (st : PyLite.PState) (hh : st.heap = TaskSrc.encHeap s) (p : Uid) (chs : List Uid) (b : Bool)
    (h : hasIdIntersection s p chs = some b) (F : Nat) (hF : s.fuel + 2 ≤ F) :
    (TaskSrc.Hd F).fnV Extracted.fn_has_id_intersection [.atom (.ref p), TaskSrc.refs chs] st = .ok (.atom (.bool b), st) :=
  TaskSrc.has_id_intersection_spec s st hh p chs b h F hF

/-! ### the tie of `WBS` (wbs.py) to the current source, by translation (tools/extract_wbs.py → Extracted/WbsSrc.lean, Lemmas/WbsSrc*.lean);
    the program of wbs.py is layered over the program of task.py: a call into task.py runs the translated setters of Lemmas/TaskSrc*.lean -/

/-- the translated `WBS.tasks` returns the model's member list (`wbsTasks`: the depth-first enumeration below the hidden root) -/
theorem C05_source_tasks (s : G) (st : PyLite.PState) (hh : st.heap = TaskSrc.encHeap s) (w : Uid) (r : List Uid)
    (h : wbsTasks s w = some r) (F : Nat) (hF : s.n + 3 ≤ F) :
    WbsSrc.interpTasks F w st = .ok (TaskSrc.refs r, st) :=
  WbsSrc.interpTasks_eq s st hh w r h F hF

/-- the translated `WBS.__getitem__` is the model's `wbsGet`: the first member with that id, RuntimeError when there is none -/
theorem C05_source_getitem (s : G) (st : PyLite.PState) (hh : st.heap = TaskSrc.encHeap s) (w : Uid) (i : Int) (F : Nat)
    (hF : s.n + 3 ≤ F) (hrec : wbsGet s w i ≠ .error (.crash .recursion)) :
    WbsSrc.interpGetitem F w (.atom (TaskSrc.idA i)) st = WbsSrc.getResult st (wbsGet s w i) :=
  WbsSrc.interpGetitem_eq s st hh w i F hF hrec

end Pj
