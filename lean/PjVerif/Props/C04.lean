/-
  Props/C04.lean — C04: reserved work equals remaining work and agrees with the task's dates.
-/
import PjVerif.Lemmas.SchedC04
import PjVerif.Lemmas.ScheduleSrc
import PjVerif.Lemmas.PassSrc
import PjVerif.Lemmas.PassSrcBwd
namespace Pj

/-- forward schedules: conservation, at most one row per task and day, rows inside [start day, end) and never
    before the current day, a scheduler-chosen start on the first reserved day, the end within the 24 hours after
    the last reserved day's midnight, nothing reserved for milestones / completed tasks / summaries, user-fixed
    dates of non-milestone leaves returned unchanged.  Hypotheses: the membership flags describe the WBS; the
    clock never runs backwards and the calc does not run across midnight. -/
theorem C04_forward (env : Env) (f0 : Uid → Fields) (res0 : List (Option Nat × Cal)) (o : Output)
    (hf : env.flagsOK) (hc : env.clockOK) (h : forwardCalc env f0 res0 = .ok o) :
    c04Amount env f0 o = true ∧ c04OncePerDay o = true ∧ c04Window env true o = true ∧ c04None env f0 o = true ∧
    c04StartFirstDay env f0 o = true ∧ c04EndLastDay env f0 o = true ∧ c04FixedKept env f0 o = true := by
  exact C04.forwardCalc_c04 env f0 res0 o hf hc h

/-- backward schedules (no user-fixed dates): conservation, once per day, rows inside [start day, end), the start
    within the first reserved day, nothing reserved for milestones and summaries -/
theorem C04_backward (env : Env) (f0 : Uid → Fields) (res0 : List (Option Nat × Cal)) (o : Output)
    (hf : env.flagsOK) (hn : noFixedDates env f0 = true) (h : backwardCalc env f0 res0 = .ok o) :
    c04Amount env f0 o = true ∧ c04OncePerDay o = true ∧ c04Window env false o = true ∧ c04None env f0 o = true ∧
    c04BwdStartFirstDay env f0 o = true := by
  exact C04.backwardCalc_c04 env f0 res0 o hf hn h

/-! ### the tie of the inner loops to the current source, by translation

`tools/extract_schedule.py` translates, on every run, `_ResourceUsage.reserved / reserve / __get_key` and the methods
`__get_resource_nearest_available_date` / `__shift_by_resource_usage_and_calendar` of both schedulers (schedule.py) into
PyLite terms (Extracted/ScheduleSrc.lean); calls that leave a method run the translated source of the callee (the ledger
methods, resource.py, calendar.py).  The theorems say that running the translated source on a ledger is the model's
function - with the model's `used` being what `reserved` returns on that ledger for the scheduler's balance setting - and
that the ledger afterwards is the old one plus the model's rows.  A semantic edit of those methods breaks these proofs. -/

/-- forward `__get_resource_nearest_available_date` as translated = the model's `nearestFwd`; the ledger is not touched -/
theorem C04_source_nearest_forward (cal : Cal) (b : Bool) (rows : List Row) (r : Option Nat) (t : Uid) (start : Time) :
    SchedSrc.interpNearestFwd cal b (SchedSrc.resRef r) t (rows.map SchedSrc.encRow) start =
      (nearestFwd cal (SchedSrc.usedOf rows r t b) start).map (fun e => (e, rows.map SchedSrc.encRow)) :=
  SchedSrc.interpNearestFwd_eq cal b rows r t start

/-- forward `__shift_by_resource_usage_and_calendar` as translated = the model's `shiftFwd`, and the ledger afterwards is
    the old one followed by the model's rows -/
theorem C04_source_shift_forward (fuel : Nat) (cal : Cal) (b : Bool) (rows : List Row) (r : Option Nat) (t : Uid)
    (start : Time) (left : Rat) (hf : Extracted.fwdShiftMaxSteps < fuel) :
    SchedSrc.interpShiftFwd fuel cal b (SchedSrc.resRef r) t (rows.map SchedSrc.encRow) start left =
      (shiftFwd cal (SchedSrc.usedOf rows r t b) start left).map
        (fun p => (p.1, (rows ++ p.2.map (mkRow r t)).map SchedSrc.encRow)) :=
  SchedSrc.interpShiftFwd_eq fuel cal b rows r t start left hf

/-- backward `__get_resource_nearest_available_date` as translated = the model's `nearestBwd` -/
theorem C04_source_nearest_backward (cal : Cal) (b : Bool) (rows : List Row) (r : Option Nat) (t : Uid) (start : Time) :
    SchedSrc.interpNearestBwd cal b (SchedSrc.resRef r) t (rows.map SchedSrc.encRow) start =
      (nearestBwd cal (SchedSrc.usedOf rows r t b) start).map (fun e => (e, rows.map SchedSrc.encRow)) :=
  SchedSrc.interpNearestBwd_eq cal b rows r t start

/-- backward `__shift_by_resource_usage_and_calendar` as translated = the model's `shiftBwd` -/
theorem C04_source_shift_backward (fuel : Nat) (cal : Cal) (b : Bool) (rows : List Row) (r : Option Nat) (t : Uid)
    (end_ : Time) (left : Rat) (hf : Extracted.bwdShiftMaxSteps < fuel) :
    SchedSrc.interpShiftBwd fuel cal b (SchedSrc.resRef r) t (rows.map SchedSrc.encRow) end_ left =
      (shiftBwd cal (SchedSrc.usedOf rows r t b) end_ left).map
        (fun p => (p.1, (rows ++ p.2.map (mkRow r t)).map SchedSrc.encRow)) :=
  SchedSrc.interpShiftBwd_eq fuel cal b rows r t end_ left hf

/-! ### the tie of the recursive forward pass to the current source, by translation

`tools/extract_pass.py` translates `ForwardScheduler.__forward_pass` (schedule.py) into a PyLite term on every run
(Extracted/PassSrc.lean); a third evaluator of PyLite runs it on an object store: task attributes as mutable slots, the
`calculated` list, the resource table with `setdefault`, the scripted clock, the ledger, recursion with fuel; the two calls
of the inner-loop methods run the translated source of 12.6b.  The theorem: interpreting the translated method on the
encoding of a model state is the encoding of the model's `fwdPass` - unless the model run ends in RecursionError (fuel
exhausted or a task met again while in progress: a check Python does not have; excluded for real inputs by C14).  `ms` is
the tasks' own milestone flag; `hms` says the model's flag is the effective one (flagged and childless). -/

theorem C04_source_forward_pass (env : Env) (ms : Uid → Bool) (wfuel : Nat)
    (hms : ∀ u, (env.info u).milestone = (ms u && (env.info u).children.isEmpty))
    (hw : Extracted.fwdShiftMaxSteps < wfuel) (fuel fuel' : Nat) (hle : fuel ≤ fuel') (stk : List Uid) (σ : SS)
    (t : Uid) (minDate : Time) (hne : fwdPass env fuel stk σ t minDate ≠ .error (.crash .recursion)) :
    PassSrc.interpFwdPass env wfuel (PassSrc.calRef σ.res) fuel' (PassSrc.encS env ms σ) t minDate =
      (fwdPass env fuel stk σ t minDate).map (PassSrc.encS env ms) :=
  PassSrc.interpFwdPass_eq env ms wfuel hms hw fuel fuel' hle stk σ t minDate hne

/-- the translated `BackwardScheduler.__backward_pass` (Extracted/PassSrc.lean), interpreted on the encoding of a model state,
    is the encoding of the model's `bwdPass` - unless the model run ends in RecursionError (see `*_source_forward_pass`).
    `encSB` is `encS` with the tasks' successor lists. -/
theorem C04_source_backward_pass (env : Env) (ms : Uid → Bool) (wfuel : Nat)
    (hms : ∀ u, (env.info u).milestone = (ms u && (env.info u).children.isEmpty))
    (hw : Extracted.bwdShiftMaxSteps < wfuel) (fuel fuel' : Nat) (hle : fuel ≤ fuel') (stk : List Uid) (σ : SS)
    (t : Uid) (minDate : Time) (hne : bwdPass env fuel stk σ t minDate ≠ .error (.crash .recursion)) :
    PassSrcBwd.interpBwdPass env wfuel (PassSrc.calRef σ.res) fuel' (PassSrcBwd.encSB env ms σ) t minDate =
      (bwdPass env fuel stk σ t minDate).map (PassSrcBwd.encSB env ms) :=
  PassSrcBwd.interpBwdPass_eq env ms wfuel hms hw fuel fuel' hle stk σ t minDate hne

end Pj
