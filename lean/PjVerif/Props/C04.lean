/-
  Props/C04.lean — C04: reserved work equals remaining work and agrees with the task's dates.
-/
import PjVerif.Lemmas.SchedC04
namespace Pj

/-- forward schedules: conservation, at most one row per task and day, rows inside [start day, end) and never
    before the current day, a scheduler-chosen start on the first reserved day, the end within the 24 hours after
    the last reserved day's midnight, nothing reserved for milestones / completed tasks / summaries, user-fixed
    dates of non-milestone leaves returned unchanged.  Hypotheses: the membership flags describe the WBS; the
    clock never runs backwards and the calc does not run across midnight. -/
theorem C04_forward (env : Env) (f0 : Uid → Fields) (res0 : List (Option Nat × Cal)) (o : Output)
    (hf : env.flagsOK) (hc : env.clockOK) (h : forwardCalc env f0 res0 = .ok o) :
    c04Amount env f0 o = true ∧ c04OncePerDay o = true ∧ c04Window env true o = true ∧ c04None env f0 o = true ∧
    c04StartFirstDay env f0 o = true ∧ c04EndLastDay env f0 o = true ∧ c04FixedKept env f0 o = true := by
  exact C04.forwardCalc_c04 env f0 res0 o hf hc h

/-- backward schedules (no user-fixed dates): conservation, once per day, rows inside [start day, end), the start
    within the first reserved day, nothing reserved for milestones and summaries -/
theorem C04_backward (env : Env) (f0 : Uid → Fields) (res0 : List (Option Nat × Cal)) (o : Output)
    (hf : env.flagsOK) (hn : noFixedDates env f0 = true) (h : backwardCalc env f0 res0 = .ok o) :
    c04Amount env f0 o = true ∧ c04OncePerDay o = true ∧ c04Window env false o = true ∧ c04None env f0 o = true ∧
    c04BwdStartFirstDay env f0 o = true := by
  exact C04.backwardCalc_c04 env f0 res0 o hf hn h

end Pj
