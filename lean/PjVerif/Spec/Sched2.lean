/-
  Spec/Sched2.lean — C08 (forward tightness), C09 (backward), C14 (diagnoses), C06 (hypotheses) as executable
  predicates, same conventions as Spec/Sched.lean.
-/
import PjVerif.Spec.Sched
import PjVerif.Spec.Graph
namespace Pj

/-- total booked on a resource and day in the final ledger (all tasks when balancing, else the task's own) -/
def booked (env : Env) (o : Output) (k : Option Nat) (d : Int) (t : Uid) : Rat :=
  reserved o.rows k d (if env.balance then none else some t)

def fullDay (env : Env) (o : Output) (k : Option Nat) (d : Int) (t : Uid) : Bool :=
  decide (capMid o.res k d ≤ booked env o k d t)

def daysBetween (a b : Int) : List Int := (List.range (b - a).toNat).map (fun (i : Nat) => a + (i : Int))

/-- index of the first row of `t` in the ledger -/
def firstRowIdx (rows : List Row) (t : Uid) : Option Nat := rows.findIdx? (fun r => r.task == t)

/-- booked on `(k, d)` by the rows that precede the first row of `t` (balancing) / nothing (not balancing:
    a task only sees its own bookings, and it has none before it is placed) -/
def bookedBefore (env : Env) (o : Output) (k : Option Nat) (d : Int) (t : Uid) : Rat :=
  if env.balance then
    match firstRowIdx o.rows t with
    | some i => reserved (o.rows.take i) k d none
    | none => reserved o.rows k d none
  else 0

/-- booked on `(k, d)` up to and including the rows of `t` -/
def bookedUpTo (env : Env) (o : Output) (k : Option Nat) (d : Int) (t : Uid) : Rat :=
  bookedBefore env o k d t + reserved o.rows k d (some t)

/-! ### C08 -/

/-- leaf, not a milestone, start not fixed by the user -/
def c08Subject (env : Env) (f0 : Uid → Fields) (t : Uid) : Bool :=
  isLeaf env t && !(env.info t).milestone && (f0 t).start.isNone && (f0 t).end_.isNone

/-- release day: latest of project start, clock, min_start and the ends of the prerequisites -/
def releaseDay (env : Env) (o : Output) (t : Uid) : Int :=
  ([dayOf env.bound, dayOf (env.clock 0)] ++ ((env.info t).minStart.toList.map dayOf) ++
    ((prereqLeaves env t).filterMap (fun p => ((o.f p).end_).map dayOf))).foldl max (dayOf env.bound)

/-- with balancing on the task's resource is fully booked on every day from the release day up to, excluding,
    the last work day (the start day when there is no work) -/
def c08NoIdle (env : Env) (f0 : Uid → Fields) (o : Output) : Bool :=
  !env.balance ||
  (memberList env).all (fun t =>
    !c08Subject env f0 t ||
    let k := (env.info t).resource
    let last : Int := match lastDay (rowsOf o.rows t) with
      | some d => d
      | none => match (o.f t).start with | some s => dayOf s | none => releaseDay env o t
    (daysBetween (releaseDay env o t) last).all (fun d => fullDay env o k d t))

/-- start = first work day's midnight + share booked before the task; end = last work day's midnight + share booked
    up to and including the task (claimed when the clock is not later than the project start) -/
def c08Encode (env : Env) (f0 : Uid → Fields) (o : Output) : Bool :=
  (memberList env).all (fun t =>
    !c08Subject env f0 t ||
    let k := (env.info t).resource
    match firstDay (rowsOf o.rows t), lastDay (rowsOf o.rows t), (o.f t).start, (o.f t).end_ with
    | some d1, some d2, some s, some e =>
      let c1 := capMid o.res k d1
      let c2 := capMid o.res k d2
      decide (0 < c1) && decide (0 < c2) &&
      s == (d1 : Rat) + bookedBefore env o k d1 t / c1 &&
      e == (d2 : Rat) + bookedUpTo env o k d2 t / c2
    | none, none, _, _ => true
    | _, _, _, _ => false)

/-- a leaf that takes part in no dependency, neither itself nor through an ancestor -/
def freeLeaf (env : Env) (t : Uid) : Bool :=
  isLeaf env t && (t :: ancestorsOf env (env.n + 1) t).all (fun x => (env.info x).preds.isEmpty && (env.info x).succs.isEmpty)

/-- among such leaves capacity is handed out in WBS order: all rows of an earlier one precede all rows of a later one -/
def c08Order (env : Env) (o : Output) : Bool :=
  let free := (memberList env).filter (freeLeaf env)
  let idxs (t : Uid) : List Nat := (List.range o.rows.length).filter (fun i => (o.rows.getD i default).task == t)
  (List.range free.length).all (fun i => (List.range free.length).all (fun j =>
    !(decide (i < j)) ||
    (idxs (free.getD i 0)).all (fun a => (idxs (free.getD j 0)).all (fun b => decide (a < b)))))

/-- the stronger hypothesis the encoding clause needed before the repair of finding S6 (`end = max(encoded end, now)`):
    every clock reading lies on a day before the project start day; kept for the harness -/
def clockBeforeStartDay (env : Env) (reads : Nat) : Bool :=
  (List.range (reads + 1)).all (fun k => decide (dayOf (env.clock k) < dayOf env.bound))

/-- the statement's own hypothesis of the encoding clause (and the first conjunct of C06's `ClockHyp`): no clock
    reading up to `reads` is later than the project start -/
def clockNotAfterStart (env : Env) (reads : Nat) : Bool :=
  (List.range (reads + 1)).all (fun k => decide (env.clock k ≤ env.bound))

/-! ### C09 (backward, no user-fixed dates) -/

def succLeaves (env : Env) (t : Uid) : List Uid :=
  ((t :: ancestorsOf env (env.n + 1) t).flatMap (fun x => (env.info x).succs)).flatMap (fun p => (leavesOf env p).getD [])

def c09Deadline (env : Env) (o : Output) : Bool :=
  (memberList env).all (fun t => match (o.f t).end_ with | some e => decide (e ≤ env.bound) | none => false)

/-- every dependency between tasks of the WBS, declared or inherited, at leaf level: predecessor's end ≤ successor's
    start (a backward schedule cannot move predecessors outside the WBS, whose dates are given) -/
def c09Deps (env : Env) (o : Output) : Bool :=
  (memberList env).all (fun t =>
    !isLeaf env t ||
    ((prereqLeaves env t).filter (fun p => (memberList env).contains p)).all (fun p =>
      match (o.f p).end_, (o.f t).start with
      | some e, some s => decide (e ≤ s)
      | _, _ => false))

def dueDate (env : Env) (o : Output) (t : Uid) : Time :=
  ((succLeaves env t).filterMap (fun s => (o.f s).start)).foldl minT env.bound

/-- late packing (balancing on): every day strictly after the day containing the end and before the day of the due
    date is full, and so is every day strictly between the first and last work day -/
def c09LatePacked (env : Env) (o : Output) : Bool :=
  !env.balance ||
  (memberList env).all (fun t =>
    !isLeaf env t || (env.info t).milestone ||
    let k := (env.info t).resource
    (match (o.f t).end_ with
     | some e => (daysBetween (dayOf e + 1) (dayOf (dueDate env o t))).all (fun d => fullDay env o k d t)
     | none => false) &&
    (match firstDay (rowsOf o.rows t), lastDay (rowsOf o.rows t) with
     | some d1, some d2 => (daysBetween (d1 + 1) d2).all (fun d => fullDay env o k d t)
     | _, _ => true))

/-- start = midnight following the first (earliest) work day − share booked up to and including the task;
    computed end = midnight following its day − share booked before the task was placed -/
def c09Encode (env : Env) (o : Output) : Bool :=
  (memberList env).all (fun t =>
    !isLeaf env t || (env.info t).milestone ||
    let k := (env.info t).resource
    match firstDay (rowsOf o.rows t), (o.f t).start, (o.f t).end_ with
    | some d1, some s, some e =>
      let c1 := capMid o.res k d1
      -- the end's day: the day whose following midnight the end is measured from
      let d0 : Int := if e == (dayOf e : Rat) then dayOf e - 1 else dayOf e
      let c0 := capMid o.res k d0
      decide (0 < c1) && s == (d1 : Rat) + 1 - bookedUpTo env o k d1 t / c1 &&
      decide (0 < c0) && e == (d0 : Rat) + 1 - bookedBefore env o k d0 t / c0
    | none, _, _ => true
    | _, _, _ => false)

/-! ### C14: the unschedulable classes must be diagnosed with RuntimeError -/

/-- the leaf-level waits-for relation has a cycle -/
def waitCycle (env : Env) : Bool :=
  ((memberList env).filter (isLeaf env)).any (fun t => (reachFrom (waitsFor env) env.n t).contains t)

/-- inputs C14 lists as unschedulable (except "a resource never becomes available", which is judged from the
    generator's tag): outside predecessor without both dates, fixed end in the future (forward), hierarchy cycle -/
def c14MustDiagnose (env : Env) (f0 : Uid → Fields) (fwd : Bool) : Bool :=
  !isolationOk env f0 (memberList env) || waitCycle env ||
  (fwd && (memberList env).any (fun t => match (f0 t).end_ with | some e => decide (env.clock 0 < e) | none => false))

def c14Diagnosed (env : Env) (f0 : Uid → Fields) (fwd : Bool) (r : Res Output) : Bool :=
  !c14MustDiagnose env f0 fwd || (match r with | .error .runtime => true | _ => false)

end Pj

namespace Pj

/-- the parent pointer of a member agrees with the children lists: its parent is a member that lists it as a child
    (what C01's `listed` clause gives for every reachable graph) -/
def Env.parentsOK (env : Env) : Prop :=
  ∀ t p, t ∈ memberList env → (env.info t).parent = some p → p ∈ memberList env ∧ t ∈ (env.info p).children

/-- dependency links are stored on both ends (C01's `sym` clause) -/
def Env.linksSym (env : Env) : Prop :=
  ∀ a b, a ∈ (env.info b).preds ↔ b ∈ (env.info a).succs

end Pj

namespace Pj

/-- the children lists agree with the parent pointers (the other direction of C01's `listed` clause) -/
def Env.childrenOK (env : Env) : Prop :=
  ∀ t c, t ∈ memberList env → c ∈ (env.info t).children → (env.info c).parent = some t

/-- every member appears once in the depth-first list (forest: each child listed once, under one parent) -/
def Env.membersNodup (env : Env) : Prop := (memberList env).Nodup

end Pj
