/-
  Spec/GraphEff.lean — C16: the documented effect of every accepted mutator, as a closed-form description of the state
  after the call written with plain list functions (no setter folds), plus the frame: everything the description does
  not mention is unchanged.  `effOf s op` is compared (extensionally, on the uids `< n`) with the state the
  implementation is observed in, and proved equal to what the model computes.
-/
import PjVerif.Spec.Graph
namespace Pj

/-- keep the last occurrence of every element (the order in which repeated arguments end up) -/
def dedupLast (l : List Uid) : List Uid := (l.reverse.eraseDups).reverse

/-- all tasks at or below the members of `ts` (pre-state hierarchy) -/
def below (s : G) (ts : List Uid) : List Uid :=
  (ts.flatMap (fun t => (subtreeF s.children s.fuel t).getD [t]))

/-- `h.children = l` / `WBS.roots = l`: the list is exactly the given tasks in the given order; tasks left out are
    released (no parent, and — unless re-adopted by the same call — no owner, with their subtrees); every given task
    hangs under `h` with its whole subtree, owned by `h`'s WBS, and is gone from its previous parent's list, whose
    other entries keep their relative order; dependency links are untouched -/
def effSetChildren (s : G) (h : Uid) (l : List Uid) : G :=
  let l' := dedupLast l
  let adopted := below s l'
  let released := below s ((s.children h).filter (fun c => !l'.contains c))
  { s with
    parent := fun x => if l'.contains x then some h else if (s.children h).contains x then none else s.parent x,
    children := fun q => if q = h then l' else (s.children q).filter (fun c => !l'.contains c),
    owner := fun x => if adopted.contains x then s.owner h else if released.contains x then none else s.owner x }

/-- `t.parent = p` (also `children.append(t)`): `t` is the last child of `p`, gone from its previous parent's list,
    its subtree owned by `p`'s WBS -/
def effSetParentSome (s : G) (t p : Uid) : G :=
  { s with
    parent := fun x => if x = t then some p else s.parent x,
    children := fun q => if q = p then (s.children p).filter (fun c => c != t) ++ [t]
                          else (s.children q).filter (fun c => c != t),
    owner := fun x => match s.owner p with
      | some w => if (below s [t]).contains x then some w else s.owner x
      | none => s.owner x }

/-- `t.parent = None`: a member of a WBS becomes the last root task of that WBS, a detached task just leaves its
    parent's list -/
def effSetParentNone (s : G) (t : Uid) : G :=
  match s.owner t with
  | some w => effSetParentSome s t w
  | none => { s with parent := fun x => if x = t then none else s.parent x,
                      children := fun q => (s.children q).filter (fun c => c != t) }

/-- `t.predecessors = l`: the list is exactly `l`; `t` leaves the successor list of every former predecessor and is
    appended to the successor list of every new one that lacks it; nothing else changes -/
def effSetPreds (s : G) (t : Uid) (l : List Uid) : G :=
  { s with
    preds := fun x => if x = t then l else s.preds x,
    succs := fun v =>
      let base := if (s.preds t).contains v then (s.succs v).filter (fun x => x != t) else s.succs v
      if l.contains v && !base.contains t then base ++ [t] else base }

def effSetSuccs (s : G) (t : Uid) (l : List Uid) : G :=
  { s with
    succs := fun x => if x = t then l else s.succs x,
    preds := fun v =>
      let base := if (s.succs t).contains v then (s.preds v).filter (fun x => x != t) else s.preds v
      if l.contains v && !base.contains t then base ++ [t] else base }

/-- `reorder(ids)`: the children with the listed ids first, in the given order, the rest after them in their old order -/
def effReorder (s : G) (h : Uid) (ids : List Int) : G :=
  let l := s.children h
  let first := ids.filterMap (fun i => l.find? (fun t => s.tid t == i))
  { s with children := fun q => if q = h then first ++ l.filter (fun t => !first.contains t) else s.children q }

/-- `remove` / `remove_all` / `WBS.remove`: exactly the named tasks leave the list, together with their subtrees they
    lose parent and owner; the other siblings keep their order -/
def effRemove (s : G) (h : Uid) (ts : List Uid) : G :=
  let gone := (s.children h).filter (fun c => ts.contains c)
  let released := below s gone
  { s with
    parent := fun x => if gone.contains x then none else s.parent x,
    children := fun q => if q = h then (s.children h).filter (fun c => !ts.contains c) else s.children q,
    owner := fun x => if released.contains x then none else s.owner x }

/-- the documented effect of an accepted call, for the operations that have a closed form here -/
def effOf (s : G) : Op → Option G
  | .setParent t (some p) => some (effSetParentSome s t p)
  | .setParent t none => some (effSetParentNone s t)
  | .chAppend h t => some (effSetParentSome s t h)
  | .setChildren h l => some (effSetChildren s h l)
  | .floordiv h l => some (effSetChildren s h (s.children h ++ l))
  | .chInsert h i t => some (effSetChildren s h (pyInsert ((s.children h).filter (fun x => x != t)) i t))
  | .chRemove h t => some (effRemove s h [t])
  | .chRemoveAll h ts => some (effRemove s h ts)
  | .setPreds t l => some (effSetPreds s t l)
  | .setSuccs t l => some (effSetSuccs s t l)
  | .prAppend t x => some (effSetPreds s t (s.preds t ++ [x]))
  | .suAppend t x => some (effSetSuccs s t (s.succs t ++ [x]))
  | .prRemove t x => some (if (s.preds t).contains x then effSetPreds s t ((s.preds t).filter (fun v => v != x)) else s)
  | .suRemove t x => some (if (s.succs t).contains x then effSetSuccs s t ((s.succs t).filter (fun v => v != x)) else s)
  | .lshift t l => some (effSetPreds s t (s.preds t ++ l))
  | .rshift t l => some (effSetSuccs s t (s.succs t ++ l))
  | .chReorder h ids => some (effReorder s h ids)
  | .wbsRemove w t =>
    -- only a member of `w` is removed (from the list of its parent); anything else is left alone
    some (if s.owner t == some w && t != w then (match s.parent t with | some p => effRemove s p [t] | none => s) else s)
  | _ => none

/-- sort: the result is a permutation of the old list, ordered by the key (descending when reversed), and stable:
    children with equal keys keep their relative order -/
def sortedByB (key : Uid → Int) (rev : Bool) (old new : List Uid) : Bool :=
  old.all (fun x => old.count x == new.count x) && new.all (fun x => old.contains x) && old.length == new.length &&
  (new.zip (new.drop 1)).all (fun p => if rev then decide (key p.2 ≤ key p.1) else decide (key p.1 ≤ key p.2)) &&
  -- stability: for equal keys, the order in `new` is the order in `old`
  new.all (fun a => new.all (fun b => !(key a == key b && a != b) || (decide (new.idxOf a < new.idxOf b) == decide (old.idxOf a < old.idxOf b))))

/-- move: every moved task ends up immediately before / after the anchor at the moment it is moved, the other siblings
    keep their relative order (closed form: the fold of single moves) -/
def effMove (s : G) (h : Uid) (ts : List Uid) (before after : Option Uid) : G :=
  { s with children := fun q => if q = h then ts.foldl (fun acc t => moveOne acc t before after) (s.children h) else s.children q }

end Pj
