/-
  Spec/Graph.lean — what C01 / C05 / C11 / C15 say about a graph state, as `Prop`s for the theorems and as
  executable `Bool` monitors (evaluated by the driver on the implementation's observed states).
  The spec needs only the transitive closure, written out here so that no Mathlib import is needed.
-/
import PjVerif.Model.GraphOps
namespace Pj

/-- transitive closure (same shape as Mathlib's `Relation.TransGen`) -/
inductive TC {α : Type} (r : α → α → Prop) : α → α → Prop
  | single {a b} : r a b → TC r a b
  | tail {a b c} : TC r a b → r b c → TC r a c

/-- reflexive-transitive closure -/
inductive RTC {α : Type} (r : α → α → Prop) : α → α → Prop
  | refl {a} : RTC r a a
  | tail {a b c} : RTC r a b → r b c → RTC r a c

def par (s : G) (a b : Uid) : Prop := s.parent a = some b
def dep (s : G) (a b : Uid) : Prop := a ∈ s.preds b

/-- C01: the hierarchy is a forest stored consistently on both ends, dependency links are symmetric,
    acyclic and never connect a task with one of its ancestors or descendants -/
structure WF (s : G) : Prop where
  listed   : ∀ t p, s.parent t = some p ↔ t ∈ s.children p
  once     : ∀ p, (s.children p).Nodup
  forest   : ∀ t, ¬ TC (par s) t t
  rootsTop : ∀ r, s.hidden r = true → s.parent r = none ∧ s.preds r = [] ∧ s.succs r = []
  sym      : ∀ a b, a ∈ s.preds b ↔ b ∈ s.succs a
  dag      : ∀ t, ¬ TC (dep s) t t
  noAncDep : ∀ a b, dep s a b → ¬ TC (par s) a b ∧ ¬ TC (par s) b a

/-- C11 (local form): the owner is inherited along the parent edge, a WBS root owns itself, a parentless
    ordinary task has no owner -/
structure OwnerOK (s : G) : Prop where
  inherit : ∀ t p, s.parent t = some p → s.owner t = s.owner p
  root    : ∀ r, s.hidden r = true → s.owner r = some r
  free    : ∀ t, s.parent t = none → s.hidden t = false → s.owner t = none
  isRoot  : ∀ t w, s.owner t = some w → s.hidden w = true

/-- same tree = same top of the parent chain -/
def SameTree (s : G) (a b : Uid) : Prop := ∃ r, RTC (par s) a r ∧ RTC (par s) b r

/-- C05: two different (ordinary) tasks of one WBS or one detached tree never share an id -/
def UniqueIds (s : G) : Prop :=
  ∀ a b, a ≠ b → s.hidden a = false → s.hidden b = false → SameTree s a b → s.tid a ≠ s.tid b

/-! ### executable monitors over the uids `< n` -/

def uids (s : G) : List Uid := List.range s.n

def listedB (s : G) : Bool :=
  (uids s).all (fun t => (uids s).all (fun p => (s.parent t == some p) == (s.children p).contains t))
  && (uids s).all (fun p => (s.children p).all (fun c => decide (c < s.n)))
  && (uids s).all (fun t => match s.parent t with | some p => decide (p < s.n) | none => true)

def nodupB (l : List Uid) : Bool := l.eraseDups.length == l.length

def onceB (s : G) : Bool := (uids s).all (fun p => nodupB (s.children p))

def forestB (s : G) : Bool := (uids s).all (fun t => (rootF s s.fuel t).isSome)

def rootsTopB (s : G) : Bool :=
  (uids s).all (fun r => !s.hidden r || (s.parent r == none && (s.preds r).isEmpty && (s.succs r).isEmpty))

def symB (s : G) : Bool :=
  (uids s).all (fun a => (uids s).all (fun b => (s.preds b).contains a == (s.succs a).contains b))
  && (uids s).all (fun b => (s.preds b).all (fun a => decide (a < s.n)) && (s.succs b).all (fun a => decide (a < s.n)))

/-- everything reachable from `start` in at least one step, by `k` rounds of frontier expansion -/
def reachB (next : Uid → List Uid) : Nat → List Uid → List Uid → List Uid
  | 0, seen, _ => seen
  | k + 1, seen, frontier =>
    let new := (frontier.flatMap next).eraseDups.filter (fun x => !seen.contains x)
    if new.isEmpty then seen else reachB next k (seen ++ new) new

def reachFrom (next : Uid → List Uid) (n : Nat) (t : Uid) : List Uid := reachB next (n + 1) [] [t]

def dagB (s : G) : Bool := (uids s).all (fun t => !(reachFrom s.preds s.n t).contains t)

def ancestorsB (s : G) (t : Uid) : List Uid :=
  reachFrom (fun x => match s.parent x with | some p => [p] | none => []) s.n t

def noAncDepB (s : G) : Bool :=
  (uids s).all (fun b => (s.preds b).all (fun a => !(ancestorsB s b).contains a && !(ancestorsB s a).contains b))

def wfClauses (s : G) : List (String × Bool) :=
  [("listed", listedB s), ("once", onceB s), ("forest", forestB s), ("rootsTop", rootsTopB s),
   ("sym", symB s), ("dag", dagB s), ("noAncDep", noAncDepB s)]

def ownerOkB (s : G) : Bool :=
  (uids s).all (fun t =>
    match rootF s s.fuel t with
    | none => false
    | some r => s.owner t == (if s.hidden r then some r else none))

def uniqueIdsB (s : G) : Bool :=
  (uids s).all (fun a => (uids s).all (fun b =>
    a == b || s.hidden a || s.hidden b || rootF s s.fuel a != rootF s s.fuel b || s.tid a != s.tid b))

/-- extensional equality on the uids `< n` (C15) -/
def eqB (s s' : G) : Bool :=
  s.n == s'.n && (uids s).all (fun u =>
    s.tid u == s'.tid u && s.parent u == s'.parent u && s.children u == s'.children u &&
    s.preds u == s'.preds u && s.succs u == s'.succs u && s.owner u == s'.owner u)

/-- the members of a WBS in the order `WBS.tasks` must list them: depth first, siblings in list order -/
def preorder (s : G) (w : Uid) : Option (List Uid) := descF s.children s.fuel w

end Pj

namespace Pj

/-- uids that an operation names in *task* position.  Through the public API these are never hidden WBS roots
    (a root is reachable only as the holder of `WBS.roots` / `WBS //` / `WBS.remove`). -/
def Op.taskArgs : Op → List Uid
  | .setParent t p => t :: p.toList
  | .setChildren _ l => l
  | .chAppend _ t => [t]
  | .chRemove _ t => [t]
  | .chInsert _ _ t => [t]
  | .chMove _ ts b a => ts ++ b.toList ++ a.toList
  | .chSort _ _ _ => []
  | .chReorder _ _ => []
  | .setPreds t l => t :: l
  | .setSuccs t l => t :: l
  | .prAppend t x => [t, x]
  | .prRemove t x => [t, x]
  | .suAppend t x => [t, x]
  | .suRemove t x => [t, x]
  | .floordiv _ l => l
  | .lshift t l => t :: l
  | .rshift t l => t :: l
  | .listLshift ts l => ts ++ l
  | .listRshift ts l => ts ++ l
  | .listSetParent ts p => ts ++ p.toList
  | .wbsRemove _ t => [t]
  | .wbsRemoveAll _ ts => ts
  | .chRemoveAll _ ts => ts

def Op.visible (s : G) (op : Op) : Prop := ∀ u ∈ op.taskArgs, s.hidden u = false

/-- initial universe: `n` isolated objects; an object whose id is EMPTY_TASK_ID is a WBS root owning itself -/
def fresh (n : Nat) (tid : Uid → Int) : G :=
  { n := n, tid := tid, parent := fun _ => none, children := fun _ => [], preds := fun _ => [], succs := fun _ => [],
    owner := fun u => if tid u == emptyId then some u else none }

/-- every uid that occurs anywhere in the state is one of the `n` objects of the universe -/
structure Bounded (s : G) : Prop where
  parent : ∀ u p, s.parent u = some p → u < s.n ∧ p < s.n
  children : ∀ u c, c ∈ s.children u → u < s.n ∧ c < s.n
  preds : ∀ u v, v ∈ s.preds u → u < s.n ∧ v < s.n
  succs : ∀ u v, v ∈ s.succs u → u < s.n ∧ v < s.n
  owner : ∀ u w, s.owner u = some w → u < s.n ∧ w < s.n

/-- every uid an operation names (holders and WBSs included) -/
def Op.allUids : Op → List Uid
  | .setParent t p => t :: p.toList
  | .setChildren h l => h :: l
  | .chAppend h t => [h, t]
  | .chRemove h t => [h, t]
  | .chInsert h _ t => [h, t]
  | .chMove h ts b a => h :: ts ++ b.toList ++ a.toList
  | .chSort h _ _ => [h]
  | .chReorder h _ => [h]
  | .setPreds t l => t :: l
  | .setSuccs t l => t :: l
  | .prAppend t x => [t, x]
  | .prRemove t x => [t, x]
  | .suAppend t x => [t, x]
  | .suRemove t x => [t, x]
  | .floordiv h l => h :: l
  | .lshift t l => t :: l
  | .rshift t l => t :: l
  | .listLshift ts l => ts ++ l
  | .listRshift ts l => ts ++ l
  | .listSetParent ts p => ts ++ p.toList
  | .wbsRemove w t => [w, t]
  | .wbsRemoveAll w ts => w :: ts
  | .chRemoveAll h ts => h :: ts

/-- the operation is one the public API can express on this universe: all objects exist, task positions
    never name a hidden WBS root, and a WBS position names one -/
structure Op.legal (s : G) (op : Op) : Prop where
  inRange : ∀ u ∈ op.allUids, u < s.n
  visible : op.visible s
  wbs : ∀ w t, (op = .wbsRemove w t ∨ (∃ ts, op = .wbsRemoveAll w ts)) → s.hidden w = true

/-- the invariant of every reachable state -/
structure Inv (s : G) : Prop where
  wf : WF s
  own : OwnerOK s
  ids : UniqueIds s
  bnd : Bounded s

end Pj
