/-
  Spec/Sched.lean — what C02 C03 C04 C06 C07 C08 C09 C14 say about one `calc`, as executable predicates over the
  input (`Env`, initial fields, supplied resources) and an observed result (`Output`).  The driver evaluates them on
  the implementation's observation; the theorems of Props/ are about the model's output.
-/
import PjVerif.Model.Sched
namespace Pj

/-- the calendar of a resource name in a result: supplied resources keep theirs, the others got the default -/
def calOf (res : List (Option Nat × Cal)) (k : Option Nat) : Cal :=
  match res.find? (fun p => p.1 == k) with
  | some p => p.2
  | none => defaultCal

/-- capacity at the day's midnight (the key the ledger uses); 0 when undefined -/
def capMid (res : List (Option Nat × Cal)) (k : Option Nat) (day : Int) : Rat :=
  match capR (calOf res k) (day : Rat) with
  | .ok v => v
  | .error _ => 0

def sumUnits (rows : List Row) : Rat := (rows.map (·.units)).sum

def rowsOf (rows : List Row) (t : Uid) : List Row := rows.filter (fun r => r.task == t)

def isLeaf (env : Env) (t : Uid) : Bool := (env.info t).children.isEmpty

def memberList (env : Env) : List Uid := (members env).getD []

/-! ### C03 -/

def c03Positive (o : Output) : Bool := o.rows.all (fun r => decide (0 < r.units))
def c03OwnResource (env : Env) (o : Output) : Bool := o.rows.all (fun r => r.res == (env.info r.task).resource)
def c03CapacityDay (o : Output) : Bool := o.rows.all (fun r => decide (0 < capMid o.res r.res r.day))
def c03NoOverAlloc (env : Env) (o : Output) : Bool :=
  o.rows.all (fun r =>
    let same := o.rows.filter (fun x => x.res == r.res && x.day == r.day && (env.balance || x.task == r.task))
    decide (sumUnits same ≤ capMid o.res r.res r.day))
/-- every resource named by a member task is present; the supplied ones come first, in the given order -/
def c03Resources (env : Env) (res0 : List (Option Nat × Cal)) (o : Output) : Bool :=
  (memberList env).all (fun t => (o.res.map (·.1)).contains (env.info t).resource) &&
  (o.res.map (·.1)).take res0.length == res0.map (·.1) &&
  (o.res.drop res0.length).all (fun p => (memberList env).any (fun t => (env.info t).resource == p.1))

/-! ### C04 -/

/-- remaining work of a leaf: missing estimate = default, missing spent = 0 -/
def remaining (env : Env) (f0 : Uid → Fields) (t : Uid) : Rat :=
  let e := ((f0 t).est).getD env.defaultEst
  let s := ((f0 t).spent).getD 0
  if e - s < 0 then 0 else e - s

/-- leaf, not a milestone, not already completed (no user-fixed end) -/
def works (env : Env) (f0 : Uid → Fields) (t : Uid) : Bool :=
  isLeaf env t && !(env.info t).milestone && (f0 t).end_.isNone

def c04Amount (env : Env) (f0 : Uid → Fields) (o : Output) : Bool :=
  (memberList env).all (fun t => !works env f0 t || sumUnits (rowsOf o.rows t) == remaining env f0 t)

def c04OncePerDay (o : Output) : Bool :=
  o.rows.all (fun r => (o.rows.filter (fun x => x.task == r.task && x.day == r.day)).length == 1)

def c04Window (env : Env) (fwd : Bool) (o : Output) : Bool :=
  o.rows.all (fun r =>
    match (o.f r.task).start, (o.f r.task).end_ with
    | some s, some e => decide (dayOf s ≤ r.day) && decide ((r.day : Rat) < e) &&
        (!fwd || decide (dayOf (env.clock 0) ≤ r.day))
    | _, _ => false)

def firstDay (rows : List Row) : Option Int := (rows.map (·.day)).foldl (fun m d => match m with | none => some d | some x => some (min x d)) none
def lastDay (rows : List Row) : Option Int := (rows.map (·.day)).foldl (fun m d => match m with | none => some d | some x => some (max x d)) none

/-- forward: a start chosen by the scheduler lies on the first reserved day -/
def c04StartFirstDay (env : Env) (f0 : Uid → Fields) (o : Output) : Bool :=
  (memberList env).all (fun t =>
    !works env f0 t || (f0 t).start.isSome ||
    match firstDay (rowsOf o.rows t), (o.f t).start with
    | some d, some s => dayOf s == d
    | none, _ => true
    | _, none => false)

/-- forward: the end lies within the 24 hours following the last reserved day's midnight -/
def c04EndLastDay (env : Env) (f0 : Uid → Fields) (o : Output) : Bool :=
  (memberList env).all (fun t =>
    !works env f0 t ||
    match lastDay (rowsOf o.rows t), (o.f t).end_ with
    | some d, some e => decide ((d : Rat) < e) && decide (e ≤ (d : Rat) + 1)
    | none, _ => true
    | _, none => false)

/-- backward: the start lies within the first reserved day -/
def c04BwdStartFirstDay (env : Env) (f0 : Uid → Fields) (o : Output) : Bool :=
  (memberList env).all (fun t =>
    !works env f0 t ||
    match firstDay (rowsOf o.rows t), (o.f t).start with
    | some d, some s => decide ((d : Rat) ≤ s) && decide (s < (d : Rat) + 1)
    | none, _ => true
    | _, none => false)

/-- milestones, completed tasks and summary tasks reserve nothing -/
def c04None (env : Env) (f0 : Uid → Fields) (o : Output) : Bool :=
  o.rows.all (fun r => works env f0 r.task && (memberList env).contains r.task)

/-- forward: user-fixed dates of non-milestone leaves are returned unchanged -/
def c04FixedKept (env : Env) (f0 : Uid → Fields) (o : Output) : Bool :=
  (memberList env).all (fun t =>
    !isLeaf env t || (env.info t).milestone ||
    ((match (f0 t).start with | some s => (o.f t).start == some s | none => true) &&
     (match (f0 t).end_ with | some e => (o.f t).end_ == some e | none => true)))

/-! ### C07 -/

def minOpt (l : List Time) : Option Time := match l with | [] => none | x :: xs => some (xs.foldl minT x)
def maxOpt (l : List Time) : Option Time := match l with | [] => none | x :: xs => some (xs.foldl maxT x)

/-- user-fixed dates are consistent: a fixed end comes with a fixed start not after it (domain of C07) -/
def consistentFixed (env : Env) (f0 : Uid → Fields) : Bool :=
  (memberList env).all (fun t => !isLeaf env t || (env.info t).milestone ||
    match (f0 t).end_ with
    | none => true
    | some e => match (f0 t).start with | some s => decide (s ≤ e) | none => false)

def c07StartLeEnd (env : Env) (o : Output) : Bool :=
  (memberList env).all (fun t => match (o.f t).start, (o.f t).end_ with
    | some s, some e => decide (s ≤ e)
    | _, _ => false)

def c07Rollup (env : Env) (o : Output) : Bool :=
  (memberList env).all (fun t =>
    isLeaf env t || (env.info t).milestone ||
    let ch := (env.info t).children
    (o.f t).start == minOpt (ch.filterMap (fun c => (o.f c).start)) &&
    (o.f t).end_ == maxOpt (ch.filterMap (fun c => (o.f c).end_)) &&
    (o.f t).est == some ((ch.map (fun c => ((o.f c).est).getD 0)).sum) &&
    (o.f t).spent == some ((ch.map (fun c => ((o.f c).spent).getD 0)).sum))

/-! ### C02 (forward) -/

/-- own and inherited prerequisites, expanded to leaves (the statement's definition; same walk as the repaired
    pre-check uses) -/
def prereqLeaves (env : Env) (t : Uid) : List Uid := waitsFor env t

def latestPrereqEnd (env : Env) (o : Output) (t : Uid) : Option Time :=
  maxOpt ((prereqLeaves env t).filterMap (fun p => (o.f p).end_))

/-- a leaf with unfixed start never starts, and never has work reserved, on a day earlier than a prerequisite's
    end day, the project start day, its own min_start day or the current day -/
def c02Leaf (env : Env) (f0 : Uid → Fields) (o : Output) : Bool :=
  (memberList env).all (fun t =>
    !isLeaf env t || (env.info t).milestone || (f0 t).start.isSome ||
    match (o.f t).start with
    | none => false
    | some s =>
      let lows : List Int :=
        [dayOf env.bound, dayOf (env.clock 0)] ++ ((env.info t).minStart.toList.map dayOf) ++
        ((prereqLeaves env t).filterMap (fun p => ((o.f p).end_).map dayOf))
      lows.all (fun d => decide (d ≤ dayOf s) && (rowsOf o.rows t).all (fun r => decide (d ≤ r.day))))

/-- a milestone has zero duration and sits exactly at the latest end among its own and inherited prerequisites,
    or at the project start when it has none (or when they all end before the project start) -/
def c02Milestone (env : Env) (o : Output) : Bool :=
  (memberList env).all (fun t =>
    !(env.info t).milestone || !isLeaf env t ||
    let target := match latestPrereqEnd env o t with | some e => maxT e env.bound | none => env.bound
    (o.f t).start == some target && (o.f t).end_ == some target)

/-- hypothesis of `C02_partial`: no task that has children carries a dependency link -/
def noSummaryLinks (env : Env) : Bool :=
  (memberList env).all (fun t => isLeaf env t || ((env.info t).preds.isEmpty && (env.info t).succs.isEmpty))

/-! ### C14 -/

/-- the outcome class C14 allows -/
def c14Outcome (r : Res Output) : Bool :=
  match r with
  | .ok _ => true
  | .error .runtime => true
  | .error (.crash _) => false

end Pj

namespace Pj

/-- the membership flags of the environment agree with reachability from the roots -/
def Env.flagsOK (env : Env) : Prop := ∀ t, (env.info t).member = true ↔ t ∈ memberList env

/-- a real clock: it never runs backwards, and one `calc` does not run across midnight -/
def Env.clockOK (env : Env) : Prop :=
  (∀ i j, i ≤ j → env.clock i ≤ env.clock j) ∧ ∀ k, dayOf (env.clock k) = dayOf (env.clock 0)

/-- no user-fixed dates on member leaves (the domain of the backward clauses) -/
def noFixedDates (env : Env) (f0 : Uid → Fields) : Bool :=
  (memberList env).all (fun t => !isLeaf env t || ((f0 t).start.isNone && (f0 t).end_.isNone))

/-- predecessors outside the WBS are plain leaves (their own dates stand for themselves) -/
def outsideLeaves (env : Env) : Bool :=
  (memberList env).all (fun t => (env.info t).preds.all (fun p => (memberList env).contains p || (env.info p).children.isEmpty))

end Pj
