/-
  Spec/CritPath.lean — C12 as the property states it: a leaf is critical iff its earliest finish plus the longest
  remaining tail equals the project length.
-/
import PjVerif.Model.CritPath
namespace Pj
namespace CPEnv

/-- longest remaining tail after `t`: the heaviest chain of leaves that (transitively) wait for `t` -/
def tailF (e : CPEnv) : Nat → Uid → Option Rat
  | 0, _ => none
  | f + 1, t => ((succsOf e t).mapM (fun s => (tailF e f s).map (fun x => x + e.dur s))).map (fun l => l.foldl max 0)

def tail (e : CPEnv) (t : Uid) : Option Rat := tailF e (e.n + 1) t

/-- the statement's characterisation, executable: exactly the leaves with `ef + tail = project length` -/
def specCritical (e : CPEnv) : Option (List Uid) := do
  let len ← projectLen e
  let l ← (leaves e).mapM (fun t => do
    let f ← ef e t
    let tl ← tail e t
    pure (t, decide (f + tl = len)))
  pure ((l.filter (·.2)).map (·.1))

/-- the leaf-level waits-for relation has no cycle (the domain: "acyclic WBSs") -/
def acyclicB (e : CPEnv) : Bool := (leaves e).all (fun t => (ef e t).isSome)

end CPEnv
end Pj
