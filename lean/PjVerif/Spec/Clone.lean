/-
  Spec/Clone.lean — C10 as executable predicates over the state before (`s`, universe `n`) and after (`s'`) a
  `clone` / `subtree` call: `sel` = the selected source tasks in copy order, clone of `sel[i]` = uid `n + i`,
  `w'` = uid of the new WBS root.
-/
import PjVerif.Model.Clone
import PjVerif.Spec.Graph
namespace Pj

def sameSet (a b : List Uid) : Bool := a.all b.contains && b.all a.contains

/-- hierarchy, ids and owner of the copy mirror the selection -/
def cloneHierarchyB (s s' : G) (w' : Uid) (sel roots : List Uid) : Bool :=
  let n := s.n
  (List.range sel.length).all (fun i =>
    let t := sel.getD i 0
    let c := n + i
    s'.tid c == s.tid t &&
    s'.children c == (s.children t).filterMap (cloneOf n sel) &&
    s'.owner c == some w' &&
    (match s.pubParent t with
     | some p => (match cloneOf n sel p with
                  | some cp => s'.parent c == some cp
                  | none => s'.parent c == some w')        -- a selected root: child of the new WBS
     | none => s'.parent c == some w')) &&
  s'.children w' == roots.filterMap (cloneOf n sel) && s'.hidden w' && s'.owner w' == some w'

/-- the root selection is unambiguous: no repeated root, no root below another root (for a nested selection the
    inner root cannot be both a child of its parent's copy and a root of the new WBS; the statement's "same hierarchy"
    is only defined for independent roots) -/
def rootsIndependentB (s : G) (roots : List Uid) : Bool :=
  nodupB roots && roots.all (fun r => roots.all (fun q => r == q ||
    match descF s.children s.fuel q with
    | some d => !d.contains r
    | none => false))

/-- links: between two selected tasks they are copied (as sets), to non-selected members of the source they are
    dropped, to tasks outside the source WBS they stay attached to those same tasks -/
def cloneLinksB (s s' : G) (w : Uid) (sel : List Uid) : Bool :=
  let n := s.n
  let tgt := fun (x : Uid) => if s.owner x == some w then cloneOf n sel x else some x
  (List.range sel.length).all (fun i =>
    let t := sel.getD i 0
    let c := n + i
    sameSet (s'.preds c) ((s.preds t).filterMap tgt) && sameSet (s'.succs c) ((s.succs t).filterMap tgt))

/-- the source WBS is left unchanged: every field of every member (and of its root) -/
def sourceFrameB (s s' : G) (w : Uid) : Bool :=
  (List.range s.n).all (fun u =>
    !(s.owner u == some w) ||
    (s'.tid u == s.tid u && s'.parent u == s.parent u && s'.children u == s.children u && s'.preds u == s.preds u &&
     s'.succs u == s.succs u && s'.owner u == s.owner u))

/-- tasks outside the source only gain mirror entries for clones (uids ≥ n) -/
def outsideFrameB (s s' : G) (w : Uid) : Bool :=
  (List.range s.n).all (fun u =>
    s.owner u == some w ||
    (s'.parent u == s.parent u && s'.children u == s.children u && s'.owner u == s.owner u &&
     (s'.preds u).filter (fun x => decide (x < s.n)) == s.preds u && (s'.succs u).filter (fun x => decide (x < s.n)) == s.succs u))

end Pj
