/-
  Spec/Query.lean — the documented meaning of task-list filters (C18), independent of the source's if/elif chain.
-/
import PjVerif.Model.Query
namespace Pj

inductive Kind | eq | in_ | notIn | isNone | isNotNone | ne | lt | le | gt | ge | like | notLike
  deriving DecidableEq, Repr, Inhabited

/-- the documented keyword suffixes -/
def kindSuffix : Kind → String
  | .eq => "" | .in_ => "_in_" | .notIn => "_not_in_" | .isNone => "_is_none_" | .isNotNone => "_is_not_none_"
  | .ne => "_ne_" | .lt => "_lt_" | .le => "_le_" | .gt => "_gt_" | .ge => "_ge_" | .like => "_like_" | .notLike => "_not_like_"

def allKinds : List Kind := [.notLike, .like, .notIn, .isNone, .isNotNone, .in_, .ne, .le, .lt, .ge, .gt]

/-- what a filter of the given kind means: equality, membership, absence, comparison, regular-expression search;
    a task lacking the attribute (value None) never satisfies a comparison or pattern filter.  Errors: ordering
    comparisons between a number and a string, a pattern applied to a number, membership in a non-list (TypeError in
    Python; outside the property's domain). -/
def meaning (re : String → String → Bool) (k : Kind) (val : Val) (v : FVal) : Res Bool :=
  match k with
  | .eq => (RExpr.cmp .eq).eval re val v
  | .in_ => RExpr.inV.eval re val v
  | .notIn => do let b ← RExpr.inV.eval re val v; pure (!b)
  | .isNone => pure (decide (val = .none))
  | .isNotNone => pure (decide (val ≠ .none))
  | .ne => if val = .none then pure false else (RExpr.cmp .ne).eval re val v
  | .lt => if val = .none then pure false else (RExpr.cmp .lt).eval re val v
  | .le => if val = .none then pure false else (RExpr.cmp .le).eval re val v
  | .gt => if val = .none then pure false else (RExpr.cmp .gt).eval re val v
  | .ge => if val = .none then pure false else (RExpr.cmp .ge).eval re val v
  | .like => if val = .none then pure false else RExpr.search.eval re val v
  | .notLike => if val = .none then pure false else do let b ← RExpr.search.eval re val v; pure (!b)

/-- kind and attribute name of a keyword by the documented suffixes: among the suffixes the keyword ends with, the
    longest one (so `x_not_in_` is "not in" of `x`, not "in" of `x_not`); no suffix = equality -/
def specParse (k : List Char) : List Char × Kind :=
  let ms := allKinds.filter (fun kd => endsWith k (kindSuffix kd).toList)
  match ms with
  | [] => (k, .eq)
  | m :: rest =>
    let best := rest.foldl (fun b kd => if (kindSuffix b).length < (kindSuffix kd).length then kd else b) m
    (cutLast k (kindSuffix best).length, best)

def isOkTrue : Res Bool → Bool
  | .ok true => true
  | _ => false

/-- the monitor: one filter against one task by the documented meaning -/
def specHolds (re : String → String → Bool) (attr : List Char → Val) (k : List Char) (v : FVal) : Res Bool :=
  let (name, kd) := specParse k
  meaning re kd (attr name) v

def specHoldsAll (re : String → String → Bool) (attr : List Char → Val) : List (List Char × FVal) → Res Bool
  | [] => pure true
  | (k, v) :: fs => do
    let h ← specHolds re attr k v
    if h then specHoldsAll re attr fs else pure false

end Pj
