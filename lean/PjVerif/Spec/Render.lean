/-
  Spec/Render.lean — readers for the emitted Mermaid sources: plain lexical grammars of the lines the renderers
  write.  "Names cannot add, drop or alter entries" = reading the emitted text gives back exactly the entries.
-/
import PjVerif.Model.Render
namespace Pj.Render

/-- split a text into lines at '\n' (a trailing newline does not start another line) -/
def linesOf (s : Str) : List Str :=
  let r := s.foldr (fun c (acc : List Str) => if c == '\n' then [] :: acc else match acc with
    | [] => [[c]]
    | x :: xs => (c :: x) :: xs) [[]]
  match r.getLast? with
  | some [] => r.dropLast
  | _ => r

def startsWith (p s : Str) : Bool := p.isPrefixOf s

/-- split at the first occurrence of a character -/
def splitFirst (c : Char) : Str → Option (Str × Str)
  | [] => none
  | x :: xs => if x == c then some ([], xs) else (splitFirst c xs).map (fun p => (x :: p.1, p.2))

/-- split at the first occurrence of a substring -/
def splitAt? (pat : Str) : Str → Option (Str × Str)
  | [] => if pat.isEmpty then some ([], []) else none
  | x :: xs => if pat.isPrefixOf (x :: xs) then some ([], (x :: xs).drop pat.length)
               else (splitAt? pat xs).map (fun p => (x :: p.1, p.2))

structure GEntry where
  name : Str
  state : Str
  idText : Str
  start : Str
  end_ : Str
  deriving Repr, DecidableEq, Inhabited

/-- a Gantt task line: four blanks, the name up to the first ':', then "<state> id_<id>, <start>, <end>" -/
def readGanttLine (l : Str) : Option GEntry := do
  if !startsWith (lit "    ") l then none
  let (name, rest) ← splitFirst ':' (l.drop 4)
  let rest ← (if startsWith [' '] rest then some (rest.drop 1) else none)
  let (stateAndId, rest2) ← splitAt? (lit ", ") (match splitAt? (lit " id_") rest with
      | some (st, r) => st ++ lit "\x00" ++ r          -- mark the boundary between state and id
      | none => rest)
  let (st, idt) ← splitFirst '\x00' stateAndId
  let (start, end_) ← splitAt? (lit ", ") rest2
  pure { name := name, state := st, idText := idt, start := start, end_ := end_ }

/-- the Gantt entries a Mermaid reader sees, with the section each belongs to -/
def readGantt (src : Str) : List (Option Str × GEntry) :=
  ((linesOf src).foldl (fun (acc : Option Str × List (Option Str × GEntry)) l =>
    if startsWith (lit "  section ") l then (some (l.drop 10), acc.2)
    else match readGanttLine l with
      | some e => (acc.1, acc.2 ++ [(acc.1, e)])
      | none => acc) (none, [])).2

def expectedGantt (t : GTask) : GEntry :=
  { name := t.name.filter (fun c => c != ':'), state := stateOf t, idText := t.idText, start := t.start, end_ := t.end_ }

/-- a network node: `0((Start))` or `<id>{{<label>}}` -/
inductive NNode
  | start
  | task (idText label : Str)
  deriving Repr, DecidableEq, Inhabited

def readNode (s : Str) : Option NNode :=
  if s == lit "0((Start))" then some .start
  else do
    let (idt, rest) ← splitAt? (lit "{{") s
    let (label, tail) ← splitAt? (lit "}}") rest
    if tail.isEmpty then some (.task idt label) else none

/-- a network edge line: two blanks, node, " --> ", node; the first node ends at the first "}} --> " (or is Start) -/
def readEdge (l : Str) : Option (NNode × NNode) := do
  if !startsWith (lit "  ") l then none
  let body := l.drop 2
  if startsWith (lit "0((Start)) --> ") body then
    let b ← readNode (body.drop 15)
    pure (.start, b)
  else
    let (a, b) ← splitAt? (lit "}} --> ") body
    let na ← readNode (a ++ lit "}}")
    let nb ← readNode b
    pure (na, nb)

def readNetwork (src : Str) : List (NNode × NNode) := (linesOf src).filterMap readEdge

/-- the labels are the escaped ones (`escLabel`): what a lexical reader of the source sees; turning `#123;`/`#125;`
    back into braces is Mermaid's business and is not claimed here -/
def expectedEdges (all : Nat → NTask) (tasks : List Nat) : List (NNode × NNode) :=
  tasks.flatMap (fun i =>
    let t := all i
    let me := NNode.task t.idText (escLabel (t.name.filter (fun c => c != '"')))
    if t.preds.isEmpty then [(.start, me)]
    else t.preds.map (fun p => (NNode.task (all p).idText (escLabel ((all p).name.filter (fun c => c != '"'))), me)))

end Pj.Render
