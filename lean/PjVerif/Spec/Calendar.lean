/-
  Spec/Calendar.lean — what C17 says, independent of how calendar.py computes it.
  `den` is the readable meaning of a definition; the monitors compare the implementation's
  observations against it.
-/
import PjVerif.Model.Calendar
namespace Pj

def posOpt : Option Rat → Bool
  | some u => decide (0 < u)
  | none => false

def before? (t : Time) : Option Time → Bool
  | some s => decide (t < s)
  | none => false
def after? (t : Time) : Option Time → Bool
  | some e => decide (e < t)
  | none => false

/-- "that operator applied to the operands' values; operands without information are skipped;
    a negative difference means no capacity; `|` takes the first positive operand".
    `none` at the outer level = undefined (division by a calendar whose value is 0). -/
def denOp : OpKind → Option Rat → Option Rat → Option (Option Rat)
  | .add, none, y => some y
  | .add, some x, none => some (some x)
  | .add, some x, some y => some (some (x + y))
  | .sub, none, none => some none
  | .sub, none, some y => some (if y < 0 then none else some y)
  | .sub, some x, none => some (if x < 0 then none else some x)
  | .sub, some x, some y => some (if x - y < 0 then none else some (x - y))
  | .mul, none, y => some y
  | .mul, some x, none => some (some x)
  | .mul, some x, some y => some (some (x * y))
  | .div, none, y => some y
  | .div, some x, none => some (some x)
  | .div, some x, some y => if y = 0 then none else some (some (x / y))
  | .or, x, y =>
    match x with
    | some u => if 0 < u then some (some u) else
        (match y with | some v => if 0 < v then some (some v) else some none | none => some none)
    | none => (match y with | some v => if 0 < v then some (some v) else some none | none => some none)

/-- meaning of a *valid* definition at a date -/
def CExpr.den : CExpr → Time → Option (Option Rat)
  | .weeklyList s e days u, t =>
    if before? t s || after? t e then some none
    else some (some (if days.contains (Int.ofNat (weekday t)) then u else 0))
  | .weeklyDict s e d, t =>
    if before? t s || after? t e then some none
    else some (some (dictGet d (Int.ofNat (weekday t))))
  | .direct items, t =>
    some ((items.reverse.find? (fun p => dayOf p.1 == dayOf t)).map (·.2))
  | .fixed u s e, t => if before? t s || after? t e then some (some 0) else some (some u)
  | .num u, _ => some (some u)          -- "a number acts as a constant calendar"
  | .op k a b, t =>
    match a.den t with
    | none => none
    | some x =>
      -- `|` does not look at its second operand when the first is positive
      if k == .or && posOpt x then some x
      else match b.den t with
        | none => none
        | some y => denOp k x y

/-- definitions that C17 says must be rejected -/
def CExpr.invalid : CExpr → Bool
  | .weeklyList s e days u => days.any (fun v => v < 0 || v > 6) || decide (u < 0) || startAfterEnd s e
  | .weeklyDict s e d => d.any (fun p => p.1 < 0 || p.1 > 6 || p.2 < 0) || startAfterEnd s e
  | .direct items => items.any (fun p => p.2 < 0)
  | .fixed u s e => decide (u < 0) || startAfterEnd s e
  | .num u => decide (u < 0)
  | .op k a b => a.invalid || b.invalid || (k == .div && (match b with | .num u => decide (u = 0) | _ => false))

/-- bare numbers occur only as right operands (anything else is not a calendar definition) -/
def CExpr.wellShaped : CExpr → Bool
  | .num _ => false
  | .op _ a b => a.wellShaped && (match b with | .num _ => true | _ => b.wellShaped)
  | _ => true

/-- a Python dict cannot repeat a key: the `units_per_day` mapping has distinct weekdays -/
def CExpr.dictKeysNodup : CExpr → Bool
  | .weeklyDict _ _ d => decide (d.map (·.1)).Nodup
  | .op _ a b => a.dictKeysNodup && b.dictKeysNodup
  | _ => true

/-- capacity positive on the day the search direction looks at -/
def hit (cap : Time → Rat) (dir : Int) (t : Time) : Prop :=
  if dir < 0 then 0 < cap (t - 1) else 0 < cap t

/-- the search result `r` for start `t`, direction `dir`, horizon `H` is what C17 demands -/
def SearchSpec (cap : Time → Rat) (dir : Int) (H : Nat) (t : Time) (r : Res Time) : Prop :=
  match r with
  | .ok d => ∃ k, k < H ∧ d = t + (k : Rat) * (dir : Rat) ∧ hit cap dir d ∧
              ∀ j, j < k → ¬ hit cap dir (t + (j : Rat) * (dir : Rat))
  | .error .runtime => ∀ k, k < H → ¬ hit cap dir (t + (k : Rat) * (dir : Rat))
  | .error (.crash _) => False

/-- executable version used by the monitor (cap given as a total function) -/
def searchSpecB (cap : Time → Rat) (dir : Int) (H : Nat) (t : Time) (r : Res Time) : Bool :=
  let hitB := fun (x : Time) => if dir < 0 then decide (0 < cap (x - 1)) else decide (0 < cap x)
  match r with
  | .ok d => (List.range H).any (fun k => d == t + (k : Rat) * (dir : Rat) && hitB d &&
              (List.range k).all (fun j => !hitB (t + (j : Rat) * (dir : Rat))))
  | .error .runtime => (List.range H).all (fun k => !hitB (t + (k : Rat) * (dir : Rat)))
  | .error (.crash _) => false

end Pj
