/-
  Lemmas/GraphParent.lean — the parent setter and the children setter preserve well-formedness (C01).
  The validations of the repaired setters are exactly what the proof needs; no other invariant is required.
-/
import PjVerif.Lemmas.Rel
namespace Pj

theorem WF_congr {s s' : G} (hp : s'.parent = s.parent) (hc : s'.children = s.children)
    (hpr : s'.preds = s.preds) (hsu : s'.succs = s.succs) (ht : s'.tid = s.tid) (h : WF s) : WF s' := by
  cases s; cases s'; simp only at hp hc hpr hsu ht; subst hp hc hpr hsu ht
  exact ⟨h.listed, h.once, h.forest, h.rootsTop, h.sym, h.dag, h.noAncDep⟩

/-- symmetric "there is a dependency link between x and y" -/
def lnk (s : G) (x y : Uid) : Prop := x ∈ s.preds y ∨ y ∈ s.preds x

/-- removing hierarchy edges (and nothing else) keeps a state well-formed -/
theorem WF_remove (s s' : G) (h : WF s)
    (hsub : ∀ a b, s'.parent a = some b → s.parent a = some b)
    (hlisted : ∀ a b, s'.parent a = some b ↔ a ∈ s'.children b)
    (hnodup : ∀ b, (s'.children b).Nodup)
    (hroot : ∀ r, s.hidden r = true → s'.parent r = none)
    (hpr : s'.preds = s.preds) (hsu : s'.succs = s.succs) (ht : s'.tid = s.tid) : WF s' := by
  have hm : ∀ a b, par s' a b → par s a b := hsub
  have hdep : dep s' = dep s := by funext a b; simp [dep, hpr]
  refine ⟨hlisted, hnodup, ?_, ?_, ?_, ?_, ?_⟩
  · intro x hx; exact h.forest x (TC.mono hm hx)
  · intro r hr
    have hr' : s.hidden r = true := by simpa [G.hidden, ht] using hr
    rw [hpr, hsu]
    exact ⟨hroot r hr', (h.rootsTop r hr').2⟩
  · intro a b; rw [hpr, hsu]; exact h.sym a b
  · intro x; rw [hdep]; exact h.dag x
  · intro a b hab
    rw [hdep] at hab
    have := h.noAncDep a b hab
    exact ⟨fun hx => this.1 (TC.mono hm hx), fun hx => this.2 (TC.mono hm hx)⟩

/-- the mutation of an accepted `t.parent = p`, described by its effect on the fields -/
theorem WF_reparent (s s' : G) (t p : Uid) (h : WF s) (ht : s.hidden t = false)
    (hne : p ≠ t) (hnd : ¬ TC (par s) p t)
    (hlink : ∀ x y, RTC (par s) x t → RTC (par s) p y → ¬ lnk s x y)
    (hpar : s'.parent = upd s.parent t (some p))
    (hmem : ∀ a b, a ∈ s'.children b ↔ (a ≠ t ∧ a ∈ s.children b) ∨ (a = t ∧ b = p))
    (hnodup : ∀ b, (s'.children b).Nodup)
    (hpr : s'.preds = s.preds) (hsu : s'.succs = s.succs) (htid : s'.tid = s.tid) : WF s' := by
  let R : Uid → Uid → Prop := fun a b => a ≠ t ∧ par s a b
  have hR : ∀ a b, R a b → par s a b := fun _ _ h => h.2
  have hnew : ∀ a b, par s' a b → (R a b ∨ ((fun u => u = t) a ∧ b = p)) := by
    intro a b hab
    simp only [par, hpar, upd] at hab
    by_cases hat : a = t
    · simp [hat] at hab; exact Or.inr ⟨hat, hab.symm⟩
    · simp [hat] at hab; exact Or.inl ⟨hat, hab⟩
  have hdep : dep s' = dep s := by funext a b; simp [dep, hpr]
  refine ⟨?_, hnodup, ?_, ?_, ?_, ?_, ?_⟩
  · intro a b
    rw [hmem, hpar]
    by_cases hat : a = t
    · subst hat; simp [eq_comm]
    · simp [hat, h.listed a b]
  · have hacR : ∀ x, ¬ TC R x x := fun x hx => h.forest x (TC.mono hR hx)
    have hnoR : ∀ v, (fun u => u = t) v → ¬ RTC R p v := by
      intro v hv hr; subst hv
      rcases (RTC.mono hR hr).cases_eq_or_TC with e | e
      · exact hne e
      · exact hnd e
    have key := acyclic_add_in_edges R p (fun u => u = t) hacR hnoR
    intro x hx
    exact key x (TC.mono hnew hx)
  · intro r hr
    have hr' : s.hidden r = true := by simpa [G.hidden, htid] using hr
    have hrt : r ≠ t := by intro e; subst e; simp [hr'] at ht
    rw [hpr, hsu, hpar]
    simp only [upd_other _ _ _ _ hrt]
    exact h.rootsTop r hr'
  · intro a b; rw [hpr, hsu]; exact h.sym a b
  · intro x; rw [hdep]; exact h.dag x
  · have key : ∀ x y, lnk s x y → ¬ TC (par s') x y := by
      intro x y hl hx
      rcases TC_add_in_edges_cases R p (fun u => u = t) (TC.mono hnew hx) with h1 | ⟨v, hv, h1, h2⟩
      · have h1' := TC.mono hR h1
        rcases hl with hl | hl
        · exact (h.noAncDep x y hl).1 h1'
        · exact (h.noAncDep y x hl).2 h1'
      · subst hv
        exact hlink x y (RTC.mono hR h1) (RTC.mono hR h2) hl
    intro a b hab
    rw [hdep] at hab
    exact ⟨key a b (Or.inl hab), key b a (Or.inr hab)⟩


/-! ### `detachOld` -/

theorem detachOld_fields (s : G) (t : Uid) :
    (detachOld s t).parent = s.parent ∧ (detachOld s t).preds = s.preds ∧ (detachOld s t).succs = s.succs ∧
    (detachOld s t).tid = s.tid ∧ (detachOld s t).owner = s.owner := by
  unfold detachOld
  split
  · split <;> simp
  · simp

theorem mem_detachOld (s : G) (t : Uid) (h : WF s) (a b : Uid) :
    a ∈ (detachOld s t).children b ↔ a ≠ t ∧ a ∈ s.children b := by
  have huniq : ∀ q, s.parent t = some q → a ∈ s.children b → b ≠ q → a ≠ t := by
    intro q hq hab hbq e
    subst e
    have := (h.listed a b).mpr hab
    rw [hq] at this
    exact hbq (Option.some.inj this).symm
  unfold detachOld
  split
  · rename_i q hq
    split
    · by_cases hbq : b = q
      · subst hbq; simp [(h.once b).mem_erase_iff]
      · simp only [upd_other _ _ _ _ hbq]
        exact ⟨fun hab => ⟨huniq q hq hab hbq, hab⟩, fun hab => hab.2⟩
    · rename_i hc
      refine ⟨fun hab => ⟨?_, hab⟩, fun hab => hab.2⟩
      intro e; subst e
      have := (h.listed a b).mpr hab
      rw [hq] at this
      have e := Option.some.inj this; subst e
      simp [hab] at hc
  · rename_i hq
    refine ⟨fun hab => ⟨?_, hab⟩, fun hab => hab.2⟩
    intro e; subst e
    have := (h.listed a b).mpr hab
    rw [hq] at this; cases this

theorem nodup_detachOld (s : G) (t : Uid) (h : WF s) (b : Uid) : ((detachOld s t).children b).Nodup := by
  unfold detachOld
  split
  · rename_i q hq
    split
    · by_cases hbq : b = q
      · subst hbq; simpa using (h.once b).erase t
      · simpa only [upd_other _ _ _ _ hbq] using h.once b
    · exact h.once b
  · exact h.once b


/-! ### the mutation phase -/

/-- `self.__parent = parent` -/
def parStep (s1 : G) (t p : Uid) : G := { s1 with parent := upd s1.parent t (some p) }

theorem parStep_fields (s1 : G) (t p : Uid) :
    (parStep s1 t p).parent = upd s1.parent t (some p) ∧ (parStep s1 t p).children = s1.children ∧
    (parStep s1 t p).preds = s1.preds ∧ (parStep s1 t p).succs = s1.succs ∧ (parStep s1 t p).tid = s1.tid :=
  ⟨rfl, rfl, rfl, rfl, rfl⟩

/-- `_attach(parent.__wbs)` -/
def ownStep (s2 : G) (sub : List Uid) (p : Uid) : G :=
  match s2.owner p with
  | none => s2
  | some w => setOwners s2 sub (some w)

/-- `if self not in parent.__children: append` -/
def appStep (s3 : G) (t p : Uid) : G :=
  if (s3.children p).contains t then s3 else { s3 with children := upd s3.children p (s3.children p ++ [t]) }

theorem mutParentSome_eq (s : G) (t p : Uid) : mutParentSome s t p =
    match subtreeF s.children s.fuel t with
    | none => (s, some (.crash .recursion))
    | some sub =>
      (appStep (ownStep (parStep (detachOld s t) t p) sub p) t p, none) := rfl

theorem ownStep_fields (s2 : G) (sub : List Uid) (p : Uid) :
    (ownStep s2 sub p).parent = s2.parent ∧ (ownStep s2 sub p).children = s2.children ∧
    (ownStep s2 sub p).preds = s2.preds ∧ (ownStep s2 sub p).succs = s2.succs ∧ (ownStep s2 sub p).tid = s2.tid := by
  unfold ownStep
  split <;> simp [setOwners]

theorem appStep_fields (s3 : G) (t p : Uid) :
    (appStep s3 t p).parent = s3.parent ∧ (appStep s3 t p).preds = s3.preds ∧
    (appStep s3 t p).succs = s3.succs ∧ (appStep s3 t p).tid = s3.tid := by
  unfold appStep
  split <;> simp

theorem mem_appStep (s3 : G) (t p a b : Uid) :
    a ∈ (appStep s3 t p).children b ↔ a ∈ s3.children b ∨ (a = t ∧ b = p) := by
  unfold appStep
  split
  · rename_i hc
    have hc' : t ∈ s3.children p := by simpa using hc
    constructor
    · exact Or.inl
    · rintro (hab | ⟨rfl, rfl⟩)
      · exact hab
      · exact hc'
  · by_cases hbp : b = p
    · subst hbp; simp
    · simp [hbp]

theorem nodup_appStep (s3 : G) (t p : Uid) (hn : ∀ b, (s3.children b).Nodup) (b : Uid) :
    ((appStep s3 t p).children b).Nodup := by
  unfold appStep
  split
  · exact hn b
  · rename_i hc
    have hc' : t ∉ s3.children p := by simpa using hc
    by_cases hbp : b = p
    · subst hbp
      simp only [upd_same]
      rw [List.nodup_append]
      refine ⟨hn b, by simp, ?_⟩
      intro a ha c hc2
      simp at hc2; subst hc2
      exact fun e => hc' (e ▸ ha)
    · simp only [upd_other _ _ _ _ hbp]; exact hn b

theorem mutParentSome_spec (s : G) (t p : Uid) (h : WF s) :
    (mutParentSome s t p).1 = s ∨
    ((mutParentSome s t p).1.parent = upd s.parent t (some p) ∧
     (∀ a b, a ∈ (mutParentSome s t p).1.children b ↔ (a ≠ t ∧ a ∈ s.children b) ∨ (a = t ∧ b = p)) ∧
     (∀ b, ((mutParentSome s t p).1.children b).Nodup) ∧
     (mutParentSome s t p).1.preds = s.preds ∧ (mutParentSome s t p).1.succs = s.succs ∧
     (mutParentSome s t p).1.tid = s.tid) := by
  rw [mutParentSome_eq]
  split
  · exact Or.inl rfl
  · rename_i sub _
    right
    obtain ⟨d1, d2, d3, d4, _⟩ := detachOld_fields s t
    obtain ⟨o1, o2, o3, o4, o5⟩ :=
      ownStep_fields (parStep (detachOld s t) t p) sub p
    obtain ⟨a1, a2, a3, a4⟩ :=
      appStep_fields (ownStep (parStep (detachOld s t) t p) sub p) t p
    obtain ⟨p1, p2, p3, p4, p5⟩ := parStep_fields (detachOld s t) t p
    refine ⟨?_, ?_, ?_, ?_, ?_, ?_⟩
    · simp only [a1, o1, p1, d1]
    · intro a b
      simp only [mem_appStep, o2, p2, mem_detachOld s t h]
    · apply nodup_appStep
      intro b
      simp only [o2, p2]
      exact nodup_detachOld s t h b
    · simp only [a2, o3, p3, d2]
    · simp only [a3, o4, p4, d3]
    · simp only [a4, o5, p5, d4]

theorem mutParentSome_tid (s : G) (t p : Uid) : (mutParentSome s t p).1.tid = s.tid := by
  rw [mutParentSome_eq]
  split
  · rfl
  · simp only [(appStep_fields _ _ _).2.2.2, (ownStep_fields _ _ _).2.2.2.2, (parStep_fields _ _ _).2.2.2.2, (detachOld_fields s t).2.2.2.1]


/-! ### what an accepted check guarantees -/

theorem chkParentSome_none (s : G) (t p : Uid) (hc : chkParentSome s t p = none) :
    ∃ desc anc, descF s.children s.fuel t = some desc ∧ p ≠ t ∧ desc.contains p = false ∧
      ancF s s.fuel (s.parent p) = some anc ∧ linkedWithAny s (t :: desc) (p :: anc) = false := by
  unfold chkParentSome at hc
  simp only at hc
  split at hc
  · cases hc
  · split at hc
    · cases hc
    · rename_i desc hdesc
      split at hc
      · cases hc
      · rename_i hcond
        split at hc
        · cases hc
        · rename_i anc hanc
          split at hc
          · cases hc
          · rename_i hl
            refine ⟨desc, anc, hdesc, ?_, ?_, hanc, ?_⟩
            · intro e; exact hcond (Or.inl e)
            · cases hd : desc.contains p
              · rfl
              · exact absurd (Or.inr hd) hcond
            · simpa using hl


theorem linkedWithAny_false (s : G) (ts os : List Uid) (hl : linkedWithAny s ts os = false)
    (x y : Uid) (hx : x ∈ ts) (hy : y ∈ os) : y ∉ s.preds x ∧ y ∉ s.succs x := by
  simp only [linkedWithAny, List.any_eq_false, List.any_eq_true, not_exists, not_and, List.mem_append,
    List.contains_iff_mem] at hl
  have := hl x hx
  exact ⟨fun h => this y (Or.inl h) hy, fun h => this y (Or.inr h) hy⟩

/-- the validations exclude every link between the subtree of `t` and the chain above-or-equal `p` -/
theorem accepted_no_link (s : G) (t p : Uid) (h : WF s) (desc anc : List Uid)
    (hdesc : descF s.children s.fuel t = some desc) (hanc : ancF s s.fuel (s.parent p) = some anc)
    (hl : linkedWithAny s (t :: desc) (p :: anc) = false)
    (x y : Uid) (hx : RTC (par s) x t) (hy : RTC (par s) p y) : ¬ lnk s x y := by
  intro hxy
  have hy' : y ∈ s.preds x ∨ y ∈ s.succs x := by
    rcases hxy with e | e
    · exact Or.inr ((h.sym x y).mp e)
    · exact Or.inl e
  cases hh : s.hidden y
  · have hxm : x ∈ t :: desc := by
      rcases hx.cases_eq_or_TC with e | e
      · simp [e]
      · exact List.mem_cons_of_mem _
          (descF_complete s.children s.fuel t desc hdesc x ((TC_child_iff s h.listed t x).mpr e))
    have hym : y ∈ p :: anc := by
      rcases hy.cases_eq_or_TC with e | e
      · simp [e]
      · exact List.mem_cons_of_mem _
          (ancF_complete s (fun r hr => (h.rootsTop r hr).1) s.fuel p anc hanc y e hh)
    have := linkedWithAny_false s _ _ hl x y hxm hym
    rcases hy' with e | e
    · exact this.1 e
    · exact this.2 e
  · obtain ⟨_, h1, h2⟩ := h.rootsTop y hh
    rcases hxy with e | e
    · rw [h1] at e; cases e
    · have := (h.sym y x).mp e
      rw [h2] at this; cases this


/-! ### the theorems -/

/-- every operation of this file leaves the task ids alone -/
theorem setParentSome_tid (s : G) (t p : Uid) : (setParentSome s t p).1.tid = s.tid := by
  unfold setParentSome
  split
  · rfl
  · exact mutParentSome_tid s t p

theorem setParentNone_tid (s : G) (t : Uid) : (setParentNone s t).1.tid = s.tid := by
  unfold setParentNone
  split
  · exact setParentSome_tid s t _
  · exact (detachOld_fields s t).2.2.2.1

theorem setParent_tid (s : G) (t : Uid) (p : Option Uid) : (setParent s t p).1.tid = s.tid := by
  cases p
  · exact setParentNone_tid s t
  · exact setParentSome_tid s t _

theorem releaseChildren_tid (s : G) (h : Uid) (l : List Uid) : (releaseChildren s h l).1.tid = s.tid := by
  unfold releaseChildren
  simp only
  split <;> rfl

theorem foldSetParent_tid (l : List Uid) (s : G) (h : Uid) : (foldSetParent s l h).1.tid = s.tid := by
  induction l generalizing s with
  | nil => rfl
  | cons v vs ih =>
    unfold foldSetParent
    have := setParent_tid s v (some h)
    split
    · rename_i s' e he; rw [he] at this; exact this
    · rename_i s' he; rw [he] at this; rw [ih s']; exact this

theorem setChildren_tid (s : G) (h : Uid) (l : List Uid) : (setChildren s h l).1.tid = s.tid := by
  unfold setChildren
  split
  · rfl
  · have := releaseChildren_tid s h l
    split
    · rename_i s1 e he; rw [he] at this; exact this
    · rename_i s1 he; rw [he] at this; rw [foldSetParent_tid]; exact this

/-- L1: `t.parent = p` (p not None) keeps the graph well-formed, whether it is accepted or rejected.
    `t` is an ordinary task; `p` may be a hidden WBS root (that is how `roots.append` re-parents). -/
theorem setParentSome_WF (s : G) (t p : Uid) (h : WF s) (ht : s.hidden t = false) :
    WF (setParentSome s t p).1 := by
  unfold setParentSome
  split
  · exact h
  · rename_i hc
    obtain ⟨desc, anc, hdesc, hne, hnc, hanc, hl⟩ := chkParentSome_none s t p hc
    rcases mutParentSome_spec s t p h with e | ⟨m1, m2, m3, m4, m5, m6⟩
    · rw [e]; exact h
    · refine WF_reparent s _ t p h ht hne ?_ (accepted_no_link s t p h desc anc hdesc hanc hl) m1 m2 m3 m4 m5 m6
      intro hx
      have := descF_complete s.children s.fuel t desc hdesc p ((TC_child_iff s h.listed t p).mpr hx)
      simp [this] at hnc

/-- L2: `t.parent = None`.  For a member of a WBS the owner is its hidden root (`OwnerOK.isRoot` is not needed:
    whatever `w` is, L1 applies). -/
theorem setParentNone_WF (s : G) (t : Uid) (h : WF s) (ht : s.hidden t = false) :
    WF (setParentNone s t).1 := by
  unfold setParentNone
  split
  · exact setParentSome_WF s t _ h ht
  · obtain ⟨d1, d2, d3, d4, _⟩ := detachOld_fields s t
    have hsub : ∀ a b, upd (detachOld s t).parent t none a = some b → a ≠ t ∧ s.parent a = some b := by
      intro a b hab
      by_cases hat : a = t
      · subst hat; simp at hab
      · rw [upd_other _ _ _ _ hat, d1] at hab; exact ⟨hat, hab⟩
    refine WF_remove s _ h (fun a b hab => (hsub a b hab).2) ?_ ?_ ?_ d2 d3 d4
    · intro a b
      show upd (detachOld s t).parent t none a = some b ↔ a ∈ (detachOld s t).children b
      rw [mem_detachOld s t h, ← h.listed a b]
      refine ⟨hsub a b, fun hab => ?_⟩
      rw [upd_other _ _ _ _ hab.1, d1]; exact hab.2
    · exact nodup_detachOld s t h
    · intro r hr
      show upd (detachOld s t).parent t none r = none
      by_cases hrt : r = t
      · subst hrt; simp
      · rw [upd_other _ _ _ _ hrt, d1]; exact (h.rootsTop r hr).1

theorem setParent_WF (s : G) (t : Uid) (p : Option Uid) (h : WF s) (ht : s.hidden t = false) :
    WF (setParent s t p).1 := by
  cases p
  · exact setParentNone_WF s t h ht
  · exact setParentSome_WF s t _ h ht

/-- L3: releasing the old children (parent := None, children list cleared, owners of the dropped subtrees reset) -/
theorem releaseChildren_WF (s : G) (h : Uid) (l : List Uid) (hw : WF s) :
    WF (releaseChildren s h l).1 := by
  unfold releaseChildren
  simp only
  split
  · exact hw
  · have hsub : ∀ a b, (if (s.children h).contains a then none else s.parent a) = some b →
        a ∉ s.children h ∧ s.parent a = some b := by
      intro a b hab
      split at hab
      · cases hab
      · rename_i hc; exact ⟨by simpa using hc, hab⟩
    refine WF_remove s _ hw (fun a b hab => (hsub a b hab).2) ?_ ?_ ?_ rfl rfl rfl
    · intro a b
      show (if (s.children h).contains a then none else s.parent a) = some b ↔ a ∈ upd s.children h [] b
      by_cases hbh : b = h
      · subst hbh
        simp only [upd_same, List.not_mem_nil, iff_false]
        intro hab
        obtain ⟨h1, h2⟩ := hsub a b hab
        exact h1 ((hw.listed a b).mp h2)
      · rw [upd_other _ _ _ _ hbh, ← hw.listed a b]
        refine ⟨fun hab => (hsub a b hab).2, fun hab => ?_⟩
        have : a ∉ s.children h := by
          intro hc
          have := (hw.listed a h).mpr hc
          rw [hab] at this
          exact hbh (Option.some.inj this)
        simp [this, hab]
    · intro b
      show (upd s.children h [] b).Nodup
      by_cases hbh : b = h
      · subst hbh; simp
      · rw [upd_other _ _ _ _ hbh]; exact hw.once b
    · intro r hr
      show (if (s.children h).contains r then none else s.parent r) = none
      split
      · rfl
      · exact (hw.rootsTop r hr).1

/-- L4: the re-parenting loop, by induction from L1 (errors stop the loop, the state reached is still well-formed) -/
theorem foldSetParent_WF (l : List Uid) (s : G) (h : Uid) (hw : WF s) (hv : ∀ v ∈ l, s.hidden v = false) :
    WF (foldSetParent s l h).1 := by
  induction l generalizing s with
  | nil => exact hw
  | cons v vs ih =>
    unfold foldSetParent
    have h1 := setParent_WF s v (some h) hw (hv v (by simp))
    have h2 := setParent_tid s v (some h)
    split
    · rename_i s' e he; rw [he] at h1; exact h1
    · rename_i s' he
      rw [he] at h1 h2
      apply ih s' h1
      intro u hu
      have := hv u (by simp [hu])
      have h2' : s'.tid = s.tid := h2
      simpa [G.hidden, h2'] using this

/-- L5: the children setter (also `WBS.roots = l`) -/
theorem setChildren_WF (s : G) (h : Uid) (l : List Uid) (hw : WF s) (hv : ∀ v ∈ l, s.hidden v = false) :
    WF (setChildren s h l).1 := by
  unfold setChildren
  split
  · exact hw
  · have h1 := releaseChildren_WF s h l hw
    have h2 := releaseChildren_tid s h l
    split
    · rename_i s1 e he; rw [he] at h1; exact h1
    · rename_i s1 he
      rw [he] at h1 h2
      apply foldSetParent_WF l s1 h h1
      intro u hu
      have := hv u hu
      have h2' : s1.tid = s.tid := h2
      simpa [G.hidden, h2'] using this

end Pj
