/-
  Lemmas/CsvSrcS1.lean — CSV I/O, READ side, `raws_to_wbs` (io/raw.py): the FIRST loop (one `Task` per raw object, the
  attributes of the raw object the task does not have yet copied over, the dict `tasks_by_id`).
-/
import PjVerif.Lemmas.CsvSrcB
namespace Pj.CsvSrc
open Pj.PyLite Pj.Extracted.Csv Pj.Csv

/-! ### library pieces -/

theorem prim_dir (L : IOLib) (st : PState) (i : Nat) :
    ioPrim L "dir" [.ref i] st = .ok (.list ((((st.heap i).map (·.1)) ++ taskClassNames).map nameA)) := by
  unfold ioPrim
  iterate 19 rw [if_neg (by decide +kernel)]
  rw [if_pos (by decide +kernel)]
  rfl

theorem any_nameA (k : String) : ∀ l : List String, (l.map nameA).any (fun v => v.pyEq (nameA k)) = l.contains k
  | [] => rfl
  | x :: l => by
    rw [List.map_cons, List.any_cons, any_nameA k l, List.contains_cons]
    congr 1
    simp only [nameA, pyEq_strA]
    by_cases h : x = k
    · subst h; simp
    · have h1 : ¬ x.toList = k.toList := fun e => h (String.toList_inj.1 e)
      have h2 : ¬ k = x := fun e => h e.symm
      simp [h1, h2]

theorem ioFn_task (L : IOLib) (st : PState) (a0 a1 a2 a3 a4 a5 a6 a7 a8 : Atom)
    (h5 : negNum (.atom a5) = false) (h6 : negNum (.atom a6) = false) :
    ioFn L 101 [.atom a0, .atom a1, .atom a2, .atom a3, .atom a4, .atom a5, .atom a6, .atom a7, .atom a8] st =
      .ok (.atom (.ref st.reads), allocSt st
        [("__task__", .atom (.bool true)), ("id", .atom a0), ("name", .atom a1), ("resource", .atom a2),
          ("start", .atom a3), ("end", .atom a4), ("milestone", .atom a7), ("estimate", .atom a5), ("spent", .atom a6),
          ("parent", .atom .none), ("children", .list []), ("predecessors", .list []), ("successors", .list []),
          ("min_start", .atom a8)]) := by
  unfold ioFn
  rw [if_neg (by decide), if_pos rfl]
  simp only [h5, h6, Bool.or_self, Bool.false_eq_true, if_false]
  rfl

section more
variable {H : PHandlers} {self : PyLite.Env}
theorem eval_noneE {env : PyLite.Env} {st : PState} : Expr.none.evalP H self env st = .ok (.atom .none, st) := by
  simp only [Expr.evalP, pure, Except.pure]
end more

/-! ### the task `raws_to_wbs` makes of a raw object -/

def rawAtomFields : List String := ["id", "name", "resource", "start", "end", "estimate", "spent", "milestone"]

def msOf (e : PyLite.Env) : Atom := if hasKey e "min_start" then slot e "min_start" else .none

/-- `Task(raw.id, …, raw.min_start if 'min_start' in raw.__dict__ else None)` -/
def taskEnvOf (e : PyLite.Env) : PyLite.Env :=
  [("__task__", .atom (.bool true)), ("id", .atom (slot e "id")), ("name", .atom (slot e "name")),
   ("resource", .atom (slot e "resource")), ("start", .atom (slot e "start")), ("end", .atom (slot e "end")),
   ("milestone", .atom (slot e "milestone")), ("estimate", .atom (slot e "estimate")), ("spent", .atom (slot e "spent")),
   ("parent", .atom .none), ("children", .list []), ("predecessors", .list []), ("successors", .list []),
   ("min_start", .atom (msOf e))]

/-- `if k not in dir(t): setattr(t, k, getattr(raw, k))` -/
def attrStep (e : PyLite.Env) (T : PyLite.Env) (k : String) : PyLite.Env :=
  if ((T.map (·.1)) ++ taskClassNames).contains k then T else
    match e.get? k with
    | some v => T.set k v
    | none => T

/-- the task object of the raw object `e` -/
def mkTask (e : PyLite.Env) : PyLite.Env := (e.map (·.1)).foldl (attrStep e) (taskEnvOf e)

/-- what the first loop needs of a raw object: the eight standard cells (and `min_start`, when there) are scalars,
    `estimate` / `spent` are not negative (the setters of `Task` raise RuntimeError otherwise) -/
structure RawOK (e : PyLite.Env) : Prop where
  noTask : isTask e = false
  atoms : ∀ f ∈ rawAtomFields, ∃ a, e.get? f = some (.atom a)
  ms : hasKey e "min_start" = true → ∃ a, e.get? "min_start" = some (.atom a)
  est : negNum (.atom (slot e "estimate")) = false
  spent : negNum (.atom (slot e "spent")) = false

theorem RawOK.get {e : PyLite.Env} (h : RawOK e) (f : String) (hf : f ∈ rawAtomFields) :
    e.get? f = some (.atom (slot e f)) := by
  obtain ⟨a, ha⟩ := h.atoms f hf
  simp only [slot, ha]

theorem get_of_mem_keys : ∀ (e : PyLite.Env) (k : String), k ∈ e.map (·.1) → (e.get? k).isSome
  | [], _, h => by cases h
  | p :: e, k, h => by
    rw [envGet_cons]
    by_cases hp : p.1 = k
    · simp [hp]
    · rw [if_neg hp]
      rcases List.mem_cons.1 h with h | h
      · exact absurd h.symm hp
      · exact get_of_mem_keys e k h

theorem mem_keys_of_get : ∀ (e : PyLite.Env) (k : String) (v : Val), e.get? k = some v → k ∈ e.map (·.1)
  | [], _, _, h => by simp [PyLite.Env.get?] at h
  | p :: e, k, v, h => by
    rw [envGet_cons] at h
    by_cases hp : p.1 = k
    · simp [hp]
    · rw [if_neg hp] at h
      exact List.mem_cons_of_mem _ (mem_keys_of_get e k v h)

/-- the copy never overwrites a slot the task already has -/
theorem attrStep_get (e T : PyLite.Env) (k f : String) (v : Val) (h : T.get? f = some v) :
    (attrStep e T k).get? f = some v := by
  unfold attrStep
  by_cases hc : ((T.map (·.1)) ++ taskClassNames).contains k = true
  · rw [if_pos hc]; exact h
  · rw [if_neg hc]
    cases e.get? k with
    | none => exact h
    | some w =>
      have hne : k ≠ f := by
        intro hk; subst hk
        exact hc (by simp [mem_keys_of_get T k v h])
      show (T.set k w).get? f = some v
      rw [envGet_set, if_neg hne]; exact h

theorem attrFold_get (e : PyLite.Env) (f : String) (v : Val) : ∀ (ks : List String) (T : PyLite.Env),
    T.get? f = some v → (ks.foldl (attrStep e) T).get? f = some v
  | [], _, h => h
  | k :: ks, T, h => attrFold_get e f v ks _ (attrStep_get e T k f v h)

theorem mkTask_get (e : PyLite.Env) (f : String) (v : Val) (h : (taskEnvOf e).get? f = some v) :
    (mkTask e).get? f = some v := attrFold_get e f v _ _ h

/-! ### the inner loop -/

def attrBody : List Stmt :=
  [.ifElse (.not (.isIn (.var "k") (.prim "dir" (.listCons (.var "t") .listNil))))
     [.expr (.callFn 100 (.listCons (.var "t") (.listCons (.var "k") (.listCons (.prim "__getattribute__" (.listCons (.var "raw") (.listCons (.var "k") .listNil))) .listNil))))]
     []]

theorem attr_body (L : IOLib) (F : Nat) (rec) (env : PyLite.Env) (st : PState) (o i : Nat) (k : String)
    (hraw : env.get? "raw" = some (.atom (.ref o))) (ht : env.get? "t" = some (.atom (.ref i)))
    (hk : env.get? "k" = some (.atom (nameA k))) (hget : ((st.heap o).get? k).isSome) :
    execBlockP (HH L (F + 1)) [] rec attrBody env st =
      .normal env { st with heap := fun j => if j = i then attrStep (st.heap o) (st.heap i) k else st.heap j } := by
  have hin : (Expr.isIn (.var "k") (.prim "dir" (.listCons (.var "t") .listNil))).evalP (HH L (F + 1)) [] env st =
      .ok (.atom (.bool ((((st.heap i).map (·.1)) ++ taskClassNames).contains k)), st) := by
    rw [eval_isIn (eval_var hk) (eval_prim (eval_cons (eval_var ht) eval_nil) (by rw [HH_prim, prim_dir])),
      any_nameA]
  unfold attrBody
  rw [execBlockP, exec_ifElse (eval_not hin rfl) rfl]
  cases hs : (((st.heap i).map (·.1)) ++ taskClassNames).contains k with
  | true =>
    simp only [Bool.not_true, Bool.false_eq_true, if_false, execBlockP]
    have hh : (fun j => if j = i then attrStep (st.heap o) (st.heap i) k else st.heap j) = st.heap := by
      funext j
      by_cases hj : j = i
      · subst hj
        simp only [if_true]
        unfold attrStep
        rw [if_pos hs]
      · simp [hj]
    rw [hh]
  | false =>
    obtain ⟨v, hv⟩ := Option.isSome_iff_exists.1 hget
    have hga : (Expr.prim "__getattribute__" (.listCons (.var "raw") (.listCons (.var "k") .listNil))).evalP
        (HH L (F + 1)) [] env st = .ok (v, st) :=
      eval_prim (eval_cons (eval_var hraw) (eval_cons (eval_var hk) eval_nil))
        (by rw [HH_prim, prim_getattr, hv])
    simp only [Bool.not_false, if_true]
    rw [block_cons_normal (exec_expr (v := .atom .none)
      ((eval_callFn (evalArgs_cons (eval_var ht) (evalArgs_cons (eval_var hk) (evalArgs_cons hga evalArgs_nil)))).trans
        ((HH_fnV_lib L F 100 _ _ rfl).trans (ioFn_setattr L st i k v))))]
    simp only [execBlockP]
    congr 2
    funext j
    by_cases hj : j = i
    · subst hj
      simp only [heapSet, if_true]
      unfold attrStep
      rw [if_neg (by rw [hs]; decide), hv]
    · simp [hj, heapSet]

theorem attr_loop (L : IOLib) (F : Nat) (rec) (o i : Nat) (e : PyLite.Env) (hio : o ≠ i) :
    ∀ (ks : List String) (env : PyLite.Env) (st : PState),
      env.get? "raw" = some (.atom (.ref o)) → env.get? "t" = some (.atom (.ref i)) →
      st.heap o = e → (∀ k ∈ ks, (e.get? k).isSome) →
      ∃ env', forLoopP "k" (fun e s => execBlockP (HH L (F + 1)) [] rec attrBody e s) (ks.map nameA) env st =
          .normal env' { st with heap := fun j => if j = i then ks.foldl (attrStep e) (st.heap i) else st.heap j } ∧
        (∀ x, x ≠ "k" → env'.get? x = env.get? x)
  | [], env, st, _, _, _, _ => by
    refine ⟨env, ?_, fun _ _ => rfl⟩
    have hh : (fun j => if j = i then st.heap i else st.heap j) = st.heap := by
      funext j; by_cases hj : j = i <;> simp [hj]
    simp only [List.map_nil, forLoopP, List.foldl_nil, hh]
  | k :: ks, env, st, hraw, ht, he, hget => by
    have hb := attr_body L F rec (env.set "k" (.atom (nameA k))) st o i k
      (by rw [envGet_set, if_neg (by decide)]; exact hraw) (by rw [envGet_set, if_neg (by decide)]; exact ht)
      (by rw [envGet_set, if_pos rfl]) (by rw [he]; exact hget k (List.mem_cons_self ..))
    obtain ⟨env', h1, h2⟩ := attr_loop L F rec o i e hio ks (env.set "k" (.atom (nameA k)))
      { st with heap := fun j => if j = i then attrStep (st.heap o) (st.heap i) k else st.heap j }
      (by rw [envGet_set, if_neg (by decide)]; exact hraw) (by rw [envGet_set, if_neg (by decide)]; exact ht)
      (by simp only [if_neg hio]; exact he) (fun k' hk' => hget k' (List.mem_cons_of_mem _ hk'))
    refine ⟨env', ?_, fun x hx => (h2 x hx).trans (by rw [envGet_set, if_neg (Ne.symm hx)])⟩
    rw [List.map_cons, forLoopP, hb]
    dsimp only
    rw [h1]
    congr 2
    funext j
    by_cases hj : j = i <;> simp [hj, he]

end Pj.CsvSrc
