/-
  Lemmas/SchedC04.lean — helper lemmas for Props/C04.lean (pass-level reasoning on top of Lemmas/SchedPass.lean).
-/
import PjVerif.Lemmas.SchedPass
import PjVerif.Spec.Sched2
namespace Pj
/- all helpers live in `Pj.C04` so that their (generic) names cannot clash with the sibling lemma files -/
namespace C04

/-! ### time helpers -/


theorem dayOf_le_self (x : Time) : ((dayOf x : Int) : Rat) ≤ x := by
  unfold dayOf; exact Rat.floor_le x

theorem lt_dayOf_succ (x : Time) : x < ((dayOf x : Int) : Rat) + 1 := by
  unfold dayOf; have := Rat.lt_floor_add_one x; rw [Rat.intCast_add] at this; exact this

theorem dayOf_mono {a b : Time} (h : a ≤ b) : dayOf a ≤ dayOf b := by
  unfold dayOf
  exact Rat.le_floor_iff.2 (Rat.le_trans (Rat.floor_le a) h)

theorem cast_le_cast {a b : Int} (h : a ≤ b) : (a : Rat) ≤ (b : Rat) := Rat.intCast_le_intCast.mpr h

theorem cast_succ_le_cast {a b : Int} (h : a < b) : (a : Rat) + 1 ≤ (b : Rat) := by
  have : ((a + 1 : Int) : Rat) ≤ (b : Rat) := Rat.intCast_le_intCast.mpr h
  rw [Rat.intCast_add] at this; exact this

theorem dayOf_eq_of_bounds (d : Int) (x : Time) (h0 : (d : Rat) ≤ x) (h1 : x < (d : Rat) + 1) : dayOf x = d := by
  have : x = (d : Rat) + (x - d) := by grind
  rw [this]; exact dayOf_add_frac d _ (by grind) (by grind)

theorem le_maxT_left (a b : Time) : a ≤ maxT a b := by unfold maxT; split <;> grind
theorem le_maxT_right (a b : Time) : b ≤ maxT a b := by unfold maxT; split <;> grind
theorem maxT_cases (a b : Time) : (maxT a b = a ∧ b ≤ a) ∨ (maxT a b = b ∧ a < b) := by unfold maxT; split <;> grind
theorem minT_le_left (a b : Time) : minT a b ≤ a := by unfold minT; split <;> grind
theorem minT_le_right (a b : Time) : minT a b ≤ b := by unfold minT; split <;> grind

/-- the forward reservation of a leaf: what the rows and the end date look like -/
theorem fwd_leaf_rows (env : Env) (hc : env.clockOK) (cal : Cal) (used : Int → Rat) (hu : ∀ d, 0 ≤ used d)
    (st : Time) (k : Nat) (left : Rat) (hl : 0 ≤ left) (e : Time) (rows : List (Int × Rat))
    (h : shiftFwd cal used (maxT st (env.clock k)) left = .ok (e, rows)) :
    (rows.map (·.2)).sum = left ∧ (rows.map (·.1)).Pairwise (· ≠ ·) ∧
    (∀ p ∈ rows, dayOf st ≤ p.1 ∧ (p.1 : Rat) < maxT (if env.bound < env.clock (k + 1) then maxT e (env.clock (k + 1)) else e) st ∧ dayOf (env.clock 0) ≤ p.1) ∧
    (rows ≠ [] → ∃ d : Int, (∃ p ∈ rows, p.1 = d) ∧ (∀ p ∈ rows, p.1 ≤ d) ∧
      (d : Rat) < maxT (if env.bound < env.clock (k + 1) then maxT e (env.clock (k + 1)) else e) st ∧ maxT (if env.bound < env.clock (k + 1) then maxT e (env.clock (k + 1)) else e) st ≤ (d : Rat) + 1) := by
  obtain ⟨h0, h1⟩ := shiftFwd_spec cal used _ left e rows hl hu h
  by_cases hz : left = 0
  · obtain ⟨_, rfl⟩ := h0 hz
    simp [hz]
  · obtain ⟨dayL, dauL, hs, hne, he1, he2, _⟩ := h1 (by grind)
    have hE1 : e ≤ maxT (if env.bound < env.clock (k + 1) then maxT e (env.clock (k + 1)) else e) st := by
      refine Rat.le_trans ?_ (le_maxT_left _ _)
      split
      · exact le_maxT_left _ _
      · exact Rat.le_refl
    have hlow : ∀ p ∈ rows, dayOf (maxT st (env.clock k)) ≤ p.1 := fun p hp => by
      have := (hs.range p hp).1; omega
    have hd1 : dayOf st ≤ dayOf (maxT st (env.clock k)) := dayOf_mono (le_maxT_left _ _)
    have hd2 : dayOf (env.clock 0) ≤ dayOf (maxT st (env.clock k)) := by
      rw [← hc.2 k]; exact dayOf_mono (le_maxT_right _ _)
    refine ⟨hs.total, hs.incr.imp (fun h => Int.ne_of_lt h), ?_, ?_⟩
    · intro p hp
      have := hlow p hp
      have h3 := (hs.range p hp).2
      have h4 := cast_le_cast h3
      refine ⟨by omega, by grind, by omega⟩
    · intro _
      obtain ⟨⟨u, hlast⟩, _, _⟩ := hs.last hne
      have hmem := List.mem_of_getLast? hlast
      refine ⟨dayL, ⟨_, hmem, rfl⟩, fun p hp => (hs.range p hp).2, by grind, ?_⟩
      have hL : dayOf (maxT st (env.clock k)) ≤ dayL := hlow _ hmem
      have b1 : st < (dayL : Rat) + 1 := by
        have := lt_dayOf_succ st
        have := cast_le_cast (show dayOf st ≤ dayL by omega)
        grind
      have b2 : env.clock (k + 1) < (dayL : Rat) + 1 := by
        have := lt_dayOf_succ (env.clock (k + 1))
        have := cast_le_cast (show dayOf (env.clock (k + 1)) ≤ dayL by rw [hc.2 (k + 1)]; omega)
        grind
      rcases maxT_cases (if env.bound < env.clock (k + 1) then maxT e (env.clock (k + 1)) else e) st with ⟨h1, _⟩ | ⟨h1, _⟩
      · rw [h1]
        split
        · rcases maxT_cases e (env.clock (k + 1)) with ⟨h2, _⟩ | ⟨h2, _⟩ <;> rw [h2] <;> grind
        · grind
      · rw [h1]; grind

/-- a start computed by `nearestFwd` lies on the first reserved day -/
theorem fwd_leaf_start (env : Env) (hc : env.clockOK) (cal : Cal) (used : Int → Rat) (hu : ∀ d, 0 ≤ used d)
    (s0 st : Time) (k1 k : Nat) (hk : env.clock k1 ≤ s0) (hn : nearestFwd cal used s0 = .ok st)
    (left : Rat) (hl : 0 ≤ left) (e : Time) (rows : List (Int × Rat))
    (h : shiftFwd cal used (maxT st (env.clock k)) left = .ok (e, rows)) (hne : rows ≠ []) :
    ∃ p ∈ rows, p.1 = dayOf st := by
  obtain ⟨d, c, g1, g2, g3, g4, g5, _⟩ := nearestFwd_spec cal used s0 st hu hn
  obtain ⟨h0, h1⟩ := shiftFwd_spec cal used _ left e rows hl hu h
  by_cases hz : left = 0
  · exact absurd (h0 hz).2 hne
  · obtain ⟨dayL, dauL, hs, _, _, _, _⟩ := h1 (by grind)
    have hday : dayOf (maxT st (env.clock k)) = d := by
      rcases maxT_cases st (env.clock k) with ⟨h1, _⟩ | ⟨h1, h2⟩
      · rw [h1]; exact g5
      · rw [h1]
        have a1 : dayOf st ≤ dayOf (env.clock k) := dayOf_mono (Rat.le_of_lt h2)
        have a2 : dayOf (env.clock k1) ≤ dayOf s0 := dayOf_mono hk
        rw [hc.2 k] at a1 ⊢
        rw [hc.2 k1] at a2
        omega
    rw [g5]
    refine Classical.byContradiction fun hno => ?_
    have hall : ∀ p ∈ rows, p.1 ≠ d := fun p hp hpd => hno ⟨p, hp, hpd⟩
    obtain ⟨p0, hp0⟩ := List.exists_mem_of_ne_nil rows hne
    have hr := hs.range p0 hp0
    obtain ⟨c', hc1, hc2⟩ := hs.skipped d (by omega) (by have := hall p0 hp0; omega) hall
    rw [g2] at hc1; cases hc1
    grind


/-- the backward reservation of a leaf -/
theorem bwd_leaf_rows (cal : Cal) (used : Int → Rat) (hu : ∀ d, 0 ≤ used d)
    (en E : Time) (hE : en ≤ E) (left : Rat) (hl : 0 ≤ left) (s : Time) (rows : List (Int × Rat))
    (h : shiftBwd cal used en left = .ok (s, rows)) :
    (rows.map (·.2)).sum = left ∧ (rows.map (·.1)).Pairwise (· ≠ ·) ∧
    (∀ p ∈ rows, dayOf s ≤ p.1 ∧ (p.1 : Rat) < E) ∧
    (rows ≠ [] → ∃ d : Int, (∃ p ∈ rows, p.1 = d) ∧ (∀ p ∈ rows, d ≤ p.1) ∧ (d : Rat) ≤ s ∧ s < (d : Rat) + 1) := by
  obtain ⟨h0, h1⟩ := shiftBwd_spec cal used en left s rows hl hu h
  by_cases hz : left = 0
  · obtain ⟨_, rfl⟩ := h0 hz
    simp [hz]
  · obtain ⟨dayL, hs, hne, he1, he2⟩ := h1 (by grind)
    have hds : dayOf s = dayL := dayOf_eq_of_bounds dayL s he1 he2
    refine ⟨hs.total, hs.decr.imp (fun h => Int.ne_of_gt h), ?_, ?_⟩
    · intro p hp
      have hr := hs.range p hp
      have := cast_succ_le_cast hr.1
      have := dayOf_le_self en
      refine ⟨by omega, by grind⟩
    · intro _
      obtain ⟨u, hlast⟩ := hs.last hne
      exact ⟨dayL, ⟨_, List.mem_of_getLast? hlast, rfl⟩, fun p hp => (hs.range p hp).2, he1, he2⟩

/-! ### the stages of a placement, in detail -/


theorem fwdStart_leaf (env : Env) (cal : Cal) (used : Int → Rat) (t : Uid) (m : Time) (σ σ' : SS)
    (hl : (env.info t).children.isEmpty = true) (h : fwdStart env cal used t m σ = .ok σ') :
    ((σ.f t).start.isSome = true ∧ σ' = σ) ∨
    ((σ.f t).start = none ∧ ∃ s,
      nearestFwd cal used (maxT (maxT m (env.clock σ.reads)) ((env.info t).minStart.getD epoch)) = .ok s ∧
      σ' = setF { σ with reads := σ.reads + 1 } t (fun g => { g with start := some s })) := by
  unfold fwdStart at h
  simp only at h
  split at h
  · rename_i s hs
    cases h; exact Or.inl ⟨by simp [hs], rfl⟩
  · rename_i hs
    rw [if_pos hl] at h
    simp only [bind, Except.bind, now] at h
    split at h
    · cases h
    · rename_i s hn
      cases h
      exact Or.inr ⟨hs, s, hn, rfl⟩

theorem fillEst_leaf (env : Env) (t : Uid) (σ σ' : SS) (hl : (env.info t).children.isEmpty = true)
    (h : fillEst env t σ = .ok σ') :
    σ'.f t = { (σ.f t) with est := some (((σ.f t).est).getD env.defaultEst), spent := some (((σ.f t).spent).getD 0) } ∧
    σ'.reads = σ.reads := by
  unfold fillEst at h
  simp only [hl, if_true, bind, Except.bind, pure, Except.pure] at h
  cases he : (σ.f t).est with
  | some e =>
    simp only [he] at h
    cases hs : (σ.f t).spent with
    | some s => simp only [hs] at h; cases h; refine ⟨?_, rfl⟩
                rcases hg : σ.f t with ⟨a, b, c, d⟩
                rw [hg] at he hs; simp only at he hs; subst he hs; rfl
    | none => simp only [hs] at h; cases h; simp [setF, he]
  | none =>
    simp only [he] at h
    cases hs : (σ.f t).spent with
    | some s => simp only [hs, setF, upd_same] at h; cases h; simp
    | none => simp only [hs, setF, upd_same] at h; cases h; simp

theorem fwdEnd_leaf (env : Env) (cal : Cal) (used : Int → Rat) (t : Uid) (σ σ' : SS)
    (hl : (env.info t).children.isEmpty = true) (h : fwdEnd env cal used t σ = .ok σ') :
    ((σ.f t).end_.isSome = true ∧ σ' = σ) ∨
    ((σ.f t).end_ = none ∧ ∃ e rows,
      shiftFwd cal used (maxT (((σ.f t).start).getD epoch) (env.clock σ.reads)) (leftOf σ t) = .ok (e, rows) ∧
      σ' = setF { (addRows { σ with reads := σ.reads + 1 } (env.info t).resource t rows) with reads := σ.reads + 2 } t
        (fun g => { g with end_ := some (maxT (if env.bound < env.clock (σ.reads + 1) then maxT e (env.clock (σ.reads + 1)) else e) (((σ.f t).start).getD epoch)) })) := by
  unfold fwdEnd at h
  simp only at h
  split at h
  · rename_i s hs
    cases h; exact Or.inl ⟨by simp [hs], rfl⟩
  · rename_i hs
    rw [if_pos hl] at h
    simp only [bind, Except.bind, now] at h
    split at h
    · cases h
    · rename_i v hv
      obtain ⟨e, rows⟩ := v
      cases h
      exact Or.inr ⟨hs, e, rows, hv, rfl⟩



theorem fwdEnd_nonleaf (env : Env) (cal : Cal) (used : Int → Rat) (t : Uid) (σ σ' : SS)
    (hl : (env.info t).children.isEmpty = false) (h : fwdEnd env cal used t σ = .ok σ') : Stage env t [] σ σ' := by
  unfold fwdEnd at h
  simp only [hl] at h
  split at h
  · cases h; exact Stage.refl _ _ _
  · simp only [Bool.false_eq_true, if_false] at h
    split at h
    · cases h
    · cases h; exact Stage.setF _ _ _ _

theorem bwdStart_nonleaf (env : Env) (cal : Cal) (used : Int → Rat) (t : Uid) (m : Time) (σ σ' : SS)
    (hl : (env.info t).children.isEmpty = false) (h : bwdStart env cal used t m σ = .ok σ') : Stage env t [] σ σ' := by
  unfold bwdStart at h
  simp only [hl, Bool.false_eq_true, if_false] at h
  split at h
  · cases h
  · cases h; exact Stage.setF _ _ _ _

/-- the frame of one placement: `t` becomes done, only its fields change, `new` is appended for it -/
structure PlaceRes (env : Env) (t : Uid) (new : List (Int × Rat)) (σ σ' : SS) : Prop where
  done : σ'.done = σ.done ++ [t]
  f : ∀ x, x ≠ t → σ'.f x = σ.f x
  rows : σ'.rows = σ.rows ++ new.map (mkRow (env.info t).resource t)
  reads : σ.reads ≤ σ'.reads

theorem PlaceRes.of_stage {env : Env} {t : Uid} {new : List (Int × Rat)} {σ σm : SS} {r : List (Option Nat × Cal)}
    (hs : Stage env t new { σ with res := r } σm) : PlaceRes env t new σ (markDone σm t) :=
  ⟨by simp [markDone, hs.done], hs.f, hs.rows, hs.reads⟩


/-! ### what one placement establishes for its task -/


/-- the per-task facts common to both directions, about the rows `new` a placement reserved -/
structure PlacedCore (env : Env) (f0 : Uid → Fields) (t : Uid) (new : List (Int × Rat)) : Prop where
  none : works env f0 t = false → new = []
  amount : works env f0 t = true → (new.map (·.2)).sum = remaining env f0 t
  once : (new.map (·.1)).Pairwise (· ≠ ·)

/-- what a forward placement establishes about the final fields `g` of its task and the rows it reserved -/
structure PlacedF (env : Env) (f0 : Uid → Fields) (t : Uid) (g : Fields) (new : List (Int × Rat)) : Prop where
  core : PlacedCore env f0 t new
  window : ∀ p ∈ new, ∃ s e, g.start = some s ∧ g.end_ = some e ∧ dayOf s ≤ p.1 ∧ (p.1 : Rat) < e ∧
    dayOf (env.clock 0) ≤ p.1
  startFirst : (f0 t).start = none → new ≠ [] → ∃ s, g.start = some s ∧ ∃ p ∈ new, p.1 = dayOf s
  endLast : new ≠ [] → ∃ e, ∃ d : Int, g.end_ = some e ∧ (∃ p ∈ new, p.1 = d) ∧ (∀ p ∈ new, p.1 ≤ d) ∧
    (d : Rat) < e ∧ e ≤ (d : Rat) + 1
  fixed : isLeaf env t = true → (env.info t).milestone = false →
    (∀ s, (f0 t).start = some s → g.start = some s) ∧ (∀ e, (f0 t).end_ = some e → g.end_ = some e)

theorem PlacedF.nil {env : Env} {f0 : Uid → Fields} {t : Uid} {g : Fields} (hw : works env f0 t = false)
    (hfix : isLeaf env t = true → (env.info t).milestone = false →
      (∀ s, (f0 t).start = some s → g.start = some s) ∧ (∀ e, (f0 t).end_ = some e → g.end_ = some e)) :
    PlacedF env f0 t g [] :=
  ⟨⟨fun _ => rfl, fun h => (by rw [hw] at h; cases h), (by simp)⟩, (by simp), (by simp), (by simp), hfix⟩

theorem prepare_leaf (env : Env) (f0 : Uid → Fields) (mem : List Uid) (t : Uid)
    (hl : (env.info t).children.isEmpty = true) : prepare env f0 mem t = f0 t := by
  simp [prepare, hl]

theorem leftOf_eq_remaining (env : Env) (f0 : Uid → Fields) (σ : SS) (t : Uid)
    (he : (σ.f t).est = some (((f0 t).est).getD env.defaultEst)) (hs : (σ.f t).spent = some (((f0 t).spent).getD 0)) :
    leftOf σ t = remaining env f0 t := by
  simp [leftOf, remaining, he, hs]

/-- `fwdStart` on a leaf, field by field -/
theorem fwdStart_leaf_fields (env : Env) (cal : Cal) (used : Int → Rat) (t : Uid) (m : Time) (σ σ' : SS)
    (hl : (env.info t).children.isEmpty = true) (h : fwdStart env cal used t m σ = .ok σ') :
    (σ'.f t).end_ = (σ.f t).end_ ∧ (σ'.f t).est = (σ.f t).est ∧ (σ'.f t).spent = (σ.f t).spent ∧
    (∀ s, (σ.f t).start = some s → (σ'.f t).start = some s) ∧
    ((σ.f t).start = none → ∃ s s0 k1, (σ'.f t).start = some s ∧ nearestFwd cal used s0 = .ok s ∧ env.clock k1 ≤ s0) := by
  rcases fwdStart_leaf _ _ _ _ _ _ _ hl h with ⟨ha, rfl⟩ | ⟨ha, s, hn, rfl⟩
  · refine ⟨rfl, rfl, rfl, fun s hs => hs, fun hn => ?_⟩
    rw [hn] at ha; cases ha
  · refine ⟨by simp [setF], by simp [setF], by simp [setF], fun s' hs => (by rw [ha] at hs; cases hs),
      fun _ => ⟨s, _, σ.reads, by simp [setF], hn, ?_⟩⟩
    exact Rat.le_trans (le_maxT_right m _) (le_maxT_left _ _)

/-- `fwdEnd` on a leaf, field by field -/
theorem fwdEnd_leaf_fields (env : Env) (cal : Cal) (used : Int → Rat) (t : Uid) (σ σ' : SS)
    (hl : (env.info t).children.isEmpty = true) (h : fwdEnd env cal used t σ = .ok σ') :
    ((σ.f t).end_.isSome = true ∧ σ' = σ) ∨
    ((σ.f t).end_ = none ∧ ∃ e rows,
      shiftFwd cal used (maxT (((σ.f t).start).getD epoch) (env.clock σ.reads)) (leftOf σ t) = .ok (e, rows) ∧
      Stage env t rows σ σ' ∧ (σ'.f t).start = (σ.f t).start ∧
      (σ'.f t).end_ = some (maxT (if env.bound < env.clock (σ.reads + 1) then maxT e (env.clock (σ.reads + 1)) else e) (((σ.f t).start).getD epoch))) := by
  rcases fwdEnd_leaf _ _ _ _ _ _ hl h with ⟨ha, rfl⟩ | ⟨ha, e, rows, hsh, rfl⟩
  · exact Or.inl ⟨ha, rfl⟩
  · refine Or.inr ⟨ha, e, rows, hsh, ?_, by simp [setF, addRows], by simp [setF]⟩
    exact ⟨rfl, rfl, fun x hx => by simp [setF, upd, hx, addRows], rfl, by simp [setF, addRows]⟩

theorem fwd_leaf_placed (env : Env) (f0 : Uid → Fields) (cal : Cal) (used : Int → Rat) (t : Uid) (v : Time)
    (σa σ1 σ2 σ3 : SS) (hc : env.clockOK) (hu : ∀ d, 0 ≤ used d)
    (hl : (env.info t).children.isEmpty = true) (hm : (env.info t).milestone = false) (hpa : σa.f t = f0 t)
    (h1 : fwdStart env cal used t v σa = .ok σ1) (h2 : fillEst env t σ1 = .ok σ2)
    (h3 : fwdEnd env cal used t σ2 = .ok σ3) :
    ∃ new, Stage env t new σa σ3 ∧ PlacedF env f0 t (σ3.f t) new := by
  have s1 := fwdStart_stage _ _ _ _ _ _ _ h1
  have s2 := fillEst_stage _ _ _ _ h2
  obtain ⟨e2, r2⟩ := fillEst_leaf env t σ1 σ2 hl h2
  obtain ⟨f1e, f1est, f1sp, f1fix, f1none⟩ := fwdStart_leaf_fields _ _ _ _ _ _ _ hl h1
  rw [hpa] at f1e f1est f1sp f1fix f1none
  have g2s : (σ2.f t).start = (σ1.f t).start := by rw [e2]
  have g2e : (σ2.f t).end_ = (f0 t).end_ := by rw [e2]; exact f1e
  rcases fwdEnd_leaf_fields _ _ _ _ _ _ hl h3 with ⟨ha, rfl⟩ | ⟨ha, e, rows, hsh, s3, gs, ge⟩
  · rw [g2e] at ha
    refine ⟨[], (s1.trans s2).cast (by simp), PlacedF.nil ?_ ?_⟩
    · cases hx : (f0 t).end_ with
      | none => rw [hx] at ha; cases ha
      | some x => simp [works, hx]
    · intro _ _
      rw [g2s, g2e]
      exact ⟨f1fix, fun e he => he⟩
  · rw [g2e] at ha
    refine ⟨rows, ((s1.trans s2).trans s3).cast (by simp), ?_⟩
    have hw : works env f0 t = true := by simp [works, isLeaf, hl, hm, ha]
    have hleft : leftOf σ2 t = remaining env f0 t :=
      leftOf_eq_remaining env f0 σ2 t (by rw [e2, f1est]) (by rw [e2, f1sp])
    obtain ⟨st, hst⟩ : ∃ st, (σ1.f t).start = some st := by
      cases hx : (f0 t).start with
      | none => obtain ⟨s, _, _, h, _⟩ := f1none hx; exact ⟨s, h⟩
      | some s => exact ⟨s, f1fix s hx⟩
    rw [g2s, hst] at gs
    rw [g2s, hst, Option.getD_some] at hsh ge
    obtain ⟨q1, q2, q3, q4⟩ := fwd_leaf_rows env hc cal _ hu st σ2.reads _ (leftOf_nonneg _ _) e rows hsh
    refine ⟨⟨fun h => (by rw [hw] at h; cases h), fun _ => (by rw [q1, hleft]), q2⟩, ?_, ?_, ?_, ?_⟩
    · intro p hp
      exact ⟨st, _, gs, ge, q3 p hp⟩
    · intro hn hne
      obtain ⟨s, s0, k1, h1', h2', h3'⟩ := f1none hn
      rw [hst] at h1'; cases h1'
      exact ⟨st, gs, fwd_leaf_start env hc cal _ hu s0 st k1 _ h3' h2' _ (leftOf_nonneg _ _) e rows hsh hne⟩
    · intro hne
      obtain ⟨d, hd⟩ := q4 hne
      exact ⟨_, d, ge, hd⟩
    · intro _ _
      refine ⟨fun s hs => ?_, fun e' he => (by rw [ha] at he; cases he)⟩
      rw [gs, ← hst]; exact f1fix s hs

theorem fwdPlace_placed (env : Env) (f0 : Uid → Fields) (mem : List Uid) (σ σ' : SS) (t : Uid) (v : Time)
    (hc : env.clockOK) (hu : ∀ d, 0 ≤ usedBy env σ.rows (env.info t).resource t d)
    (hpre : σ.f t = prepare env f0 mem t) (h : fwdPlace env σ t v = .ok σ') :
    ∃ new, PlaceRes env t new σ σ' ∧ PlacedF env f0 t (σ'.f t) new := by
  unfold fwdPlace at h
  rcases hr : resLookup σ.res (env.info t).resource with ⟨res', cal⟩
  simp only [hr, bind, Except.bind, pure, Except.pure] at h
  split at h
  · rename_i hm
    cases h
    refine ⟨[], PlaceRes.of_stage (Stage.setF _ _ _ _), PlacedF.nil (by simp [works, hm]) ?_⟩
    intro _ hm'; rw [hm] at hm'; cases hm'
  · rename_i hm
    have hm : (env.info t).milestone = false := by simpa using hm
    split at h
    · cases h
    · rename_i σ1 h1
      split at h
      · cases h
      · rename_i σ2 h2
        split at h
        · cases h
        · rename_i σ3 h3
          cases h
          cases hl : (env.info t).children.isEmpty with
          | false =>
            have s1 := fwdStart_stage _ _ _ _ _ _ _ h1
            have s2 := fillEst_stage _ _ _ _ h2
            have s3 := fwdEnd_nonleaf _ _ _ _ _ _ hl h3
            refine ⟨[], PlaceRes.of_stage (((s1.trans s2).trans s3).cast (by simp)), PlacedF.nil (by simp [works, isLeaf, hl]) ?_⟩
            intro hl'; rw [isLeaf, hl] at hl'; cases hl'
          | true =>
            rw [prepare_leaf env f0 mem t hl] at hpre
            obtain ⟨new, hs, hp⟩ := fwd_leaf_placed env f0 cal _ t v { σ with res := res' } σ1 σ2 σ3 hc hu hl hm hpre h1 h2 h3
            exact ⟨new, PlaceRes.of_stage hs, hp⟩



/-- what a backward placement establishes -/
structure PlacedB (env : Env) (f0 : Uid → Fields) (t : Uid) (g : Fields) (new : List (Int × Rat)) : Prop where
  core : PlacedCore env f0 t new
  window : ∀ p ∈ new, ∃ s e, g.start = some s ∧ g.end_ = some e ∧ dayOf s ≤ p.1 ∧ (p.1 : Rat) < e
  startFirst : new ≠ [] → ∃ s, ∃ d : Int, g.start = some s ∧ (∃ p ∈ new, p.1 = d) ∧ (∀ p ∈ new, d ≤ p.1) ∧
    (d : Rat) ≤ s ∧ s < (d : Rat) + 1

theorem PlacedB.nil {env : Env} {f0 : Uid → Fields} {t : Uid} {g : Fields} (hw : works env f0 t = false) :
    PlacedB env f0 t g [] :=
  ⟨⟨fun _ => rfl, fun h => (by rw [hw] at h; cases h), (by simp)⟩, (by simp), (by simp)⟩

theorem bwdEnd_leaf_fields (env : Env) (cal : Cal) (used : Int → Rat) (t : Uid) (m m' : Time) (σ σ' : SS)
    (hl : (env.info t).children.isEmpty = true) (h : bwdEnd env cal used t m m' σ = .ok σ') :
    (∃ E, (σ'.f t).end_ = some E) ∧ (σ'.f t).start = (σ.f t).start ∧ (σ'.f t).est = (σ.f t).est ∧
    (σ'.f t).spent = (σ.f t).spent := by
  unfold bwdEnd at h
  simp only at h
  split at h
  · rename_i E hE
    cases h; exact ⟨⟨E, hE⟩, rfl, rfl, rfl⟩
  · rw [if_pos hl] at h
    simp only [bind, Except.bind] at h
    split at h
    · cases h
    · cases h
      exact ⟨⟨_, (by simp only [setF, upd_same]; rfl)⟩, by simp [setF], by simp [setF], by simp [setF]⟩

theorem bwdStart_leaf_fields (env : Env) (cal : Cal) (used : Int → Rat) (t : Uid) (m : Time) (σ σ' : SS)
    (hl : (env.info t).children.isEmpty = true) (h : bwdStart env cal used t m σ = .ok σ') :
    ∃ s rows, shiftBwd cal used (minT (((σ.f t).end_).getD epoch) m) (leftOf σ t) = .ok (s, rows) ∧
      Stage env t rows σ σ' ∧ (σ'.f t).end_ = (σ.f t).end_ ∧
      (σ'.f t).start = some (match (σ.f t).start with | some old => minT old s | none => s) := by
  unfold bwdStart at h
  simp only at h
  rw [if_pos hl] at h
  simp only [bind, Except.bind] at h
  split at h
  · cases h
  · rename_i v hv
    obtain ⟨s, rows⟩ := v
    cases h
    refine ⟨s, rows, hv, ?_, by simp [setF, addRows], (by simp only [setF, upd_same]; rfl)⟩
    exact ⟨rfl, rfl, fun x hx => by simp [setF, upd, hx, addRows], rfl, by simp [setF, addRows]⟩

theorem bwd_leaf_placed (env : Env) (f0 : Uid → Fields) (cal : Cal) (used : Int → Rat) (t : Uid) (m m' : Time)
    (σa σ1 σ2 σ3 : SS) (hu : ∀ d, 0 ≤ used d)
    (hl : (env.info t).children.isEmpty = true) (hm : (env.info t).milestone = false) (hpa : σa.f t = f0 t)
    (hs0 : (f0 t).start = none) (he0 : (f0 t).end_ = none)
    (h1 : bwdEnd env cal used t m m' σa = .ok σ1) (h2 : fillEst env t σ1 = .ok σ2)
    (h3 : bwdStart env cal used t m σ2 = .ok σ3) :
    ∃ new, Stage env t new σa σ3 ∧ PlacedB env f0 t (σ3.f t) new := by
  have s1 := bwdEnd_stage _ _ _ _ _ _ _ _ h1
  have s2 := fillEst_stage _ _ _ _ h2
  obtain ⟨e2, r2⟩ := fillEst_leaf env t σ1 σ2 hl h2
  obtain ⟨⟨E, hE⟩, f1s, f1est, f1sp⟩ := bwdEnd_leaf_fields _ _ _ _ _ _ _ _ hl h1
  rw [hpa] at f1s f1est f1sp
  have g2s : (σ2.f t).start = none := by rw [e2]; exact f1s.trans hs0
  have g2e : (σ2.f t).end_ = some E := by rw [e2]; exact hE
  obtain ⟨s, rows, hsh, s3, ge, gs⟩ := bwdStart_leaf_fields _ _ _ _ _ _ _ hl h3
  rw [g2e] at ge
  rw [g2s] at gs
  rw [g2e, Option.getD_some] at hsh
  refine ⟨rows, ((s1.trans s2).trans s3).cast (by simp), ?_⟩
  have hw : works env f0 t = true := by simp [works, isLeaf, hl, hm, he0]
  have hleft : leftOf σ2 t = remaining env f0 t :=
    leftOf_eq_remaining env f0 σ2 t (by rw [e2, f1est]) (by rw [e2, f1sp])
  obtain ⟨q1, q2, q3, q4⟩ := bwd_leaf_rows cal used hu _ E (minT_le_left _ _) _ (leftOf_nonneg _ _) s rows hsh
  refine ⟨⟨fun h => (by rw [hw] at h; cases h), fun _ => (by rw [q1, hleft]), q2⟩, ?_, ?_⟩
  · intro p hp
    exact ⟨s, E, gs, ge, q3 p hp⟩
  · intro hne
    obtain ⟨d, hd⟩ := q4 hne
    exact ⟨s, d, gs, hd⟩

theorem bwdPlace_placed (env : Env) (f0 : Uid → Fields) (mem : List Uid) (σ σ' : SS) (t : Uid) (m v : Time)
    (hu : ∀ d, 0 ≤ usedBy env σ.rows (env.info t).resource t d)
    (hpre : σ.f t = prepare env f0 mem t)
    (hnf : (env.info t).children.isEmpty = true → (f0 t).start = none ∧ (f0 t).end_ = none)
    (h : bwdPlace env σ t m v = .ok σ') :
    ∃ new, PlaceRes env t new σ σ' ∧ PlacedB env f0 t (σ'.f t) new := by
  unfold bwdPlace at h
  rcases hr : resLookup σ.res (env.info t).resource with ⟨res', cal⟩
  simp only [hr, bind, Except.bind, pure, Except.pure] at h
  split at h
  · rename_i hm
    cases h
    exact ⟨[], PlaceRes.of_stage (Stage.setF _ _ _ _), PlacedB.nil (by simp [works, hm])⟩
  · rename_i hm
    have hm : (env.info t).milestone = false := by simpa using hm
    split at h
    · cases h
    · rename_i σ1 h1
      split at h
      · cases h
      · rename_i σ2 h2
        split at h
        · cases h
        · rename_i σ3 h3
          cases h
          cases hl : (env.info t).children.isEmpty with
          | false =>
            have s1 := bwdEnd_stage _ _ _ _ _ _ _ _ h1
            have s2 := fillEst_stage _ _ _ _ h2
            have s3 := bwdStart_nonleaf _ _ _ _ _ _ _ hl h3
            exact ⟨[], PlaceRes.of_stage (((s1.trans s2).trans s3).cast (by simp)), PlacedB.nil (by simp [works, isLeaf, hl])⟩
          | true =>
            rw [prepare_leaf env f0 mem t hl] at hpre
            obtain ⟨hs0, he0⟩ := hnf hl
            obtain ⟨new, hs, hp⟩ := bwd_leaf_placed env f0 cal _ t m v { σ with res := res' } σ1 σ2 σ3 hu hl hm hpre
              hs0 he0 h1 h2 h3
            exact ⟨new, PlaceRes.of_stage hs, hp⟩




/-! ### list helpers: rows of one task, first and last day -/

theorem rowsOf_append (a b : List Row) (t : Uid) : rowsOf (a ++ b) t = rowsOf a t ++ rowsOf b t := by
  simp [rowsOf, List.filter_append]

theorem rowsOf_mk_same (r : Option Nat) (t : Uid) (new : List (Int × Rat)) :
    rowsOf (new.map (mkRow r t)) t = new.map (mkRow r t) := by
  unfold rowsOf
  rw [List.filter_eq_self]
  intro x hx
  obtain ⟨p, _, rfl⟩ := List.mem_map.1 hx
  simp [mkRow]

theorem rowsOf_eq_nil (rows : List Row) (t : Uid) (h : ∀ r ∈ rows, r.task ≠ t) : rowsOf rows t = [] := by
  unfold rowsOf
  rw [List.filter_eq_nil_iff]
  intro x hx
  simpa using h x hx

theorem rowsOf_mk_other (r : Option Nat) (t x : Uid) (new : List (Int × Rat)) (hx : x ≠ t) :
    rowsOf (new.map (mkRow r t)) x = [] := by
  apply rowsOf_eq_nil
  intro y hy
  obtain ⟨p, _, rfl⟩ := List.mem_map.1 hy
  simpa [mkRow] using hx.symm

theorem sumUnits_mk (r : Option Nat) (t : Uid) (new : List (Int × Rat)) :
    sumUnits (new.map (mkRow r t)) = (new.map (·.2)).sum := by
  simp [sumUnits, List.map_map, mkRow, Function.comp_def]

theorem once_length : ∀ (l : List (Int × Rat)) (p : Int × Rat), (l.map (·.1)).Pairwise (· ≠ ·) → p ∈ l →
    (l.filter (fun q => q.1 == p.1)).length = 1
  | [], _, _, h => by cases h
  | q :: l, p, hp, h => by
    simp only [List.map_cons, List.pairwise_cons] at hp
    rcases List.mem_cons.1 h with rfl | h
    · have : l.filter (fun q => q.1 == p.1) = [] := by
        rw [List.filter_eq_nil_iff]
        intro x hx
        have := hp.1 x.1 (List.mem_map_of_mem hx)
        simpa using fun hc => this hc.symm
      simp [this]
    · have hne : q.1 ≠ p.1 := hp.1 p.1 (List.mem_map_of_mem h)
      rw [List.filter_cons_of_neg (by simpa using hne)]
      exact once_length l p hp.2 h

theorem foldl_min_eq : ∀ (l : List Int) (acc : Option Int) (d : Int), (acc = some d ∨ d ∈ l) →
    (∀ x, acc = some x → d ≤ x) → (∀ x ∈ l, d ≤ x) →
    l.foldl (fun m d => match m with | none => some d | some x => some (min x d)) acc = some d
  | [], acc, d, h, _, _ => by
    rcases h with h | h
    · simpa using h
    · cases h
  | y :: l, acc, d, h, ha, hl => by
    simp only [List.foldl_cons]
    have hy : d ≤ y := hl y (by simp)
    apply foldl_min_eq l _ d
    · rcases h with h | h
      · subst h; left; simp only; congr 1; omega
      · rcases List.mem_cons.1 h with rfl | h
        · left
          cases acc with
          | none => rfl
          | some x => have := ha x rfl; simp only; congr 1; omega
        · exact Or.inr h
    · intro x hx
      cases acc with
      | none => simp only at hx; cases hx; exact hy
      | some z => have := ha z rfl; simp only at hx; cases hx; omega
    · intro x hx; exact hl x (List.mem_cons_of_mem _ hx)

theorem foldl_max_eq : ∀ (l : List Int) (acc : Option Int) (d : Int), (acc = some d ∨ d ∈ l) →
    (∀ x, acc = some x → x ≤ d) → (∀ x ∈ l, x ≤ d) →
    l.foldl (fun m d => match m with | none => some d | some x => some (max x d)) acc = some d
  | [], acc, d, h, _, _ => by
    rcases h with h | h
    · simpa using h
    · cases h
  | y :: l, acc, d, h, ha, hl => by
    simp only [List.foldl_cons]
    have hy : y ≤ d := hl y (by simp)
    apply foldl_max_eq l _ d
    · rcases h with h | h
      · subst h; left; simp only; congr 1; omega
      · rcases List.mem_cons.1 h with rfl | h
        · left
          cases acc with
          | none => rfl
          | some x => have := ha x rfl; simp only; congr 1; omega
        · exact Or.inr h
    · intro x hx
      cases acc with
      | none => simp only at hx; cases hx; exact hy
      | some z => have := ha z rfl; simp only at hx; cases hx; omega
    · intro x hx; exact hl x (List.mem_cons_of_mem _ hx)

theorem firstDay_mk (r : Option Nat) (t : Uid) (new : List (Int × Rat)) (d : Int) (h1 : ∃ p ∈ new, p.1 = d)
    (h2 : ∀ p ∈ new, d ≤ p.1) : firstDay (new.map (mkRow r t)) = some d := by
  unfold firstDay
  apply foldl_min_eq
  · right
    obtain ⟨p, hp, rfl⟩ := h1
    simp only [List.map_map, List.mem_map, Function.comp]
    exact ⟨p, hp, rfl⟩
  · intro x hx; cases hx
  · intro x hx
    simp only [List.map_map, List.mem_map, Function.comp] at hx
    obtain ⟨p, hp, rfl⟩ := hx
    exact h2 p hp

theorem lastDay_mk (r : Option Nat) (t : Uid) (new : List (Int × Rat)) (d : Int) (h1 : ∃ p ∈ new, p.1 = d)
    (h2 : ∀ p ∈ new, p.1 ≤ d) : lastDay (new.map (mkRow r t)) = some d := by
  unfold lastDay
  apply foldl_max_eq
  · right
    obtain ⟨p, hp, rfl⟩ := h1
    simp only [List.map_map, List.mem_map, Function.comp]
    exact ⟨p, hp, rfl⟩
  · intro x hx; cases hx
  · intro x hx
    simp only [List.map_map, List.mem_map, Function.comp] at hx
    obtain ⟨p, hp, rfl⟩ := hx
    exact h2 p hp




/-! ### the invariant carried through the passes -/

/-- every task not yet done still has its prepared fields; every row belongs to a done task; for every done task
    the rows it owns in the ledger are those of its placement, and `P` holds of them and of its fields -/
structure InvP (env : Env) (f0 : Uid → Fields) (mem : List Uid)
    (P : Uid → Fields → List (Int × Rat) → Prop) (σ : SS) : Prop where
  ledger : LedgerOK env σ
  pre : ∀ x, x ∉ σ.done → σ.f x = prepare env f0 mem x
  rowsDone : ∀ r ∈ σ.rows, r.task ∈ σ.done
  placed : ∀ t ∈ σ.done, ∃ new, rowsOf σ.rows t = new.map (mkRow (env.info t).resource t) ∧ P t (σ.f t) new
  doneMem : ∀ t ∈ σ.done, t ∈ mem

theorem InvP.init (env : Env) (f0 : Uid → Fields) (mem : List Uid) (P : Uid → Fields → List (Int × Rat) → Prop)
    (res0 : List (Option Nat × Cal)) (k : Nat) :
    InvP env f0 mem P { f := prepare env f0 mem, rows := [], done := [], res := res0, reads := k } :=
  ⟨LedgerOK.init env _ rfl, fun _ _ => rfl, fun r hr => (by cases hr), fun t ht => (by cases ht), fun t ht => (by cases ht)⟩

theorem InvP.step {env : Env} {f0 : Uid → Fields} {mem : List Uid} {P : Uid → Fields → List (Int × Rat) → Prop}
    {σ σ' : SS} {t : Uid} {new : List (Int × Rat)} (hi : InvP env f0 mem P σ) (ht : t ∉ σ.done) (hm : t ∈ mem)
    (hl : LedgerOK env σ') (hr : PlaceRes env t new σ σ') (hp : P t (σ'.f t) new) : InvP env f0 mem P σ' := by
  refine ⟨hl, ?_, ?_, ?_, ?_⟩
  · intro x hx
    rw [hr.done] at hx
    have h1 : x ∉ σ.done := fun hc => hx (List.mem_append_left _ hc)
    have h2 : x ≠ t := fun hc => hx (by simp [hc])
    rw [hr.f x h2]; exact hi.pre x h1
  · intro r hr'
    rw [hr.rows] at hr'
    rw [hr.done]
    rcases List.mem_append.1 hr' with h | h
    · exact List.mem_append_left _ (hi.rowsDone r h)
    · obtain ⟨p, _, rfl⟩ := List.mem_map.1 h
      simp [mkRow]
  · intro x hx
    rw [hr.done] at hx
    rw [hr.rows, rowsOf_append]
    by_cases hxt : x = t
    · subst hxt
      refine ⟨new, ?_, hp⟩
      rw [rowsOf_eq_nil σ.rows x (fun r hr hc => ht (hc ▸ hi.rowsDone r hr)), rowsOf_mk_same]
      rfl
    · have hxd : x ∈ σ.done := by
        rcases List.mem_append.1 hx with h | h
        · exact h
        · exact absurd (by simpa using h) hxt
      obtain ⟨n, hn, hpn⟩ := hi.placed x hxd
      refine ⟨n, ?_, ?_⟩
      · rw [rowsOf_mk_other _ _ _ _ hxt, List.append_nil]; exact hn
      · rw [hr.f x hxt]; exact hpn
  · intro x hx
    rw [hr.done] at hx
    rcases List.mem_append.1 hx with h | h
    · exact hi.doneMem x h
    · have : x = t := by simpa using h
      exact this ▸ hm

theorem InvP.used_nonneg {env : Env} {f0 : Uid → Fields} {mem : List Uid}
    {P : Uid → Fields → List (Int × Rat) → Prop} {σ : SS} (hi : InvP env f0 mem P σ) (t : Uid) :
    ∀ d, 0 ≤ usedBy env σ.rows (env.info t).resource t d :=
  fun _ => reserved_nonneg _ hi.ledger.pos _ _ _

/-- the final state of a forward run: the invariant holds and every member is done -/
theorem fwdRun_inv (env : Env) (f0 : Uid → Fields) (res0 : List (Option Nat × Cal)) (o : Output)
    (hf : env.flagsOK) (hc : env.clockOK) (h : fwdRun env f0 res0 = .ok o) :
    ∃ mem σ, members env = some mem ∧ o = { f := σ.f, rows := σ.rows, res := σ.res } ∧
      InvP env f0 mem (PlacedF env f0) σ ∧ ∀ t ∈ mem, t ∈ σ.done := by
  obtain ⟨mem, σ, hm, hp, ho⟩ := fwdRun_ok env f0 res0 o h
  have hmemb : ∀ t, (env.info t).member = true ↔ t ∈ mem := fun t => by rw [← memberList_eq env mem hm]; exact hf t
  have hI : DoneClosed env σ ∧ InvP env f0 mem (PlacedF env f0) σ := by
    refine passList_inv (fun s => DoneClosed env s ∧ InvP env f0 mem (PlacedF env f0) s) _ _ ?_ _ _
      ⟨?_, InvP.init env f0 mem _ res0 1⟩ hp
    · intro a x b hx ha hh
      refine ⟨fwdPass_doneClosed env _ _ _ _ _ _ ha.1 hh, ?_⟩
      exact fwdPass_inv env (InvP env f0 mem (PlacedF env f0)) (fun t => t ∈ mem)
        (fun s s' t v hq hi ht _ h => by
          obtain ⟨new, hr, hpl⟩ := fwdPlace_placed env f0 mem s s' t v hc (hi.used_nonneg t) (hi.pre t ht) h
          exact hi.step ht hq (fwdPlace_ledger env s s' t v hi.ledger h) hr hpl)
        (fun t c hq hc => members_children env mem hm t hq c hc)
        (fun t p hq _ he => (hmemb p).1 (he.trans ((hmemb t).2 hq))) _ _ _ _ _ _ (members_root env mem hm x hx) ha.2 hh
    · intro x hx; cases hx
  have hroots : ∀ r ∈ env.roots, r ∈ σ.done :=
    passList_all_done _ _ (fun a x b _ hh => fwdPass_ext env _ _ _ _ _ _ hh) _ _ hp
  refine ⟨mem, σ, hm, ho, hI.2, ?_⟩
  intro t ht
  obtain ⟨rt, hrt, l, hl, htl⟩ := (members_spec env mem hm).2 t ht
  exact hI.1.subtree (hroots rt hrt) _ l hl t htl

theorem bwdRun_inv (env : Env) (f0 : Uid → Fields) (res0 : List (Option Nat × Cal)) (o : Output)
    (hf : env.flagsOK) (hn : noFixedDates env f0 = true) (h : bwdRun env f0 res0 = .ok o) :
    ∃ mem σ, members env = some mem ∧ o = { f := σ.f, rows := σ.rows, res := σ.res } ∧
      InvP env f0 mem (PlacedB env f0) σ ∧ ∀ t ∈ mem, t ∈ σ.done := by
  obtain ⟨mem, σ, hm, hp, ho⟩ := bwdRun_ok env f0 res0 o h
  have hmemb : ∀ t, (env.info t).member = true ↔ t ∈ mem := fun t => by rw [← memberList_eq env mem hm]; exact hf t
  have hnf : ∀ t ∈ mem, (env.info t).children.isEmpty = true → (f0 t).start = none ∧ (f0 t).end_ = none := by
    intro t ht hl
    unfold noFixedDates at hn
    rw [memberList_eq env mem hm, List.all_eq_true] at hn
    have := hn t ht
    simpa [isLeaf, hl] using this
  have hI : DoneClosed env σ ∧ InvP env f0 mem (PlacedB env f0) σ := by
    refine passList_inv (fun s => DoneClosed env s ∧ InvP env f0 mem (PlacedB env f0) s) _ _ ?_ _ _
      ⟨?_, InvP.init env f0 mem _ res0 0⟩ hp
    · intro a x b hx ha hh
      refine ⟨bwdPass_doneClosed env _ _ _ _ _ _ ha.1 hh, ?_⟩
      exact bwdPass_inv env (InvP env f0 mem (PlacedB env f0)) (fun t => t ∈ mem)
        (fun s s' t m v hq hi ht _ h => by
          obtain ⟨new, hr, hpl⟩ := bwdPlace_placed env f0 mem s s' t m v (hi.used_nonneg t) (hi.pre t ht) (hnf t hq) h
          exact hi.step ht hq (bwdPlace_ledger env s s' t m v hi.ledger h) hr hpl)
        (fun t c hq hc => members_children env mem hm t hq c hc)
        (fun t p hq _ he => (hmemb p).1 (he.trans ((hmemb t).2 hq))) _ _ _ _ _ _
        (members_root env mem hm x (List.mem_reverse.1 hx)) ha.2 hh
    · intro x hx; cases hx
  have hroots : ∀ r ∈ env.roots, r ∈ σ.done := fun r hr =>
    passList_all_done _ _ (fun a x b _ hh => bwdPass_ext env _ _ _ _ _ _ hh) _ _ hp r (List.mem_reverse.2 hr)
  refine ⟨mem, σ, hm, ho, hI.2, ?_⟩
  intro t ht
  obtain ⟨rt, hrt, l, hl, htl⟩ := (members_spec env mem hm).2 t ht
  exact hI.1.subtree (hroots rt hrt) _ l hl t htl




/-! ### from the invariant of the final state to the executable C04 predicates -/

section final
variable {env : Env} {f0 : Uid → Fields} {mem : List Uid} {P : Uid → Fields → List (Int × Rat) → Prop} {σ : SS}

/-- a row of the final ledger is one of the rows its task's placement reserved -/
theorem InvP.row_mem (hi : InvP env f0 mem P σ) (r : Row) (hr : r ∈ σ.rows) :
    r.task ∈ σ.done ∧ ∃ new, rowsOf σ.rows r.task = new.map (mkRow (env.info r.task).resource r.task) ∧
      P r.task (σ.f r.task) new ∧ ∃ p ∈ new, r = mkRow (env.info r.task).resource r.task p := by
  have hd := hi.rowsDone r hr
  obtain ⟨new, hn, hp⟩ := hi.placed r.task hd
  refine ⟨hd, new, hn, hp, ?_⟩
  have : r ∈ rowsOf σ.rows r.task := by simp [rowsOf, hr]
  rw [hn] at this
  obtain ⟨p, hp, he⟩ := List.mem_map.1 this
  exact ⟨p, hp, he.symm⟩

theorem c04Amount_of (hi : InvP env f0 mem P σ) (hm : memberList env = mem) (hall : ∀ t ∈ mem, t ∈ σ.done)
    (hcore : ∀ t g new, P t g new → PlacedCore env f0 t new) :
    c04Amount env f0 { f := σ.f, rows := σ.rows, res := σ.res } = true := by
  simp only [c04Amount, hm, List.all_eq_true, Bool.or_eq_true, Bool.not_eq_true', beq_iff_eq]
  intro t ht
  cases hw : works env f0 t with
  | false => exact Or.inl rfl
  | true =>
    right
    obtain ⟨new, hn, hp⟩ := hi.placed t (hall t ht)
    rw [hn, sumUnits_mk]
    exact (hcore _ _ _ hp).amount hw

theorem c04OncePerDay_of (hi : InvP env f0 mem P σ)
    (hcore : ∀ t g new, P t g new → PlacedCore env f0 t new) :
    c04OncePerDay { f := σ.f, rows := σ.rows, res := σ.res } = true := by
  simp only [c04OncePerDay, List.all_eq_true, beq_iff_eq]
  intro r hr
  obtain ⟨_, new, hn, hp, p, hpn, hrp⟩ := hi.row_mem r hr
  have : σ.rows.filter (fun x => x.task == r.task && x.day == r.day) =
      (rowsOf σ.rows r.task).filter (fun x => x.day == r.day) := by
    unfold rowsOf
    rw [List.filter_filter]
    congr 1
    funext x
    exact Bool.and_comm _ _
  rw [this, hn, List.filter_map, List.length_map]
  have hday : r.day = p.1 := by rw [hrp]; rfl
  rw [hday]
  exact once_length new p (hcore _ _ _ hp).once hpn

theorem c04None_of (hi : InvP env f0 mem P σ) (hm : memberList env = mem)
    (hcore : ∀ t g new, P t g new → PlacedCore env f0 t new) :
    c04None env f0 { f := σ.f, rows := σ.rows, res := σ.res } = true := by
  simp only [c04None, hm, List.all_eq_true, Bool.and_eq_true, List.contains_iff_mem]
  intro r hr
  obtain ⟨hd, new, hn, hp, p, hpn, hrp⟩ := hi.row_mem r hr
  refine ⟨?_, hi.doneMem _ hd⟩
  cases hw : works env f0 r.task with
  | true => rfl
  | false =>
    have := (hcore _ _ _ hp).none hw
    rw [this] at hpn; cases hpn

theorem c04Window_fwd_of (hi : InvP env f0 mem (PlacedF env f0) σ) :
    c04Window env true { f := σ.f, rows := σ.rows, res := σ.res } = true := by
  simp only [c04Window, List.all_eq_true]
  intro r hr
  obtain ⟨_, new, hn, hp, p, hpn, hrp⟩ := hi.row_mem r hr
  obtain ⟨s, e, hs, he, h1, h2, h3⟩ := hp.window p hpn
  have hday : r.day = p.1 := by rw [hrp]; rfl
  simp only [hs, he, hday]
  simp [h1, h2, h3]

theorem c04Window_bwd_of (hi : InvP env f0 mem (PlacedB env f0) σ) :
    c04Window env false { f := σ.f, rows := σ.rows, res := σ.res } = true := by
  simp only [c04Window, List.all_eq_true]
  intro r hr
  obtain ⟨_, new, hn, hp, p, hpn, hrp⟩ := hi.row_mem r hr
  obtain ⟨s, e, hs, he, h1, h2⟩ := hp.window p hpn
  have hday : r.day = p.1 := by rw [hrp]; rfl
  simp only [hs, he, hday]
  simp [h1, h2]

theorem c04StartFirstDay_of (hi : InvP env f0 mem (PlacedF env f0) σ) (hm : memberList env = mem)
    (hall : ∀ t ∈ mem, t ∈ σ.done) :
    c04StartFirstDay env f0 { f := σ.f, rows := σ.rows, res := σ.res } = true := by
  simp only [c04StartFirstDay, hm, List.all_eq_true]
  intro t ht
  cases hw : works env f0 t with
  | false => simp
  | true =>
    cases hs0 : (f0 t).start with
    | some s => simp
    | none =>
      simp only [Bool.not_true, Option.isSome_none, Bool.or_self, Bool.false_or]
      obtain ⟨new, hn, hp⟩ := hi.placed t (hall t ht)
      rw [hn]
      by_cases hne : new = []
      · subst hne; simp [firstDay]
      · obtain ⟨s, hs, p, hpn, hpd⟩ := hp.startFirst hs0 hne
        have hlow : ∀ q ∈ new, dayOf s ≤ q.1 := by
          intro q hq
          obtain ⟨s', _, hs', _, h1, _⟩ := hp.window q hq
          rw [hs] at hs'; cases hs'; exact h1
        rw [firstDay_mk _ _ new (dayOf s) ⟨p, hpn, hpd⟩ hlow, hs]
        simp

theorem c04EndLastDay_of (hi : InvP env f0 mem (PlacedF env f0) σ) (hm : memberList env = mem)
    (hall : ∀ t ∈ mem, t ∈ σ.done) :
    c04EndLastDay env f0 { f := σ.f, rows := σ.rows, res := σ.res } = true := by
  simp only [c04EndLastDay, hm, List.all_eq_true]
  intro t ht
  cases hw : works env f0 t with
  | false => simp
  | true =>
    simp only [Bool.not_true, Bool.false_or]
    obtain ⟨new, hn, hp⟩ := hi.placed t (hall t ht)
    rw [hn]
    by_cases hne : new = []
    · subst hne; simp [lastDay]
    · obtain ⟨e, d, he, h1, h2, h3, h4⟩ := hp.endLast hne
      rw [lastDay_mk _ _ new d h1 h2, he]
      simp [h3, h4]

theorem c04FixedKept_of (hi : InvP env f0 mem (PlacedF env f0) σ) (hm : memberList env = mem)
    (hall : ∀ t ∈ mem, t ∈ σ.done) :
    c04FixedKept env f0 { f := σ.f, rows := σ.rows, res := σ.res } = true := by
  simp only [c04FixedKept, hm, List.all_eq_true]
  intro t ht
  cases hl : isLeaf env t with
  | false => simp
  | true =>
    cases hms : (env.info t).milestone with
    | true => simp
    | false =>
      obtain ⟨new, _, hp⟩ := hi.placed t (hall t ht)
      obtain ⟨h1, h2⟩ := hp.fixed hl hms
      simp only [Bool.not_true, Bool.false_or, Bool.and_eq_true]
      constructor
      · cases hs : (f0 t).start with
        | none => rfl
        | some s => simp [h1 s hs]
      · cases he : (f0 t).end_ with
        | none => rfl
        | some e => simp [h2 e he]

theorem c04BwdStartFirstDay_of (hi : InvP env f0 mem (PlacedB env f0) σ) (hm : memberList env = mem)
    (hall : ∀ t ∈ mem, t ∈ σ.done) :
    c04BwdStartFirstDay env f0 { f := σ.f, rows := σ.rows, res := σ.res } = true := by
  simp only [c04BwdStartFirstDay, hm, List.all_eq_true]
  intro t ht
  cases hw : works env f0 t with
  | false => simp
  | true =>
    simp only [Bool.not_true, Bool.false_or]
    obtain ⟨new, hn, hp⟩ := hi.placed t (hall t ht)
    rw [hn]
    by_cases hne : new = []
    · subst hne; simp [firstDay]
    · obtain ⟨s, d, hs, h1, h2, h3, h4⟩ := hp.startFirst hne
      rw [firstDay_mk _ _ new d h1 h2, hs]
      simp [h3, h4]

end final

/-! ### the two entry points -/

theorem forwardCalc_c04 (env : Env) (f0 : Uid → Fields) (res0 : List (Option Nat × Cal)) (o : Output)
    (hf : env.flagsOK) (hc : env.clockOK) (h : forwardCalc env f0 res0 = .ok o) :
    c04Amount env f0 o = true ∧ c04OncePerDay o = true ∧ c04Window env true o = true ∧ c04None env f0 o = true ∧
    c04StartFirstDay env f0 o = true ∧ c04EndLastDay env f0 o = true ∧ c04FixedKept env f0 o = true := by
  obtain ⟨mem, σ, hm, rfl, hi, hall⟩ := fwdRun_inv env f0 res0 o hf hc (forwardCalc_run env f0 res0 o h)
  have hml := memberList_eq env mem hm
  have hcore : ∀ t g new, PlacedF env f0 t g new → PlacedCore env f0 t new := fun _ _ _ hp => hp.core
  exact ⟨c04Amount_of hi hml hall hcore, c04OncePerDay_of hi hcore, c04Window_fwd_of hi, c04None_of hi hml hcore,
    c04StartFirstDay_of hi hml hall, c04EndLastDay_of hi hml hall, c04FixedKept_of hi hml hall⟩

theorem backwardCalc_c04 (env : Env) (f0 : Uid → Fields) (res0 : List (Option Nat × Cal)) (o : Output)
    (hf : env.flagsOK) (hn : noFixedDates env f0 = true) (h : backwardCalc env f0 res0 = .ok o) :
    c04Amount env f0 o = true ∧ c04OncePerDay o = true ∧ c04Window env false o = true ∧ c04None env f0 o = true ∧
    c04BwdStartFirstDay env f0 o = true := by
  obtain ⟨mem, σ, hm, rfl, hi, hall⟩ := bwdRun_inv env f0 res0 o hf hn (backwardCalc_run env f0 res0 o h)
  have hml := memberList_eq env mem hm
  have hcore : ∀ t g new, PlacedB env f0 t g new → PlacedCore env f0 t new := fun _ _ _ hp => hp.core
  exact ⟨c04Amount_of hi hml hall hcore, c04OncePerDay_of hi hcore, c04Window_bwd_of hi, c04None_of hi hml hcore,
    c04BwdStartFirstDay_of hi hml hall⟩

end C04
end Pj
