/-
  Lemmas/TaskSrcC.lean — stage C of the translated tie for task.py: the `predecessors` / `successors` setters (general
  theorems).  The part about `successors` is the part about `predecessors` with the two fields swapped.
  See Lemmas/TaskSrc.lean for the setting and the list of results.
-/
import PjVerif.Lemmas.TaskSrcB
namespace Pj.TaskSrc
open Pj.PyLite Pj.Extracted
set_option linter.unusedSimpArgs false
set_option linter.unusedVariables false

/-! ### stage C: the `predecessors` / `successors` setters -/

/-- a checking loop whose model may run out of fuel at some item: only the items up to the first failing one matter -/
theorem forLoopP_check' (x : String) (body : PyLite.Env → PState → OutcomeP) (P : PyLite.Env → Prop)
    (chk : Atom → Option Err) (st : PState) :
    ∀ (vs : List Atom),
      (∀ ρ v, v ∈ vs → P ρ → chk v ≠ some (.crash .recursion) →
        match chk v with
        | none => ∃ ρ', P ρ' ∧ body (ρ.set x v) st = .normal ρ' st
        | some e => body (ρ.set x v) st = .raise e) →
      vs.findSome? chk ≠ some (.crash .recursion) →
      ∀ ρ, P ρ →
        match vs.findSome? chk with
        | none => ∃ ρ', P ρ' ∧ forLoopP x body vs ρ st = .normal ρ' st
        | some e => forLoopP x body vs ρ st = .raise e := by
  intro vs
  induction vs with
  | nil => intro _ _ ρ hP; exact ⟨ρ, hP, rfl⟩
  | cons v vs ih =>
    intro hb hne ρ hP
    simp only [List.findSome?_cons] at hne ⊢
    cases hc : chk v with
    | some e =>
      rw [hc] at hne
      have h1 := hb ρ v List.mem_cons_self hP (by rw [hc]; exact hne)
      rw [hc] at h1
      simp only [forLoopP, h1]
    | none =>
      rw [hc] at hne
      have h1 := hb ρ v List.mem_cons_self hP (by rw [hc]; simp)
      rw [hc] at h1
      obtain ⟨ρ', hP', hbody⟩ := h1
      have h2 := ih (fun ρ v hv => hb ρ v (List.mem_cons_of_mem _ hv)) hne ρ' hP'
      simp only [forLoopP, hbody]
      exact h2

theorem execP_setAttr (H : PHandlers) (self : PyLite.Env) (rec : List Atom → PState → Res (Val × PState)) (o : Expr)
    (f : String) (e : Expr) (ρ : PyLite.Env) (st st1 st2 : PState) (v : Val) (i : Nat)
    (he : e.evalP H self ρ st = .ok (v, st1)) (ho : o.evalP H self ρ st1 = .ok (.atom (.ref i), st2)) :
    (Stmt.setAttr o f e).execP H self rec ρ st = .normal ρ { st2 with heap := heapSet st2.heap i f v } := by
  simp only [Stmt.execP, he, ho, bind, Except.bind, pure, Except.pure]

/-- the local environment of the two link setters after their first four statements -/
structure LinkEnv (ρ : PyLite.Env) (t : Uid) (l anc desc : List Uid) : Prop where
  self : ρ.get? "self" = some (.atom (.ref t))
  value : ρ.get? "value" = some (refs l)
  parents : ρ.get? "parents" = some (refs anc)
  children : ρ.get? "children" = some (refs desc)

theorem LinkEnv.setv {ρ : PyLite.Env} {t : Uid} {l anc desc : List Uid} (h : LinkEnv ρ t l anc desc) (v : Val) :
    LinkEnv (Env.set ρ "v" v) t l anc desc :=
  ⟨by rw [Env.get?_set, if_neg (by decide)]; exact h.self, by rw [Env.get?_set, if_neg (by decide)]; exact h.value,
   by rw [Env.get?_set, if_neg (by decide)]; exact h.parents, by rw [Env.get?_set, if_neg (by decide)]; exact h.children⟩

/-- first validation loop of `chkLinks`: no ancestor, no descendant -/
def relChk (anc desc : List Uid) : Atom → Option Err
  | .ref v => if anc.contains v || desc.contains v then some .runtime else none
  | _ => none

theorem findSome_relChk (anc desc l : List Uid) :
    (l.map Atom.ref).findSome? (relChk anc desc) =
      if l.any (fun v => anc.contains v || desc.contains v) then some .runtime else none := by
  induction l with
  | nil => rfl
  | cons a l ih =>
    simp only [List.map_cons, List.findSome?_cons, relChk, List.any_cons, ih]
    by_cases h : (anc.contains a || desc.contains a) = true
    · simp only [h, if_true, Bool.true_or]
    · have h' : (anc.contains a || desc.contains a) = false := by simpa using h
      simp only [h', Bool.false_eq_true, if_false, Bool.false_or]

/-- second validation loop of `chkLinks`: no cycle -/
def cycChk (next : Uid → List Uid) (f : Nat) (t : Uid) : Atom → Option Err
  | .ref v =>
    if v = t then some .runtime
    else match descF next f v with
      | none => some (.crash .recursion)
      | some r => if r.contains t then some .runtime else none
  | _ => none

/-- the cycle check of `chkLinks` for one item -/
def cycF (next : Uid → List Uid) (f : Nat) (t : Uid) (v : Uid) : Option Err :=
  if v = t then some .runtime
  else match descF next f v with
    | none => some (.crash .recursion)
    | some r => if r.contains t then some .runtime else none

theorem findSome_cycChk (next : Uid → List Uid) (f : Nat) (t : Uid) (l : List Uid) :
    (l.map Atom.ref).findSome? (cycChk next f t) = l.findSome? (cycF next f t) := by
  induction l with
  | nil => rfl
  | cons a l ih => simp only [List.map_cons, List.findSome?_cons, cycChk, cycF, ih]

theorem chkLinks_eq (s : G) (next : Uid → List Uid) (t : Uid) (l : List Uid) :
    chkLinks s next t l =
      match ancF s s.fuel (s.parent t) with
      | none => some (.crash .recursion)
      | some anc =>
        match descF s.children s.fuel t with
        | none => some (.crash .recursion)
        | some desc =>
          if l.any (fun v => anc.contains v || desc.contains v) then some .runtime
          else l.findSome? (cycF next s.fuel t) := rfl

theorem filter_filter_ne (l : List Uid) (t : Uid) :
    (l.filter (fun x => x != t)).filter (fun x => x != t) = l.filter (fun x => x != t) := by
  rw [List.filter_filter]; congr 1; funext x; simp

/-! the two mutation loops as folds over the graph state -/

/-- `v.__successors = [x for x in v.__successors if x is not t]` -/
def unlinkS (t : Uid) (s' : G) (v : Uid) : G :=
  { s' with succs := upd s'.succs v ((s'.succs v).filter (fun x => x != t)) }
def unlinkSA (t : Uid) (s' : G) : Atom → G
  | .ref v => unlinkS t s' v
  | _ => s'

theorem foldl_unlinkSA (t : Uid) (l : List Uid) (s0 : G) :
    (l.map Atom.ref).foldl (unlinkSA t) s0 =
      { s0 with succs := fun v => if l.contains v then (s0.succs v).filter (fun x => x != t) else s0.succs v } := by
  induction l generalizing s0 with
  | nil => simp
  | cons a l ih =>
    simp only [List.map_cons, List.foldl_cons, unlinkSA, ih, unlinkS]
    congr 1
    funext v
    simp only [List.contains_cons]
    by_cases hva : v = a
    · subst hva
      simp only [upd_same, filter_filter_ne, BEq.rfl, Bool.true_or, if_true]
      split <;> rfl
    · have hb : (v == a) = false := by simpa using hva
      simp only [upd_other _ _ _ _ hva, hb, Bool.false_or]

/-- `if t not in v.__successors: v.__successors.append(t)` -/
def linkS (t : Uid) (s' : G) (v : Uid) : G :=
  if (s'.succs v).contains t then s' else { s' with succs := upd s'.succs v (s'.succs v ++ [t]) }
def linkSA (t : Uid) (s' : G) : Atom → G
  | .ref v => linkS t s' v
  | _ => s'

theorem foldl_linkSA (t : Uid) (l : List Uid) (s0 : G) :
    (l.map Atom.ref).foldl (linkSA t) s0 =
      { s0 with succs := fun v => if l.contains v ∧ !(s0.succs v).contains t then s0.succs v ++ [t] else s0.succs v } := by
  induction l generalizing s0 with
  | nil => simp
  | cons a l ih =>
    simp only [List.map_cons, List.foldl_cons, linkSA, ih, linkS]
    cases hc : (s0.succs a).contains t with
    | true =>
      simp only [if_true]
      congr 1
      funext v
      simp only [List.contains_cons]
      by_cases hva : v = a
      · subst hva
        have hm : t ∈ s0.succs v := by simpa using hc
        simp [hm]
      · have hb : (v == a) = false := by simpa using hva
        simp only [hb, Bool.false_or]
    | false =>
      simp only [Bool.false_eq_true, if_false]
      congr 1
      funext v
      simp only [List.contains_cons]
      by_cases hva : v = a
      · subst hva
        have hm : t ∉ s0.succs v := by simpa using hc
        simp [hm, upd_same]
      · have hb : (v == a) = false := by simpa using hva
        simp only [upd_other _ _ _ _ hva, hb, Bool.false_or]

theorem mutPreds_eq (s : G) (t : Uid) (l : List Uid) :
    mutPreds s t l =
      (l.map Atom.ref).foldl (linkSA t)
        { ((s.preds t).map Atom.ref).foldl (unlinkSA t) s with
          preds := upd (((s.preds t).map Atom.ref).foldl (unlinkSA t) s).preds t l } := by
  rw [foldl_linkSA, foldl_unlinkSA]
  rfl

/-! #### the `predecessors` setter -/

theorem tf_preds_set : taskFuns fn_Task_predecessors_set =
    some (src_Task_predecessors_set_params, src_Task_predecessors_set) := rfl

def pdL1 : Stmt := match src_Task_predecessors_set with | _ :: _ :: _ :: _ :: l :: _ => l | _ => .pass
def pdL2 : Stmt := match src_Task_predecessors_set with | _ :: _ :: _ :: _ :: _ :: l :: _ => l | _ => .pass
def pdL3 : Stmt := match src_Task_predecessors_set with | _ :: _ :: _ :: _ :: _ :: _ :: l :: _ => l | _ => .pass
def pdL4 : Stmt := match src_Task_predecessors_set with | _ :: _ :: _ :: _ :: _ :: _ :: _ :: _ :: l :: _ => l | _ => .pass
def pdB1 : List Stmt := match pdL1 with | .forIn _ _ b => b | _ => []
def pdB2 : List Stmt := match pdL2 with | .forIn _ _ b => b | _ => []
def pdB3 : List Stmt := match pdL3 with | .forIn _ _ b => b | _ => []
def pdB4 : List Stmt := match pdL4 with | .forIn _ _ b => b | _ => []

theorem pd_shape : src_Task_predecessors_set =
    [.assign "value" (.callFn fn_to_list (.listCons (.var "value") .listNil)),
     .expr (.callFn fn_check_no_nones_in_list (.listCons (.var "value") .listNil)),
     .assign "parents" (.callFn fn_Task_get_all_parents (.listCons (.var "self") .listNil)),
     .assign "children" (.callFn fn_Task_get_all_children (.listCons (.var "self") .listNil)),
     pdL1, pdL2, pdL3,
     .setAttr (.var "self") "predecessors" (.listComp (.var "v") "v" (.var "value") (.bool true)),
     pdL4] := rfl
theorem pdL1_eq : pdL1 = .forIn "v" (.var "value") pdB1 := rfl
theorem pdL2_eq : pdL2 = .forIn "v" (.var "value") pdB2 := rfl
theorem pdL3_eq : pdL3 = .forIn "v" (.attr (.var "self") "predecessors") pdB3 := rfl
theorem pdL4_eq : pdL4 = .forIn "v" (.var "value") pdB4 := rfl

section preds
variable (s : G) (st : PState) (hh : st.heap = encHeap s) (t : Uid) (l anc desc : List Uid) (F : Nat)

theorem pd_l1 (ρ : PyLite.Env) (hρ : LinkEnv ρ t l anc desc) :
    ∃ ρ', LinkEnv ρ' t l anc desc ∧ pdL1.execP (Hd F) [] noRec ρ st =
      if l.any (fun v => anc.contains v || desc.contains v) then .raise .runtime else .normal ρ' st := by
  rw [pdL1_eq, execP_forIn (vs := l.map Atom.ref) (st' := st) (hit := evalP_var _ _ _ _ _ _ hρ.value)]
  have := forLoopP_check "v" (fun ρ st => execBlockP (Hd F) [] noRec pdB1 ρ st)
    (fun ρ => LinkEnv ρ t l anc desc) (relChk anc desc) st (l.map Atom.ref)
    (by
      intro ρ v hv hP
      obtain ⟨c, _, rfl⟩ := List.mem_map.1 hv
      have ha := any_ref_pyEq anc c
      have hd := any_ref_pyEq desc c
      have hpa := hP.parents
      have hch := hP.children
      simp only [refs] at hpa hch
      generalize anc.map Atom.ref = A at ha hpa
      generalize desc.map Atom.ref = D at hd hch
      simp only [relChk]
      cases hca : anc.contains c with
      | true =>
        rw [hca] at ha
        simp only [Bool.true_or, if_true]
        pyl [pdB1, pdL1, src_Task_predecessors_set, hpa, hch, ha, hd]
      | false =>
        rw [hca] at ha
        cases hcd : desc.contains c with
        | true =>
          rw [hcd] at hd
          simp only [Bool.false_or, if_true]
          pyl [pdB1, pdL1, src_Task_predecessors_set, hpa, hch, ha, hd]
        | false =>
          rw [hcd] at hd
          simp only [Bool.false_or, Bool.false_eq_true, if_false]
          refine ⟨Env.set ρ "v" (.atom (.ref c)), hP.setv _, ?_⟩
          have hpa' := (hP.setv (.atom (.ref c))).parents
          have hch' := (hP.setv (.atom (.ref c))).children
          pyl [pdB1, pdL1, src_Task_predecessors_set, hpa, hch, ha, hd])
    ρ hρ
  rw [findSome_relChk] at this
  cases hany : l.any (fun v => anc.contains v || desc.contains v) with
  | true =>
    rw [hany, if_pos rfl] at this
    exact ⟨ρ, hρ, by rw [this]; rfl⟩
  | false =>
    rw [hany, if_neg (by decide)] at this
    obtain ⟨ρ', hP', hl⟩ := this
    exact ⟨ρ', hP', by rw [hl]; rfl⟩

theorem contains_eraseDups' (l : List Uid) (a : Uid) : l.eraseDups.contains a = l.contains a :=
  contains_eraseDups l a

include hh

theorem pd_l2 (hF : s.fuel + 1 ≤ F)
    (hrec : l.findSome? (cycF s.preds s.fuel t) ≠ some (.crash .recursion))
    (ρ : PyLite.Env) (hρ : LinkEnv ρ t l anc desc) :
    match l.findSome? (cycF s.preds s.fuel t) with
    | none => ∃ ρ', LinkEnv ρ' t l anc desc ∧ pdL2.execP (Hd F) [] noRec ρ st = .normal ρ' st
    | some e => pdL2.execP (Hd F) [] noRec ρ st = .raise e := by
  rw [pdL2_eq, execP_forIn (vs := l.map Atom.ref) (st' := st) (hit := evalP_var _ _ _ _ _ _ hρ.value)]
  rw [← findSome_cycChk] at hrec ⊢
  refine forLoopP_check' "v" (fun ρ st => execBlockP (Hd F) [] noRec pdB2 ρ st)
    (fun ρ => LinkEnv ρ t l anc desc) (cycChk s.preds s.fuel t) st (l.map Atom.ref) ?_ hrec ρ hρ
  intro ρ v hv hP hne
  obtain ⟨c, _, rfl⟩ := List.mem_map.1 hv
  have hse := (hP.setv (.atom (.ref c))).self
  simp only [cycChk] at hne ⊢
  by_cases hct : c = t
  · subst hct
    simp only [if_true]
    pyl [pdB2, pdL2, src_Task_predecessors_set, hse]
  · simp only [hct, if_false] at hne ⊢
    cases hd : descF s.preds s.fuel c with
    | none => simp [hd] at hne
    | some r =>
      have hcall := get_all_predecessors_spec s st hh _ c r hd F hF
      have hany := (any_ref_pyEq r.eraseDups t).trans (contains_eraseDups r t)
      simp only [refs] at hcall
      generalize r.eraseDups.map Atom.ref = R at hany hcall
      simp only []
      cases hc : r.contains t with
      | true =>
        rw [hc] at hany
        simp only [if_true]
        pyl [pdB2, pdL2, src_Task_predecessors_set, hse, hct, hcall, hany]
      | false =>
        rw [hc] at hany
        simp only [Bool.false_eq_true, if_false]
        refine ⟨Env.set ρ "v" (.atom (.ref c)), hP.setv _, ?_⟩
        pyl [pdB2, pdL2, src_Task_predecessors_set, hse, hct, hcall, hany]

omit hh in
/-- `for v in self.__predecessors: v.__successors = [x for x in v.__successors if x is not self]` -/
theorem pd_l3 (s0 : G) (ρ : PyLite.Env) (hρ : LinkEnv ρ t l anc desc) :
    ∃ ρ', LinkEnv ρ' t l anc desc ∧ pdL3.execP (Hd F) [] noRec ρ (withG st s0) =
      .normal ρ' (withG st (((s0.preds t).map Atom.ref).foldl (unlinkSA t) s0)) := by
  rw [pdL3_eq, execP_forIn (vs := (s0.preds t).map Atom.ref) (st' := withG st s0)
    (hit := by pyl [hρ.self, refs])]
  have := forLoopP_foldM "v" (fun ρ st => execBlockP (Hd F) [] noRec pdB3 ρ st)
    (fun (s' : G) ρ st' => st' = withG st s' ∧ LinkEnv ρ t l anc desc)
    (fun s' v => .ok (unlinkSA t s' v)) ((s0.preds t).map Atom.ref)
    (by
      intro s' v ρ st' hv hR
      obtain ⟨rfl, hP⟩ := hR
      obtain ⟨c, _, rfl⟩ := List.mem_map.1 hv
      refine ⟨Env.set ρ "v" (.atom (.ref c)), withG st (unlinkS t s' c), ?_, rfl, hP.setv _⟩
      have hse := (hP.setv (.atom (.ref c))).self
      have hcomp : (Expr.listComp (.var "t") "t" (.attr (.var "v") "successors")
            (.not (.isSame (.var "t") (.var "self")))).evalP (Hd F) [] (Env.set ρ "v" (.atom (.ref c))) (withG st s') =
          .ok (refs ((s'.succs c).filter (fun x => x != t)), withG st s') := by
        rw [evalP_listComp_pure (vs := (s'.succs c).map Atom.ref) (st := withG st s')
          (p := refP (fun x => x != t)) (e := fun v => v)
          (hit := by pyl [refs])
          (hc := by
            intro v hv
            obtain ⟨x, _, rfl⟩ := List.mem_map.1 hv
            have hse' : (Env.set (Env.set ρ "v" (.atom (.ref c))) "t" (.atom (.ref x))).get? "self" =
                some (.atom (.ref t)) := by rw [Env.get?_set, if_neg (by decide)]; exact hse
            by_cases hxt : x = t
            · subst hxt; pyl [hse', refP]
            · pyl [hse', refP, hxt])
          (he := by intro v _ _; simp [Expr.evalP, Env.get?_set, pure, Except.pure])]
        rw [List.map_id', filter_refP, refs]
      unfold pdB3 pdL3
      simp only [src_Task_predecessors_set]
      have hset := heapSet_succs s' c ((s'.succs c).filter (fun x => x != t))
      rw [execBlockP_cons, execP_setAttr (he := hcomp)
        (ho := evalP_var _ _ _ _ _ _ (by rw [Env.get?_set, if_pos rfl]))]
      simp only [withG_heap, hset, execBlockP_nil]
      rfl)
    s0 ρ (withG st s0) ⟨rfl, hρ⟩
  rw [foldlM_ok (unlinkSA t)] at this
  obtain ⟨ρ', st', hl, rfl, hP'⟩ := this
  exact ⟨ρ', hP', hl⟩

omit hh in
/-- `for v in value: if self not in v.__successors: v.__successors.append(self)` -/
theorem pd_l4 (s0 : G) (ρ : PyLite.Env) (hρ : LinkEnv ρ t l anc desc) :
    ∃ ρ', pdL4.execP (Hd F) [] noRec ρ (withG st s0) =
      .normal ρ' (withG st ((l.map Atom.ref).foldl (linkSA t) s0)) := by
  rw [pdL4_eq, execP_forIn (vs := l.map Atom.ref) (st' := withG st s0) (hit := evalP_var _ _ _ _ _ _ hρ.value)]
  have := forLoopP_foldM "v" (fun ρ st => execBlockP (Hd F) [] noRec pdB4 ρ st)
    (fun (s' : G) ρ st' => st' = withG st s' ∧ LinkEnv ρ t l anc desc)
    (fun s' v => .ok (linkSA t s' v)) (l.map Atom.ref)
    (by
      intro s' v ρ st' hv hR
      obtain ⟨rfl, hP⟩ := hR
      obtain ⟨c, _, rfl⟩ := List.mem_map.1 hv
      refine ⟨Env.set ρ "v" (.atom (.ref c)), withG st (linkS t s' c), ?_, rfl, hP.setv _⟩
      have hse := (hP.setv (.atom (.ref c))).self
      have hany := any_ref_pyEq (s'.succs c) t
      unfold linkS
      cases hc : (s'.succs c).contains t with
      | true =>
        rw [hc] at hany
        simp only [if_true]
        pyl [pdB4, pdL4, src_Task_predecessors_set, hse, refs, hany]
      | false =>
        rw [hc] at hany
        simp only [Bool.false_eq_true, if_false]
        have happ := heapSet_succs s' c (s'.succs c ++ [t])
        simp only [refs, List.map_append, List.map_cons, List.map_nil] at happ
        pyl [pdB4, pdL4, src_Task_predecessors_set, hse, refs, hany, happ, mk_withG])
    s0 ρ (withG st s0) ⟨rfl, hρ⟩
  rw [foldlM_ok (linkSA t)] at this
  obtain ⟨ρ', st', hl, rfl, -⟩ := this
  exact ⟨ρ', hl⟩

/-- STAGE C.  `t.predecessors = l` = `setPreds`, for EVERY state `s` -/
theorem preds_set_spec (v : Val) (hv : ValueOf v l) (hF : s.fuel + 3 ≤ F)
    (hrec : (setPreds s t l).2 ≠ some (.crash .recursion)) :
    (Hd F).fnV fn_Task_predecessors_set [.atom (.ref t), v] st = setterResult st (setPreds s t l) := by
  obtain ⟨F, rfl⟩ : ∃ F', F = F' + 2 := ⟨F - 2, by omega⟩
  rw [fnV_succ _ _ _ _ tf_preds_set, callPV_eq]
  simp only [src_Task_predecessors_set_params, bindParamsV, pure, Except.pure, bind, Except.bind, pd_shape]
  unfold setPreds at hrec ⊢
  rw [chkLinks_eq] at hrec ⊢
  cases ha : ancF s s.fuel (s.parent t) with
  | none => simp [ha] at hrec
  | some anc =>
    cases hd : descF s.children s.fuel t with
    | none => simp [ha, hd] at hrec
    | some desc =>
      simp only [ha, hd] at hrec ⊢
      -- the first four statements
      rw [execBlockP_cons, execP_assign (he := by
        rw [evalP_callFn1 (ha := evalP_var _ _ _ _ _ _ rfl)]; exact hv st F)]
      simp only []
      rw [execBlockP_cons, execP_expr (he := by
        rw [evalP_callFn1 (ha := evalP_var _ _ _ _ _ _ (by rw [Env.get?_set, if_pos rfl]))]
        exact check_no_nones_spec st F l)]
      simp only []
      rw [execBlockP_cons, execP_assign (he := by
        rw [evalP_callFn1 (ha := evalP_var _ _ _ _ _ _ (by rw [Env.get?_set, if_neg (by decide)]; rfl))]
        exact get_all_parents_spec s st hh _ t anc ha (F + 1) (by omega))]
      simp only []
      rw [execBlockP_cons, execP_assign (he := by
        rw [evalP_callFn1 (ha := evalP_var _ _ _ _ _ _
          (by rw [Env.get?_set, if_neg (by decide), Env.get?_set, if_neg (by decide)]; rfl))]
        exact get_all_children_spec s st hh _ t desc hd (F + 1) (by omega))]
      simp only []
      have hρ4 : LinkEnv (Env.set (Env.set (Env.set [("self", Val.atom (Atom.ref t)), ("value", v)] "value" (refs l))
          "parents" (refs anc)) "children" (refs desc)) t l anc desc :=
        ⟨by simp [Env.get?_set, Env.get?_cons], by simp [Env.get?_set, Env.get?_cons],
         by simp [Env.get?_set, Env.get?_cons], by simp [Env.get?_set, Env.get?_cons]⟩
      generalize (Env.set (Env.set (Env.set [("self", Val.atom (Atom.ref t)), ("value", v)] "value" (refs l))
          "parents" (refs anc)) "children" (refs desc)) = ρ4 at hρ4
      -- the two validation loops
      obtain ⟨ρ5, hρ5, h1⟩ := pd_l1 st t l anc desc (F + 1) ρ4 hρ4
      rw [execBlockP_cons, h1]
      cases hany : l.any (fun v => anc.contains v || desc.contains v) with
      | true => simp only [if_true, setterResult]
      | false =>
        simp only [hany, Bool.false_eq_true, if_false] at hrec ⊢
        have h2 := pd_l2 s st hh t l anc desc (F + 1) (by omega)
          (by intro hc; apply hrec; simp only [hc]) ρ5 hρ5
        rw [execBlockP_cons]
        cases hf : l.findSome? (cycF s.preds s.fuel t) with
        | some e =>
          rw [hf] at h2
          simp only [h2, setterResult]
        | none =>
          rw [hf] at h2
          obtain ⟨ρ6, hρ6, h2⟩ := h2
          simp only [h2]
          -- the mutations
          obtain ⟨ρ7, hρ7, h3⟩ := pd_l3 st t l anc desc (F + 1) s ρ6 hρ6
          rw [withG_self st s hh] at h3
          rw [execBlockP_cons, h3]
          simp only []
          generalize hs3 : ((s.preds t).map Atom.ref).foldl (unlinkSA t) s = s3
          have hcomp : (Expr.listComp (.var "v") "v" (.var "value") (.bool true)).evalP (Hd (F + 1)) [] ρ7
              (withG st s3) = .ok (refs l, withG st s3) :=
            evalP_listComp_id _ _ _ _ _ _ _ _ (evalP_var _ _ _ _ _ _ hρ7.value)
          rw [execBlockP_cons, execP_setAttr (he := hcomp) (ho := evalP_var _ _ _ _ _ _ hρ7.self)]
          simp only [withG_heap, heapSet_preds, mk_withG, withG_L, withG_done, withG_res, withG_reads, withG_boxes]
          obtain ⟨ρ8, h4⟩ := pd_l4 st t l anc desc (F + 1) { s3 with preds := upd s3.preds t l } ρ7 hρ7
          rw [execBlockP_cons, h4]
          simp only [execBlockP_nil, setterResult]
          rw [mutPreds_eq, hs3]

end preds

/-! the same for the `successors` setter (the text above with the two fields swapped) -/

/-- `v.__predecessors = [x for x in v.__predecessors if x is not t]` -/
def unlinkP (t : Uid) (s' : G) (v : Uid) : G :=
  { s' with preds := upd s'.preds v ((s'.preds v).filter (fun x => x != t)) }
def unlinkPA (t : Uid) (s' : G) : Atom → G
  | .ref v => unlinkP t s' v
  | _ => s'

theorem foldl_unlinkPA (t : Uid) (l : List Uid) (s0 : G) :
    (l.map Atom.ref).foldl (unlinkPA t) s0 =
      { s0 with preds := fun v => if l.contains v then (s0.preds v).filter (fun x => x != t) else s0.preds v } := by
  induction l generalizing s0 with
  | nil => simp
  | cons a l ih =>
    simp only [List.map_cons, List.foldl_cons, unlinkPA, ih, unlinkP]
    congr 1
    funext v
    simp only [List.contains_cons]
    by_cases hva : v = a
    · subst hva
      simp only [upd_same, filter_filter_ne, BEq.rfl, Bool.true_or, if_true]
      split <;> rfl
    · have hb : (v == a) = false := by simpa using hva
      simp only [upd_other _ _ _ _ hva, hb, Bool.false_or]

/-- `if t not in v.__predecessors: v.__predecessors.append(t)` -/
def linkP (t : Uid) (s' : G) (v : Uid) : G :=
  if (s'.preds v).contains t then s' else { s' with preds := upd s'.preds v (s'.preds v ++ [t]) }
def linkPA (t : Uid) (s' : G) : Atom → G
  | .ref v => linkP t s' v
  | _ => s'

theorem foldl_linkPA (t : Uid) (l : List Uid) (s0 : G) :
    (l.map Atom.ref).foldl (linkPA t) s0 =
      { s0 with preds := fun v => if l.contains v ∧ !(s0.preds v).contains t then s0.preds v ++ [t] else s0.preds v } := by
  induction l generalizing s0 with
  | nil => simp
  | cons a l ih =>
    simp only [List.map_cons, List.foldl_cons, linkPA, ih, linkP]
    cases hc : (s0.preds a).contains t with
    | true =>
      simp only [if_true]
      congr 1
      funext v
      simp only [List.contains_cons]
      by_cases hva : v = a
      · subst hva
        have hm : t ∈ s0.preds v := by simpa using hc
        simp [hm]
      · have hb : (v == a) = false := by simpa using hva
        simp only [hb, Bool.false_or]
    | false =>
      simp only [Bool.false_eq_true, if_false]
      congr 1
      funext v
      simp only [List.contains_cons]
      by_cases hva : v = a
      · subst hva
        have hm : t ∉ s0.preds v := by simpa using hc
        simp [hm, upd_same]
      · have hb : (v == a) = false := by simpa using hva
        simp only [upd_other _ _ _ _ hva, hb, Bool.false_or]

theorem mutSuccs_eq (s : G) (t : Uid) (l : List Uid) :
    mutSuccs s t l =
      (l.map Atom.ref).foldl (linkPA t)
        { ((s.succs t).map Atom.ref).foldl (unlinkPA t) s with
          succs := upd (((s.succs t).map Atom.ref).foldl (unlinkPA t) s).succs t l } := by
  rw [foldl_linkPA, foldl_unlinkPA]
  rfl

/-! #### the `successors` setter -/

theorem tf_succs_set : taskFuns fn_Task_successors_set =
    some (src_Task_successors_set_params, src_Task_successors_set) := rfl

def sdL1 : Stmt := match src_Task_successors_set with | _ :: _ :: _ :: _ :: l :: _ => l | _ => .pass
def sdL2 : Stmt := match src_Task_successors_set with | _ :: _ :: _ :: _ :: _ :: l :: _ => l | _ => .pass
def sdL3 : Stmt := match src_Task_successors_set with | _ :: _ :: _ :: _ :: _ :: _ :: l :: _ => l | _ => .pass
def sdL4 : Stmt := match src_Task_successors_set with | _ :: _ :: _ :: _ :: _ :: _ :: _ :: _ :: l :: _ => l | _ => .pass
def sdB1 : List Stmt := match sdL1 with | .forIn _ _ b => b | _ => []
def sdB2 : List Stmt := match sdL2 with | .forIn _ _ b => b | _ => []
def sdB3 : List Stmt := match sdL3 with | .forIn _ _ b => b | _ => []
def sdB4 : List Stmt := match sdL4 with | .forIn _ _ b => b | _ => []

theorem sd_shape : src_Task_successors_set =
    [.assign "value" (.callFn fn_to_list (.listCons (.var "value") .listNil)),
     .expr (.callFn fn_check_no_nones_in_list (.listCons (.var "value") .listNil)),
     .assign "parents" (.callFn fn_Task_get_all_parents (.listCons (.var "self") .listNil)),
     .assign "children" (.callFn fn_Task_get_all_children (.listCons (.var "self") .listNil)),
     sdL1, sdL2, sdL3,
     .setAttr (.var "self") "successors" (.listComp (.var "v") "v" (.var "value") (.bool true)),
     sdL4] := rfl
theorem sdL1_eq : sdL1 = .forIn "v" (.var "value") sdB1 := rfl
theorem sdL2_eq : sdL2 = .forIn "v" (.var "value") sdB2 := rfl
theorem sdL3_eq : sdL3 = .forIn "v" (.attr (.var "self") "successors") sdB3 := rfl
theorem sdL4_eq : sdL4 = .forIn "v" (.var "value") sdB4 := rfl

section succs
variable (s : G) (st : PState) (hh : st.heap = encHeap s) (t : Uid) (l anc desc : List Uid) (F : Nat)

theorem sd_l1 (ρ : PyLite.Env) (hρ : LinkEnv ρ t l anc desc) :
    ∃ ρ', LinkEnv ρ' t l anc desc ∧ sdL1.execP (Hd F) [] noRec ρ st =
      if l.any (fun v => anc.contains v || desc.contains v) then .raise .runtime else .normal ρ' st := by
  rw [sdL1_eq, execP_forIn (vs := l.map Atom.ref) (st' := st) (hit := evalP_var _ _ _ _ _ _ hρ.value)]
  have := forLoopP_check "v" (fun ρ st => execBlockP (Hd F) [] noRec sdB1 ρ st)
    (fun ρ => LinkEnv ρ t l anc desc) (relChk anc desc) st (l.map Atom.ref)
    (by
      intro ρ v hv hP
      obtain ⟨c, _, rfl⟩ := List.mem_map.1 hv
      have ha := any_ref_pyEq anc c
      have hd := any_ref_pyEq desc c
      have hpa := hP.parents
      have hch := hP.children
      simp only [refs] at hpa hch
      generalize anc.map Atom.ref = A at ha hpa
      generalize desc.map Atom.ref = D at hd hch
      simp only [relChk]
      cases hca : anc.contains c with
      | true =>
        rw [hca] at ha
        simp only [Bool.true_or, if_true]
        pyl [sdB1, sdL1, src_Task_successors_set, hpa, hch, ha, hd]
      | false =>
        rw [hca] at ha
        cases hcd : desc.contains c with
        | true =>
          rw [hcd] at hd
          simp only [Bool.false_or, if_true]
          pyl [sdB1, sdL1, src_Task_successors_set, hpa, hch, ha, hd]
        | false =>
          rw [hcd] at hd
          simp only [Bool.false_or, Bool.false_eq_true, if_false]
          refine ⟨Env.set ρ "v" (.atom (.ref c)), hP.setv _, ?_⟩
          have hpa' := (hP.setv (.atom (.ref c))).parents
          have hch' := (hP.setv (.atom (.ref c))).children
          pyl [sdB1, sdL1, src_Task_successors_set, hpa, hch, ha, hd])
    ρ hρ
  rw [findSome_relChk] at this
  cases hany : l.any (fun v => anc.contains v || desc.contains v) with
  | true =>
    rw [hany, if_pos rfl] at this
    exact ⟨ρ, hρ, by rw [this]; rfl⟩
  | false =>
    rw [hany, if_neg (by decide)] at this
    obtain ⟨ρ', hP', hl⟩ := this
    exact ⟨ρ', hP', by rw [hl]; rfl⟩

include hh

theorem sd_l2 (hF : s.fuel + 1 ≤ F)
    (hrec : l.findSome? (cycF s.succs s.fuel t) ≠ some (.crash .recursion))
    (ρ : PyLite.Env) (hρ : LinkEnv ρ t l anc desc) :
    match l.findSome? (cycF s.succs s.fuel t) with
    | none => ∃ ρ', LinkEnv ρ' t l anc desc ∧ sdL2.execP (Hd F) [] noRec ρ st = .normal ρ' st
    | some e => sdL2.execP (Hd F) [] noRec ρ st = .raise e := by
  rw [sdL2_eq, execP_forIn (vs := l.map Atom.ref) (st' := st) (hit := evalP_var _ _ _ _ _ _ hρ.value)]
  rw [← findSome_cycChk] at hrec ⊢
  refine forLoopP_check' "v" (fun ρ st => execBlockP (Hd F) [] noRec sdB2 ρ st)
    (fun ρ => LinkEnv ρ t l anc desc) (cycChk s.succs s.fuel t) st (l.map Atom.ref) ?_ hrec ρ hρ
  intro ρ v hv hP hne
  obtain ⟨c, _, rfl⟩ := List.mem_map.1 hv
  have hse := (hP.setv (.atom (.ref c))).self
  simp only [cycChk] at hne ⊢
  by_cases hct : c = t
  · subst hct
    simp only [if_true]
    pyl [sdB2, sdL2, src_Task_successors_set, hse]
  · simp only [hct, if_false] at hne ⊢
    cases hd : descF s.succs s.fuel c with
    | none => simp [hd] at hne
    | some r =>
      have hcall := get_all_successors_spec s st hh _ c r hd F hF
      have hany := (any_ref_pyEq r.eraseDups t).trans (contains_eraseDups r t)
      simp only [refs] at hcall
      generalize r.eraseDups.map Atom.ref = R at hany hcall
      simp only []
      cases hc : r.contains t with
      | true =>
        rw [hc] at hany
        simp only [if_true]
        pyl [sdB2, sdL2, src_Task_successors_set, hse, hct, hcall, hany]
      | false =>
        rw [hc] at hany
        simp only [Bool.false_eq_true, if_false]
        refine ⟨Env.set ρ "v" (.atom (.ref c)), hP.setv _, ?_⟩
        pyl [sdB2, sdL2, src_Task_successors_set, hse, hct, hcall, hany]

omit hh in
/-- `for v in self.__successors: v.__predecessors = [x for x in v.__predecessors if x is not self]` -/
theorem sd_l3 (s0 : G) (ρ : PyLite.Env) (hρ : LinkEnv ρ t l anc desc) :
    ∃ ρ', LinkEnv ρ' t l anc desc ∧ sdL3.execP (Hd F) [] noRec ρ (withG st s0) =
      .normal ρ' (withG st (((s0.succs t).map Atom.ref).foldl (unlinkPA t) s0)) := by
  rw [sdL3_eq, execP_forIn (vs := (s0.succs t).map Atom.ref) (st' := withG st s0)
    (hit := by pyl [hρ.self, refs])]
  have := forLoopP_foldM "v" (fun ρ st => execBlockP (Hd F) [] noRec sdB3 ρ st)
    (fun (s' : G) ρ st' => st' = withG st s' ∧ LinkEnv ρ t l anc desc)
    (fun s' v => .ok (unlinkPA t s' v)) ((s0.succs t).map Atom.ref)
    (by
      intro s' v ρ st' hv hR
      obtain ⟨rfl, hP⟩ := hR
      obtain ⟨c, _, rfl⟩ := List.mem_map.1 hv
      refine ⟨Env.set ρ "v" (.atom (.ref c)), withG st (unlinkP t s' c), ?_, rfl, hP.setv _⟩
      have hse := (hP.setv (.atom (.ref c))).self
      have hcomp : (Expr.listComp (.var "t") "t" (.attr (.var "v") "predecessors")
            (.not (.isSame (.var "t") (.var "self")))).evalP (Hd F) [] (Env.set ρ "v" (.atom (.ref c))) (withG st s') =
          .ok (refs ((s'.preds c).filter (fun x => x != t)), withG st s') := by
        rw [evalP_listComp_pure (vs := (s'.preds c).map Atom.ref) (st := withG st s')
          (p := refP (fun x => x != t)) (e := fun v => v)
          (hit := by pyl [refs])
          (hc := by
            intro v hv
            obtain ⟨x, _, rfl⟩ := List.mem_map.1 hv
            have hse' : (Env.set (Env.set ρ "v" (.atom (.ref c))) "t" (.atom (.ref x))).get? "self" =
                some (.atom (.ref t)) := by rw [Env.get?_set, if_neg (by decide)]; exact hse
            by_cases hxt : x = t
            · subst hxt; pyl [hse', refP]
            · pyl [hse', refP, hxt])
          (he := by intro v _ _; simp [Expr.evalP, Env.get?_set, pure, Except.pure])]
        rw [List.map_id', filter_refP, refs]
      unfold sdB3 sdL3
      simp only [src_Task_successors_set]
      have hset := heapSet_preds s' c ((s'.preds c).filter (fun x => x != t))
      rw [execBlockP_cons, execP_setAttr (he := hcomp)
        (ho := evalP_var _ _ _ _ _ _ (by rw [Env.get?_set, if_pos rfl]))]
      simp only [withG_heap, hset, execBlockP_nil]
      rfl)
    s0 ρ (withG st s0) ⟨rfl, hρ⟩
  rw [foldlM_ok (unlinkPA t)] at this
  obtain ⟨ρ', st', hl, rfl, hP'⟩ := this
  exact ⟨ρ', hP', hl⟩

omit hh in
/-- `for v in value: if self not in v.__predecessors: v.__predecessors.append(self)` -/
theorem sd_l4 (s0 : G) (ρ : PyLite.Env) (hρ : LinkEnv ρ t l anc desc) :
    ∃ ρ', sdL4.execP (Hd F) [] noRec ρ (withG st s0) =
      .normal ρ' (withG st ((l.map Atom.ref).foldl (linkPA t) s0)) := by
  rw [sdL4_eq, execP_forIn (vs := l.map Atom.ref) (st' := withG st s0) (hit := evalP_var _ _ _ _ _ _ hρ.value)]
  have := forLoopP_foldM "v" (fun ρ st => execBlockP (Hd F) [] noRec sdB4 ρ st)
    (fun (s' : G) ρ st' => st' = withG st s' ∧ LinkEnv ρ t l anc desc)
    (fun s' v => .ok (linkPA t s' v)) (l.map Atom.ref)
    (by
      intro s' v ρ st' hv hR
      obtain ⟨rfl, hP⟩ := hR
      obtain ⟨c, _, rfl⟩ := List.mem_map.1 hv
      refine ⟨Env.set ρ "v" (.atom (.ref c)), withG st (linkP t s' c), ?_, rfl, hP.setv _⟩
      have hse := (hP.setv (.atom (.ref c))).self
      have hany := any_ref_pyEq (s'.preds c) t
      unfold linkP
      cases hc : (s'.preds c).contains t with
      | true =>
        rw [hc] at hany
        simp only [if_true]
        pyl [sdB4, sdL4, src_Task_successors_set, hse, refs, hany]
      | false =>
        rw [hc] at hany
        simp only [Bool.false_eq_true, if_false]
        have happ := heapSet_preds s' c (s'.preds c ++ [t])
        simp only [refs, List.map_append, List.map_cons, List.map_nil] at happ
        pyl [sdB4, sdL4, src_Task_successors_set, hse, refs, hany, happ, mk_withG])
    s0 ρ (withG st s0) ⟨rfl, hρ⟩
  rw [foldlM_ok (linkPA t)] at this
  obtain ⟨ρ', st', hl, rfl, -⟩ := this
  exact ⟨ρ', hl⟩

/-- STAGE C.  `t.successors = l` = `setSuccs`, for EVERY state `s` -/
theorem succs_set_spec (v : Val) (hv : ValueOf v l) (hF : s.fuel + 3 ≤ F)
    (hrec : (setSuccs s t l).2 ≠ some (.crash .recursion)) :
    (Hd F).fnV fn_Task_successors_set [.atom (.ref t), v] st = setterResult st (setSuccs s t l) := by
  obtain ⟨F, rfl⟩ : ∃ F', F = F' + 2 := ⟨F - 2, by omega⟩
  rw [fnV_succ _ _ _ _ tf_succs_set, callPV_eq]
  simp only [src_Task_successors_set_params, bindParamsV, pure, Except.pure, bind, Except.bind, sd_shape]
  unfold setSuccs at hrec ⊢
  rw [chkLinks_eq] at hrec ⊢
  cases ha : ancF s s.fuel (s.parent t) with
  | none => simp [ha] at hrec
  | some anc =>
    cases hd : descF s.children s.fuel t with
    | none => simp [ha, hd] at hrec
    | some desc =>
      simp only [ha, hd] at hrec ⊢
      -- the first four statements
      rw [execBlockP_cons, execP_assign (he := by
        rw [evalP_callFn1 (ha := evalP_var _ _ _ _ _ _ rfl)]; exact hv st F)]
      simp only []
      rw [execBlockP_cons, execP_expr (he := by
        rw [evalP_callFn1 (ha := evalP_var _ _ _ _ _ _ (by rw [Env.get?_set, if_pos rfl]))]
        exact check_no_nones_spec st F l)]
      simp only []
      rw [execBlockP_cons, execP_assign (he := by
        rw [evalP_callFn1 (ha := evalP_var _ _ _ _ _ _ (by rw [Env.get?_set, if_neg (by decide)]; rfl))]
        exact get_all_parents_spec s st hh _ t anc ha (F + 1) (by omega))]
      simp only []
      rw [execBlockP_cons, execP_assign (he := by
        rw [evalP_callFn1 (ha := evalP_var _ _ _ _ _ _
          (by rw [Env.get?_set, if_neg (by decide), Env.get?_set, if_neg (by decide)]; rfl))]
        exact get_all_children_spec s st hh _ t desc hd (F + 1) (by omega))]
      simp only []
      have hρ4 : LinkEnv (Env.set (Env.set (Env.set [("self", Val.atom (Atom.ref t)), ("value", v)] "value" (refs l))
          "parents" (refs anc)) "children" (refs desc)) t l anc desc :=
        ⟨by simp [Env.get?_set, Env.get?_cons], by simp [Env.get?_set, Env.get?_cons],
         by simp [Env.get?_set, Env.get?_cons], by simp [Env.get?_set, Env.get?_cons]⟩
      generalize (Env.set (Env.set (Env.set [("self", Val.atom (Atom.ref t)), ("value", v)] "value" (refs l))
          "parents" (refs anc)) "children" (refs desc)) = ρ4 at hρ4
      -- the two validation loops
      obtain ⟨ρ5, hρ5, h1⟩ := sd_l1 st t l anc desc (F + 1) ρ4 hρ4
      rw [execBlockP_cons, h1]
      cases hany : l.any (fun v => anc.contains v || desc.contains v) with
      | true => simp only [if_true, setterResult]
      | false =>
        simp only [hany, Bool.false_eq_true, if_false] at hrec ⊢
        have h2 := sd_l2 s st hh t l anc desc (F + 1) (by omega)
          (by intro hc; apply hrec; simp only [hc]) ρ5 hρ5
        rw [execBlockP_cons]
        cases hf : l.findSome? (cycF s.succs s.fuel t) with
        | some e =>
          rw [hf] at h2
          simp only [h2, setterResult]
        | none =>
          rw [hf] at h2
          obtain ⟨ρ6, hρ6, h2⟩ := h2
          simp only [h2]
          -- the mutations
          obtain ⟨ρ7, hρ7, h3⟩ := sd_l3 st t l anc desc (F + 1) s ρ6 hρ6
          rw [withG_self st s hh] at h3
          rw [execBlockP_cons, h3]
          simp only []
          generalize hs3 : ((s.succs t).map Atom.ref).foldl (unlinkPA t) s = s3
          have hcomp : (Expr.listComp (.var "v") "v" (.var "value") (.bool true)).evalP (Hd (F + 1)) [] ρ7
              (withG st s3) = .ok (refs l, withG st s3) :=
            evalP_listComp_id _ _ _ _ _ _ _ _ (evalP_var _ _ _ _ _ _ hρ7.value)
          rw [execBlockP_cons, execP_setAttr (he := hcomp) (ho := evalP_var _ _ _ _ _ _ hρ7.self)]
          simp only [withG_heap, heapSet_succs, mk_withG, withG_L, withG_done, withG_res, withG_reads, withG_boxes]
          obtain ⟨ρ8, h4⟩ := sd_l4 st t l anc desc (F + 1) { s3 with succs := upd s3.succs t l } ρ7 hρ7
          rw [execBlockP_cons, h4]
          simp only [execBlockP_nil, setterResult]
          rw [mutSuccs_eq, hs3]

end succs

/-- STAGE C.  For every graph state `s`, every Python state `st` whose store is the encoding of `s`, every task `t`,
    every admissible value `v` standing for the list of tasks `l` (`ValueOf`: a Python list of tasks and `None`s, a
    single task, `None`) and every recursion limit `F ≥ s.n + 4`: unless the model ends in RecursionError, running the
    translated `predecessors` setter gives `None` and the encoding of the model's new state when the model accepts,
    and raises the model's error when it rejects.  No well-formedness is needed. -/
theorem interpSetPreds_eq (s : G) (st : PState) (hh : st.heap = encHeap s) (t : Uid) (v : Val) (l : List Uid)
    (hv : ValueOf v l) (F : Nat) (hF : s.n + 4 ≤ F) (hrec : (setPreds s t l).2 ≠ some (.crash .recursion)) :
    interpSetPreds F t v st = setterResult st (setPreds s t l) :=
  preds_set_spec s st hh t l F v hv (by unfold G.fuel; omega) hrec

theorem interpSetSuccs_eq (s : G) (st : PState) (hh : st.heap = encHeap s) (t : Uid) (v : Val) (l : List Uid)
    (hv : ValueOf v l) (F : Nat) (hF : s.n + 4 ≤ F) (hrec : (setSuccs s t l).2 ≠ some (.crash .recursion)) :
    interpSetSuccs F t v st = setterResult st (setSuccs s t l) :=
  succs_set_spec s st hh t l F v hv (by unfold G.fuel; omega) hrec

end Pj.TaskSrc
