/- Lemmas/GraphEffLemmas.lean — helper lemmas for Props/C16.lean -/
import PjVerif.Spec.GraphEff
import PjVerif.Lemmas.GraphTasks
namespace Pj

end Pj
