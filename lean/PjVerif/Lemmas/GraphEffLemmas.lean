/- Lemmas/GraphEffLemmas.lean — helper lemmas for Props/C16.lean -/
import PjVerif.Spec.GraphEff
import PjVerif.Lemmas.GraphTasks
namespace Pj

/-- the same proposition as `G.Same` of Props/C16.lean (which is stated there) -/
def SameG (a b : G) : Prop :=
  a.n = b.n ∧ ∀ u, a.tid u = b.tid u ∧ a.parent u = b.parent u ∧ a.children u = b.children u ∧
    a.preds u = b.preds u ∧ a.succs u = b.succs u ∧ a.owner u = b.owner u

theorem SameG.refl (a : G) : SameG a a := ⟨rfl, fun _ => ⟨rfl, rfl, rfl, rfl, rfl, rfl⟩⟩
theorem SameG.of_eq {a b : G} (h : a = b) : SameG a b := h ▸ SameG.refl a
theorem SameG.eq {a b : G} (h : SameG a b) : a = b := by
  obtain ⟨n, tid, parent, children, preds, succs, owner⟩ := a
  obtain ⟨n', tid', parent', children', preds', succs', owner'⟩ := b
  obtain ⟨h1, h2⟩ := h
  simp only at h1 h2
  have e1 : tid = tid' := funext fun u => (h2 u).1
  have e2 : parent = parent' := funext fun u => (h2 u).2.1
  have e3 : children = children' := funext fun u => (h2 u).2.2.1
  have e4 : preds = preds' := funext fun u => (h2 u).2.2.2.1
  have e5 : succs = succs' := funext fun u => (h2 u).2.2.2.2.1
  have e6 : owner = owner' := funext fun u => (h2 u).2.2.2.2.2
  subst h1 e1 e2 e3 e4 e5 e6
  rfl

theorem mutPreds_eq_eff (s : G) (t : Uid) (l : List Uid) : mutPreds s t l = effSetPreds s t l := by
  apply SameG.eq
  refine ⟨rfl, fun u => ⟨rfl, rfl, rfl, rfl, ?_, rfl⟩⟩
  simp only [mutPreds, effSetPreds, Bool.and_eq_true]

theorem mutSuccs_eq_eff (s : G) (t : Uid) (l : List Uid) : mutSuccs s t l = effSetSuccs s t l := by
  apply SameG.eq
  refine ⟨rfl, fun u => ⟨rfl, rfl, rfl, ?_, rfl, rfl⟩⟩
  simp only [mutSuccs, effSetSuccs, Bool.and_eq_true]

theorem setPreds_ok_eq (s s' : G) (t : Uid) (l : List Uid) (h : setPreds s t l = (s', none)) :
    s' = effSetPreds s t l := by
  unfold setPreds at h
  split at h
  · cases h
  · injection h with h1 _
    rw [← h1, mutPreds_eq_eff]

theorem setSuccs_ok_eq (s s' : G) (t : Uid) (l : List Uid) (h : setSuccs s t l = (s', none)) :
    s' = effSetSuccs s t l := by
  unfold setSuccs at h
  split at h
  · cases h
  · injection h with h1 _
    rw [← h1, mutSuccs_eq_eff]

theorem frame_links (s s' : G) (t : Uid) (l : List Uid) (u : Uid)
    (h : setPreds s t l = (s', none)) (hu : u ≠ t) (hl : u ∉ l) (ho : u ∉ s.preds t) :
    s'.preds u = s.preds u ∧ s'.succs u = s.succs u ∧ s'.parent u = s.parent u ∧ s'.children u = s.children u ∧
    s'.owner u = s.owner u := by
  rw [setPreds_ok_eq s s' t l h]
  refine ⟨?_, ?_, rfl, rfl, rfl⟩
  · show (if u = t then l else s.preds u) = _
    rw [if_neg hu]
  · have h1 : (s.preds t).contains u = false := by simpa using ho
    have h2 : l.contains u = false := by simpa using hl
    simp only [effSetPreds, h1, h2]
    simp

/-! ### move -/

theorem chMove_cases2 (s : G) (h : Uid) (ts : List Uid) (b a : Option Uid) :
    chMove s h ts b a = (s, some .runtime) ∨ chMove s h ts b a = (effMove s h ts b a, none) := by
  unfold chMove
  dsimp only
  repeat' split
  all_goals first | exact Or.inl rfl | exact Or.inr rfl

theorem chMove_ok_eq (s s' : G) (h : Uid) (ts : List Uid) (b a : Option Uid)
    (hs : chMove s h ts b a = (s', none)) : s' = effMove s h ts b a := by
  rcases chMove_cases2 s h ts b a with e | e
  · rw [e] at hs; cases hs
  · rw [e] at hs; injection hs with h1 _; exact h1.symm

/-! ### sort -/

def leOf (key : Uid → Int) (rev : Bool) : Uid → Uid → Bool :=
  if rev then (fun a b => decide (key b ≤ key a)) else (fun a b => decide (key a ≤ key b))

theorem sortBy_eq (key : Uid → Int) (rev : Bool) (l : List Uid) : sortBy key rev l = l.mergeSort (leOf key rev) := by
  unfold sortBy leOf; cases rev <;> rfl

theorem leOf_trans (key : Uid → Int) (rev : Bool) (a b c : Uid) :
    leOf key rev a b = true → leOf key rev b c = true → leOf key rev a c = true := by
  unfold leOf; cases rev <;> simp <;> omega

theorem leOf_total (key : Uid → Int) (rev : Bool) (a b : Uid) : (leOf key rev a b || leOf key rev b a) = true := by
  unfold leOf; cases rev <;> simp <;> omega

theorem leOf_of_eq (key : Uid → Int) (rev : Bool) (a b : Uid) (h : key a = key b) : leOf key rev a b = true := by
  unfold leOf; cases rev <;> simp <;> omega

theorem pairwise_adjacent {R : Uid → Uid → Prop} : ∀ (l : List Uid), l.Pairwise R →
    ∀ p ∈ l.zip (l.drop 1), R p.1 p.2 := by
  intro l
  induction l with
  | nil => intro _ p hp; simp at hp
  | cons x xs ih =>
    intro hpw p hp
    cases xs with
    | nil => simp at hp
    | cons y ys =>
      simp only [List.drop_succ_cons, List.drop_zero, List.zip_cons_cons, List.mem_cons] at hp
      rcases hp with rfl | hp
      · exact (List.pairwise_cons.mp hpw).1 y List.mem_cons_self
      · exact ih (List.pairwise_cons.mp hpw).2 p (by simpa using hp)

/-- first-occurrence order is not affected by filtering with a predicate that both elements satisfy -/
theorem idxOf_lt_filter (p : Uid → Bool) (a b : Uid) (hab : a ≠ b) (ha : p a = true) (hb : p b = true) :
    ∀ l : List Uid, (l.idxOf a < l.idxOf b ↔ (l.filter p).idxOf a < (l.filter p).idxOf b) := by
  intro l
  induction l with
  | nil => simp
  | cons x xs ih =>
    by_cases hxa : x = a
    · subst hxa
      have : ¬ (x == b) = true := by simpa using hab
      simp [ha, List.idxOf_cons, this]
    · by_cases hxb : x = b
      · subst hxb
        simp [hb, List.idxOf_cons]
      · have h1 : ¬ (x == a) = true := by simpa using hxa
        have h2 : ¬ (x == b) = true := by simpa using hxb
        by_cases hpx : p x = true
        · simp [hpx, List.idxOf_cons, h1, h2, ih]
        · simp [hpx, List.idxOf_cons, h1, h2, ih]

theorem mergeSort_filter_key (key : Uid → Int) (rev : Bool) (k : Int) (l : List Uid) :
    (l.mergeSort (leOf key rev)).filter (fun x => key x == k) = l.filter (fun x => key x == k) := by
  have hsub : (l.filter (fun x => key x == k)).Sublist (l.mergeSort (leOf key rev)) := by
    refine List.sublist_mergeSort (leOf_trans key rev) (leOf_total key rev) ?_ List.filter_sublist
    refine List.Pairwise.imp_of_mem ?_ (List.pairwise_of_forall (R := fun _ _ => True) (fun _ _ => trivial))
    intro a b ha hb _
    have ha' := (List.mem_filter.mp ha).2
    have hb' := (List.mem_filter.mp hb).2
    simp only [beq_iff_eq] at ha' hb'
    exact leOf_of_eq key rev a b (ha'.trans hb'.symm)
  have h2 := hsub.filter (fun x => key x == k)
  rw [List.filter_filter] at h2
  simp only [Bool.and_self] at h2
  have hlen : (l.filter (fun x => key x == k)).length = ((l.mergeSort (leOf key rev)).filter (fun x => key x == k)).length :=
    ((List.mergeSort_perm l (leOf key rev)).filter _).length_eq.symm
  exact (h2.eq_of_length hlen).symm

theorem sortBy_sorted (key : Uid → Int) (rev : Bool) (l : List Uid) :
    sortedByB key rev l (sortBy key rev l) = true := by
  rw [sortBy_eq]
  have hperm := List.mergeSort_perm l (leOf key rev)
  unfold sortedByB
  simp only [Bool.and_eq_true, List.all_eq_true, beq_iff_eq, List.contains_iff_mem]
  refine ⟨⟨⟨⟨?_, ?_⟩, ?_⟩, ?_⟩, ?_⟩
  · intro x _; exact (hperm.count_eq x).symm
  · intro x hx; exact hperm.mem_iff.mp hx
  · exact hperm.length_eq.symm
  · intro p hp
    have := pairwise_adjacent _ (List.pairwise_mergeSort (leOf_trans key rev) (leOf_total key rev) l) p hp
    unfold leOf at this
    cases rev <;> simpa using this
  · intro a _ b _
    by_cases hc : key a = key b ∧ a ≠ b
    · have hf := mergeSort_filter_key key rev (key a) l
      have e1 := idxOf_lt_filter (fun x => key x == key a) a b hc.2 (by simp) (by simp [hc.1]) l
      have e2 := idxOf_lt_filter (fun x => key x == key a) a b hc.2 (by simp) (by simp [hc.1]) (l.mergeSort (leOf key rev))
      rw [hf] at e2
      simp only [Bool.or_eq_true, Bool.not_eq_true', beq_iff_eq, decide_eq_decide]
      right
      exact e2.trans e1.symm
    · simp only [Bool.or_eq_true, Bool.not_eq_true']
      left
      simp only [Bool.and_eq_false_iff, beq_eq_false_iff_ne, ne_eq, bne_eq_false_iff_eq]
      by_cases h1 : key a = key b
      · right; exact Classical.not_not.mp (fun h2 => hc ⟨h1, h2⟩)
      · left; exact h1

/-! ### one move -/

theorem drop_idxOf (x : Uid) : ∀ (l : List Uid), x ∈ l → l.drop (l.idxOf x) = x :: l.drop (l.idxOf x + 1) := by
  intro l
  induction l with
  | nil => intro h; cases h
  | cons y ys ih =>
    intro h
    by_cases hy : y = x
    · subst hy; simp
    · have h1 : ¬ (y == x) = true := by simpa using hy
      have hx : x ∈ ys := by
        rcases List.mem_cons.mp h with e | e
        · exact absurd e.symm hy
        · exact e
      simp only [List.idxOf_cons, h1, cond_false, List.drop_succ_cons]
      exact ih hx

theorem take_idxOf_succ (x : Uid) : ∀ (l : List Uid), x ∈ l → l.take (l.idxOf x + 1) = l.take (l.idxOf x) ++ [x] := by
  intro l
  induction l with
  | nil => intro h; cases h
  | cons y ys ih =>
    intro h
    by_cases hy : y = x
    · subst hy; simp
    · have h1 : ¬ (y == x) = true := by simpa using hy
      have hx : x ∈ ys := by
        rcases List.mem_cons.mp h with e | e
        · exact absurd e.symm hy
        · exact e
      simp only [List.idxOf_cons, h1, cond_false, List.take_succ_cons, List.cons_append]
      rw [ih hx]

theorem erase_insertAt (l1 : List Uid) (t : Uid) (i : Nat) (ht : t ∉ l1) :
    (l1.take i ++ [t] ++ l1.drop i).erase t = l1 := by
  have h1 : t ∉ l1.take i := fun h => ht (List.mem_of_mem_take h)
  rw [List.append_assoc, List.erase_append_right _ h1]
  simp

theorem moveOne_spec (l : List Uid) (t : Uid) (b a : Option Uid) (hn : l.Nodup) (_ht : t ∈ l)
    (hb : ∀ x, b = some x → x ∈ l ∧ x ≠ t) (ha : ∀ x, a = some x → x ∈ l ∧ x ≠ t) (hab : b.isSome ≠ a.isSome) :
    (moveOne l t b a).erase t = l.erase t ∧
    (∀ x, b = some x → ∃ pre post, moveOne l t b a = pre ++ t :: x :: post) ∧
    (∀ x, a = some x → ∃ pre post, moveOne l t b a = pre ++ x :: t :: post) := by
  have htl : t ∉ l.erase t := fun h => (List.Nodup.mem_erase_iff hn).mp h |>.1 rfl
  cases b with
  | some x =>
    cases a with
    | some y => simp at hab
    | none =>
      obtain ⟨hx, hxt⟩ := hb x rfl
      have hx1 : x ∈ l.erase t := (List.mem_erase_of_ne hxt).mpr hx
      refine ⟨erase_insertAt _ t _ htl, ?_, ?_⟩
      · intro x' hx'
        cases hx'
        refine ⟨(l.erase t).take ((l.erase t).idxOf x), (l.erase t).drop ((l.erase t).idxOf x + 1), ?_⟩
        show (l.erase t).take _ ++ [t] ++ (l.erase t).drop _ = _
        rw [drop_idxOf x _ hx1]; simp
      · intro x' hx'; cases hx'
  | none =>
    cases a with
    | none => simp at hab
    | some x =>
      obtain ⟨hx, hxt⟩ := ha x rfl
      have hx1 : x ∈ l.erase t := (List.mem_erase_of_ne hxt).mpr hx
      refine ⟨erase_insertAt _ t _ htl, ?_, ?_⟩
      · intro x' hx'; cases hx'
      · intro x' hx'
        cases hx'
        refine ⟨(l.erase t).take ((l.erase t).idxOf x), (l.erase t).drop ((l.erase t).idxOf x + 1), ?_⟩
        show (l.erase t).take _ ++ [t] ++ (l.erase t).drop _ = _
        rw [take_idxOf_succ x _ hx1]; simp

theorem detachOld_children (s : G) (t : Uid) (hw : WF s) (q : Uid) :
    (detachOld s t).children q = (s.children q).filter (fun c => c != t) := by
  have hself : ∀ q, s.parent t ≠ some q → (s.children q).filter (fun c => c != t) = s.children q := by
    intro q hq
    apply List.filter_eq_self.mpr
    intro a ha
    have : a ≠ t := by
      intro e; subst e
      exact hq ((hw.listed a q).mpr ha)
    simpa using this
  unfold detachOld
  split
  · rename_i p hp
    split
    · by_cases hqp : q = p
      · subst hqp
        show upd _ _ _ _ = _
        rw [upd_same]
        exact (hw.once q).erase_eq_filter t
      · show upd _ _ _ _ = _
        rw [upd_other _ _ _ _ hqp]
        refine (hself q ?_).symm
        rw [hp]; intro e; exact hqp (Option.some.inj e).symm
    · rename_i hc
      exact absurd (List.contains_iff_mem.mpr ((hw.listed t p).mp hp)) hc
  · rename_i hp
    refine (hself q ?_).symm
    rw [hp]; intro e; cases e

/-- the exact effect of an accepted `t.parent = p` on a well-formed state -/
theorem setParentSome_exact (s s' : G) (t p : Uid) (hw : WF s) (h : setParentSome s t p = (s', none)) :
    ∃ sub, subtreeF s.children s.fuel t = some sub ∧
      s'.n = s.n ∧ s'.tid = s.tid ∧ s'.preds = s.preds ∧ s'.succs = s.succs ∧
      s'.parent = upd s.parent t (some p) ∧
      (∀ q, s'.children q = if q = p then (s.children p).filter (fun c => c != t) ++ [t]
                            else (s.children q).filter (fun c => c != t)) ∧
      (∀ x, s'.owner x = match s.owner p with
        | some w => if sub.contains x then some w else s.owner x
        | none => s.owner x) := by
  unfold setParentSome at h
  split at h
  · cases h
  · rw [mutParentSome_eq] at h
    split at h
    · cases h
    · rename_i sub hsub
      injection h with h1 _
      refine ⟨sub, hsub, ?_⟩
      obtain ⟨d1, d2, d3, d4, d5⟩ := detachOld_fields s t
      obtain ⟨o1, o2, o3, o4, o5⟩ := ownStep_fields (parStep (detachOld s t) t p) sub p
      obtain ⟨a1, a2, a3, a4⟩ := appStep_fields (ownStep (parStep (detachOld s t) t p) sub p) t p
      obtain ⟨a5, a6⟩ := appStep_owner_n (ownStep (parStep (detachOld s t) t p) sub p) t p
      obtain ⟨p1, p2, p3, p4, p5⟩ := parStep_fields (detachOld s t) t p
      subst h1
      refine ⟨?_, ?_, ?_, ?_, ?_, ?_, ?_⟩
      · rw [a6, ownStep_n]; exact detachOld_n' s t
      · rw [a4, o5, p5, d4]
      · rw [a2, o3, p3, d2]
      · rw [a3, o4, p4, d3]
      · rw [a1, o1, p1, d1]
      · intro q
        have hc3 : (ownStep (parStep (detachOld s t) t p) sub p).children = (detachOld s t).children := by
          rw [o2, p2]
        have hnot : ¬ ((ownStep (parStep (detachOld s t) t p) sub p).children p).contains t = true := by
          rw [hc3, detachOld_children s t hw p]
          simp
        unfold appStep
        rw [if_neg hnot]
        show upd _ p _ q = _
        by_cases hqp : q = p
        · subst hqp
          rw [upd_same, if_pos rfl, hc3, detachOld_children s t hw q]
        · rw [upd_other _ _ _ _ hqp, if_neg hqp, hc3, detachOld_children s t hw q]
      · intro x
        rw [a5, ownStep_owner]
        show (match (detachOld s t).owner p with
          | none => (detachOld s t).owner x
          | some w => if sub.contains x then some w else (detachOld s t).owner x) = _
        rw [d5]
        cases s.owner p <;> rfl

theorem below_single (s : G) (t : Uid) (sub : List Uid) (h : subtreeF s.children s.fuel t = some sub) :
    below s [t] = sub := by
  simp [below, h]

theorem setParentSome_ok_eq (s s' : G) (t p : Uid) (hw : WF s) (h : setParentSome s t p = (s', none)) :
    s' = effSetParentSome s t p := by
  obtain ⟨sub, hsub, h1, h2, h3, h4, h5, h6, h7⟩ := setParentSome_exact s s' t p hw h
  apply SameG.eq
  refine ⟨h1, fun u => ⟨by rw [h2]; rfl, by rw [h5]; rfl, ?_, by rw [h3]; rfl, by rw [h4]; rfl, ?_⟩⟩
  · rw [h6]; rfl
  · rw [h7]
    show _ = match s.owner p with
      | some w => if (below s [t]).contains u then some w else s.owner u
      | none => s.owner u
    rw [below_single s t sub hsub]
    cases s.owner p <;> rfl

theorem setParentNone_ok_eq (s s' : G) (t : Uid) (hw : WF s) (h : setParentNone s t = (s', none)) :
    s' = effSetParentNone s t := by
  unfold setParentNone at h
  unfold effSetParentNone
  split at h
  · rename_i w hw'
    simp only [hw']
    exact setParentSome_ok_eq s s' t w hw h
  · rename_i hw'
    simp only [hw']
    injection h with h1 _
    subst h1
    obtain ⟨d1, d2, d3, d4, d5⟩ := detachOld_fields s t
    apply SameG.eq
    refine ⟨detachOld_n' s t, fun u => ⟨by show (detachOld s t).tid u = _; rw [d4], ?_, ?_, 
      by show (detachOld s t).preds u = _; rw [d2], by show (detachOld s t).succs u = _; rw [d3],
      by show (detachOld s t).owner u = _; rw [d5]⟩⟩
    · show upd (detachOld s t).parent t none u = _
      rw [d1]; rfl
    · show (detachOld s t).children u = _
      rw [detachOld_children s t hw u]

theorem setParent_ok_eq (s s' e : G) (t : Uid) (p : Option Uid) (hw : WF s)
    (he : effOf s (.setParent t p) = some e) (h : setParent s t p = (s', none)) : s' = e := by
  cases p with
  | some p =>
    simp only [effOf, Option.some.injEq] at he
    rw [← he]; exact setParentSome_ok_eq s s' t p hw h
  | none =>
    simp only [effOf, Option.some.injEq] at he
    rw [← he]; exact setParentNone_ok_eq s s' t hw h

/-! ### reorder -/

theorem reorderLoop_closed (s : G) (l : List Uid) (hn : l.Nodup) :
    ∀ (ids : List Int) (new rest r : List Uid), reorderLoop s l ids new rest = .ok r →
      rest = l.filter (fun t => !new.contains t) → (∀ x ∈ new, x ∈ l) →
      r = (new ++ ids.filterMap (fun i => l.find? (fun t => s.tid t == i))) ++
          l.filter (fun t => !(new ++ ids.filterMap (fun i => l.find? (fun t => s.tid t == i))).contains t) := by
  intro ids
  induction ids with
  | nil =>
    intro new rest r h hrest _
    simp only [reorderLoop, pure, Except.pure, Except.ok.injEq] at h
    simp [← h, hrest]
  | cons i ids ih =>
    intro new rest r h hrest hnew
    rw [reorderLoop] at h
    split at h
    · cases h
    · rename_i ch hch
      split at h
      · rename_i hc
        have hcl : ch ∈ l := List.mem_of_find?_eq_some hch
        have := ih (new ++ [ch]) (rest.erase ch) r h ?_ ?_
        · rw [this]
          simp [hch]
        · rw [hrest, List.Nodup.erase_eq_filter (hn.filter _), List.filter_filter]
          apply List.filter_congr
          intro x _
          by_cases hx : x = ch <;> simp [hx]
        · intro x hx
          rcases List.mem_append.mp hx with hx | hx
          · exact hnew x hx
          · rw [List.mem_singleton.mp hx]; exact hcl
      · cases h

theorem chReorder_ok_eq (s s' : G) (h : Uid) (ids : List Int) (hw : WF s)
    (hs : chReorder s h ids = (s', none)) : s' = effReorder s h ids := by
  unfold chReorder at hs
  split at hs
  · cases hs
  · rename_i r hr
    injection hs with h1 _
    have := reorderLoop_closed s (s.children h) (hw.once h) ids [] (s.children h) r hr (List.filter_eq_self.mpr (by simp)).symm (by simp)
    subst h1
    apply SameG.eq
    refine ⟨rfl, fun u => ⟨rfl, rfl, ?_, rfl, rfl, rfl⟩⟩
    show upd s.children h r u = if u = h then _ else s.children u
    rw [this]
    simp [upd]

end Pj
