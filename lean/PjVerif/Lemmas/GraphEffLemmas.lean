/- Lemmas/GraphEffLemmas.lean — helper lemmas for Props/C16.lean -/
import PjVerif.Spec.GraphEff
import PjVerif.Lemmas.GraphTasks
namespace Pj

/-- the same proposition as `G.Same` of Props/C16.lean (which is stated there) -/
def SameG (a b : G) : Prop :=
  a.n = b.n ∧ ∀ u, a.tid u = b.tid u ∧ a.parent u = b.parent u ∧ a.children u = b.children u ∧
    a.preds u = b.preds u ∧ a.succs u = b.succs u ∧ a.owner u = b.owner u

theorem SameG.refl (a : G) : SameG a a := ⟨rfl, fun _ => ⟨rfl, rfl, rfl, rfl, rfl, rfl⟩⟩
theorem SameG.of_eq {a b : G} (h : a = b) : SameG a b := h ▸ SameG.refl a
theorem SameG.eq {a b : G} (h : SameG a b) : a = b := by
  obtain ⟨n, tid, parent, children, preds, succs, owner⟩ := a
  obtain ⟨n', tid', parent', children', preds', succs', owner'⟩ := b
  obtain ⟨h1, h2⟩ := h
  simp only at h1 h2
  have e1 : tid = tid' := funext fun u => (h2 u).1
  have e2 : parent = parent' := funext fun u => (h2 u).2.1
  have e3 : children = children' := funext fun u => (h2 u).2.2.1
  have e4 : preds = preds' := funext fun u => (h2 u).2.2.2.1
  have e5 : succs = succs' := funext fun u => (h2 u).2.2.2.2.1
  have e6 : owner = owner' := funext fun u => (h2 u).2.2.2.2.2
  subst h1 e1 e2 e3 e4 e5 e6
  rfl

theorem mutPreds_eq_eff (s : G) (t : Uid) (l : List Uid) : mutPreds s t l = effSetPreds s t l := by
  apply SameG.eq
  refine ⟨rfl, fun u => ⟨rfl, rfl, rfl, rfl, ?_, rfl⟩⟩
  simp only [mutPreds, effSetPreds, Bool.and_eq_true]

theorem mutSuccs_eq_eff (s : G) (t : Uid) (l : List Uid) : mutSuccs s t l = effSetSuccs s t l := by
  apply SameG.eq
  refine ⟨rfl, fun u => ⟨rfl, rfl, rfl, ?_, rfl, rfl⟩⟩
  simp only [mutSuccs, effSetSuccs, Bool.and_eq_true]

theorem setPreds_ok_eq (s s' : G) (t : Uid) (l : List Uid) (h : setPreds s t l = (s', none)) :
    s' = effSetPreds s t l := by
  unfold setPreds at h
  split at h
  · cases h
  · injection h with h1 _
    rw [← h1, mutPreds_eq_eff]

theorem setSuccs_ok_eq (s s' : G) (t : Uid) (l : List Uid) (h : setSuccs s t l = (s', none)) :
    s' = effSetSuccs s t l := by
  unfold setSuccs at h
  split at h
  · cases h
  · injection h with h1 _
    rw [← h1, mutSuccs_eq_eff]

theorem frame_links (s s' : G) (t : Uid) (l : List Uid) (u : Uid)
    (h : setPreds s t l = (s', none)) (hu : u ≠ t) (hl : u ∉ l) (ho : u ∉ s.preds t) :
    s'.preds u = s.preds u ∧ s'.succs u = s.succs u ∧ s'.parent u = s.parent u ∧ s'.children u = s.children u ∧
    s'.owner u = s.owner u := by
  rw [setPreds_ok_eq s s' t l h]
  refine ⟨?_, ?_, rfl, rfl, rfl⟩
  · show (if u = t then l else s.preds u) = _
    rw [if_neg hu]
  · have h1 : (s.preds t).contains u = false := by simpa using ho
    have h2 : l.contains u = false := by simpa using hl
    simp only [effSetPreds, h1, h2]
    simp

/-! ### move -/

theorem chMove_cases2 (s : G) (h : Uid) (ts : List Uid) (b a : Option Uid) :
    chMove s h ts b a = (s, some .runtime) ∨ chMove s h ts b a = (effMove s h ts b a, none) := by
  unfold chMove
  dsimp only
  repeat' split
  all_goals first | exact Or.inl rfl | exact Or.inr rfl

theorem chMove_ok_eq (s s' : G) (h : Uid) (ts : List Uid) (b a : Option Uid)
    (hs : chMove s h ts b a = (s', none)) : s' = effMove s h ts b a := by
  rcases chMove_cases2 s h ts b a with e | e
  · rw [e] at hs; cases hs
  · rw [e] at hs; injection hs with h1 _; exact h1.symm

/-! ### sort -/

def leOf (key : Uid → Int) (rev : Bool) : Uid → Uid → Bool :=
  if rev then (fun a b => decide (key b ≤ key a)) else (fun a b => decide (key a ≤ key b))

theorem sortBy_eq (key : Uid → Int) (rev : Bool) (l : List Uid) : sortBy key rev l = l.mergeSort (leOf key rev) := by
  unfold sortBy leOf; cases rev <;> rfl

theorem leOf_trans (key : Uid → Int) (rev : Bool) (a b c : Uid) :
    leOf key rev a b = true → leOf key rev b c = true → leOf key rev a c = true := by
  unfold leOf; cases rev <;> simp <;> omega

theorem leOf_total (key : Uid → Int) (rev : Bool) (a b : Uid) : (leOf key rev a b || leOf key rev b a) = true := by
  unfold leOf; cases rev <;> simp <;> omega

theorem leOf_of_eq (key : Uid → Int) (rev : Bool) (a b : Uid) (h : key a = key b) : leOf key rev a b = true := by
  unfold leOf; cases rev <;> simp <;> omega

theorem pairwise_adjacent {R : Uid → Uid → Prop} : ∀ (l : List Uid), l.Pairwise R →
    ∀ p ∈ l.zip (l.drop 1), R p.1 p.2 := by
  intro l
  induction l with
  | nil => intro _ p hp; simp at hp
  | cons x xs ih =>
    intro hpw p hp
    cases xs with
    | nil => simp at hp
    | cons y ys =>
      simp only [List.drop_succ_cons, List.drop_zero, List.zip_cons_cons, List.mem_cons] at hp
      rcases hp with rfl | hp
      · exact (List.pairwise_cons.mp hpw).1 y List.mem_cons_self
      · exact ih (List.pairwise_cons.mp hpw).2 p (by simpa using hp)

/-- first-occurrence order is not affected by filtering with a predicate that both elements satisfy -/
theorem idxOf_lt_filter (p : Uid → Bool) (a b : Uid) (hab : a ≠ b) (ha : p a = true) (hb : p b = true) :
    ∀ l : List Uid, (l.idxOf a < l.idxOf b ↔ (l.filter p).idxOf a < (l.filter p).idxOf b) := by
  intro l
  induction l with
  | nil => simp
  | cons x xs ih =>
    by_cases hxa : x = a
    · subst hxa
      have : ¬ (x == b) = true := by simpa using hab
      simp [ha, List.idxOf_cons, this]
    · by_cases hxb : x = b
      · subst hxb
        simp [hb, List.idxOf_cons]
      · have h1 : ¬ (x == a) = true := by simpa using hxa
        have h2 : ¬ (x == b) = true := by simpa using hxb
        by_cases hpx : p x = true
        · simp [hpx, List.idxOf_cons, h1, h2, ih]
        · simp [hpx, List.idxOf_cons, h1, h2, ih]

theorem mergeSort_filter_key (key : Uid → Int) (rev : Bool) (k : Int) (l : List Uid) :
    (l.mergeSort (leOf key rev)).filter (fun x => key x == k) = l.filter (fun x => key x == k) := by
  have hsub : (l.filter (fun x => key x == k)).Sublist (l.mergeSort (leOf key rev)) := by
    refine List.sublist_mergeSort (leOf_trans key rev) (leOf_total key rev) ?_ List.filter_sublist
    refine List.Pairwise.imp_of_mem ?_ (List.pairwise_of_forall (R := fun _ _ => True) (fun _ _ => trivial))
    intro a b ha hb _
    have ha' := (List.mem_filter.mp ha).2
    have hb' := (List.mem_filter.mp hb).2
    simp only [beq_iff_eq] at ha' hb'
    exact leOf_of_eq key rev a b (ha'.trans hb'.symm)
  have h2 := hsub.filter (fun x => key x == k)
  rw [List.filter_filter] at h2
  simp only [Bool.and_self] at h2
  have hlen : (l.filter (fun x => key x == k)).length = ((l.mergeSort (leOf key rev)).filter (fun x => key x == k)).length :=
    ((List.mergeSort_perm l (leOf key rev)).filter _).length_eq.symm
  exact (h2.eq_of_length hlen).symm

theorem sortBy_sorted (key : Uid → Int) (rev : Bool) (l : List Uid) :
    sortedByB key rev l (sortBy key rev l) = true := by
  rw [sortBy_eq]
  have hperm := List.mergeSort_perm l (leOf key rev)
  unfold sortedByB
  simp only [Bool.and_eq_true, List.all_eq_true, beq_iff_eq, List.contains_iff_mem]
  refine ⟨⟨⟨⟨?_, ?_⟩, ?_⟩, ?_⟩, ?_⟩
  · intro x _; exact (hperm.count_eq x).symm
  · intro x hx; exact hperm.mem_iff.mp hx
  · exact hperm.length_eq.symm
  · intro p hp
    have := pairwise_adjacent _ (List.pairwise_mergeSort (leOf_trans key rev) (leOf_total key rev) l) p hp
    unfold leOf at this
    cases rev <;> simpa using this
  · intro a _ b _
    by_cases hc : key a = key b ∧ a ≠ b
    · have hf := mergeSort_filter_key key rev (key a) l
      have e1 := idxOf_lt_filter (fun x => key x == key a) a b hc.2 (by simp) (by simp [hc.1]) l
      have e2 := idxOf_lt_filter (fun x => key x == key a) a b hc.2 (by simp) (by simp [hc.1]) (l.mergeSort (leOf key rev))
      rw [hf] at e2
      simp only [Bool.or_eq_true, Bool.not_eq_true', beq_iff_eq, decide_eq_decide]
      right
      exact e2.trans e1.symm
    · simp only [Bool.or_eq_true, Bool.not_eq_true']
      left
      simp only [Bool.and_eq_false_iff, beq_eq_false_iff_ne, ne_eq, bne_eq_false_iff_eq]
      by_cases h1 : key a = key b
      · right; exact Classical.not_not.mp (fun h2 => hc ⟨h1, h2⟩)
      · left; exact h1

/-! ### one move -/

theorem drop_idxOf (x : Uid) : ∀ (l : List Uid), x ∈ l → l.drop (l.idxOf x) = x :: l.drop (l.idxOf x + 1) := by
  intro l
  induction l with
  | nil => intro h; cases h
  | cons y ys ih =>
    intro h
    by_cases hy : y = x
    · subst hy; simp
    · have h1 : ¬ (y == x) = true := by simpa using hy
      have hx : x ∈ ys := by
        rcases List.mem_cons.mp h with e | e
        · exact absurd e.symm hy
        · exact e
      simp only [List.idxOf_cons, h1, cond_false, List.drop_succ_cons]
      exact ih hx

theorem take_idxOf_succ (x : Uid) : ∀ (l : List Uid), x ∈ l → l.take (l.idxOf x + 1) = l.take (l.idxOf x) ++ [x] := by
  intro l
  induction l with
  | nil => intro h; cases h
  | cons y ys ih =>
    intro h
    by_cases hy : y = x
    · subst hy; simp
    · have h1 : ¬ (y == x) = true := by simpa using hy
      have hx : x ∈ ys := by
        rcases List.mem_cons.mp h with e | e
        · exact absurd e.symm hy
        · exact e
      simp only [List.idxOf_cons, h1, cond_false, List.take_succ_cons, List.cons_append]
      rw [ih hx]

theorem erase_insertAt (l1 : List Uid) (t : Uid) (i : Nat) (ht : t ∉ l1) :
    (l1.take i ++ [t] ++ l1.drop i).erase t = l1 := by
  have h1 : t ∉ l1.take i := fun h => ht (List.mem_of_mem_take h)
  rw [List.append_assoc, List.erase_append_right _ h1]
  simp

theorem moveOne_spec (l : List Uid) (t : Uid) (b a : Option Uid) (hn : l.Nodup) (_ht : t ∈ l)
    (hb : ∀ x, b = some x → x ∈ l ∧ x ≠ t) (ha : ∀ x, a = some x → x ∈ l ∧ x ≠ t) (hab : b.isSome ≠ a.isSome) :
    (moveOne l t b a).erase t = l.erase t ∧
    (∀ x, b = some x → ∃ pre post, moveOne l t b a = pre ++ t :: x :: post) ∧
    (∀ x, a = some x → ∃ pre post, moveOne l t b a = pre ++ x :: t :: post) := by
  have htl : t ∉ l.erase t := fun h => (List.Nodup.mem_erase_iff hn).mp h |>.1 rfl
  cases b with
  | some x =>
    cases a with
    | some y => simp at hab
    | none =>
      obtain ⟨hx, hxt⟩ := hb x rfl
      have hx1 : x ∈ l.erase t := (List.mem_erase_of_ne hxt).mpr hx
      refine ⟨erase_insertAt _ t _ htl, ?_, ?_⟩
      · intro x' hx'
        cases hx'
        refine ⟨(l.erase t).take ((l.erase t).idxOf x), (l.erase t).drop ((l.erase t).idxOf x + 1), ?_⟩
        show (l.erase t).take _ ++ [t] ++ (l.erase t).drop _ = _
        rw [drop_idxOf x _ hx1]; simp
      · intro x' hx'; cases hx'
  | none =>
    cases a with
    | none => simp at hab
    | some x =>
      obtain ⟨hx, hxt⟩ := ha x rfl
      have hx1 : x ∈ l.erase t := (List.mem_erase_of_ne hxt).mpr hx
      refine ⟨erase_insertAt _ t _ htl, ?_, ?_⟩
      · intro x' hx'; cases hx'
      · intro x' hx'
        cases hx'
        refine ⟨(l.erase t).take ((l.erase t).idxOf x), (l.erase t).drop ((l.erase t).idxOf x + 1), ?_⟩
        show (l.erase t).take _ ++ [t] ++ (l.erase t).drop _ = _
        rw [take_idxOf_succ x _ hx1]; simp

theorem detachOld_children (s : G) (t : Uid) (hw : WF s) (q : Uid) :
    (detachOld s t).children q = (s.children q).filter (fun c => c != t) := by
  have hself : ∀ q, s.parent t ≠ some q → (s.children q).filter (fun c => c != t) = s.children q := by
    intro q hq
    apply List.filter_eq_self.mpr
    intro a ha
    have : a ≠ t := by
      intro e; subst e
      exact hq ((hw.listed a q).mpr ha)
    simpa using this
  unfold detachOld
  split
  · rename_i p hp
    split
    · by_cases hqp : q = p
      · subst hqp
        show upd _ _ _ _ = _
        rw [upd_same]
        exact (hw.once q).erase_eq_filter t
      · show upd _ _ _ _ = _
        rw [upd_other _ _ _ _ hqp]
        refine (hself q ?_).symm
        rw [hp]; intro e; exact hqp (Option.some.inj e).symm
    · rename_i hc
      exact absurd (List.contains_iff_mem.mpr ((hw.listed t p).mp hp)) hc
  · rename_i hp
    refine (hself q ?_).symm
    rw [hp]; intro e; cases e

/-- the exact effect of an accepted `t.parent = p` on a well-formed state -/
theorem setParentSome_exact (s s' : G) (t p : Uid) (hw : WF s) (h : setParentSome s t p = (s', none)) :
    ∃ sub, subtreeF s.children s.fuel t = some sub ∧
      s'.n = s.n ∧ s'.tid = s.tid ∧ s'.preds = s.preds ∧ s'.succs = s.succs ∧
      s'.parent = upd s.parent t (some p) ∧
      (∀ q, s'.children q = if q = p then (s.children p).filter (fun c => c != t) ++ [t]
                            else (s.children q).filter (fun c => c != t)) ∧
      (∀ x, s'.owner x = match s.owner p with
        | some w => if sub.contains x then some w else s.owner x
        | none => s.owner x) := by
  unfold setParentSome at h
  split at h
  · cases h
  · rw [mutParentSome_eq] at h
    split at h
    · cases h
    · rename_i sub hsub
      injection h with h1 _
      refine ⟨sub, hsub, ?_⟩
      obtain ⟨d1, d2, d3, d4, d5⟩ := detachOld_fields s t
      obtain ⟨o1, o2, o3, o4, o5⟩ := ownStep_fields (parStep (detachOld s t) t p) sub p
      obtain ⟨a1, a2, a3, a4⟩ := appStep_fields (ownStep (parStep (detachOld s t) t p) sub p) t p
      obtain ⟨a5, a6⟩ := appStep_owner_n (ownStep (parStep (detachOld s t) t p) sub p) t p
      obtain ⟨p1, p2, p3, p4, p5⟩ := parStep_fields (detachOld s t) t p
      subst h1
      refine ⟨?_, ?_, ?_, ?_, ?_, ?_, ?_⟩
      · rw [a6, ownStep_n]; exact detachOld_n' s t
      · rw [a4, o5, p5, d4]
      · rw [a2, o3, p3, d2]
      · rw [a3, o4, p4, d3]
      · rw [a1, o1, p1, d1]
      · intro q
        have hc3 : (ownStep (parStep (detachOld s t) t p) sub p).children = (detachOld s t).children := by
          rw [o2, p2]
        have hnot : ¬ ((ownStep (parStep (detachOld s t) t p) sub p).children p).contains t = true := by
          rw [hc3, detachOld_children s t hw p]
          simp
        unfold appStep
        rw [if_neg hnot]
        show upd _ p _ q = _
        by_cases hqp : q = p
        · subst hqp
          rw [upd_same, if_pos rfl, hc3, detachOld_children s t hw q]
        · rw [upd_other _ _ _ _ hqp, if_neg hqp, hc3, detachOld_children s t hw q]
      · intro x
        rw [a5, ownStep_owner]
        show (match (detachOld s t).owner p with
          | none => (detachOld s t).owner x
          | some w => if sub.contains x then some w else (detachOld s t).owner x) = _
        rw [d5]
        cases s.owner p <;> rfl

theorem below_single (s : G) (t : Uid) (sub : List Uid) (h : subtreeF s.children s.fuel t = some sub) :
    below s [t] = sub := by
  simp [below, h]

theorem setParentSome_ok_eq (s s' : G) (t p : Uid) (hw : WF s) (h : setParentSome s t p = (s', none)) :
    s' = effSetParentSome s t p := by
  obtain ⟨sub, hsub, h1, h2, h3, h4, h5, h6, h7⟩ := setParentSome_exact s s' t p hw h
  apply SameG.eq
  refine ⟨h1, fun u => ⟨by rw [h2]; rfl, by rw [h5]; rfl, ?_, by rw [h3]; rfl, by rw [h4]; rfl, ?_⟩⟩
  · rw [h6]; rfl
  · rw [h7]
    show _ = match s.owner p with
      | some w => if (below s [t]).contains u then some w else s.owner u
      | none => s.owner u
    rw [below_single s t sub hsub]
    try (cases s.owner p <;> rfl)

theorem setParentNone_ok_eq (s s' : G) (t : Uid) (hw : WF s) (h : setParentNone s t = (s', none)) :
    s' = effSetParentNone s t := by
  unfold setParentNone at h
  unfold effSetParentNone
  split at h
  · rename_i w hw'
    simp only [hw']
    exact setParentSome_ok_eq s s' t w hw h
  · rename_i hw'
    simp only [hw']
    injection h with h1 _
    subst h1
    obtain ⟨d1, d2, d3, d4, d5⟩ := detachOld_fields s t
    apply SameG.eq
    refine ⟨detachOld_n' s t, fun u => ⟨by show (detachOld s t).tid u = _; rw [d4], ?_, ?_, 
      by show (detachOld s t).preds u = _; rw [d2], by show (detachOld s t).succs u = _; rw [d3],
      by show (detachOld s t).owner u = _; rw [d5]⟩⟩
    · show upd (detachOld s t).parent t none u = _
      rw [d1]; rfl
    · show (detachOld s t).children u = _
      rw [detachOld_children s t hw u]

theorem setParent_ok_eq (s s' e : G) (t : Uid) (p : Option Uid) (hw : WF s)
    (he : effOf s (.setParent t p) = some e) (h : setParent s t p = (s', none)) : s' = e := by
  cases p with
  | some p =>
    simp only [effOf, Option.some.injEq] at he
    rw [← he]; exact setParentSome_ok_eq s s' t p hw h
  | none =>
    simp only [effOf, Option.some.injEq] at he
    rw [← he]; exact setParentNone_ok_eq s s' t hw h

/-! ### reorder -/

theorem reorderLoop_closed (s : G) (l : List Uid) (hn : l.Nodup) :
    ∀ (ids : List Int) (new rest r : List Uid), reorderLoop s l ids new rest = .ok r →
      rest = l.filter (fun t => !new.contains t) → (∀ x ∈ new, x ∈ l) →
      r = (new ++ ids.filterMap (fun i => l.find? (fun t => s.tid t == i))) ++
          l.filter (fun t => !(new ++ ids.filterMap (fun i => l.find? (fun t => s.tid t == i))).contains t) := by
  intro ids
  induction ids with
  | nil =>
    intro new rest r h hrest _
    simp only [reorderLoop, pure, Except.pure, Except.ok.injEq] at h
    simp [← h, hrest]
  | cons i ids ih =>
    intro new rest r h hrest hnew
    rw [reorderLoop] at h
    split at h
    · cases h
    · rename_i ch hch
      split at h
      · rename_i hc
        have hcl : ch ∈ l := List.mem_of_find?_eq_some hch
        have := ih (new ++ [ch]) (rest.erase ch) r h ?_ ?_
        · rw [this]
          simp [hch]
        · rw [hrest, List.Nodup.erase_eq_filter (hn.filter _), List.filter_filter]
          apply List.filter_congr
          intro x _
          by_cases hx : x = ch <;> simp [hx]
        · intro x hx
          rcases List.mem_append.mp hx with hx | hx
          · exact hnew x hx
          · rw [List.mem_singleton.mp hx]; exact hcl
      · cases h

theorem chReorder_ok_eq (s s' : G) (h : Uid) (ids : List Int) (hw : WF s)
    (hs : chReorder s h ids = (s', none)) : s' = effReorder s h ids := by
  unfold chReorder at hs
  split at hs
  · cases hs
  · rename_i r hr
    injection hs with h1 _
    have := reorderLoop_closed s (s.children h) (hw.once h) ids [] (s.children h) r hr (List.filter_eq_self.mpr (by simp)).symm (by simp)
    subst h1
    apply SameG.eq
    refine ⟨rfl, fun u => ⟨rfl, rfl, ?_, rfl, rfl, rfl⟩⟩
    show upd s.children h r u = if u = h then _ else s.children u
    rw [this]
    simp [upd]

/-- copy of `Op.viaChildrenSetter` of Props/C16.lean -/
def viaCS : Op → Bool
  | .setChildren _ _ => true
  | .floordiv _ _ => true
  | .chInsert _ _ _ => true
  | .chRemove _ _ => true
  | .chRemoveAll _ _ => true
  | .wbsRemove _ _ => true
  | _ => false

theorem effect_direct (s s' e : G) (op : Op) (hw : WF s)
    (hv : viaCS op = false) (he : effOf s op = some e) (h : step s op = (s', none)) : s' = e := by
  cases op with
  | setParent t p => exact setParent_ok_eq s s' e t p hw he h
  | chAppend h' t =>
    simp only [effOf, Option.some.injEq] at he
    rw [← he]; exact setParentSome_ok_eq s s' t h' hw h
  | chReorder h' ids =>
    simp only [effOf, Option.some.injEq] at he
    rw [← he]; exact chReorder_ok_eq s s' h' ids hw h
  | setPreds t l =>
    simp only [effOf, Option.some.injEq] at he
    rw [← he]; exact setPreds_ok_eq s s' t l h
  | setSuccs t l =>
    simp only [effOf, Option.some.injEq] at he
    rw [← he]; exact setSuccs_ok_eq s s' t l h
  | prAppend t x =>
    simp only [effOf, Option.some.injEq] at he
    rw [← he]; exact setPreds_ok_eq s s' t _ h
  | suAppend t x =>
    simp only [effOf, Option.some.injEq] at he
    rw [← he]; exact setSuccs_ok_eq s s' t _ h
  | lshift t l =>
    simp only [effOf, Option.some.injEq] at he
    rw [← he]; exact setPreds_ok_eq s s' t _ h
  | rshift t l =>
    simp only [effOf, Option.some.injEq] at he
    rw [← he]; exact setSuccs_ok_eq s s' t _ h
  | prRemove t x =>
    simp only [effOf, Option.some.injEq] at he
    simp only [step, prRemove] at h
    rw [← he]
    split at h
    · rename_i hc; rw [if_pos hc]; exact setPreds_ok_eq s s' t _ h
    · rename_i hc; rw [if_neg hc]; injection h with h1 _; exact h1.symm
  | suRemove t x =>
    simp only [effOf, Option.some.injEq] at he
    simp only [step, suRemove] at h
    rw [← he]
    split at h
    · rename_i hc; rw [if_pos hc]; exact setSuccs_ok_eq s s' t _ h
    · rename_i hc; rw [if_neg hc]; injection h with h1 _; exact h1.symm
  | setChildren _ _ => simp [viaCS] at hv
  | floordiv _ _ => simp [viaCS] at hv
  | chInsert _ _ _ => simp [viaCS] at hv
  | chRemove _ _ => simp [viaCS] at hv
  | chRemoveAll _ _ => simp [viaCS] at hv
  | wbsRemove _ _ => simp [viaCS] at hv
  | chMove _ _ _ _ => simp [effOf] at he
  | chSort _ _ _ => simp [effOf] at he
  | listLshift _ _ => simp [effOf] at he
  | listRshift _ _ => simp [effOf] at he
  | listSetParent _ _ => simp [effOf] at he
  | wbsRemoveAll _ _ => simp [effOf] at he

/-! ### `dedupLast` -/

theorem eraseDups_filter (p : Uid → Bool) (n : Nat) : ∀ l : List Uid, l.length ≤ n →
    (l.filter p).eraseDups = (l.eraseDups).filter p := by
  induction n with
  | zero =>
    intro l hl
    have : l = [] := List.eq_nil_of_length_eq_zero (Nat.le_zero.mp hl)
    subst this; simp
  | succ n ih =>
    intro l hl
    cases l with
    | nil => simp
    | cons a as =>
      have hfl : (as.filter fun b => !b == a).length ≤ n :=
        Nat.le_trans (List.length_filter_le _ _) (Nat.le_of_succ_le_succ hl)
      rw [List.eraseDups_cons]
      by_cases hpa : p a = true
      · rw [List.filter_cons_of_pos hpa, List.filter_cons_of_pos hpa, List.eraseDups_cons, ← ih _ hfl,
          List.filter_filter, List.filter_filter]
        congr 2
        apply List.filter_congr
        intro x _
        exact Bool.and_comm _ _
      · rw [List.filter_cons_of_neg hpa, List.filter_cons_of_neg hpa, ← ih _ hfl, List.filter_filter]
        congr 1
        apply List.filter_congr
        intro x _
        by_cases hx : x = a
        · subst hx; simp [hpa]
        · simp [hx]

theorem dedupLast_snoc (p : List Uid) (v : Uid) :
    dedupLast (p ++ [v]) = (dedupLast p).filter (fun c => c != v) ++ [v] := by
  unfold dedupLast
  rw [List.reverse_append, List.reverse_singleton, List.singleton_append, List.eraseDups_cons,
    List.reverse_cons, eraseDups_filter _ _ _ (Nat.le_refl _), List.filter_reverse]
  rfl

theorem nodup_reverse' {l : List Uid} (h : l.Nodup) : l.reverse.Nodup :=
  List.pairwise_reverse.mpr (List.Pairwise.imp (fun hab => Ne.symm hab) h)

theorem mem_dedupLast (l : List Uid) (x : Uid) : x ∈ dedupLast l ↔ x ∈ l := by
  unfold dedupLast
  rw [List.mem_reverse, List.mem_eraseDups, List.mem_reverse]

theorem contains_dedupLast (l : List Uid) (x : Uid) : (dedupLast l).contains x = l.contains x := by
  rw [Bool.eq_iff_iff, List.contains_iff_mem, List.contains_iff_mem]
  exact mem_dedupLast l x

theorem dedupLast_of_nodup (l : List Uid) (h : l.Nodup) : dedupLast l = l := by
  unfold dedupLast
  rw [eraseDups_of_nodup _ (nodup_reverse' h), List.reverse_reverse]

theorem nodup_dedupLast (l : List Uid) : (dedupLast l).Nodup := by
  unfold dedupLast
  exact nodup_reverse' (nodup_eraseDups _)

theorem foldl_dedupLast (rest : List Uid) : ∀ p : List Uid,
    rest.foldl (fun acc v => acc.filter (fun c => c != v) ++ [v]) (dedupLast p) = dedupLast (p ++ rest) := by
  induction rest with
  | nil => intro p; simp
  | cons v vs ih =>
    intro p
    rw [List.foldl_cons, ← dedupLast_snoc, ih]
    simp

/-! ### the children setter: hierarchy fields in closed form -/

theorem fold_exact {s0 : G} {h : Uid} {l : List Uid} (pre : Pre s0 h l) :
    ∀ (rest : List Uid) (D : Uid → Prop) (cur : G), (∀ v ∈ rest, v ∈ l) → Loop s0 h l D cur →
      (∀ x, (foldSetParent cur rest h).1.parent x = if x ∈ rest then some h else cur.parent x) ∧
      (∀ q, (foldSetParent cur rest h).1.children q =
        if q = h then rest.foldl (fun acc v => acc.filter (fun c => c != v) ++ [v]) (cur.children h)
        else (cur.children q).filter (fun c => !rest.contains c)) := by
  intro rest
  induction rest with
  | nil =>
    intro D cur _ _
    refine ⟨fun x => by simp [foldSetParent], fun q => ?_⟩
    by_cases hq : q = h
    · subst hq; simp [foldSetParent]
    · simp only [foldSetParent, if_neg hq]
      exact (List.filter_eq_self.mpr (by simp)).symm
  | cons v vs ih =>
    intro D cur hsub L
    have hv : v ∈ l := hsub v List.mem_cons_self
    obtain ⟨hok, L'⟩ := L.step pre hv
    have he : setParentSome cur v h = ((setParentSome cur v h).1, none) := by
      rw [← hok]
    obtain ⟨sub, _, _, _, _, _, e5, e6, _⟩ := setParentSome_exact cur _ v h L.wf he
    have hf : foldSetParent cur (v :: vs) h = foldSetParent (setParentSome cur v h).1 vs h := by
      rw [foldSetParent]
      show (match setParentSome cur v h with
        | (s', some e) => (s', some e)
        | (s', none) => foldSetParent s' vs h) = _
      rw [he]
    obtain ⟨i1, i2⟩ := ih _ _ (fun x hx => hsub x (List.mem_cons_of_mem _ hx)) L'
    rw [hf]
    refine ⟨fun x => ?_, fun q => ?_⟩
    · rw [i1, e5]
      by_cases hxv : x = v
      · subst hxv; simp
      · simp [hxv, upd]
    · rw [i2]
      by_cases hq : q = h
      · subst hq
        simp only [if_true, List.foldl_cons]
        rw [e6, if_pos rfl]
      · simp only [if_neg hq]
        rw [e6, if_neg hq, List.filter_filter]
        apply List.filter_congr
        intro x _
        by_cases hxv : x = v <;> simp [hxv]

theorem setChildren_exact (s : G) (h : Uid) (l : List Uid) (pre : Pre s h l) (hc : chkChildren s h l = none) :
    ∃ s', setChildren s h l = (s', none) ∧ Inv s' ∧ s'.n = s.n ∧ s'.tid = s.tid ∧ s'.preds = s.preds ∧
      s'.succs = s.succs ∧ s'.owner h = s.owner h ∧
      (∀ x, s'.parent x = if x ∈ l then some h else if x ∈ s.children h then none else s.parent x) ∧
      (∀ q, s'.children q = if q = h then dedupLast l else (s.children q).filter (fun c => !l.contains c)) := by
  obtain ⟨s1, he, L⟩ := Loop.init pre
  obtain ⟨s1', he', hpar, hch, _, _, _, _, _, _⟩ := releaseChildren_spec s h l pre.inv.wf pre.inv.bnd
  have e1 : s1' = s1 := by
    have := he'.symm.trans he
    injection this
  subst e1
  obtain ⟨f1, f2⟩ := Loop.fold pre l _ s1' (fun v hv => hv) L
  obtain ⟨g1, g2⟩ := fold_exact pre l _ s1' (fun v hv => hv) L
  have e : setChildren s h l = foldSetParent s1' l h := by
    unfold setChildren
    rw [hc]
    simp only [he]
  have L' : Loop s h l (fun x => x ∈ l) (foldSetParent s1' l h).1 := f2.mono (fun v hv => Or.inr hv)
  refine ⟨(foldSetParent s1' l h).1, ?_, L'.inv pre, L'.n, L'.tid, L'.preds, L'.succs, L'.ownh, ?_, ?_⟩
  · rw [e, ← f1]
  · intro x
    rw [g1, hpar]
  · intro q
    rw [g2, hch]
    by_cases hq : q = h
    · subst hq
      rw [if_pos rfl, if_pos rfl, upd_same]
      have := foldl_dedupLast l []
      simpa [dedupLast] using this
    · rw [if_neg hq, if_neg hq, upd_other _ _ _ _ hq]

/-! ### owners are determined by the hierarchy on an `Inv` state -/

theorem mem_below (s : G) (hw : WF s) (hb : Bounded s) (ts : List Uid) (x : Uid) :
    x ∈ below s ts ↔ ∃ t ∈ ts, RTC (par s) x t := by
  unfold below
  rw [List.mem_flatMap]
  constructor
  · rintro ⟨t, ht, hx⟩
    obtain ⟨sub, hsub⟩ := subtreeF_children_total s hw hb t
    rw [hsub] at hx
    exact ⟨t, ht, (subtreeF_mem s hw.listed _ t sub hsub x).mp hx⟩
  · rintro ⟨t, ht, hx⟩
    obtain ⟨sub, hsub⟩ := subtreeF_children_total s hw hb t
    refine ⟨t, ht, ?_⟩
    rw [hsub]
    exact (subtreeF_mem s hw.listed _ t sub hsub x).mpr hx

theorem contains_below (s : G) (hw : WF s) (hb : Bounded s) (ts : List Uid) (x : Uid) :
    (below s ts).contains x = true ↔ ∃ t ∈ ts, RTC (par s) x t := by
  rw [List.contains_iff_mem]; exact mem_below s hw hb ts x

/-- same top of the parent chain, same hidden flags ⇒ same owner -/
theorem owner_eq_of_top (s s' : G) (hi : Inv s) (hi' : Inv s') (htid : s'.tid = s.tid) (x r : Uid)
    (h1 : RTC (par s) x r) (h2 : s.parent r = none) (h1' : RTC (par s') x r) (h2' : s'.parent r = none) :
    s'.owner x = s.owner x := by
  have hh : s'.hidden r = s.hidden r := hidden_of_tid s s' htid r
  cases hr : s.hidden r with
  | true =>
    rw [(owner_iff_root s hi x r).mpr ⟨h1, hr⟩, (owner_iff_root s' hi' x r).mpr ⟨h1', hh.trans hr⟩]
  | false =>
    rw [(owner_none_iff s hi x).mpr ⟨r, h1, h2, hr⟩, (owner_none_iff s' hi' x).mpr ⟨r, h1', h2', hh.trans hr⟩]

/-- a chain of `s` survives in `s'` when none of its inner nodes has been re-parented -/
theorem chain_kept (s s' : G) (keep : Uid → Prop) (hk : ∀ z, keep z → s'.parent z = s.parent z) (x : Uid) :
    ∀ y, RTC (par s) x y → (∀ z, RTC (par s) x z → TC (par s) z y → keep z) → RTC (par s') x y := by
  intro y hxy
  induction hxy with
  | refl => intro _; exact RTC.refl
  | tail hxb hbc ih =>
    intro hz
    refine RTC.tail (ih (fun z h1 h2 => hz z h1 (TC.tail h2 hbc))) ?_
    unfold par at hbc ⊢
    rw [hk _ (hz _ hxb (TC.single hbc))]; exact hbc

theorem owner_after_setChildren (s s' : G) (h : Uid) (l : List Uid) (hi : Inv s) (hi' : Inv s') (htid : s'.tid = s.tid)
    (hne : ∀ v ∈ l, ¬ RTC (par s) h v) (hoh : s'.owner h = s.owner h)
    (hpar : ∀ x, s'.parent x = if x ∈ l then some h else if x ∈ s.children h then none else s.parent x) (x : Uid) :
    ((∃ v ∈ l, RTC (par s) x v) → s'.owner x = s.owner h) ∧
    (¬ (∃ v ∈ l, RTC (par s) x v) → (∃ c ∈ s.children h, c ∉ l ∧ RTC (par s) x c) → s'.owner x = none) ∧
    (¬ (∃ v ∈ l, RTC (par s) x v) → ¬ (∃ c ∈ s.children h, c ∉ l ∧ RTC (par s) x c) → s'.owner x = s.owner x) := by
  have hw := hi.wf
  have hkeep : ∀ z, (z ∉ l ∧ z ∉ s.children h) → s'.parent z = s.parent z := by
    intro z hz; rw [hpar, if_neg hz.1, if_neg hz.2]
  have hchild : ∀ z c, z ∈ s.children h → c ∈ s.children h → ¬ TC (par s) z c := by
    intro z c hz hc hzc
    have hpz := (hw.listed z h).mpr hz
    have hpc : par s c h := (hw.listed c h).mpr hc
    rcases par_TC_cases s hpz hzc with e | e
    · subst e; exact hw.forest c (TC.single hpc)
    · exact hw.forest h (TC.tail e hpc)
  refine ⟨?_, ?_, ?_⟩
  · rintro ⟨v, hv, hxv⟩
    rw [← hoh]
    refine owner_of_RTC s' hi'.own.inherit ?_
    have : ∀ y, RTC (fun a b => par s b a) v y → RTC (par s') y h := by
      intro y hy
      induction hy with
      | refl => exact RTC.head (r := par s') (show s'.parent v = some h by rw [hpar, if_pos hv]) RTC.refl
      | tail hvb hbc ih =>
        rename_i b c
        -- `par s c b`, `b` below `v`
        by_cases hcl : c ∈ l
        · exact RTC.head (r := par s') (show s'.parent c = some h by rw [hpar, if_pos hcl]) RTC.refl
        · by_cases hch : c ∈ s.children h
          · have hpc := (hw.listed c h).mpr hch
            have : b = h := by
              have h1 : s.parent c = some b := hbc
              rw [hpc] at h1; exact (Option.some.inj h1).symm
            subst this
            exact absurd (RTC.flip hvb) (hne v hv)
          · refine RTC.head (r := par s') (show s'.parent c = some b from ?_) ih
            rw [hkeep c ⟨hcl, hch⟩]; exact hbc
    exact this x (RTC.unflip hxv)
  · rintro hna ⟨c, hc, hcl, hxc⟩
    have hch : s.hidden c = false := child_not_hidden s hw h c hc
    have hx' : RTC (par s') x c := by
      refine chain_kept s s' _ hkeep x c hxc ?_
      intro z hxz hzc
      exact ⟨fun hzl => hna ⟨z, hzl, hxz⟩, fun hzh => hchild z c hzh hc hzc⟩
    have hp' : s'.parent c = none := by rw [hpar, if_neg hcl, if_pos hc]
    exact (owner_none_iff s' hi' x).mpr ⟨c, hx', hp', (hidden_of_tid s s' htid c).trans hch⟩
  · intro hna hnr
    obtain ⟨r, hxr, hr⟩ := top_exists s hw hi.bnd x
    have hrl : r ∉ l := fun hrl => hna ⟨r, hrl, hxr⟩
    have hrc : r ∉ s.children h := by
      intro hrc
      rw [(hw.listed r h).mpr hrc] at hr; cases hr
    have hx' : RTC (par s') x r := by
      refine chain_kept s s' _ hkeep x r hxr ?_
      intro z hxz _
      refine ⟨fun hzl => hna ⟨z, hzl, hxz⟩, fun hzh => ?_⟩
      exact hnr ⟨z, hzh, fun hzl => hna ⟨z, hzl, hxz⟩, hxz⟩
    exact owner_eq_of_top s s' hi hi' htid x r hxr hr hx' (by rw [hkeep r ⟨hrl, hrc⟩]; exact hr)

theorem setChildren_ok_eq (s s' : G) (h : Uid) (l : List Uid) (hi : Inv s)
    (hv : ∀ v ∈ l, s.hidden v = false) (hh : h < s.n) (hl : ∀ v ∈ l, v < s.n)
    (hs : setChildren s h l = (s', none)) : s' = effSetChildren s h l := by
  have hc : chkChildren s h l = none := by
    cases hc : chkChildren s h l with
    | none => rfl
    | some e =>
      unfold setChildren at hs
      rw [hc] at hs
      cases hs
  have pre := Pre.of_chk s h l hi hv hh hl hc
  obtain ⟨s'', e0, hi', e1, e2, e3, e4, e5, e6, e7⟩ := setChildren_exact s h l pre hc
  have : s'' = s' := by
    have := e0.symm.trans hs
    injection this
  subst this
  have hw := hi.wf
  have hb := hi.bnd
  apply SameG.eq
  refine ⟨e1, fun u => ⟨by rw [e2]; rfl, ?_, ?_, by rw [e3]; rfl, by rw [e4]; rfl, ?_⟩⟩
  · rw [e6]
    show _ = if (dedupLast l).contains u then some h else if (s.children h).contains u then none else s.parent u
    simp only [contains_dedupLast, List.contains_iff_mem]
  · rw [e7]
    show _ = if u = h then dedupLast l else (s.children u).filter (fun c => !(dedupLast l).contains c)
    simp only [contains_dedupLast]
  · obtain ⟨o1, o2, o3⟩ := owner_after_setChildren s s'' h l hi hi' e2 (fun v hv => pre.not_RTC hv) e5 e6 u
    show _ = if (below s (dedupLast l)).contains u then s.owner h
      else if (below s ((s.children h).filter (fun c => !(dedupLast l).contains c))).contains u then none else s.owner u
    have ha : (below s (dedupLast l)).contains u = true ↔ ∃ v ∈ l, RTC (par s) u v := by
      rw [contains_below s hw hb]
      constructor
      · rintro ⟨t, ht, hx⟩; exact ⟨t, (mem_dedupLast l t).mp ht, hx⟩
      · rintro ⟨t, ht, hx⟩; exact ⟨t, (mem_dedupLast l t).mpr ht, hx⟩
    have hr : (below s ((s.children h).filter (fun c => !(dedupLast l).contains c))).contains u = true ↔
        ∃ c ∈ s.children h, c ∉ l ∧ RTC (par s) u c := by
      rw [contains_below s hw hb]
      constructor
      · rintro ⟨t, ht, hx⟩
        obtain ⟨h1, h2⟩ := List.mem_filter.mp ht
        rw [contains_dedupLast] at h2
        exact ⟨t, h1, by simpa using h2, hx⟩
      · rintro ⟨t, h1, h2, hx⟩
        refine ⟨t, List.mem_filter.mpr ⟨h1, ?_⟩, hx⟩
        rw [contains_dedupLast]; simpa using h2
    by_cases c1 : ∃ v ∈ l, RTC (par s) u v
    · rw [if_pos (ha.mpr c1)]; exact o1 c1
    · rw [if_neg (fun e => c1 (ha.mp e))]
      by_cases c2 : ∃ c ∈ s.children h, c ∉ l ∧ RTC (par s) u c
      · rw [if_pos (hr.mpr c2)]; exact o2 c1 c2
      · rw [if_neg (fun e => c2 (hr.mp e))]; exact o3 c1 c2

/-! ### `remove` / `remove_all` / `WBS.remove` -/

theorem sibling_not_TC (s : G) (hw : WF s) (h z c : Uid) (hz : z ∈ s.children h) (hc : c ∈ s.children h) :
    ¬ TC (par s) z c := by
  intro hzc
  have hpz := (hw.listed z h).mpr hz
  have hpc : par s c h := (hw.listed c h).mpr hc
  rcases par_TC_cases s hpz hzc with e | e
  · subst e; exact hw.forest c (TC.single hpc)
  · exact hw.forest h (TC.tail e hpc)

theorem sibling_disjoint' (s : G) (hw : WF s) (h c c' x : Uid) (hc : c ∈ s.children h) (hc' : c' ∈ s.children h)
    (hx : RTC (par s) x c) (hx' : RTC (par s) x c') : c = c' := by
  apply Classical.byContradiction
  intro hne
  exact siblings_disjoint s hw h c c' x ((hw.listed c h).mpr hc) ((hw.listed c' h).mpr hc') hne hx hx'

/-- the two closed forms agree: assigning the list without the named tasks = removing them -/
theorem effSetChildren_filter_eq_effRemove (s : G) (h : Uid) (ts : List Uid) (hi : Inv s) :
    effSetChildren s h ((s.children h).filter (fun c => !ts.contains c)) = effRemove s h ts := by
  have hw := hi.wf
  have hb := hi.bnd
  have hL : dedupLast ((s.children h).filter (fun c => !ts.contains c)) = (s.children h).filter (fun c => !ts.contains c) :=
    dedupLast_of_nodup _ ((hw.once h).filter _)
  have hmemL : ∀ u, u ∈ (s.children h).filter (fun c => !ts.contains c) ↔ u ∈ s.children h ∧ u ∉ ts := by
    intro u; rw [List.mem_filter]; simp
  have hmemG : ∀ u, u ∈ (s.children h).filter (fun c => ts.contains c) ↔ u ∈ s.children h ∧ u ∈ ts := by
    intro u; rw [List.mem_filter]; simp
  apply SameG.eq
  refine ⟨rfl, fun u => ⟨rfl, ?_, ?_, rfl, rfl, ?_⟩⟩
  · show (if (dedupLast _).contains u then some h else if (s.children h).contains u then none else s.parent u) =
      if ((s.children h).filter (fun c => ts.contains c)).contains u then none else s.parent u
    rw [hL]
    simp only [List.contains_iff_mem, hmemL, hmemG]
    by_cases h1 : u ∈ s.children h
    · by_cases h2 : u ∈ ts
      · simp [h1, h2]
      · simp [h1, h2, (hw.listed u h).mpr h1]
    · simp [h1]
  · show (if u = h then dedupLast _ else (s.children u).filter (fun c => !(dedupLast _).contains c)) =
      if u = h then (s.children h).filter (fun c => !ts.contains c) else s.children u
    rw [hL]
    by_cases huh : u = h
    · rw [if_pos huh, if_pos huh]
    · rw [if_neg huh, if_neg huh]
      apply List.filter_eq_self.mpr
      intro c hc
      have : c ∉ (s.children h).filter (fun c => !ts.contains c) := by
        intro hcl
        have h1 := (hw.listed c h).mpr ((hmemL c).mp hcl).1
        have h2 := (hw.listed c u).mpr hc
        rw [h1] at h2; exact huh (Option.some.inj h2).symm
      cases hcc : ((s.children h).filter (fun c => !ts.contains c)).contains c with
      | false => rfl
      | true => exact absurd (List.contains_iff_mem.mp hcc) this
  · show (if (below s (dedupLast _)).contains u then s.owner h
        else if (below s ((s.children h).filter (fun c => !(dedupLast _).contains c))).contains u then none else s.owner u) =
      if (below s ((s.children h).filter (fun c => ts.contains c))).contains u then none else s.owner u
    rw [hL]
    have hrel : (below s ((s.children h).filter (fun c => !((s.children h).filter (fun c => !ts.contains c)).contains c))).contains u
        = (below s ((s.children h).filter (fun c => ts.contains c))).contains u := by
      congr 2
      apply List.filter_congr
      intro c hc
      rw [Bool.eq_iff_iff]
      simp only [Bool.not_eq_true', ← Bool.not_eq_true, List.contains_iff_mem, hmemL]
      simp [hc]
    rw [hrel]
    by_cases c1 : (below s ((s.children h).filter (fun c => !ts.contains c))).contains u = true
    · rw [if_pos c1]
      obtain ⟨v, hv, huv⟩ := (contains_below s hw hb _ u).mp c1
      obtain ⟨hv1, hv2⟩ := (hmemL v).mp hv
      have c2 : ¬ (below s ((s.children h).filter (fun c => ts.contains c))).contains u = true := by
        intro c2
        obtain ⟨c, hc, huc⟩ := (contains_below s hw hb _ u).mp c2
        obtain ⟨hc1, hc2⟩ := (hmemG c).mp hc
        have := sibling_disjoint' s hw h v c u hv1 hc1 huv huc
        subst this; exact hv2 hc2
      rw [if_neg c2, owner_of_RTC s hi.own.inherit huv]
      exact (hi.own.inherit v h ((hw.listed v h).mpr hv1)).symm
    · rw [if_neg c1]

theorem effRemove_nil_of_not_mem (s : G) (h : Uid) (ts : List Uid) (hn : ∀ c ∈ s.children h, c ∉ ts) :
    effRemove s h ts = s := by
  have hg : (s.children h).filter (fun c => ts.contains c) = [] := by
    apply List.filter_eq_nil_iff.mpr
    intro c hc; simpa using hn c hc
  apply SameG.eq
  refine ⟨rfl, fun u => ⟨rfl, ?_, ?_, rfl, rfl, ?_⟩⟩
  · show (if ((s.children h).filter (fun c => ts.contains c)).contains u then none else s.parent u) = _
    rw [hg]; simp
  · show (if u = h then (s.children h).filter (fun c => !ts.contains c) else s.children u) = _
    by_cases huh : u = h
    · subst huh
      rw [if_pos rfl]
      apply List.filter_eq_self.mpr
      intro c hc; simpa using hn c hc
    · rw [if_neg huh]
  · show (if (below s ((s.children h).filter (fun c => ts.contains c))).contains u then none else s.owner u) = _
    rw [hg]; simp [below]

theorem chRemove_ok_eq (s s' : G) (h t : Uid) (hi : Inv s) (hs : chRemove s h t = (s', none)) :
    s' = effRemove s h [t] := by
  unfold chRemove at hs
  split at hs
  · rename_i hc
    have htc : t ∈ s.children h := by simpa using hc
    have hfe : (s.children h).filter (fun x => x != t) = (s.children h).filter (fun c => ![t].contains c) := by
      apply List.filter_congr
      intro x _
      by_cases hx : x = t <;> simp [hx]
    rw [hfe] at hs
    rw [← effSetChildren_filter_eq_effRemove s h [t] hi]
    refine setChildren_ok_eq s s' h _ hi ?_ (hi.bnd.children h t htc).1 ?_ hs
    · intro v hv; exact (filter_children_ok s hi h _ v hv).1
    · intro v hv; exact (filter_children_ok s hi h _ v hv).2
  · rename_i hc
    have htc : t ∉ s.children h := by simpa using hc
    injection hs with h1 _
    rw [← h1, effRemove_nil_of_not_mem]
    intro c hc' hct
    rw [List.mem_singleton] at hct
    subst hct; exact htc hc'

theorem effRemove_comp (s : G) (h t : Uid) (ts : List Uid) (hi : Inv s) (hi1 : Inv (effRemove s h [t])) :
    effRemove (effRemove s h [t]) h ts = effRemove s h (t :: ts) := by
  have hw := hi.wf
  have hb := hi.bnd
  have hc1 : (effRemove s h [t]).children h = (s.children h).filter (fun c => ![t].contains c) := by
    simp [effRemove]
  have hp1 : ∀ u, (effRemove s h [t]).parent u =
      if ((s.children h).filter (fun c => [t].contains c)).contains u then none else s.parent u := fun _ => rfl
  have hmG1 : ∀ u, u ∈ ((effRemove s h [t]).children h).filter (fun c => ts.contains c) ↔
      u ∈ s.children h ∧ u ≠ t ∧ u ∈ ts := by
    intro u; rw [hc1, List.mem_filter, List.mem_filter]; simp [and_assoc]
  have hmGt : ∀ u, u ∈ (s.children h).filter (fun c => [t].contains c) ↔ u ∈ s.children h ∧ u = t := by
    intro u; rw [List.mem_filter]; simp
  have hmG : ∀ u, u ∈ (s.children h).filter (fun c => (t :: ts).contains c) ↔ u ∈ s.children h ∧ (u = t ∨ u ∈ ts) := by
    intro u; rw [List.mem_filter]; simp
  -- chains towards a kept sibling are the same in both states
  have hrtc : ∀ x c, c ∈ s.children h → (RTC (par (effRemove s h [t])) x c ↔ RTC (par s) x c) := by
    intro x c hc
    constructor
    · refine RTC.mono ?_
      intro a b hab
      unfold par at hab ⊢
      rw [hp1] at hab
      split at hab
      · cases hab
      · exact hab
    · intro hxc
      refine chain_kept s (effRemove s h [t]) (fun z => z ∉ (s.children h).filter (fun c => [t].contains c)) ?_ x c hxc ?_
      · intro z hz
        rw [hp1, if_neg (fun e => hz (List.contains_iff_mem.mp e))]
      · intro z _ hzc hz
        exact sibling_not_TC s hw h z c ((hmGt z).mp hz).1 hc hzc
  apply SameG.eq
  refine ⟨rfl, fun u => ⟨rfl, ?_, ?_, rfl, rfl, ?_⟩⟩
  · show (if (((effRemove s h [t]).children h).filter (fun c => ts.contains c)).contains u then none
        else (effRemove s h [t]).parent u) =
      if ((s.children h).filter (fun c => (t :: ts).contains c)).contains u then none else s.parent u
    rw [hp1]
    simp only [List.contains_iff_mem, hmG1, hmGt, hmG]
    by_cases h1 : u ∈ s.children h <;> by_cases h2 : u = t <;> by_cases h3 : u ∈ ts <;> simp [h1, h2, h3]
  · show (if u = h then ((effRemove s h [t]).children h).filter (fun c => !ts.contains c)
        else (effRemove s h [t]).children u) =
      if u = h then (s.children h).filter (fun c => !(t :: ts).contains c) else s.children u
    by_cases huh : u = h
    · rw [if_pos huh, if_pos huh, hc1, List.filter_filter]
      apply List.filter_congr
      intro c _
      by_cases h2 : c = t <;> simp [h2]
    · rw [if_neg huh, if_neg huh]
      show (if u = h then _ else s.children u) = _
      rw [if_neg huh]
  · show (if (below (effRemove s h [t]) (((effRemove s h [t]).children h).filter (fun c => ts.contains c))).contains u
        then none else (effRemove s h [t]).owner u) =
      if (below s ((s.children h).filter (fun c => (t :: ts).contains c))).contains u then none else s.owner u
    have ho1 : (effRemove s h [t]).owner u =
      if (below s ((s.children h).filter (fun c => [t].contains c))).contains u then none else s.owner u := rfl
    rw [ho1]
    have e1 := contains_below (effRemove s h [t]) hi1.wf hi1.bnd
      (((effRemove s h [t]).children h).filter (fun c => ts.contains c)) u
    have e2 := contains_below s hw hb ((s.children h).filter (fun c => [t].contains c)) u
    have e3 := contains_below s hw hb ((s.children h).filter (fun c => (t :: ts).contains c)) u
    have key : ((∃ c ∈ ((effRemove s h [t]).children h).filter (fun c => ts.contains c), RTC (par (effRemove s h [t])) u c) ∨
        (∃ c ∈ (s.children h).filter (fun c => [t].contains c), RTC (par s) u c)) ↔
        ∃ c ∈ (s.children h).filter (fun c => (t :: ts).contains c), RTC (par s) u c := by
      constructor
      · rintro (⟨c, hc, hx⟩ | ⟨c, hc, hx⟩)
        · obtain ⟨a1, a2, a3⟩ := (hmG1 c).mp hc
          exact ⟨c, (hmG c).mpr ⟨a1, Or.inr a3⟩, (hrtc u c a1).mp hx⟩
        · obtain ⟨a1, a2⟩ := (hmGt c).mp hc
          exact ⟨c, (hmG c).mpr ⟨a1, Or.inl a2⟩, hx⟩
      · rintro ⟨c, hc, hx⟩
        obtain ⟨a1, a2⟩ := (hmG c).mp hc
        by_cases hct : c = t
        · exact Or.inr ⟨c, (hmGt c).mpr ⟨a1, hct⟩, hx⟩
        · rcases a2 with a2 | a2
          · exact absurd a2 hct
          · exact Or.inl ⟨c, (hmG1 c).mpr ⟨a1, hct, a2⟩, (hrtc u c a1).mpr hx⟩
    rw [← e1, ← e2, ← e3] at key
    by_cases c1 : (below (effRemove s h [t]) (((effRemove s h [t]).children h).filter (fun c => ts.contains c))).contains u = true
    · rw [if_pos c1, if_pos (key.mp (Or.inl c1))]
    · rw [if_neg c1]
      by_cases c2 : (below s ((s.children h).filter (fun c => [t].contains c))).contains u = true
      · rw [if_pos c2, if_pos (key.mp (Or.inr c2))]
      · rw [if_neg c2, if_neg]
        intro c3
        rcases key.mpr c3 with e | e
        · exact c1 e
        · exact c2 e

theorem chRemoveAll_ok_eq (h : Uid) : ∀ (ts : List Uid) (s s' : G), Inv s →
    forEach (fun s t => chRemove s h t) s ts = (s', none) → s' = effRemove s h ts := by
  intro ts
  induction ts with
  | nil =>
    intro s s' _ hs
    simp only [forEach] at hs
    injection hs with h1 _
    rw [← h1, effRemove_nil_of_not_mem]
    intro c _ hc; cases hc
  | cons t ts ih =>
    intro s s' hi hs
    rw [forEach] at hs
    have hok := chRemove_ok' s h t hi
    have he : chRemove s h t = ((chRemove s h t).1, none) := by rw [← hok]
    have h1 := chRemove_ok_eq s _ h t hi he
    have hi1 : Inv (chRemove s h t).1 := chRemove_Inv s h t hi
    rw [he] at hs
    have := ih _ s' hi1 hs
    rw [this, h1]
    rw [h1] at hi1
    exact effRemove_comp s h t ts hi hi1

/-- what the depth-first search of `WBS.remove` returns -/
theorem removeRec_spec (t : Uid) (s : G) (hi : Inv s) :
    ∀ (f : Nat) (cur : Uid) (r : G × Option Err × Bool), removeRec t f s cur = some r →
      (r.2.2 = true → ∃ p, t ∈ s.children p ∧ RTC (par s) p cur ∧ r.1 = (chRemove s p t).1) ∧
      (r.2.2 = false → r.1 = s ∧ ¬ TC (par s) t cur) := by
  intro f
  induction f with
  | zero => intro cur r h; rw [removeRec.eq_1] at h; cases h
  | succ f ih =>
    intro cur r h
    rw [removeRec.eq_2] at h
    split at h
    · rename_i hc
      cases h
      refine ⟨fun _ => ⟨cur, by simpa using hc, RTC.refl, rfl⟩, fun hb => by cases hb⟩
    · rename_i hc
      have hgo : ∀ (cs : List Uid) (r : G × Option Err × Bool), removeRec.go t f s cs = some r →
          (r.2.2 = true → ∃ p, t ∈ s.children p ∧ (∃ c ∈ cs, RTC (par s) p c) ∧ r.1 = (chRemove s p t).1) ∧
          (r.2.2 = false → r.1 = s ∧ ∀ c ∈ cs, ¬ TC (par s) t c) := by
        intro cs
        induction cs with
        | nil =>
          intro r h
          rw [removeRec.go.eq_1] at h
          cases h
          exact ⟨fun hb => (by cases hb), fun _ => ⟨rfl, fun c hc => (by cases hc)⟩⟩
        | cons c cs ihc =>
          intro r h
          rw [removeRec.go.eq_2] at h
          split at h
          · cases h
          · rename_i heq
            have := removeRec_ok t s hi f c _ heq
            cases this
          · rename_i heq
            cases h
            obtain ⟨i1, _⟩ := ih c _ heq
            obtain ⟨p, hp, hpc, hr⟩ := i1 rfl
            exact ⟨fun _ => ⟨p, hp, ⟨c, List.mem_cons_self, hpc⟩, hr⟩, fun hb => by cases hb⟩
          · rename_i heq
            obtain ⟨_, i2⟩ := ih c _ heq
            obtain ⟨j1, j2⟩ := ihc r h
            refine ⟨fun hb => ?_, fun hb => ?_⟩
            · obtain ⟨p, hp, ⟨c', hc', hpc⟩, hr⟩ := j1 hb
              exact ⟨p, hp, ⟨c', List.mem_cons_of_mem _ hc', hpc⟩, hr⟩
            · obtain ⟨k1, k2⟩ := j2 hb
              refine ⟨k1, fun c' hc' => ?_⟩
              rcases List.mem_cons.mp hc' with e | e
              · rw [e]; exact (i2 rfl).2
              · exact k2 c' e
      obtain ⟨g1, g2⟩ := hgo _ r h
      refine ⟨fun hb => ?_, fun hb => ?_⟩
      · obtain ⟨p, hp, ⟨c, hcc, hpc⟩, hr⟩ := g1 hb
        exact ⟨p, hp, RTC.tail hpc ((hi.wf.listed c cur).mpr hcc), hr⟩
      · obtain ⟨k1, k2⟩ := g2 hb
        refine ⟨k1, fun htc => ?_⟩
        rcases htc.tail_cases with e | ⟨b, e1, e2⟩
        · exact hc (List.contains_iff_mem.mpr ((hi.wf.listed t cur).mp e))
        · exact k2 b ((hi.wf.listed b cur).mp e2) e1

theorem wbsRemove_ok_eq (s s' e : G) (w t : Uid) (hi : Inv s) (hw : s.hidden w = true)
    (he : effOf s (.wbsRemove w t) = some e) (hs : wbsRemove s w t = (s', none)) : s' = e := by
  simp only [effOf, Option.some.injEq] at he
  unfold wbsRemove at hs
  split at hs
  · cases hs
  · rename_i s'' e' b heq
    injection hs with h1 h2
    subst h1
    obtain ⟨r1, r2⟩ := removeRec_spec t s hi _ w _ heq
    cases b with
    | true =>
      obtain ⟨p, hp, hpw, hr⟩ := r1 rfl
      simp only at hr
      have hpar : s.parent t = some p := (hi.wf.listed t p).mpr hp
      have htw : TC (par s) t w := TC.of_step_RTC (r := par s) hpar hpw
      have hown : s.owner t = some w := (owner_iff_root s hi t w).mpr ⟨htw.toRTC, hw⟩
      have hne : t ≠ w := by
        intro e; subst e; exact hi.wf.forest t htw
      have hcond : (s.owner t == some w && t != w) = true := by simp [hown, hne]
      rw [if_pos hcond, hpar] at he
      simp only at he
      rw [← he, hr]
      have hok := chRemove_ok' s p t hi
      exact chRemove_ok_eq s _ p t hi (by rw [← hok])
    | false =>
      obtain ⟨k1, k2⟩ := r2 rfl
      simp only at k1
      have hcond : ¬ (s.owner t == some w && t != w) = true := by
        intro hc
        simp only [Bool.and_eq_true, beq_iff_eq, bne_iff_ne, ne_eq] at hc
        obtain ⟨c1, c2⟩ := hc
        have := ((owner_iff_root s hi t w).mp c1).1
        rcases this.cases_eq_or_TC with e | e
        · exact c2 e
        · exact k2 e
      rw [if_neg hcond] at he
      rw [← he, k1]

theorem effect_children (s s' e : G) (op : Op) (hi : Inv s) (hl : op.legal s)
    (hv : viaCS op = true) (he : effOf s op = some e) (h : step s op = (s', none)) : s' = e := by
  cases op with
  | setChildren h' l =>
    simp only [effOf, Option.some.injEq] at he
    rw [← he]
    refine setChildren_ok_eq s s' h' l hi ?_ (hl.inRange h' List.mem_cons_self) ?_ h
    · intro v hv'; exact hl.visible v hv'
    · intro v hv'; exact hl.inRange v (List.mem_cons_of_mem _ hv')
  | floordiv h' l =>
    simp only [effOf, Option.some.injEq] at he
    rw [← he]
    have hok := append_children_ok s hi h' l (fun v hv' => hl.visible v hv')
      (fun v hv' => hl.inRange v (List.mem_cons_of_mem _ hv'))
    exact setChildren_ok_eq s s' h' _ hi (fun v hv' => (hok v hv').1) (hl.inRange h' List.mem_cons_self)
      (fun v hv' => (hok v hv').2) h
  | chInsert h' i t =>
    simp only [effOf, Option.some.injEq] at he
    rw [← he]
    have hok := insert_children_ok s hi h' i t (hl.visible t List.mem_cons_self)
      (hl.inRange t (List.mem_cons_of_mem _ List.mem_cons_self))
    exact setChildren_ok_eq s s' h' _ hi (fun v hv' => (hok v hv').1) (hl.inRange h' List.mem_cons_self)
      (fun v hv' => (hok v hv').2) h
  | chRemove h' t =>
    simp only [effOf, Option.some.injEq] at he
    rw [← he]
    exact chRemove_ok_eq s s' h' t hi h
  | chRemoveAll h' ts =>
    simp only [effOf, Option.some.injEq] at he
    rw [← he]
    exact chRemoveAll_ok_eq h' ts s s' hi h
  | wbsRemove w t => exact wbsRemove_ok_eq s s' e w t hi (hl.wbs w t (Or.inl rfl)) he h
  | setParent _ _ => simp [viaCS] at hv
  | chAppend _ _ => simp [viaCS] at hv
  | chReorder _ _ => simp [viaCS] at hv
  | setPreds _ _ => simp [viaCS] at hv
  | setSuccs _ _ => simp [viaCS] at hv
  | prAppend _ _ => simp [viaCS] at hv
  | suAppend _ _ => simp [viaCS] at hv
  | lshift _ _ => simp [viaCS] at hv
  | rshift _ _ => simp [viaCS] at hv
  | prRemove _ _ => simp [viaCS] at hv
  | suRemove _ _ => simp [viaCS] at hv
  | chMove _ _ _ _ => simp [viaCS] at hv
  | chSort _ _ _ => simp [viaCS] at hv
  | listLshift _ _ => simp [viaCS] at hv
  | listRshift _ _ => simp [viaCS] at hv
  | listSetParent _ _ => simp [viaCS] at hv
  | wbsRemoveAll _ _ => simp [viaCS] at hv

end Pj
