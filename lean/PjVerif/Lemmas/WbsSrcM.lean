/-
  Lemmas/WbsSrcM.lean — model-level lemmas for stage 3 of the translated tie for wbs.py (`WBS.clone` / `subtree`).

  The model (`cloneSel`, Model/Clone.lean) allocates ALL new objects first (`extend`: the clones and the hidden root
  `X = s.n + sel.length` of the new WBS) and then replays the setters; the source allocates the clones, replays the
  per-task setters and only then constructs the new WBS object (`WBS()`), i.e. the object `X` is still an unallocated
  blank while the setters run.  `unroot X v g` is the model state `g` with the object `X` "not yet constructed" (its
  id is `v`, it has no owner).  As long as `X` is isolated (`Isolated`: no relation of any object mentions it) and is
  not an argument, the four relation setters do not look at the id / owner of `X`: they commute with `unroot`.
-/
import PjVerif.Lemmas.CloneLemmas
namespace Pj.WbsSrc
open Pj

/-- the state `g` before the object `X` is constructed as a hidden root: its id is `v`, it is not attached -/
def unroot (X : Uid) (v : Int) (g : G) : G :=
  { g with tid := upd g.tid X v, owner := upd g.owner X none }

/-- no relation of any object mentions `X` -/
structure Isolated (X : Uid) (g : G) : Prop where
  parent : g.parent X = none
  children : g.children X = []
  preds : g.preds X = []
  succs : g.succs X = []
  noParent : ∀ u, g.parent u ≠ some X
  noChild : ∀ u, X ∉ g.children u
  noPred : ∀ u, X ∉ g.preds u
  noSucc : ∀ u, X ∉ g.succs u
  noOwner : ∀ u, u ≠ X → g.owner u ≠ some X

/-! ### basic facts about `unroot` -/

@[simp] theorem unroot_n (X : Uid) (v : Int) (g : G) : (unroot X v g).n = g.n := rfl
@[simp] theorem unroot_fuel (X : Uid) (v : Int) (g : G) : (unroot X v g).fuel = g.fuel := rfl
@[simp] theorem unroot_parent (X : Uid) (v : Int) (g : G) : (unroot X v g).parent = g.parent := rfl
@[simp] theorem unroot_children (X : Uid) (v : Int) (g : G) : (unroot X v g).children = g.children := rfl
@[simp] theorem unroot_preds (X : Uid) (v : Int) (g : G) : (unroot X v g).preds = g.preds := rfl
@[simp] theorem unroot_succs (X : Uid) (v : Int) (g : G) : (unroot X v g).succs = g.succs := rfl

theorem unroot_tid_ne (X : Uid) (v : Int) (g : G) (u : Uid) (h : u ≠ X) : (unroot X v g).tid u = g.tid u := by
  simp [unroot, h]

theorem unroot_owner_ne (X : Uid) (v : Int) (g : G) (u : Uid) (h : u ≠ X) : (unroot X v g).owner u = g.owner u := by
  simp [unroot, h]

theorem unroot_hidden_ne (X : Uid) (v : Int) (g : G) (u : Uid) (h : u ≠ X) :
    (unroot X v g).hidden u = g.hidden u := by
  unfold G.hidden; rw [unroot_tid_ne X v g u h]

theorem unroot_linkedWithAny (X : Uid) (v : Int) (g : G) (a b : List Uid) :
    linkedWithAny (unroot X v g) a b = linkedWithAny g a b := rfl

theorem G_ext (a b : G) (h1 : a.n = b.n) (h2 : a.tid = b.tid) (h3 : a.parent = b.parent)
    (h4 : a.children = b.children) (h5 : a.preds = b.preds) (h6 : a.succs = b.succs) (h7 : a.owner = b.owner) :
    a = b := by
  cases a; cases b; simp_all

theorem unroot_pubParent (X : Uid) (v : Int) (g : G) (hI : Isolated X g) (t : Uid) :
    (unroot X v g).pubParent t = g.pubParent t := by
  unfold G.pubParent
  simp only [unroot_parent]
  cases hp : g.parent t with
  | none => rfl
  | some q =>
    have hq : q ≠ X := fun e => hI.noParent t (e ▸ hp)
    simp only [unroot_hidden_ne X v g q hq]

theorem pubParent_ne (X : Uid) (g : G) (hI : Isolated X g) (t : Uid) : g.pubParent t ≠ some X := by
  unfold G.pubParent
  cases hp : g.parent t with
  | none => simp
  | some q =>
    have hq : q ≠ X := fun e => hI.noParent t (e ▸ hp)
    simp only
    split
    · simp
    · intro e; exact hq (Option.some.inj e)

theorem unroot_ancF (X : Uid) (v : Int) (g : G) (hI : Isolated X g) (f : Nat) (o : Option Uid) (ho : o ≠ some X) :
    ancF (unroot X v g) f o = ancF g f o := by
  induction f generalizing o with
  | zero => rfl
  | succ f ih =>
    cases o with
    | none => rfl
    | some p =>
      have hp : p ≠ X := fun e => ho (e ▸ rfl)
      simp only [ancF, unroot_hidden_ne X v g p hp, unroot_pubParent X v g hI p, ih _ (pubParent_ne X g hI p)]

theorem unroot_rootF (X : Uid) (v : Int) (g : G) (f : Nat) (t : Uid) :
    rootF (unroot X v g) f t = rootF g f t := by
  induction f generalizing t with
  | zero => rfl
  | succ f ih =>
    simp only [rootF, unroot_parent]
    cases g.parent t with
    | none => rfl
    | some p => exact ih p

theorem rootF_ne (X : Uid) (g : G) (hI : Isolated X g) (f : Nat) (t r : Uid) (h : rootF g f t = some r) (ht : t ≠ X) :
    r ≠ X := by
  induction f generalizing t with
  | zero => simp [rootF] at h
  | succ f ih =>
    rw [rootF] at h
    cases hp : g.parent t with
    | none => rw [hp] at h; cases Option.some.inj h; exact ht
    | some p =>
      rw [hp] at h
      exact ih p h (fun e => hI.noParent t (e ▸ hp))

theorem subtree_ne (X : Uid) (next : Uid → List Uid) (hn : ∀ u, X ∉ next u) (f : Nat) (c : Uid) (sub : List Uid)
    (h : subtreeF next f c = some sub) (hc : c ≠ X) : ∀ x ∈ sub, x ≠ X :=
  subtreeF_closed next (fun x => x ≠ X) (fun a _ _ hb e => hn a (e ▸ hb)) f c sub h hc

theorem desc_ne (X : Uid) (next : Uid → List Uid) (hn : ∀ u, X ∉ next u) (f : Nat) (c : Uid) (d : List Uid)
    (h : descF next f c = some d) : ∀ x ∈ d, x ≠ X := by
  intro x hx
  have := descF_sound next f c d h x hx
  rcases TC.tail_cases this with h1 | ⟨_, _, h1⟩ <;> exact fun e => hn _ (e ▸ h1)

theorem mapM_subtree_ne (X : Uid) (next : Uid → List Uid) (hn : ∀ u, X ∉ next u) (f : Nat) (l : List Uid)
    (subs : List (List Uid)) (h : l.mapM (subtreeF next f) = some subs) (hl : ∀ x ∈ l, x ≠ X) :
    ∀ x ∈ subs.flatten, x ≠ X := by
  intro x hx
  obtain ⟨b, hb, hxb⟩ := List.mem_flatten.mp hx
  obtain ⟨c, hc, hg⟩ := mapM_some_mem_inv _ _ _ h b hb
  exact subtree_ne X next hn f c b hg (hl c hc) x hxb

theorem unroot_hasId (X : Uid) (v : Int) (g : G) (hI : Isolated X g) (p : Uid) (chs : List Uid) (hp : p ≠ X)
    (hchs : ∀ x ∈ chs, x ≠ X) : hasIdIntersection (unroot X v g) p chs = hasIdIntersection g p chs := by
  unfold hasIdIntersection
  simp only [unroot_fuel, unroot_children, unroot_rootF]
  cases hr : rootF g g.fuel p with
  | none => rfl
  | some root =>
    have hroot := rootF_ne X g hI _ _ _ hr hp
    cases ht : subtreeF g.children g.fuel root with
    | none => simp only [Option.bind_eq_bind, Option.bind_some, ht, Option.bind_none]
    | some tree =>
      have htree := subtree_ne X g.children hI.noChild _ _ _ ht hroot
      cases hs : chs.mapM (subtreeF g.children g.fuel) with
      | none => simp only [Option.bind_eq_bind, Option.bind_some, ht, Option.bind_none]
      | some subs =>
        have hsubs := mapM_subtree_ne X g.children hI.noChild _ _ _ hs hchs
        have e1 : List.map (unroot X v g).tid tree = List.map g.tid tree :=
          List.map_congr_left (fun a ha => unroot_tid_ne X v g a (htree a ha))
        have e2 : ∀ l : List Uid, (∀ x ∈ l, x ∈ subs.flatten) → List.map (unroot X v g).tid l = List.map g.tid l :=
          fun l hl => List.map_congr_left (fun a ha => unroot_tid_ne X v g a (hsubs a (hl a ha)))
        simp only [Option.bind_eq_bind, Option.bind_some, ht, e1]
        rw [e2 _ (fun x hx => (List.mem_filter.mp (List.mem_eraseDups.mp hx)).1)]

theorem unroot_setOwners (X : Uid) (v : Int) (g : G) (l : List Uid) (o : Option Uid) (hl : ∀ x ∈ l, x ≠ X) :
    setOwners (unroot X v g) l o = unroot X v (setOwners g l o) := by
  apply G_ext <;> try rfl
  funext x
  show (if l.contains x then o else upd g.owner X none x) = upd (fun x => if l.contains x then o else g.owner x) X none x
  by_cases hx : x = X
  · subst hx
    have : l.contains x = false := by
      cases h : l.contains x with
      | false => rfl
      | true => exact absurd rfl (hl x (by simpa using h))
    simp only [this, upd_same]; rfl
  · simp [upd, hx]

theorem unroot_detachOld (X : Uid) (v : Int) (g : G) (t : Uid) :
    detachOld (unroot X v g) t = unroot X v (detachOld g t) := by
  unfold detachOld
  rw [show (unroot X v g).parent t = g.parent t from rfl]
  cases g.parent t with
  | none => rfl
  | some q =>
    dsimp only
    by_cases hc : (g.children q).contains t = true
    · have hc' : ((unroot X v g).children q).contains t = true := hc
      rw [if_pos hc, if_pos hc']; rfl
    · have hc' : ¬ ((unroot X v g).children q).contains t = true := hc
      rw [if_neg hc, if_neg hc']

theorem unroot_parStep (X : Uid) (v : Int) (g : G) (t p : Uid) :
    parStep (unroot X v g) t p = unroot X v (parStep g t p) := rfl

theorem unroot_ownStep (X : Uid) (v : Int) (g : G) (sub : List Uid) (p : Uid) (hp : p ≠ X) (hs : ∀ x ∈ sub, x ≠ X) :
    ownStep (unroot X v g) sub p = unroot X v (ownStep g sub p) := by
  unfold ownStep
  rw [unroot_owner_ne X v g p hp]
  split
  · rfl
  · exact unroot_setOwners X v g sub _ hs

theorem unroot_appStep (X : Uid) (v : Int) (g : G) (t p : Uid) :
    appStep (unroot X v g) t p = unroot X v (appStep g t p) := by
  unfold appStep
  by_cases hc : (g.children p).contains t = true
  · have hc' : ((unroot X v g).children p).contains t = true := hc
    rw [if_pos hc, if_pos hc']
  · have hc' : ¬ ((unroot X v g).children p).contains t = true := hc
    rw [if_neg hc, if_neg hc']; rfl

theorem unroot_chkParentSome (X : Uid) (v : Int) (g : G) (hI : Isolated X g) (t p : Uid) (ht : t ≠ X) (hp : p ≠ X) :
    chkParentSome (unroot X v g) t p = chkParentSome g t p := by
  unfold chkParentSome
  simp only [unroot_owner_ne X v g t ht, unroot_owner_ne X v g p hp, unroot_pubParent X v g hI,
    unroot_hasId X v g hI p [t] hp (by simpa using ht), unroot_children, unroot_fuel, unroot_parent,
    unroot_ancF X v g hI _ _ (hI.noParent p), unroot_linkedWithAny]
  rfl

/-! ### `Isolated` is preserved by the mutation steps -/

theorem Isolated.detachOld {X : Uid} {g : G} (hI : Isolated X g) (t : Uid) : Isolated X (detachOld g t) := by
  obtain ⟨e1, e2, e3, _, e5⟩ := detachOld_fields g t
  refine ⟨?_, ?_, ?_, ?_, ?_, ?_, ?_, ?_, ?_⟩
  · rw [e1]; exact hI.parent
  · rw [detachOld_children_other g t X (hI.noParent t)]; exact hI.children
  · rw [e2]; exact hI.preds
  · rw [e3]; exact hI.succs
  · rw [e1]; exact hI.noParent
  · intro u h; exact hI.noChild u (detachOld_children_sub g t u X h)
  · rw [e2]; exact hI.noPred
  · rw [e3]; exact hI.noSucc
  · rw [e5]; exact hI.noOwner

theorem Isolated.parStep {X : Uid} {g : G} (hI : Isolated X g) (t p : Uid) (ht : t ≠ X) (hp : p ≠ X) :
    Isolated X (parStep g t p) := by
  refine ⟨?_, hI.children, hI.preds, hI.succs, ?_, hI.noChild, hI.noPred, hI.noSucc, hI.noOwner⟩
  · show upd g.parent t (some p) X = none
    rw [upd_other _ _ _ _ (Ne.symm ht)]; exact hI.parent
  · intro u
    show upd g.parent t (some p) u ≠ some X
    by_cases hu : u = t
    · subst hu; rw [upd_same]; exact fun e => hp (Option.some.inj e)
    · rw [upd_other _ _ _ _ hu]; exact hI.noParent u

theorem Isolated.ownStep {X : Uid} {g : G} (hI : Isolated X g) (sub : List Uid) (p : Uid) (hp : p ≠ X) :
    Isolated X (ownStep g sub p) := by
  obtain ⟨e1, e2, e3, e4, _⟩ := ownStep_fields g sub p
  refine ⟨?_, ?_, ?_, ?_, ?_, ?_, ?_, ?_, ?_⟩
  · rw [e1]; exact hI.parent
  · rw [e2]; exact hI.children
  · rw [e3]; exact hI.preds
  · rw [e4]; exact hI.succs
  · rw [e1]; exact hI.noParent
  · rw [e2]; exact hI.noChild
  · rw [e3]; exact hI.noPred
  · rw [e4]; exact hI.noSucc
  · intro u hu
    rw [ownStep_owner]
    cases hw : g.owner p with
    | none => exact hI.noOwner u hu
    | some w =>
      dsimp only
      split
      · rw [← hw]; exact hI.noOwner p hp
      · exact hI.noOwner u hu

theorem Isolated.appStep {X : Uid} {g : G} (hI : Isolated X g) (t p : Uid) (ht : t ≠ X) (hp : p ≠ X) :
    Isolated X (appStep g t p) := by
  obtain ⟨e1, e3, e4, _⟩ := appStep_fields g t p
  refine ⟨?_, ?_, ?_, ?_, ?_, ?_, ?_, ?_, ?_⟩
  · rw [e1]; exact hI.parent
  · rw [appStep_children_other g t p X (Ne.symm hp)]; exact hI.children
  · rw [e3]; exact hI.preds
  · rw [e4]; exact hI.succs
  · rw [e1]; exact hI.noParent
  · intro u h
    rcases (mem_appStep g t p X u).mp h with h | ⟨h, _⟩
    · exact hI.noChild u h
    · exact ht h.symm
  · rw [e3]; exact hI.noPred
  · rw [e4]; exact hI.noSucc
  · rw [appStep_owner]; exact hI.noOwner

theorem setParentSome_unroot (X : Uid) (v : Int) (g : G) (hI : Isolated X g) (t p : Uid) (ht : t ≠ X) (hp : p ≠ X) :
    setParentSome (unroot X v g) t p = (unroot X v (setParentSome g t p).1, (setParentSome g t p).2) ∧
    Isolated X (setParentSome g t p).1 := by
  unfold setParentSome
  rw [unroot_chkParentSome X v g hI t p ht hp]
  cases chkParentSome g t p with
  | some e => exact ⟨rfl, hI⟩
  | none =>
    dsimp only
    rw [mutParentSome_eq, mutParentSome_eq]
    rw [show subtreeF (unroot X v g).children (unroot X v g).fuel t = subtreeF g.children g.fuel t from rfl]
    cases hs : subtreeF g.children g.fuel t with
    | none => exact ⟨rfl, hI⟩
    | some sub =>
      have hsub := subtree_ne X g.children hI.noChild _ _ _ hs ht
      dsimp only
      rw [unroot_detachOld, unroot_parStep, unroot_ownStep X v _ sub p hp hsub, unroot_appStep]
      exact ⟨rfl, (((hI.detachOld t).parStep t p ht hp).ownStep sub p hp).appStep t p ht hp⟩

theorem setParentNone_unroot (X : Uid) (v : Int) (g : G) (hI : Isolated X g) (t : Uid) (ht : t ≠ X) :
    setParentNone (unroot X v g) t = (unroot X v (setParentNone g t).1, (setParentNone g t).2) ∧
    Isolated X (setParentNone g t).1 := by
  unfold setParentNone
  rw [unroot_owner_ne X v g t ht]
  cases hw : g.owner t with
  | some w =>
    have hwX : w ≠ X := fun e => hI.noOwner t ht (e ▸ hw)
    exact setParentSome_unroot X v g hI t w ht hwX
  | none =>
    dsimp only
    rw [unroot_detachOld]
    refine ⟨rfl, ?_⟩
    have h1 := hI.detachOld t
    refine ⟨?_, h1.children, h1.preds, h1.succs, ?_, h1.noChild, h1.noPred, h1.noSucc, h1.noOwner⟩
    · show upd (detachOld g t).parent t none X = none
      rw [upd_other _ _ _ _ (Ne.symm ht)]; exact h1.parent
    · intro u
      show upd (detachOld g t).parent t none u ≠ some X
      by_cases hu : u = t
      · subst hu; rw [upd_same]; simp
      · rw [upd_other _ _ _ _ hu]; exact h1.noParent u

theorem setParent_unroot (X : Uid) (v : Int) (g : G) (hI : Isolated X g) (c : Uid) (p : Option Uid) (hc : c ≠ X)
    (hp : p ≠ some X) :
    setParent (unroot X v g) c p = (unroot X v (setParent g c p).1, (setParent g c p).2) ∧
    Isolated X (setParent g c p).1 := by
  cases p with
  | none => exact setParentNone_unroot X v g hI c hc
  | some p => exact setParentSome_unroot X v g hI c p hc (fun e => hp (e ▸ rfl))

theorem any_congr_mem {α : Type} (l : List α) (f f' : α → Bool) (h : ∀ x ∈ l, f x = f' x) : l.any f = l.any f' := by
  induction l with
  | nil => rfl
  | cons a l ih =>
    simp only [List.any_cons, h a List.mem_cons_self, ih (fun x hx => h x (List.mem_cons_of_mem _ hx))]

theorem unroot_chkChildren (X : Uid) (v : Int) (g : G) (hI : Isolated X g) (h : Uid) (l : List Uid) (hh : h ≠ X)
    (hl : ∀ x ∈ l, x ≠ X) : chkChildren (unroot X v g) h l = chkChildren g h l := by
  unfold chkChildren
  have ea1 : l.any (fun y => ((unroot X v g).owner y).isSome) = l.any (fun y => (g.owner y).isSome) :=
    any_congr_mem l _ _ (fun x hx => by rw [unroot_owner_ne X v g x (hl x hx)])
  have ea2 : ∀ w, l.any (fun y => ((unroot X v g).owner y).isSome && (unroot X v g).owner y != some w) =
      l.any (fun y => (g.owner y).isSome && g.owner y != some w) :=
    fun w => any_congr_mem l _ _ (fun x hx => by rw [unroot_owner_ne X v g x (hl x hx)])
  simp only [unroot_owner_ne X v g h hh, ea1, ea2, unroot_hasId X v g hI h l hh hl, unroot_children, unroot_fuel,
    unroot_parent, unroot_ancF X v g hI _ _ (hI.noParent h), unroot_linkedWithAny]
  rfl

theorem releaseChildren_unroot (X : Uid) (v : Int) (g : G) (hI : Isolated X g) (h : Uid) (l : List Uid) (hh : h ≠ X) :
    releaseChildren (unroot X v g) h l = (unroot X v (releaseChildren g h l).1, (releaseChildren g h l).2) ∧
    Isolated X (releaseChildren g h l).1 := by
  unfold releaseChildren
  dsimp only
  rw [show List.mapM (subtreeF (unroot X v g).children (unroot X v g).fuel)
      (List.filter (fun y => !l.contains y) ((unroot X v g).children h)) =
    List.mapM (subtreeF g.children g.fuel) (List.filter (fun y => !l.contains y) (g.children h)) from rfl]
  cases hs : List.mapM (subtreeF g.children g.fuel) (List.filter (fun y => !l.contains y) (g.children h)) with
  | none => exact ⟨rfl, hI⟩
  | some subs =>
    have hgone : ∀ x ∈ List.filter (fun y => !l.contains y) (g.children h), x ≠ X := by
      intro x hx e
      exact hI.noChild h (e ▸ (List.mem_filter.mp hx).1)
    have hsubs := mapM_subtree_ne X g.children hI.noChild _ _ _ hs hgone
    have hXs : subs.flatten.contains X = false := by
      cases hc : subs.flatten.contains X with
      | false => rfl
      | true => exact absurd rfl (hsubs X (by simpa using hc))
    have hXc : (g.children h).contains X = false := by
      cases hc : (g.children h).contains X with
      | false => rfl
      | true => exact absurd (by simpa using hc) (hI.noChild h)
    dsimp only
    constructor
    · have key := unroot_setOwners X v
        { g with parent := fun x => if (g.children h).contains x then none else g.parent x } subs.flatten none hsubs
      exact congrArg (fun s : G => ({ s with children := upd s.children h [] }, (none : Option Err))) key
    · refine ⟨?_, ?_, hI.preds, hI.succs, ?_, ?_, hI.noPred, hI.noSucc, ?_⟩
      · show (if (g.children h).contains X then none else g.parent X) = none
        rw [hXc]; exact hI.parent
      · show upd g.children h [] X = []
        rw [upd_other _ _ _ _ (Ne.symm hh)]; exact hI.children
      · intro u
        show (if (g.children h).contains u then none else g.parent u) ≠ some X
        split
        · simp
        · exact hI.noParent u
      · intro u
        show X ∉ upd g.children h [] u
        by_cases hu : u = h
        · subst hu; rw [upd_same]; simp
        · rw [upd_other _ _ _ _ hu]; exact hI.noChild u
      · intro u hu
        show (if subs.flatten.contains u then none else g.owner u) ≠ some X
        split
        · simp
        · exact hI.noOwner u hu

theorem foldSetParent_unroot (X : Uid) (v : Int) (g : G) (hI : Isolated X g) (l : List Uid) (h : Uid) (hh : h ≠ X)
    (hl : ∀ x ∈ l, x ≠ X) :
    foldSetParent (unroot X v g) l h = (unroot X v (foldSetParent g l h).1, (foldSetParent g l h).2) ∧
    Isolated X (foldSetParent g l h).1 := by
  induction l generalizing g with
  | nil => exact ⟨rfl, hI⟩
  | cons a l ih =>
    obtain ⟨h1, h2⟩ := setParent_unroot X v g hI a (some h) (hl a List.mem_cons_self)
      (fun e => hh (Option.some.inj e))
    simp only [foldSetParent]
    rw [h1]
    generalize setParent g a (some h) = r at h2 ⊢
    obtain ⟨g', e⟩ := r
    cases e with
    | some e => exact ⟨rfl, h2⟩
    | none => exact ih g' h2 (fun x hx => hl x (List.mem_cons_of_mem _ hx))

theorem setChildren_unroot (X : Uid) (v : Int) (g : G) (hI : Isolated X g) (h : Uid) (l : List Uid) (hh : h ≠ X)
    (hl : ∀ x ∈ l, x ≠ X) :
    setChildren (unroot X v g) h l = (unroot X v (setChildren g h l).1, (setChildren g h l).2) ∧
    Isolated X (setChildren g h l).1 := by
  unfold setChildren
  rw [unroot_chkChildren X v g hI h l hh hl]
  cases chkChildren g h l with
  | some e => exact ⟨rfl, hI⟩
  | none =>
    dsimp only
    obtain ⟨h1, h2⟩ := releaseChildren_unroot X v g hI h l hh
    rw [h1]
    generalize releaseChildren g h l = r at h2 ⊢
    obtain ⟨g', e⟩ := r
    cases e with
    | some e => exact ⟨rfl, h2⟩
    | none => exact foldSetParent_unroot X v g' h2 l h hh hl

theorem unroot_chkLinks (X : Uid) (v : Int) (g : G) (hI : Isolated X g) (next : Uid → List Uid) (t : Uid)
    (l : List Uid) : chkLinks (unroot X v g) next t l = chkLinks g next t l := by
  unfold chkLinks
  simp only [unroot_parent, unroot_fuel, unroot_children, unroot_ancF X v g hI _ _ (hI.noParent t)]

theorem not_contains_of_isolated {X : Uid} {l : List Uid} (hl : ∀ x ∈ l, x ≠ X) : l.contains X = false := by
  cases hc : l.contains X with
  | false => rfl
  | true => exact absurd rfl (hl X (by simpa using hc))

theorem Isolated.mutPreds {X : Uid} {g : G} (hI : Isolated X g) (t : Uid) (l : List Uid) (ht : t ≠ X)
    (hl : ∀ x ∈ l, x ≠ X) : Isolated X (mutPreds g t l) := by
  have hs1 : ∀ u, X ∉ (if (g.preds t).contains u then (g.succs u).filter (fun x => x != t) else g.succs u) := by
    intro u
    split
    · intro hm; exact hI.noSucc u (List.mem_filter.mp hm).1
    · exact hI.noSucc u
  refine ⟨hI.parent, hI.children, ?_, ?_, hI.noParent, hI.noChild, ?_, ?_, hI.noOwner⟩
  · show upd g.preds t l X = []
    rw [upd_other _ _ _ _ (Ne.symm ht)]; exact hI.preds
  · show (if l.contains X ∧ _ then _ else
      (if (g.preds t).contains X then (g.succs X).filter (fun x => x != t) else g.succs X)) = []
    rw [not_contains_of_isolated hl]
    simp [hI.succs]
  · intro u
    show X ∉ upd g.preds t l u
    by_cases hu : u = t
    · subst hu; rw [upd_same]; exact fun hm => hl X hm rfl
    · rw [upd_other _ _ _ _ hu]; exact hI.noPred u
  · intro u
    show X ∉ (if l.contains u ∧ _ then _ ++ [t] else _)
    split
    · intro hm
      rcases List.mem_append.mp hm with hm | hm
      · exact hs1 u hm
      · have hm' : X = t := by simpa using hm
        exact ht hm'.symm
    · exact hs1 u

theorem Isolated.mutSuccs {X : Uid} {g : G} (hI : Isolated X g) (t : Uid) (l : List Uid) (ht : t ≠ X)
    (hl : ∀ x ∈ l, x ≠ X) : Isolated X (mutSuccs g t l) := by
  have hs1 : ∀ u, X ∉ (if (g.succs t).contains u then (g.preds u).filter (fun x => x != t) else g.preds u) := by
    intro u
    split
    · intro hm; exact hI.noPred u (List.mem_filter.mp hm).1
    · exact hI.noPred u
  refine ⟨hI.parent, hI.children, ?_, ?_, hI.noParent, hI.noChild, ?_, ?_, hI.noOwner⟩
  · show (if l.contains X ∧ _ then _ else
      (if (g.succs t).contains X then (g.preds X).filter (fun x => x != t) else g.preds X)) = []
    rw [not_contains_of_isolated hl]
    simp [hI.preds]
  · show upd g.succs t l X = []
    rw [upd_other _ _ _ _ (Ne.symm ht)]; exact hI.succs
  · intro u
    show X ∉ (if l.contains u ∧ _ then _ ++ [t] else _)
    split
    · intro hm
      rcases List.mem_append.mp hm with hm | hm
      · exact hs1 u hm
      · have hm' : X = t := by simpa using hm
        exact ht hm'.symm
    · exact hs1 u
  · intro u
    show X ∉ upd g.succs t l u
    by_cases hu : u = t
    · subst hu; rw [upd_same]; exact fun hm => hl X hm rfl
    · rw [upd_other _ _ _ _ hu]; exact hI.noSucc u

theorem setPreds_unroot (X : Uid) (v : Int) (g : G) (hI : Isolated X g) (t : Uid) (l : List Uid) (ht : t ≠ X)
    (hl : ∀ x ∈ l, x ≠ X) :
    setPreds (unroot X v g) t l = (unroot X v (setPreds g t l).1, (setPreds g t l).2) ∧
    Isolated X (setPreds g t l).1 := by
  unfold setPreds
  rw [show (unroot X v g).preds = g.preds from rfl, unroot_chkLinks X v g hI]
  cases chkLinks g g.preds t l with
  | some e => exact ⟨rfl, hI⟩
  | none => exact ⟨rfl, hI.mutPreds t l ht hl⟩

theorem setSuccs_unroot (X : Uid) (v : Int) (g : G) (hI : Isolated X g) (t : Uid) (l : List Uid) (ht : t ≠ X)
    (hl : ∀ x ∈ l, x ≠ X) :
    setSuccs (unroot X v g) t l = (unroot X v (setSuccs g t l).1, (setSuccs g t l).2) ∧
    Isolated X (setSuccs g t l).1 := by
  unfold setSuccs
  rw [show (unroot X v g).succs = g.succs from rfl, unroot_chkLinks X v g hI]
  cases chkLinks g g.succs t l with
  | some e => exact ⟨rfl, hI⟩
  | none => exact ⟨rfl, hI.mutSuccs t l ht hl⟩

/-- in the extended universe nothing mentions the new hidden root yet -/
theorem isolated_extend (s : G) (hb : Bounded s) (sel : List Uid) : Isolated (s.n + sel.length) (extend s sel) := by
  have hge : ∀ u, s.n ≤ u → s.parent u = none ∧ s.children u = [] ∧ s.preds u = [] ∧ s.succs u = [] := by
    intro u hu
    refine ⟨parent_none_of_ge s hb u hu, ?_, ?_, ?_⟩
    · cases h : s.children u with
      | nil => rfl
      | cons a l => have := (hb.children u a (h ▸ List.mem_cons_self)).1; uomega
    · cases h : s.preds u with
      | nil => rfl
      | cons a l => have := (hb.preds u a (h ▸ List.mem_cons_self)).1; uomega
    · cases h : s.succs u with
      | nil => rfl
      | cons a l => have := (hb.succs u a (h ▸ List.mem_cons_self)).1; uomega
  obtain ⟨h1, h2, h3, h4⟩ := hge (s.n + sel.length) (by uomega)
  refine ⟨h1, h2, h3, h4, ?_, ?_, ?_, ?_, ?_⟩
  · intro u e
    have := (hb.parent u _ e).2; uomega
  · intro u e
    have := (hb.children u _ e).2; uomega
  · intro u e
    have := (hb.preds u _ e).2; uomega
  · intro u e
    have := (hb.succs u _ e).2; uomega
  · intro u hu e
    have e' : s.owner u = some (s.n + sel.length) := by
      have : (extend s sel).owner u = s.owner u := by simp [extend, hu]
      rw [← this]; exact e
    have := (hb.owner u _ e').2; uomega

end Pj.WbsSrc

#print axioms Pj.WbsSrc.setParent_unroot
#print axioms Pj.WbsSrc.setChildren_unroot
#print axioms Pj.WbsSrc.setPreds_unroot
#print axioms Pj.WbsSrc.setSuccs_unroot
#print axioms Pj.WbsSrc.isolated_extend
