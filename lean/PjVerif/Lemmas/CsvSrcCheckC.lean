/-
  Lemmas/CsvSrcCheckC.lean — STAGE 3, kernel-checked: `read_csv` (translated, with `raws_to_wbs`) on concrete texts builds
  the WBS the model describes (`expectRead`: the records of `readCsv`, the hierarchy of `rebuildForest`, the predecessor
  links by id, the cells parsed by the library; every task also carries `parent_id`, `predecessor_ids` and the raw
  custom cells as attributes).
-/
import PjVerif.Lemmas.CsvSrcCheck
namespace Pj.CsvSrc.Check
open Pj.PyLite Pj.Extracted.Csv Pj.Csv Pj.CsvSrc


def agree (text : List Char) : Bool :=
  decide (observeRead (interpRead sampleLib FF text) = expectRead sampleLib text) && (expectRead sampleLib text).isSome

/-- what `write_csv` wrote -/
example : agree (writeCsv (recsOf sampleLib w1)) = true := by decide +kernel
example : agree (writeCsv (recsOf sampleLib w2)) = true := by decide +kernel
example : agree (writeCsv (recsOf sampleLib w0)) = true := by decide +kernel

def std : String := "id;name;resource;start;end;estimate;spent;milestone;parent_id;predecessor_ids"

/-- an older file without the `min_start` column; a child before its parent; a parent id that names no row (a root) -/
def t1 : List Char := (std ++ "\n3;c;;;;;;False;1;\n1;a;;01.02.24;;1.5;;True;;3\n2;b;;;;;;;9;1;3\n").toList
example : agree t1 = true := by decide +kernel

/-- a byte-order mark, permuted columns, a custom column, a `min_start` column, a quoted cell -/
def t2 : List Char :=
  ("﻿name;id;resource;start;end;estimate;spent;milestone;parent_id;predecessor_ids;tag;min_start\r\n" ++
   "\"x;y\";-1;r;;;;;True;;;T1;05.06.07\r\nz;0;;;;;;;-1;-1;;\r\n").toList
example : agree t2 = true := by decide +kernel

/-- siblings keep the order of the rows -/
def t3 : List Char := (std ++ "\n1;;;;;;;;;\n4;;;;;;;;1;\n2;;;;;;;;1;\n3;;;;;;;;1;\n").toList
example : agree t3 = true := by decide +kernel
example : (observeRead (interpRead sampleLib FF t3)).map (fun l => l.map (·.childIds)) =
    some [[.num 4, .num 2, .num 3], [], [], []] := by decide +kernel

/-- errors: an empty file (StopIteration), a missing standard column (KeyError), a short row (IndexError), a bad number
    (ValueError), a predecessor id that names no task (RuntimeError); the model's reader (`readCsv`) rejects the first three -/
example : (interpRead sampleLib FF []).toOption.isNone ∧ readCsv [] = none := by decide +kernel
example : (interpRead sampleLib FF "id;name\n1;a\n".toList).map (·.1) = .error (.crash .key) := by decide +kernel
example : readCsv "id;name\n1;a\n".toList = none := by decide +kernel
example : (interpRead sampleLib FF (std ++ "\n1;a\n").toList).map (·.1) = .error (.crash .index) := by decide +kernel
example : readCsv (std ++ "\n1;a\n").toList = none := by decide +kernel
example : (interpRead sampleLib FF (std ++ "\nx;;;;;;;;;\n").toList).map (·.1) = .error (.crash .value) := by decide +kernel
example : (interpRead sampleLib FF (std ++ "\n1;;;;;;;;;7\n").toList).map (·.1) = .error .runtime := by decide +kernel

end Pj.CsvSrc.Check
