/-
  Lemmas/DhtmlxSrcCheck.lean — stage 1: kernel-checked concrete runs of the translated `DhtmlxGantt.__data`
  (Extracted/DhtmlxSrc.lean) against the DHTMLX part of Model/Render.lean, with the concrete string library `cLib` of
  Lemmas/PrintSrc.lean.  See Lemmas/DhtmlxSrc.lean.
-/
import PjVerif.Lemmas.DhtmlxSrc
namespace Pj.DhtmlxSrc
open Pj.PyLite Pj.Render Pj.Extracted.Dhtmlx
open Pj.PrintSrc (Lib cLib enc dec)

deriving instance DecidableEq for Except

namespace Check

def FC : Nat := 5
def S : Lib := cLib
def mk (l : List RTask) : Nat → RTask := fun u => l.getD u default
def s (x : String) : Atom := cLib.s x.toList
def i (n : Int) : Atom := .num (n : Rat)

/-- the clock reads 100.  Tasks 0-5 are the WBS (roots 0, 4, 5; `wbs.tasks` = 0 1 3 2 4 5); 6 and 7 are outside it.
    0 "Phase"   root, children 1 and 2, no estimate; user attributes `text` (clashes), `note` = 7 (carried as "7"),
                a private `_Task__x` (dropped)
    1 "Build"   child of 0, child 3, estimate 10 spent 4; predecessors 2 (EMITTED LATER) and 6 (OUTSIDE the WBS);
                user attributes `progress` (clashes), `gantt_open` = "false" (read by `open`, and carried too); a css class
    2 "Gate"    milestone, child of 0; user attribute `type` (clashes)
    3 "Sub"     child of 1, spent 12 ABOVE the estimate 8; predecessor 1; user attributes `open` (clashes), `color`
    4 "Past"    root, ended before now (progress 1 whatever the numbers); predecessor 3 twice
    5 "Orphan"  its `parent` (7) is NOT a task of the WBS: parent 0; estimate 5, nothing spent yet -/
def w1 : Nat → RTask := mk
  [ { id := 1, name := "Phase".toList, milestone := false, start := 110, end_ := 150, resource := none, estimate := 0,
      spent := none, parent := none, children := [1, 2], preds := [],
      dict := [("_Task__x".toList, i 1), ("text".toList, s "HACK"), ("note".toList, i 7)] },
    { id := 2, name := "Build".toList, milestone := false, start := 110, end_ := 130, resource := some "ann".toList,
      estimate := 10, spent := some 4, parent := some 0, children := [3], preds := [2, 6],
      dict := [("progress".toList, i 5), ("gantt_open".toList, s "false")] },
    { id := 3, name := "Gate".toList, milestone := true, start := 150, end_ := 150, resource := none, estimate := 0,
      spent := none, parent := some 0, children := [], preds := [], dict := [("type".toList, s "project")] },
    { id := 4, name := "Sub".toList, milestone := false, start := 110, end_ := 120, resource := none, estimate := 8,
      spent := some 12, parent := some 1, children := [], preds := [1],
      dict := [("open".toList, .bool false), ("color".toList, s "red")] },
    { id := 5, name := "Past".toList, milestone := false, start := 10, end_ := 99, resource := none, estimate := 0,
      spent := some 3, parent := none, children := [], preds := [3, 3], dict := [] },
    { id := 6, name := "Orphan".toList, milestone := false, start := 100, end_ := 100, resource := none, estimate := 5,
      spent := none, parent := some 7, children := [], preds := [], dict := [] },
    { id := 70, name := "Ext".toList, milestone := false, start := 0, end_ := 1, resource := none, estimate := 1,
      spent := none, parent := none, children := [], preds := [], dict := [] } ]

def V1 : View := { roots := [0, 4, 5], tasks := [0, 1, 3, 2, 4, 5], n := 7, now := 100, fmt := cLib.fmt, alloc := 1000 }
/-- a sub-plan: the root is task 1 only (its parent 0 is then outside: parent 0) -/
def V2 : View := { V1 with roots := [1], tasks := [1, 3] }
def V3 : View := { V1 with roots := [], tasks := [] }
/-- spent 0 -/
def w2 : Nat → RTask := fun u => if u = 5 then { w1 5 with spent := some 0 } else w1 u

def tc : PDict := [(i 2, s "dhtmlx_bar_0")]

/-! ### the program's lists = the model's entries and links, completed by `entryDict` / `linkDict` -/

example : interpOut S V1 w1 FC tc = .ok (some (expData S V1 w1 tc, expLinks S V1 w1)) := by decide +kernel
example : interpOut S V2 w1 FC tc = .ok (some (expData S V2 w1 tc, expLinks S V2 w1)) := by decide +kernel
example : interpOut S V3 w1 FC tc = .ok (some ([], [])) := by decide +kernel
example : interpOut S V1 w2 FC [] = .ok (some (expData S V1 w2 [], expLinks S V1 w2)) := by decide +kernel

/-- the model's values (= the program's, by the examples above): children before their parent, the root last -/
example : dhtmlxOrder (dAll V1 w1) V1.n V1.roots = [1, 3, 2, 0, 4, 5] := by decide +kernel
example : (dhtmlxData (dAll V1 w1) V1.n V1.roots).map (fun e => (e.id, e.milestone, e.parent, e.progress)) =
    [(2, false, 1, 2/5), (4, false, 2, 1), (3, true, 1, 0), (1, false, 0, 0), (5, false, 0, 1), (6, false, 0, 0)] := by
  decide +kernel
example : (dhtmlxLinks (dAll V1 w1) V1.n V1.roots).map (fun l => (l.id, l.source, l.target)) =
    [(1, 3, 2), (2, 70, 2), (3, 2, 4), (4, 4, 5), (5, 4, 5)] := by decide +kernel
example : (dhtmlxData (dAll V2 w1) V2.n V2.roots).map (fun e => (e.id, e.parent)) = [(4, 2), (2, 0)] := by decide +kernel

/-! ### the user attributes: computed keys win, other names are carried as text -/

def outData (V : View) (w : Nat → RTask) : List PDict :=
  match interpOut S V w FC tc with
  | .ok (some x) => x.1
  | _ => []

def field (d : PDict) (x : String) : Option Atom := Dict.get? d (s x)

/-- entry 3 is task 0: `text` is the name, not "HACK"; `note` is carried as the text "7"; `_Task__x` is dropped -/
example : ((outData V1 w1).getD 3 []).map (·.1) =
    ["id", "text", "type", "start_date", "end_date", "resource", "estimate", "spent", "open", "parent", "progress",
     "css_class", "note"].map s := by decide +kernel
example : field ((outData V1 w1).getD 3 []) "text" = some (s "Phase") := by decide +kernel
example : field ((outData V1 w1).getD 3 []) "note" = some (s "7") := by decide +kernel
/-- entry 0 is task 1: `progress` is 2/5, not 5; `open` is the value of `gantt_open`, which is carried as well -/
example : field ((outData V1 w1).getD 0 []) "progress" = some (.num (2/5)) := by decide +kernel
example : field ((outData V1 w1).getD 0 []) "open" = some (s "false") := by decide +kernel
example : field ((outData V1 w1).getD 0 []) "gantt_open" = some (s "false") := by decide +kernel
example : field ((outData V1 w1).getD 0 []) "css_class" = some (s "dhtmlx_bar_0") := by decide +kernel
/-- entry 2 is task 2: `type` is milestone, not "project" -/
example : field ((outData V1 w1).getD 2 []) "type" = some (s "milestone") := by decide +kernel
/-- entry 1 is task 3: `open` is 'true' (no `gantt_open`), not False; `color` is carried -/
example : field ((outData V1 w1).getD 1 []) "open" = some (s "true") := by decide +kernel
example : field ((outData V1 w1).getD 1 []) "color" = some (s "red") := by decide +kernel
example : field ((outData V1 w1).getD 1 []) "css_class" = some .none := by decide +kernel

/-- too little fuel (the objects holding the dicts are constructed by a call): the recursion limit -/
example : (interpData S V1 w1 1 tc).map (·.1) = .error (.crash .recursion) := by decide +kernel

end Check
end Pj.DhtmlxSrc
