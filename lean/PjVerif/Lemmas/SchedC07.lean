/-
  Lemmas/SchedC07.lean — helper lemmas for Props/C07.lean (pass-level reasoning on top of Lemmas/SchedPass.lean).
-/
import PjVerif.Lemmas.SchedPass
import PjVerif.Spec.Sched2
namespace Pj

/-! ### `minT` / `maxT` folds -/

theorem minT_le_left (a b : Time) : minT a b ≤ a := by unfold minT; split <;> grind
theorem minT_le_right (a b : Time) : minT a b ≤ b := by unfold minT; split <;> grind
theorem minT_cases (a b : Time) : minT a b = a ∨ minT a b = b := by unfold minT; split <;> simp
theorem le_maxT_left (a b : Time) : a ≤ maxT a b := by unfold maxT; split <;> grind
theorem le_maxT_right (a b : Time) : b ≤ maxT a b := by unfold maxT; split <;> grind
theorem maxT_cases (a b : Time) : maxT a b = a ∨ maxT a b = b := by unfold maxT; split <;> simp

theorem foldl_minT_le : ∀ (l : List Time) (a : Time), l.foldl minT a ≤ a ∧ ∀ x ∈ l, l.foldl minT a ≤ x
  | [], a => by simp
  | y :: l, a => by
    obtain ⟨h1, h2⟩ := foldl_minT_le l (minT a y)
    have := minT_le_left a y
    have := minT_le_right a y
    refine ⟨by simp only [List.foldl_cons]; grind, ?_⟩
    intro x hx
    simp only [List.foldl_cons]
    rcases List.mem_cons.1 hx with rfl | hx
    · grind
    · exact h2 x hx

theorem foldl_minT_mem : ∀ (l : List Time) (a : Time), l.foldl minT a = a ∨ l.foldl minT a ∈ l
  | [], a => by simp
  | y :: l, a => by
    simp only [List.foldl_cons, List.mem_cons]
    rcases foldl_minT_mem l (minT a y) with h | h
    · rcases minT_cases a y with h' | h'
      · left; rw [h, h']
      · right; left; rw [h, h']
    · right; right; exact h

theorem le_foldl_maxT : ∀ (l : List Time) (a : Time), a ≤ l.foldl maxT a ∧ ∀ x ∈ l, x ≤ l.foldl maxT a
  | [], a => by simp
  | y :: l, a => by
    obtain ⟨h1, h2⟩ := le_foldl_maxT l (maxT a y)
    have := le_maxT_left a y
    have := le_maxT_right a y
    refine ⟨by simp only [List.foldl_cons]; grind, ?_⟩
    intro x hx
    simp only [List.foldl_cons]
    rcases List.mem_cons.1 hx with rfl | hx
    · grind
    · exact h2 x hx

theorem foldl_maxT_mem : ∀ (l : List Time) (a : Time), l.foldl maxT a = a ∨ l.foldl maxT a ∈ l
  | [], a => by simp
  | y :: l, a => by
    simp only [List.foldl_cons, List.mem_cons]
    rcases foldl_maxT_mem l (maxT a y) with h | h
    · rcases maxT_cases a y with h' | h'
      · left; rw [h, h']
      · right; left; rw [h, h']
    · right; right; exact h

theorem minOpt_spec (l : List Time) (m : Time) (h : minOpt l = some m) : m ∈ l ∧ ∀ x ∈ l, m ≤ x := by
  cases l with
  | nil => cases h
  | cons a l =>
    simp only [minOpt, Option.some.injEq] at h
    subst h
    obtain ⟨h1, h2⟩ := foldl_minT_le l a
    refine ⟨?_, ?_⟩
    · rcases foldl_minT_mem l a with h | h
      · rw [h]; exact List.mem_cons_self
      · exact List.mem_cons_of_mem _ h
    · intro x hx
      rcases List.mem_cons.1 hx with rfl | hx
      · exact h1
      · exact h2 x hx

theorem maxOpt_spec (l : List Time) (m : Time) (h : maxOpt l = some m) : m ∈ l ∧ ∀ x ∈ l, x ≤ m := by
  cases l with
  | nil => cases h
  | cons a l =>
    simp only [maxOpt, Option.some.injEq] at h
    subst h
    obtain ⟨h1, h2⟩ := le_foldl_maxT l a
    refine ⟨?_, ?_⟩
    · rcases foldl_maxT_mem l a with h | h
      · rw [h]; exact List.mem_cons_self
      · exact List.mem_cons_of_mem _ h
    · intro x hx
      rcases List.mem_cons.1 hx with rfl | hx
      · exact h1
      · exact h2 x hx

theorem minOpt_isSome (l : List Time) (h : l ≠ []) : ∃ m, minOpt l = some m := by
  cases l with
  | nil => exact absurd rfl h
  | cons a l => exact ⟨_, rfl⟩

theorem maxOpt_isSome (l : List Time) (h : l ≠ []) : ∃ m, maxOpt l = some m := by
  cases l with
  | nil => exact absurd rfl h
  | cons a l => exact ⟨_, rfl⟩

/-- two lists with the same least element have the same `minOpt` -/
theorem minOpt_eq_of (l l' : List Time) (hsub : ∀ x ∈ l, x ∈ l') (hle : ∀ y ∈ l', ∃ x ∈ l, x ≤ y)
    : minOpt l = minOpt l' := by
  cases hl : l with
  | nil =>
    cases hl' : l' with
    | nil => rfl
    | cons b l'' =>
      obtain ⟨x, hx, _⟩ := hle b (by simp [hl'])
      rw [hl] at hx; cases hx
  | cons a l0 =>
    obtain ⟨m, hm⟩ := minOpt_isSome l (by simp [hl])
    have hne' : l' ≠ [] := by
      intro hc
      have := hsub a (by simp [hl])
      rw [hc] at this; cases this
    obtain ⟨m', hm'⟩ := minOpt_isSome l' hne'
    rw [← hl, hm, hm']
    obtain ⟨h1, h2⟩ := minOpt_spec l m hm
    obtain ⟨h1', h2'⟩ := minOpt_spec l' m' hm'
    have a1 : m' ≤ m := h2' m (hsub m h1)
    obtain ⟨x, hx, hxm⟩ := hle m' h1'
    have a2 : m ≤ x := h2 x hx
    congr 1
    grind

theorem maxOpt_eq_of (l l' : List Time) (hsub : ∀ x ∈ l, x ∈ l') (hle : ∀ y ∈ l', ∃ x ∈ l, y ≤ x)
    : maxOpt l = maxOpt l' := by
  cases hl : l with
  | nil =>
    cases hl' : l' with
    | nil => rfl
    | cons b l'' =>
      obtain ⟨x, hx, _⟩ := hle b (by simp [hl'])
      rw [hl] at hx; cases hx
  | cons a l0 =>
    obtain ⟨m, hm⟩ := maxOpt_isSome l (by simp [hl])
    have hne' : l' ≠ [] := by
      intro hc
      have := hsub a (by simp [hl])
      rw [hc] at this; cases this
    obtain ⟨m', hm'⟩ := maxOpt_isSome l' hne'
    rw [← hl, hm, hm']
    obtain ⟨h1, h2⟩ := maxOpt_spec l m hm
    obtain ⟨h1', h2'⟩ := maxOpt_spec l' m' hm'
    have a1 : m ≤ m' := h2' m (hsub m h1)
    obtain ⟨x, hx, hxm⟩ := hle m' h1'
    have a2 : x ≤ m := h2 x hx
    congr 1
    grind

/-! ### `sumOpt` -/

theorem sumOpt_aux : ∀ (l : List (Option Rat)) (acc e : Rat),
    l.foldlM (fun acc v => match v with | some x => (pure (acc + x) : Res Rat) | none => (throw (Err.crash .type) : Res Rat)) acc = .ok e →
    e = acc + (l.map (fun v => v.getD 0)).sum ∧ ∀ v ∈ l, v.isSome
  | [], acc, e, h => by
    simp only [List.foldlM_nil, pure, Except.pure] at h
    cases h; simp; grind
  | v :: l, acc, e, h => by
    simp only [List.foldlM_cons, bind, Except.bind] at h
    cases v with
    | none => simp [throw, throwThe, MonadExceptOf.throw] at h
    | some x =>
      simp only [pure, Except.pure] at h
      obtain ⟨h1, h2⟩ := sumOpt_aux l (acc + x) e h
      refine ⟨?_, ?_⟩
      · simp only [List.map_cons, Option.getD_some, List.sum_cons]; grind
      · intro v hv
        rcases List.mem_cons.1 hv with rfl | hv
        · rfl
        · exact h2 v hv

theorem sumOpt_spec (l : List (Option Rat)) (e : Rat) (h : sumOpt l = .ok e) :
    e = (l.map (fun v => v.getD 0)).sum := by
  have := (sumOpt_aux l 0 e h).1
  grind

end Pj
